"""E06 driver: generates programs, input files (.z80 v1/v2/v3, .szx, .sna 48K/128K, raw binary, '48' / '128' / '+2') and option
combinations, runs the REAL tool (skoolkit.trace.main, in-process, stdout captured) on the C and on the pure-Python simulators,
parses what it printed with its own parser, reads the snapshot it wrote with the independent decoder (snapfile) and projects all
of it into the case records judged by spec/trace/TraceJudge.tla.

Memory convention shared with the specification: RAM = Z80Bits!Base pattern (bank 5 Base(0x4000+x), bank 2 Base(0x8000+x), every
other bank Base(0xC000+x)) + explicit cells.  A cell is a logical address below 0xC000 (any address on 48K) or, on 128K,
65536 + bank * 16384 + offset for the RAM banks that appear at 0xC000.  Inputs that start from blank RAM (raw binary, '48', ...)
use a WINDOW of explicit cells and never touch memory outside it.

A first run of the tool (`-m PROBE`, one `{pc} {t}` line per instruction) is used only to CHOOSE interesting option values (a stop
address that is reached, limits that coincide with it or with each other); it never enters a verdict.
"""
import contextlib
import io
import os
import random
import re
import signal
import struct
import zlib

from ..lib import cbuild
from ..lib.common import MachineryError
from . import snapfile

A, F, B, C, D, E, H, L, IXh, IXl, IYh, IYl, SP, SP2, I, R = range(16)
xA, xF, xB, xC, xD, xE, xH, xL = range(16, 24)
PC, T, IFF, IM, HALT, MEMPTR = 24, 25, 26, 27, 28, 29
FRAME = (69888, 70908)
SAFE_BANKS = (0, 1, 3, 4, 6, 7)
PROBE = 260


def base(a):
    return ((a * 73) + ((a // 256) * 29) + 11) % 256


BASE = bytes(base(a) for a in range(65536))


def bank_base(b):
    o = {5: 0x4000, 2: 0x8000}.get(b, 0xC000)
    return BASE[o:o + 0x4000]


def cell_of(is128, bank, a):
    return 65536 + bank * 16384 + (a - 49152) if is128 and a >= 49152 else a


def cell_home(cl):
    """cell -> (bank, offset)"""
    if cl >= 65536:
        return (cl - 65536) // 16384, (cl - 65536) % 16384
    return {1: 5, 2: 2, 3: 0}[cl // 16384], cl % 16384


class Timeout(Exception):
    pass


@contextlib.contextmanager
def limit(seconds):
    def over(*a):
        raise Timeout()
    old = signal.signal(signal.SIGALRM, over)
    signal.alarm(seconds)
    try:
        yield
    finally:
        signal.alarm(0)
        signal.signal(signal.SIGALRM, old)


def run_tool(args, cwd, seconds=30):
    """skoolkit.trace.main(args) with stdout captured -> (text, error string)"""
    from skoolkit import trace
    out = io.StringIO()
    err = ''
    old = os.getcwd()
    os.chdir(cwd)
    try:
        with limit(seconds), contextlib.redirect_stdout(out), contextlib.redirect_stderr(io.StringIO()):
            trace.main(list(args))
    except Timeout:
        err = 'timeout'
    except SystemExit as e:
        err = 'exit-%s' % (e.code,)
    except Exception as e:   # noqa: B902 - whatever the tool raises is an observation
        err = 'exception-%s' % type(e).__name__
    finally:
        os.chdir(old)
    return out.getvalue(), err


# ================================================================================================ program generation
class Prog:
    """Code assembled at `org`; cells = data addresses the program may read and write; every address it uses is explicit."""

    def __init__(self, rnd, org, cells, is128, im2=None, opts=()):
        self.rnd = rnd
        self.org = org
        self.code = bytearray()
        self.cells = cells
        self.is128 = is128
        self.im2 = im2
        self.opts = set(opts)
        self.marks = []          # addresses of fragment boundaries
        self.subs = []           # call sites to patch: (offset, )
        self.features = set()

    def here(self):
        return (self.org + len(self.code)) % 65536

    def emit(self, *b):
        self.code += bytes(x & 255 for x in b)

    def w(self, v):
        return (v & 255, (v >> 8) & 255)

    def cell(self):
        return self.rnd.choice(self.cells)

    # ---- fragments
    def f_ld8(self):
        r = self.rnd
        self.emit(r.choice((0x3E, 0x06, 0x0E, 0x16, 0x1E, 0x26, 0x2E)), r.randrange(256))

    def f_ld16(self):
        r = self.rnd
        self.emit(r.choice((0x01, 0x11, 0x21)), r.randrange(256), r.randrange(256))

    def f_alu(self):
        r = self.rnd
        k = r.randrange(8)
        if k == 0:
            self.emit(0x80 + r.randrange(64) // 8 * 8 + r.choice((0, 1, 2, 3, 4, 5, 7)))     # ALU A,r
        elif k == 1:
            self.emit(0xC6 + 8 * r.randrange(8), r.randrange(256))                            # ALU A,n
        elif k == 2:
            self.emit(r.choice((0x3C, 0x3D, 0x04, 0x05, 0x0C, 0x0D, 0x14, 0x1C, 0x24, 0x2C, 0x03, 0x13, 0x23, 0x0B, 0x1B, 0x2B)))
        elif k == 3:
            self.emit(r.choice((0x07, 0x0F, 0x17, 0x1F, 0x27, 0x2F)))                         # RLCA RRCA RLA RRA DAA CPL
        elif k == 4:
            self.emit(0xCB, r.choice((0, 8, 16, 24, 32, 40, 48, 56)) + r.choice((0, 1, 2, 3, 4, 5, 7)))   # rotate r
        elif k == 5:
            self.emit(0xCB, 0x40 + r.randrange(192) // 8 * 8 + r.choice((0, 1, 2, 3, 4, 5, 7)))           # BIT/RES/SET n,r
        elif k == 6:
            self.emit(r.choice((0x09, 0x19, 0x29)))                                           # ADD HL,rr
        else:
            self.emit(0xED, r.choice((0x44, 0x42, 0x52, 0x4A, 0x5A, 0x62, 0x6A)))             # NEG, SBC/ADC HL,rr

    def f_mem(self):
        r = self.rnd
        a = self.cell()
        k = r.randrange(8)
        if k == 0:
            self.emit(0x3E, r.randrange(256), 0x32, *self.w(a))                               # LD A,n ; LD (a),A
        elif k == 1:
            self.emit(0x3A, *self.w(a))                                                       # LD A,(a)
        elif k == 2:
            self.emit(0x21, r.randrange(256), r.randrange(256), 0x22, *self.w(a))             # LD HL,nn ; LD (a),HL
        elif k == 3:
            self.emit(0x2A, *self.w(a))                                                       # LD HL,(a)
        elif k == 4:
            self.emit(0x21, *self.w(a), r.choice((0x34, 0x35, 0x77, 0x7E, 0x70, 0x46, 0x86, 0xBE, 0xA6)))   # LD HL,a ; op (HL)
        elif k == 5:
            self.emit(0x21, *self.w(a), 0x36, r.randrange(256))                               # LD HL,a ; LD (HL),n
        elif k == 6:
            self.emit(0xED, r.choice((0x43, 0x53, 0x73)), *self.w(a))                         # LD (a),BC/DE/SP
        else:
            self.emit(0x21, *self.w(a), 0xED, r.choice((0x67, 0x6F)))                         # LD HL,a ; RRD / RLD
        self.features.add('mem')

    def f_index(self):
        r = self.rnd
        a = self.cell()
        pfx = r.choice((0xDD, 0xFD))
        d = r.choice((0, 0, 1, 2))
        k = r.randrange(5)
        self.emit(pfx, 0x21, *self.w((a - d) % 65536))                                        # LD IX,a-d
        if k == 0:
            self.emit(pfx, 0x36, d, r.randrange(256))                                         # LD (IX+d),n
        elif k == 1:
            self.emit(pfx, 0x7E, d)                                                           # LD A,(IX+d)
        elif k == 2:
            self.emit(pfx, 0x34, d)                                                           # INC (IX+d)
        elif k == 3:
            self.emit(pfx, 0xCB, d, r.choice((0xC6, 0x86, 0x06, 0x0E, 0xC0)))                 # SET/RES/RLC/RRC (IX+d)[,B]
        else:
            self.emit(pfx, 0x24, pfx, 0x2D, pfx, 0x7C)                                        # INC IXh ; DEC IXl ; LD A,IXh
        self.features.add('index')

    def f_stack(self):
        r = self.rnd
        k = r.randrange(4)
        if k == 0:
            self.emit(0xF5, 0xC5, 0xE1, 0xD1)                                                 # PUSH AF ; PUSH BC ; POP HL ; POP DE
        elif k == 1:
            self.emit(0xE5, 0xDD, 0xE1)                                                       # PUSH HL ; POP IX
        elif k == 2:
            self.emit(0xD5, 0xE3, 0xD1)                                                       # PUSH DE ; EX (SP),HL ; POP DE
        else:
            self.emit(0xC5, 0xF1)                                                             # PUSH BC ; POP AF
        self.features.add('stack')

    def f_exch(self):
        self.emit(self.rnd.choice((0x08, 0xD9, 0xEB)))
        self.features.add('exch')

    def f_loop(self):
        r = self.rnd
        n = r.randrange(1, 5)
        if r.random() < 0.5:
            self.emit(0x06, n, 0x3C, 0x10, 0xFD)                                              # LD B,n ; INC A ; DJNZ -3
        else:
            self.emit(0x06, n, 0x10, 0xFE)                                                    # LD B,n ; DJNZ $
        self.features.add('loop')

    def f_jump(self):
        r = self.rnd
        k = r.randrange(4)
        if k == 0:
            self.emit(0x18, 0x01, 0x76 if 'nohaltbyte' not in self.opts else 0x00)            # JR +1 over a byte
        elif k == 1:
            t = (self.here() + 4) % 65536
            self.emit(0xC3, *self.w(t), 0x00)                                                 # JP over a NOP
        elif k == 2:
            self.emit(0xAF, 0x28, 0x01, 0x3C)                                                 # XOR A ; JR Z,+1 ; (INC A)
        else:
            t = (self.here() + 5) % 65536
            self.emit(0xB7, 0xC2 if r.random() < 0.5 else 0xCA, *self.w(t), 0x04)             # OR A ; JP NZ/Z,+1 ; (INC B)
        self.features.add('jump')

    def f_call(self):
        self.subs.append(len(self.code) + 1)
        self.emit(0xCD, 0, 0)                                                                 # CALL sub (patched)
        self.features.add('call')

    def f_block(self):
        r = self.rnd
        ok = [c for c in self.cells if 0x4008 <= c <= 0xFFF0]          # four bytes up or down stay inside RAM
        src, dst = r.choice(ok), r.choice(ok)
        n = r.randrange(1, 5)
        if 'block' in self.opts:
            self.emit(0x21, *self.w(src), 0x11, *self.w(dst), 0x01, n, 0, 0xED, r.choice((0xB0, 0xB0, 0xB8, 0xB1)))   # LDIR LDDR CPIR
            self.features.add('block-repeat')
        else:
            self.emit(0x21, *self.w(src), 0x11, *self.w(dst), 0x01, n, 0, 0xED, r.choice((0xA0, 0xA8, 0xA1, 0xA9)))   # LDI LDD CPI CPD
        self.features.add('block')

    def f_ula(self):
        r = self.rnd
        k = r.randrange(3)
        if k == 0:
            self.emit(0x3E, r.randrange(256), 0xD3, 0xFE)                                     # LD A,n ; OUT (254),A
            self.features.add('out-fe')
        elif k == 1:
            self.emit(0xDB, 0xFE)                                                             # IN A,(254)
            self.features.add('in')
        else:
            self.emit(0x01, 0xFE, r.randrange(256), 0xED, r.choice((0x41, 0x49, 0x51, 0x71)))  # LD BC,xxFE ; OUT (C),r / 0
            self.features.add('out-fe')

    def f_ay(self):
        r = self.rnd
        reg = r.randrange(16) if r.random() < 0.9 else r.randrange(16, 256)
        self.emit(0x01, 0xFD, 0xFF, 0x3E, reg, 0xED, 0x79)                                    # LD BC,FFFD ; LD A,reg ; OUT (C),A
        self.emit(0x06, 0xBF, 0x3E, r.randrange(256), 0xED, 0x79)                             # LD B,BF ; LD A,v ; OUT (C),A
        if self.is128 and r.random() < 0.6:
            self.emit(0x06, 0xFF, 0xED, r.choice((0x78, 0x50, 0x70)))                         # LD B,FF ; IN A,(C) / IN D,(C) / IN F,(C)
            self.features.add('in-ay')
        self.features.add('ay')

    def f_page(self):
        r = self.rnd
        v = r.choice(SAFE_BANKS) | (0x10 if r.random() < 0.5 else 0) | r.choice((0, 0, 0x40, 0x80, 0x08))
        if r.random() < 0.08:
            v |= 0x20
            self.features.add('lock')
        k = r.randrange(3)
        if k == 0:
            self.emit(0x01, 0xFD, 0x7F, 0x3E, v, 0xED, 0x79)                                  # LD BC,7FFD ; LD A,v ; OUT (C),A
        elif k == 1:
            self.emit(0x3E, v & 0x7F, 0xD3, 0xFD)                                             # LD A,v ; OUT (FD),A   (port v<<8 | FD)
        else:
            port = r.choice((0x7FFD, 0x3FFD, 0x5FFD, 0x00FD, 0x7FFC, 0xFFFD, 0x7FFF))
            self.emit(0x01, *self.w(port), 0x16, v, 0xED, 0x51)                               # LD BC,port ; LD D,v ; OUT (C),D
        hi = [c for c in self.cells if c >= 0xC000]
        if hi:
            a = r.choice(hi)
            self.emit(0x3E, r.randrange(256), 0x32, *self.w(a))                               # write into the bank now paged in
        self.features.add('page')

    def f_int(self):
        r = self.rnd
        k = r.randrange(5)
        if k == 0:
            self.emit(0xFB, 0x00, 0x00)                                                       # EI ; NOP ; NOP
        elif k == 1:
            self.emit(0xF3)
        elif k == 2 and self.im2:
            self.emit(0xED, 0x5E, 0xFB)                                                       # IM 2 ; EI
        elif k == 3:
            self.emit(0xED, r.choice((0x57, 0x5F)))                                           # LD A,I / LD A,R
        else:
            self.emit(0xDD, 0xFB, 0xFD, 0x00)                                                 # prefix ; EI ; prefix ; NOP
        self.features.add('int-instr')

    def build(self, n, weights):
        r = self.rnd
        names = [k for k, w in weights.items() for _ in range(w)]
        if 'halt-first' in self.opts:
            self.marks.append(self.here())
            self.emit(0xFB, 0x76)                                                             # EI ; HALT
            self.features.add('halt')
        if 'int-edge' in self.opts:
            self.emit(0xFB, 0x00, 0x00, 0x00)                                                 # EI ; NOP ; NOP ; NOP
            self.features.add('int-edge')
        if 'halt-stuck' in self.opts:
            self.emit(0x3C, 0xF3, 0x76)                                                       # INC A ; DI ; HALT (for ever)
            self.features.add('halt-stuck')
        while len(self.code) < n:
            self.marks.append(self.here())
            getattr(self, 'f_' + r.choice(names))()
        self.marks.append(self.here())
        self.emit(0xC3, *self.w(self.org))                                                    # JP start
        sub = self.here()
        self.emit(0x3C, 0xC9)                                                                 # sub: INC A ; RET
        for off in self.subs:
            self.code[off:off + 2] = bytes(self.w(sub))
        return self


WEIGHTS = {'ld8': 3, 'ld16': 2, 'alu': 5, 'mem': 4, 'index': 2, 'stack': 2, 'exch': 1, 'loop': 2, 'jump': 2, 'call': 2, 'block': 1,
           'ula': 2, 'ay': 1, 'int': 2}


# ================================================================================================ case planning
REG8 = {'a': A, 'f': F, 'b': B, 'c': C, 'd': D, 'e': E, 'h': H, 'l': L, '^a': xA, '^f': xF, '^b': xB, '^c': xC, '^d': xD, '^e': xE,
        '^h': xH, '^l': xL, 'i': I, 'r': R}
REG16 = {'bc': B, 'de': D, 'hl': H, '^bc': xB, '^de': xD, '^hl': xH, 'ix': IXh, 'iy': IYh}
SHOW8 = dict(REG8, ixh=IXh, ixl=IXl, iyh=IYh, iyl=IYl)
VV_NAMES = ['a', 'f', 'bc', 'de', 'hl', 'ix', 'iy', '^a', '^f', '^bc', '^de', '^hl', 'sp', 'i', 'r']


def num(rnd, v):
    return '0x%X' % v if rnd.random() < 0.3 else str(v)


def plan_case(rnd, idx, tier):
    """-> plan dict: the program, the memory layout and the state the run is meant to start from."""
    p = {'idx': idx, 'tier': tier}
    kind = rnd.choice(('z80', 'z80', 'szx', 'szx', 'sna', 'bin', 'bin', 'blank'))
    is128 = 0 if kind == 'bin' else rnd.randrange(2)
    p['kind'], p['is128'] = kind, is128
    p['plus2'] = 1 if is128 and kind in ('z80', 'szx', 'blank') and rnd.random() < 0.3 else 0
    p['z80v'] = rnd.choice((1, 2, 3, 3)) if not is128 else rnd.choice((2, 3, 3))
    frame = FRAME[is128]
    window = kind == 'blank' or (kind == 'bin' and rnd.random() < 0.5)
    p['window'] = window
    # raw memory on the simulator's default registers / hardware state (not documented for trace.py: soft)
    defaults = kind == 'bin' and not window and rnd.random() < 0.3
    p['defaults'] = defaults
    cmio = rnd.random() < 0.14
    ints = (not cmio) and rnd.random() < 0.6
    # ROM: a 48K run may patch in a ROM file (Base pattern with EI ; RET at 0x38); otherwise the machine's own ROM, which the
    # specification does not contain (realrom: nothing is executed or read below 0x4000)
    userom = rnd.random() < (0.06 if is128 else 0.6)       # (on 128K the option turns out to be ignored: e06.CANDIDATES)
    p['userom'] = int(userom)
    realrom = not userom
    if defaults and realrom:
        ints = False                  # IM 1 -> 0x38
    im = 2 if (realrom or (rnd.random() < 0.6 and not is128)) else rnd.choice((0, 1))
    # ---- layout
    p['orgopt'] = None
    if window:
        if kind == 'bin' and rnd.random() < 0.4:
            wlen = 0x300
            org = 0x10000 - wlen                 # default --org = 65536 - length
        else:
            wlen = 0x300 if kind == 'bin' else 0x60
            org = rnd.choice((0x8000, 0x6000, 0xC000, 0x9000) if not is128 else (0x8000, 0x6000, 0x9000, 0xA100))
            p['orgopt'] = org
        if kind == 'blank':
            cells = [org + 0x40 + i for i in range(8)]
            sp = org + 0x60
            table = None
            nbytes = rnd.choice((10, 18, 26))
        else:
            cells = [org + 0x180 + i for i in range(24)]
            sp = org + 0x2F0
            table = ((org + 0x100) & 0xFF00) | 0xFF
            nbytes = rnd.choice((24, 48, 96))
        p['win'] = (org, wlen)
    else:
        org = rnd.choice((0x8000, 0x8000, 0x6000, 0xA000, 0x5B00))
        lo = [0x4008, 0x5AFF, 0x7FFF, 0x8000, 0xBFFE, 0x9100, 0x9101, 0x7000]
        hi = [0xC008, 0xC009, 0xFFFE, 0xFFF0, 0xE000, 0xD123]
        cells = [c for c in lo + hi if not (org - 8 <= c < org + 0x200)]
        sp = rnd.choice((0xBF00, 0xFF00, 0x7F00, 0x0000 if not is128 else 0xC100, 0xC002))
        table = 0x98FF
        nbytes = rnd.choice((24, 48, 96, 160)) if tier == 'thorough' else rnd.choice((24, 48, 96))
    if defaults:
        table = None
        sp = 23552
    if ints and table is None and (realrom or im == 2):
        if realrom:
            ints = False
        else:
            im = rnd.choice((0, 1))
    p['cmio'], p['ints'] = int(cmio), int(ints)
    opts = set()
    p['vlevel'] = rnd.choice((1, 2)) if cmio else rnd.choice((0, 0, 1, 1, 2, 2))
    if p['vlevel'] == 0 and not ints:
        opts.add('block')             # repeating block instructions only where a run cannot end or be interrupted inside one
    halt = ints and rnd.random() < 0.3
    if halt:
        opts.add('halt-first')
    # the edge of the INT window (32 T-states of a 48K frame, 36 of a 128K frame): EI ends just before it, the NOPs after it end
    # on either side of it
    p['int_edge'] = ints and not halt and rnd.random() < 0.2
    if p['int_edge']:
        opts.add('int-edge')
    # HALT with interrupts off (or IFF = 0 for ever) never ends: only -m / -M end such a run
    p['halt_stuck'] = (not ints) and p['vlevel'] > 0 and rnd.random() < 0.07
    if p['halt_stuck']:
        opts.add('halt-stuck')
    weights = dict(WEIGHTS)
    if is128:
        weights['page'] = 4
    if kind == 'blank':
        for k in ('index', 'call', 'block', 'ay'):
            weights.pop(k)
    if not ints:
        opts.add('nohaltbyte')        # without interrupts a HALT never ends
    prog = Prog(rnd, org, cells, is128, im2=table is not None, opts=opts).build(nbytes, weights)
    p['org'], p['code'] = org, bytes(prog.code)
    p['marks'] = prog.marks
    p['features'] = sorted(prog.features)
    mem = {}          # logical address -> byte (explicit cells), for the bank paged in at the start
    for i, b in enumerate(prog.code):
        mem[(org + i) % 65536] = b
    handler = None
    if table is not None:
        handler = (org + len(prog.code) + 8) % 65536 if window else 0x9A00
        mem[table] = handler & 255
        mem[(table + 1) % 65536] = handler >> 8
        hcode = [0xE5, 0x21, cells[0] & 255, cells[0] >> 8, 0x34, 0xE1, 0xFB, 0xC9] if rnd.random() < 0.6 else [0xFB, 0xED, 0x4D]
        for i, b in enumerate(hcode):           # PUSH HL ; LD HL,cell ; INC (HL) ; POP HL ; EI ; RET   |   EI ; RETI
            mem[(handler + i) % 65536] = b
        if window and not (org <= table and handler + len(hcode) < org + wlen and handler + len(hcode) < cells[0]):
            raise MachineryError('window layout too small: %r' % ((org, wlen, table, handler, len(prog.code)),))
    p['handler'] = handler
    # ---- the state the run starts from
    regs = [0] * 30
    hw = {'border': 7, 'p7': 0, 'fffd': 0, 'ay': [0] * 16, 'fe': 0}
    if defaults:
        regs[IYh], regs[IYl], regs[SP], regs[I], regs[IM], regs[IFF] = 92, 58, 23552, 63, 1, 1
    else:
        for i in (A, F, B, C, D, E, H, L, IXh, IXl, IYh, IYl, R, xA, xF, xB, xC, xD, xE, xH, xL):
            regs[i] = rnd.randrange(256)
        regs[SP] = sp
        regs[I] = (table >> 8) if table is not None else rnd.randrange(256)
        regs[IM] = im
        regs[IFF] = 1 if (ints and rnd.random() < 0.7) else rnd.randrange(2)
        regs[T] = frame - rnd.choice((4, 12, 24, 40, 80, 200, 400)) if (ints or rnd.random() < 0.3) else rnd.randrange(frame)
        if p['int_edge']:
            regs[IFF] = 0
            regs[T] = rnd.choice((28, 28, 28, 32, 32, 32, 24, 27, 29, 31, 33, 35, 36, rnd.randrange(20, 37))) - 4      # EI ends at frame position 20..36: the NOP after it ends at the edge (32 / 36)
        regs[MEMPTR] = rnd.randrange(65536)
        hw['border'] = rnd.randrange(8)
        hw['fe'] = rnd.randrange(256)
        if is128:
            hw['p7'] = rnd.choice(SAFE_BANKS) | (0x10 if rnd.random() < 0.5 else 0) | rnd.choice((0, 0, 0x08, 0x40))
            hw['fffd'] = rnd.randrange(16) if rnd.random() < 0.8 else rnd.randrange(256)
            hw['ay'] = [rnd.randrange(256) if rnd.random() < 0.5 else 0 for _ in range(16)]
    regs[PC] = org
    p['want_regs'], p['want_hw'] = regs, hw
    p['mem'] = mem
    p['cells'] = cells
    return p


# ================================================================================================ input files
def banks_for(p, cells):
    """cells {cell: byte} -> {bank: bytearray}: the RAM of the machine with these explicit cells"""
    nums = range(8) if p['is128'] else (5, 2, 0)
    banks = {b: bytearray(0x4000) if p['window'] else bytearray(bank_base(b)) for b in nums}
    for cl, v in cells.items():
        b, off = cell_home(cl)
        banks[b][off] = v
    return banks


def write_sna(path, s, is128):
    h = bytearray(27)
    h[0] = s['i']
    h[1:3] = struct.pack('<H', s['hl2'])
    h[3:5] = struct.pack('<H', s['de2'])
    h[5:7] = struct.pack('<H', s['bc2'])
    h[7], h[8] = s['f2'], s['a2']
    h[9:11] = struct.pack('<H', s['hl'])
    h[11:13] = struct.pack('<H', s['de'])
    h[13:15] = struct.pack('<H', s['bc'])
    h[15:17] = struct.pack('<H', s['iy'])
    h[17:19] = struct.pack('<H', s['ix'])
    h[19] = 4 if s['iff1'] else 0
    h[20] = s['r']
    h[21], h[22] = s['f'], s['a']
    h[23:25] = struct.pack('<H', s['sp'])
    h[25] = s['im']
    h[26] = s['border']
    banks = s['banks']
    if not is128:
        data = bytes(h) + bytes(banks[5]) + bytes(banks[2]) + bytes(banks[0])
    else:
        page = s['o7ffd'] % 8
        data = bytes(h) + bytes(banks[5]) + bytes(banks[2]) + bytes(banks[page])
        data += struct.pack('<HBB', s['pc'], s['o7ffd'], 0)
        for b in range(8):
            if b not in (5, 2, page):
                data += bytes(banks[b])
    with open(path, 'wb') as f:
        f.write(data)


def pair(regs, hi):
    return regs[hi] * 256 + regs[hi + 1]


PAIR_HALVES = {'bc': ('b', 'c'), 'de': ('d', 'e'), 'hl': ('h', 'l'), '^bc': ('^b', '^c'), '^de': ('^d', '^e'), '^hl': ('^h', '^l')}


def make_input(p, rnd, wd):
    """Writes the input (and ROM) files; decides which part of the start state lives in the file and which is given by --reg /
    --state / --poke / --start.  Fills p['in'] (TLC record), p['op'], p['args_state'] (option list), p['soft']."""
    kind, is128 = p['kind'], p['is128']
    want, hw = p['want_regs'], p['want_hw']
    frame = FRAME[is128]
    tag = 'c%d' % p['idx']
    soft = 'simulator-defaults' if p['defaults'] else ''
    args = []
    op_regs, op_state, op_pokes = [], [], []
    bank0 = hw['p7'] % 8
    cells = {cell_of(is128, bank0, a): v for a, v in p['mem'].items()}      # memory when execution begins
    if p['window']:
        org, wlen = p['win']
        for a in range(org, org + wlen):
            cells.setdefault(cell_of(is128, bank0, a), 0)

    def reg_opt(name, v):
        op_regs.append({'n': name, 'v': v})
        args.extend(['--reg' if rnd.random() < 0.7 else '-r', '%s=%s' % (name.upper() if rnd.random() < 0.2 else name, num(rnd, v))])

    def state_opt(name, v, i=0):
        op_state.append({'n': name, 'i': i, 'v': v})
        args.extend(['--state', '%s=%d' % ('ay[%d]' % i if name == 'ay' else name, v)])     # decimal: no other form is documented

    def poke_opt(bank, la, lb, step, form, v):
        """bank -1: logical addresses la..lb; else offsets in RAM bank `bank`"""
        spec = num(rnd, la)
        if lb > la or rnd.random() < 0.1:
            spec += '-' + num(rnd, lb)
            if step != 1 or rnd.random() < 0.3:
                spec += '-' + num(rnd, step)
        if bank >= 0:
            spec = '%d:%s' % (bank if rnd.random() < 0.8 else bank + 8, spec)          # "RAM bank p" is taken modulo 8
        args.extend(['--poke' if rnd.random() < 0.5 else '-p', '%s,%s%s' % (spec, ('', '^', '+')[form], num(rnd, v))])
        op_pokes.append({'bank': bank, 'a': la, 'b': lb, 'c': step, 'op': form, 'v': v})

    # ---- pokes.  file_cells = what the input file holds; the pokes turn it into `cells`
    file_cells = dict(cells)
    if kind == 'blank':
        for cl in sorted(cells):
            if cells[cl]:
                file_cells[cl] = 0
                la = cl if cl < 65536 else 49152 + (cl - 65536) % 16384
                form = rnd.choice((0, 0, 0, 1, 2))              # blank RAM: XOR and ADD give the value itself
                poke_opt(-1, la, la, 1, form, cells[cl])
    else:
        # a few program / table bytes are wrong in the file and put right by a poke
        code_cells = sorted(cl for cl in cells if cl >= 16384 and cells[cl] != 0)
        for cl in rnd.sample(code_cells, min(len(code_cells), rnd.choice((0, 0, 1, 3)))):
            form = rnd.randrange(3)
            v = rnd.randrange(1, 256)
            file_cells[cl] = rnd.randrange(256) if form == 0 else cells[cl] ^ v if form == 1 else (cells[cl] - v) % 256
            bank, off = cell_home(cl)
            if is128 and (cl >= 65536 or rnd.random() < 0.3):
                a0 = rnd.choice((off, 49152 + off, 16384 + off))
                poke_opt(bank, a0, a0, 1, form, cells[cl] if form == 0 else v)
            else:
                la = cl if cl < 65536 else 49152 + off
                poke_opt(-1, la, la, 1, form, cells[cl] if form == 0 else v)
    # range pokes over the data cells (the program reads them; all of them show up in the snapshot written at the end)
    if kind != 'blank' or rnd.random() < 0.5:
        for _ in range(rnd.choice((0, 0, 1, 2))):
            dc = p['cells']
            a0 = rnd.choice(dc)
            step = rnd.choice((1, 1, 2, 3))
            n = rnd.randrange(1, 6)
            if p['window']:
                n = min(n, (max(dc) - a0) // step + 1)
            else:
                n = min(n, (0xFFFF - a0) // step + 1, 4)
            b0 = a0 + (n - 1) * step
            form = rnd.randrange(3)
            v = rnd.randrange(1, 256)
            lb = b0 + (rnd.randrange(step) if step > 1 and b0 + step - 1 <= 0xFFFF else 0)       # b need not be a member
            usebank = is128 and a0 >= 0xC000 and rnd.random() < 0.6
            bank = (bank0 if p['window'] else rnd.choice(SAFE_BANKS)) if usebank else -1
            for k in range(n):
                la = a0 + k * step
                cl = cell_of(is128, bank if usebank else bank0, la)
                if p['window'] and cl not in cells:
                    raise MachineryError('range poke leaves the window')
                old = cells.get(cl, base(la))
                cells[cl] = v if form == 0 else old ^ v if form == 1 else (old + v) % 256
                file_cells.setdefault(cl, old)
            poke_opt(bank, a0, lb, step, form, v)
    p['npokes'] = len(op_pokes)
    p['poke_forms'] = sorted({(o['op'], int(o['bank'] >= 0), int(o['b'] > o['a'])) for o in op_pokes})
    # ---- the file
    snap_kind = kind in ('z80', 'szx', 'sna')
    fregs = list(want)
    fhw = dict(hw, ay=list(hw['ay']))
    start_opt = None
    if not is128:
        hw['p7'] = fhw['p7'] = hw['fffd'] = fhw['fffd'] = 0
        hw['ay'] = [0] * 16
        fhw['ay'] = [0] * 16
    if snap_kind:
        # some registers / attributes differ in the file and are corrected by options
        groups = list(PAIR_HALVES) + ['a', 'f', '^a', '^f', 'i', 'r', 'ix', 'iy', 'sp']
        for g in rnd.sample(groups, rnd.choice((0, 0, 1, 2, 4))):
            name = rnd.choice((g,) + PAIR_HALVES[g]) if g in PAIR_HALVES else g
            if name in REG8:
                fregs[REG8[name]] = rnd.randrange(256)
                reg_opt(name, want[REG8[name]])
            elif name in REG16:
                fregs[REG16[name]], fregs[REG16[name] + 1] = rnd.randrange(256), rnd.randrange(256)
                reg_opt(name, pair(want, REG16[name]))
            else:
                fregs[SP] = rnd.randrange(0x4000, 0x10000)
                reg_opt('sp', want[SP])
        for name in rnd.sample(['iff', 'im', 'tstates', 'border', 'fe', '7ffd', 'fffd', 'ay'], rnd.choice((0, 1, 2, 3))):
            if name == 'iff':
                fregs[IFF] = 1 - want[IFF]
                state_opt('iff', want[IFF])
            elif name == 'im':
                fregs[IM] = (want[IM] + 1) % 3
                state_opt('im', want[IM])
            elif name == 'tstates':
                fregs[T] = rnd.randrange(frame)
                state_opt('tstates', want[T])
            elif name == 'border':
                fhw['border'] = (hw['border'] + 3) % 8
                state_opt('border', hw['border'])
            elif name == 'fe':
                fhw['fe'] = hw['fe'] ^ 0x11
                state_opt('fe', hw['fe'])
            elif name == '7ffd' and is128:
                # the file pages another bank in: the cells are in the banks they belong to all the same
                fhw['p7'] = rnd.choice([b for b in SAFE_BANKS if b != bank0]) | ((hw['p7'] & 0xD8) ^ 0x10)
                state_opt('7ffd', hw['p7'])
            elif name == 'fffd' and is128:
                fhw['fffd'] = (hw['fffd'] + 1) % 16
                state_opt('fffd', hw['fffd'])
            elif name == 'ay' and is128:
                n = rnd.randrange(16)
                fhw['ay'][n] = hw['ay'][n] ^ 0xFF
                state_opt('ay', hw['ay'][n], n if rnd.random() < 0.8 else n + 16)
        if rnd.random() < 0.35:
            fregs[PC] = rnd.randrange(0x4000, 0x10000)
            start_opt = want[PC]
        no_t = kind == 'sna' or (kind == 'z80' and p['z80v'] < 3)
        no_fe = kind in ('sna', 'z80')
        no_ay = is128 and kind == 'sna'
        given = {o['n'] for o in op_state}
        if no_t:
            fregs[T] = 0
            if 'tstates' not in given:
                if rnd.random() < 0.85:
                    state_opt('tstates', want[T])
                else:
                    soft = 'file-without-clock'        # where such a run starts in the frame is not documented
        if no_fe:
            fhw['fe'] = 0
            if 'fe' not in given:
                state_opt('fe', hw['fe'])
        if no_ay:
            fhw['fffd'] = 0
            fhw['ay'] = [0] * 16
            if 'fffd' not in given:
                state_opt('fffd', hw['fffd'])
            for n in range(16):
                if hw['ay'][n] and not any(o['n'] == 'ay' and o['i'] % 16 == n for o in op_state):
                    state_opt('ay', hw['ay'][n], n)
        stackpc = 0
        if kind == 'sna' and not is128:
            # PC lives on the stack: SP in the file is 2 lower, the two bytes there hold PC
            stackpc = 1
            fsp = (fregs[SP] - 2) % 65536
            if fsp < 0x4000 or fsp == 0xFFFF or fsp in file_cells or fsp + 1 in file_cells or any(o['n'] == 'sp' for o in op_regs):
                fsp = 0x7E00
                if not any(o['n'] == 'sp' for o in op_regs):
                    reg_opt('sp', want[SP])
            file_cells[fsp] = fregs[PC] & 255
            file_cells[fsp + 1] = fregs[PC] >> 8
            cells.setdefault(fsp, file_cells[fsp])
            cells.setdefault(fsp + 1, file_cells[fsp + 1])
            fregs[SP] = fsp
        s = dict(a=fregs[A], f=fregs[F], bc=pair(fregs, B), de=pair(fregs, D), hl=pair(fregs, H), a2=fregs[xA], f2=fregs[xF],
                 bc2=pair(fregs, xB), de2=pair(fregs, xD), hl2=pair(fregs, xH), ix=pair(fregs, IXh), iy=pair(fregs, IYh), sp=fregs[SP],
                 pc=fregs[PC], i=fregs[I], r=fregs[R], iff1=fregs[IFF], iff2=fregs[IFF], im=fregs[IM], border=fhw['border'],
                 tstates=fregs[T], machine=('+2' if p['plus2'] else '128K') if is128 else '48K', o7ffd=fhw['p7'], offfd=fhw['fffd'],
                 ay=fhw['ay'], fe=fhw['fe'], memptr=fregs[MEMPTR], issue2=0)
        s['banks'] = {b: bytes(v) for b, v in banks_for(p, file_cells).items()}
        fname = tag + '.' + kind
        path = os.path.join(wd, fname)
        if kind == 'z80':
            with open(path, 'wb') as f:
                f.write(snapfile.write_z80(s, version=p['z80v'], compress=rnd.random() < 0.7))
        elif kind == 'szx':
            with open(path, 'wb') as f:
                f.write(snapfile.write_szx(s, compress=rnd.random() < 0.7))
        else:
            write_sna(path, s, is128)
        rec = {'kind': kind, 'is128': is128, 'plus2': p['plus2'], 'regs': [fregs[k] if k not in (T, HALT, MEMPTR, SP2) else 0 for k in range(30)],
               't': -1 if no_t else fregs[T], 'border': fhw['border'], 'p7': fhw['p7'], 'fffd': fhw['fffd'], 'ay': fhw['ay'],
               'fe': fhw['fe'], 'org': 0, 'stackpc': stackpc}
        infile = fname
    else:
        # raw memory / no snapshot: registers and hardware state come from options (or the simulator defaults)
        if not p['defaults']:
            for g, halves in sorted(PAIR_HALVES.items()):
                if rnd.random() < 0.5:
                    reg_opt(g, pair(want, REG16[g]))
                else:
                    for h in rnd.sample(halves, 2):
                        reg_opt(h, want[REG8[h]])
            for name in ('a', 'f', '^a', '^f', 'i', 'r'):
                reg_opt(name, want[REG8[name]])
            reg_opt('ix', pair(want, IXh))
            reg_opt('iy', pair(want, IYh))
            reg_opt('sp', want[SP])
            state_opt('iff', want[IFF])
            state_opt('im', want[IM])
            state_opt('tstates', want[T])
            state_opt('border', hw['border'])
            state_opt('fe', hw['fe'])
            if is128:
                state_opt('7ffd', hw['p7'])
                state_opt('fffd', hw['fffd'])
                for n in range(16):
                    if hw['ay'][n]:
                        state_opt('ay', hw['ay'][n], n)
            want[MEMPTR] = 0
            # the order of independent options does not matter (the pokes keep their relative order)
            pairs_ = [tuple(args[k:k + 2]) for k in range(0, len(args), 2)]
            pokes_ = [q for q in pairs_ if q[0] in ('-p', '--poke')]
            merged = [q for q in pairs_ if q[0] not in ('-p', '--poke')]
            rnd.shuffle(merged)
            pos = sorted(rnd.randrange(len(merged) + 1) for _ in pokes_)
            for off, (ps, q) in enumerate(zip(pos, pokes_)):
                merged.insert(ps + off, q)
            args[:] = [x for q in merged for x in q]
        rec = {'kind': kind, 'is128': is128, 'plus2': p['plus2'], 'regs': [0] * 30, 't': -1, 'border': 0, 'p7': 0, 'fffd': 0, 'ay': [0] * 16,
               'fe': 0, 'org': p['org'], 'stackpc': 0}
        if kind == 'bin':
            fname = tag + '.bin'
            if p['window']:
                org, wlen = p['win']
                data = bytes(file_cells[a] for a in range(org, org + wlen))
            else:
                org = 16384
                banks = banks_for(p, file_cells)
                data = bytes(banks[5]) + bytes(banks[2]) + bytes(banks[0])
                if rnd.random() < 0.5:
                    p['orgopt'] = 16384
            with open(os.path.join(wd, fname), 'wb') as f:
                f.write(data)
            rec['org'] = org
            if p['orgopt'] is not None:
                args.extend(['--org' if rnd.random() < 0.5 else '-o', num(rnd, p['orgopt'])])
            if p['org'] != org or rnd.random() < 0.2:
                start_opt = p['org']
            infile = fname
        else:
            infile = ('+2' if p['plus2'] else '128') if is128 else '48'
            start_opt = p['org']
    if start_opt is None and snap_kind and rnd.random() < 0.2:
        start_opt = want[PC]
    if start_opt is not None:
        args.extend(['--start' if rnd.random() < 0.5 else '-s', num(rnd, start_opt)])
    # ---- ROM
    realrom = 1
    if p['userom']:
        rom = bytearray(BASE[:0x4000])
        rom[0x38], rom[0x39] = 0xFB, 0xC9
        with open(os.path.join(wd, tag + '.rom'), 'wb') as f:
            f.write(rom)
        args.extend(['--rom', tag + '.rom'])
        file_cells[0x38], file_cells[0x39] = 0xFB, 0xC9
        realrom = 0
    rec['realrom'] = realrom
    rec['ov'] = [[cl, v] for cl, v in sorted(file_cells.items())]
    p['in'] = rec
    p['infile'] = infile
    p['op'] = {'regs': op_regs, 'state': op_state, 'pokes': op_pokes, 'start': -1 if start_opt is None else start_opt}
    p['args_state'] = args
    p['soft'] = soft
    p['start_cells'] = cells
    return p


# ================================================================================================ output parsing
RE_STOP = re.compile(r'^Stopped at (\S+?)(?:: (\d+) (operations|T-states))?$')
RE_TIME = re.compile(r'^Z80 execution time: (\d+) T-states \((\d+)\.(\d{3})s\)$')
RE_OPS = re.compile(r'^Instructions executed: (\d+)$')
RE_SIM = re.compile(r'^Simulation time: \d+\.\d{3}s \(x\d+\.\d{2}\)$')
RE_WROTE = re.compile(r'^Wrote (\S+)$')
RE_VV = re.compile(r"^(\S+) (.{15,}?)  A=(\S+)\s+F=([01]{8})\s+BC=(\S+)\s+DE=(\S+)\s+HL=(\S+)\s+IX=(\S+)\s+IY=(\S+)\s*\n\s+"
                   r"A'=(\S+)\s+F'=([01]{8})\s+BC'=(\S+)\s+DE'=(\S+)\s+HL'=(\S+)\s+SP=(\S+)\s+(?:IR=([0-9A-F]{2})([0-9A-F]{2})|I=(\d+)\s+R=(\d+))\s*$")


def parse_output(text, p):
    """-> dict(lines, stop, stats, wrote, err)"""
    out = {'lines': [], 'stop': {'a': '', 'kind': 'none', 'n': 0}, 'stats': {'has': 0, 't': 0, 'ms': 0, 'ops': 0}, 'wrote': [], 'err': ''}
    rows = text.split('\n')
    if rows and rows[-1] == '':
        rows.pop()
    k = 0
    vlevel, custom, decimal = p['vlevel'], p['custom'], p['decimal']
    conv = (lambda s: int(s)) if decimal else (lambda s: int(s, 16))
    # trace lines
    while k < len(rows) and not rows[k].startswith('Stopped at '):
        if vlevel == 0:
            out['err'] = 'unexpected-output'
            return out
        if custom:
            parts = rows[k].split('|')
            if len(parts) != 5:
                out['err'] = 'unparsable-line'
                return out
            try:
                rv = [int(x) for x in parts[2].split(',')] if parts[2] else []
                out['lines'].append({'a': parts[0], 't': int(parts[1]), 'r': rv, 'mv': int(parts[3]) if parts[3] else -1, 'i': parts[4]})
            except ValueError:
                out['err'] = 'unparsable-line'
                return out
            k += 1
        elif vlevel == 1:
            a, _, ins = rows[k].partition(' ')
            out['lines'].append({'a': a, 't': -1, 'r': [], 'mv': -1, 'i': ins})
            k += 1
        else:
            mm = RE_VV.match('\n'.join(rows[k:k + 2]))
            if not mm:
                out['err'] = 'unparsable-vv-line'
                return out
            g = mm.groups()
            try:
                vals = [conv(g[2]), int(g[3], 2), conv(g[4]), conv(g[5]), conv(g[6]), conv(g[7]), conv(g[8]),
                        conv(g[9]), int(g[10], 2), conv(g[11]), conv(g[12]), conv(g[13]), conv(g[14])]
                vals += [int(g[15], 16), int(g[16], 16)] if g[15] is not None else [int(g[17]), int(g[18])]
            except ValueError:
                out['err'] = 'unparsable-vv-line'
                return out
            out['lines'].append({'a': g[0], 't': -1, 'r': vals, 'mv': -1, 'i': g[1].rstrip(' ')})
            k += 2
    if k < len(rows):
        mm = RE_STOP.match(rows[k])
        if not mm:
            out['err'] = 'unparsable-stop-line'
            return out
        out['stop'] = {'a': mm.group(1), 'kind': {None: 'addr', 'operations': 'ops', 'T-states': 'tstates'}[mm.group(3)],
                       'n': int(mm.group(2)) if mm.group(2) else 0}
        k += 1
    seen = set()
    while k < len(rows):
        row = rows[k]
        mm = RE_TIME.match(row)
        if mm:
            out['stats'].update(has=1, t=int(mm.group(1)), ms=int(mm.group(2)) * 1000 + int(mm.group(3)))
            seen.add('time')
        elif RE_OPS.match(row):
            out['stats']['ops'] = int(RE_OPS.match(row).group(1))
            seen.add('ops')
        elif RE_SIM.match(row):
            seen.add('sim')
        elif RE_WROTE.match(row):
            out['wrote'].append(RE_WROTE.match(row).group(1))
        else:
            out['err'] = 'unexpected-output'
            return out
        k += 1
    if seen and seen != {'time', 'ops', 'sim'}:
        out['err'] = 'incomplete-stats'
    if p['stats'] and not seen:
        out['err'] = 'no-stats'
    if out['stats']['t'] >= 2 ** 31 or out['stop']['n'] >= 2 ** 31:
        out['err'] = 'number-out-of-range'
    return out


def read_dump(path, p):
    """The snapshot the tool wrote -> TLC record (independent decoder)."""
    rec = {'has': 1, 'err': '', 'szx': int(path.endswith('.szx')), 'is128': 0, 'plus2': 0, 'r': [0] * 30, 't': -1, 'border': 0, 'p7': 0,
           'fffd': 0, 'ay': [0] * 16, 'fe': -1, 'diff': [], 'diffok': 1}
    try:
        s = snapfile.read_snapshot(path)
    except (snapfile.FormatError, zlib.error, IndexError, ValueError, KeyError, OSError, struct.error) as e:
        rec['err'] = type(e).__name__
        return rec
    r = rec['r']
    r[A], r[F] = s['a'], s['f']
    for name, hi in (('bc', B), ('de', D), ('hl', H), ('bc2', xB), ('de2', xD), ('hl2', xH), ('ix', IXh), ('iy', IYh)):
        r[hi], r[hi + 1] = s[name] >> 8, s[name] & 255
    r[xA], r[xF] = s['a2'], s['f2']
    r[SP], r[PC], r[I], r[R] = s['sp'], s['pc'], s['i'], s['r']
    r[IFF], r[IM] = s['iff1'], s['im']
    rec['is128'] = int(s['machine'] in ('128K', '+2'))
    rec['plus2'] = int(s['machine'] == '+2')
    rec['t'] = -1 if s['tstates'] is None else s['tstates']
    rec['border'], rec['p7'], rec['fffd'], rec['ay'] = s['border'], s['o7ffd'], s['offfd'], list(s['ay'])
    rec['fe'] = -1 if s['fe'] is None else s['fe']
    want = set(range(8)) if rec['is128'] else {5, 2, 0}
    if set(s['banks']) != want:
        rec['err'] = 'banks-%s' % sorted(s['banks'])
        return rec
    # difference to what the input file held
    ref = banks_for(p, {cl: v for cl, v in p['in']['ov'] if cl >= 16384})
    diff = []
    for b in sorted(want & set(ref)):
        cur, old = s['banks'][b], bytes(ref[b])
        if cur != old:
            lo = 16384 if b == 5 else 32768 if b == 2 else (65536 + b * 16384 if rec['is128'] else 49152)
            diff += [[lo + x, cur[x]] for x in range(0x4000) if cur[x] != old[x]]
    if len(diff) > 1500:
        rec['diffok'] = 0
        diff = diff[:20]
    rec['diff'] = diff
    return rec


# ================================================================================================ one case
SHOWN = sorted(SHOW8) + sorted(REG16) + ['sp']


def choose_limits(rnd, p, probe):
    """probe: [(pc, t)] of the first PROBE instructions, t0 -> op fields stop / maxops / maxt (+ soft)"""
    n = len(probe)
    t0 = probe[0][1]
    cap = min(n - 1, 40 if p['kind'] == 'blank' else 220 if p.get('tier') == 'thorough' else 110)
    mode = rnd.choice(('addr', 'addr', 'ops', 'tstates', 'addr+ops', 'addr+tstates', 'ops+tstates', 'all', 'same', 'same-ops-t', 'start=stop'))
    if p['vlevel'] == 0 and rnd.random() < 0.4:
        mode = 'addr'
    if p.get('halt_stuck'):
        mode = rnd.choice(('ops', 'tstates', 'ops+tstates', 'same-ops-t'))
    if 'block-repeat' in p['features']:
        mode = 'addr'                  # a limit could end the run inside LDIR / LDDR / CPIR (flag bits 3 and 5 are not specified there)
    first = {}
    for k, (pc, t) in enumerate(probe):
        if k > 0:
            first.setdefault(pc, k)          # the run stops when PC = stop AFTER instruction k
    # boundaries reachable as a stop address: k = number of instructions executed before PC = probe[k].pc for the first time
    cands = [(k, pc) for pc, k in first.items() if 1 <= k <= cap and pc >= 0x4000]
    marks = set(p['marks'])
    good = [c for c in cands if c[1] in marks] or cands
    stop, maxops, maxt = -1, 0, 0
    soft = ''
    if not good:
        mode = 'ops'
    k, pc = rnd.choice(good) if good else (rnd.randrange(1, cap + 1), -1)
    el = lambda q: probe[q][1] - t0              # elapsed after q instructions (incl. interrupt acceptance)
    if mode == 'addr':
        stop = pc
    elif mode == 'ops':
        maxops = rnd.randrange(1, cap + 1)
    elif mode == 'tstates':
        q = rnd.randrange(1, cap + 1)
        maxt = max(1, el(q) - rnd.choice((0, 0, 1, 2, 3)))
    elif mode == 'addr+ops':
        stop = pc
        maxops = max(1, k + rnd.choice((-2, -1, 0, 0, 1, 3)))
    elif mode == 'addr+tstates':
        stop = pc
        maxt = max(1, el(k) + rnd.choice((-9, -1, 0, 0, 1, 5)))
    elif mode == 'ops+tstates':
        maxops = rnd.randrange(1, cap + 1)
        maxt = max(1, el(maxops) + rnd.choice((-9, -1, 0, 1, 9)))
    elif mode == 'all':
        stop = pc
        maxops = max(1, k + rnd.choice((-1, 0, 1)))
        maxt = max(1, el(k) + rnd.choice((-1, 0, 1)))
    elif mode == 'same':          # every condition becomes true at the same boundary
        stop = pc
        maxops = k
        maxt = el(k) - rnd.choice((0, 0, 1))
        if maxt < 1 or (k > 1 and el(k - 1) >= maxt):
            maxt = 0
    elif mode == 'same-ops-t':
        maxops = rnd.randrange(1, cap + 1)
        maxt = el(maxops)
        if maxops > 1 and el(maxops - 1) >= maxt:
            maxt = 0
    else:                          # start = stop: the documents leave open whether anything is executed
        start = probe[0][0]
        if start in first and first[start] <= cap:
            stop = start
            soft = 'start-equals-stop'
        else:
            stop = pc
        if rnd.random() < 0.4:
            maxops = rnd.randrange(1, cap + 1)
    if stop < 0 and not maxops and not maxt:
        maxops = rnd.randrange(1, cap + 1)
    if stop == probe[0][0]:
        soft = 'start-equals-stop'       # also when the program comes back to its first instruction
    return stop, maxops, maxt, soft, mode


def run_case(args):
    """(seed, idx, tier, wd) -> case record for TraceJudge (or a 'skip' record)."""
    sd, idx, tier, wd = args
    cbuild.preload()
    rnd = random.Random(sd * 1000003 + idx)
    cwd = os.path.join(wd, 'w%d' % (idx % 64))
    os.makedirs(cwd, exist_ok=True)
    p = plan_case(rnd, idx, tier)
    make_input(p, rnd, cwd)
    return finish_case(rnd, p, cwd)


OPERAND_FORMATS = (('#,02X,04X', {'p': '#', 'b': '02X', 'w': '04X'}), (',03,05', {'p': '', 'b': '03', 'w': '05'}),
                   ('0x,02X,04X', {'p': '0x', 'b': '02X', 'w': '04X'}), (',03d,05d', {'p': '', 'b': '03d', 'w': '05d'}),
                   ('$,02X', {'p': '$', 'b': '02X', 'w': ''}), ('%', {'p': '%', 'b': '', 'w': ''}), ('$,02X,', {'p': '$', 'b': '02X', 'w': ''}))


def fmt_choice(rnd, decimal):
    """-> (extra args, fmt record): TraceOperand[Decimal] "prefix, byte format, word format ... default to empty strings if
    not supplied" (defaults $,02X,04X and ,,)"""
    if rnd.random() < 0.75:
        return [], ({'p': '', 'b': '', 'w': ''} if decimal else {'p': '$', 'b': '02X', 'w': '04X'})
    spec, f = rnd.choice(OPERAND_FORMATS)
    return ['-I' if rnd.random() < 0.5 else '--ini', 'TraceOperand%s=%s' % ('Decimal' if decimal else '', spec)], dict(f)


def finish_case(rnd, p, cwd):
    is128 = p['is128']
    tag = 'c%d' % p['idx']
    base_args = list(p['args_state'])
    if not p['ints']:
        base_args.append('-n' if rnd.random() < 0.5 else '--no-interrupts')
    if p['cmio']:
        base_args.append('-c' if rnd.random() < 0.5 else '--cmio')
    # ---- probe (chooses option values only)
    probe_args = base_args + ['-v', '-I', 'TraceLine={pc} {t}', '-m', str(PROBE), p['infile']]
    text, err = run_tool(probe_args, cwd)
    probe = []
    for row in text.split('\n'):
        q = row.split(' ')
        if len(q) == 2 and q[0].isdigit() and q[1].isdigit():
            probe.append((int(q[0]), int(q[1])))
    mt = re.search(r'^Stopped at \S+: (\d+) operations$', text, re.M)
    case = {'key': '%s:%s%s' % (p['kind'], '128' if is128 else '48', ':cmio' if p['cmio'] else ''), 'idx': p['idx'], 'kind': p['kind'],
            'features': p['features'], 'in': p['in'], 'soft': p['soft']}
    if err or len(probe) < 2:
        # the tool cannot even run the probe: judged as a broken case on the plain command line
        case.update(exc=err or 'probe-empty', op=dict(p['op'], stop=-1, maxops=1, maxt=0, ints=p['ints'], cmio=0, tafter=[],
                                                      fmt={'p': '$', 'b': '02X', 'w': '04X'}),
                    decimal=0, vlevel=0, custom=0, maddr=0, rnames=[], lines=[], stop={'a': '', 'kind': 'none', 'n': 0},
                    stats={'has': 0, 't': 0, 'ms': 0, 'ops': 0}, snap={'has': 0}, map={'has': 0, 'a': []}, same=1,
                    cmd=probe_args, mode='probe', impl='c', secondary=0, tags=[], probe_len=len(probe), gen={'seed_idx': p['idx']})
        return [case]
    # the clock after the last probed instruction is not printed: estimate nothing, just drop the last boundary
    stop, maxops, maxt, soft2, mode = choose_limits(rnd, p, probe)
    if soft2 and not case['soft']:
        case['soft'] = soft2
    p['decimal'] = decimal = int(rnd.random() < 0.35)
    vlevel = p['vlevel']
    p['custom'] = custom = int(vlevel > 0 and (p['cmio'] or rnd.random() < 0.45))
    p['stats'] = stats = int(p['cmio'] or rnd.random() < 0.5)
    args = list(base_args)
    if stop >= 0:
        args.extend(['--stop' if rnd.random() < 0.5 else '-S', num(rnd, stop)])
    if maxops:
        args.extend(['--max-operations' if rnd.random() < 0.5 else '-m', str(maxops)])
    if maxt:
        args.extend(['--max-tstates' if rnd.random() < 0.5 else '-M', str(maxt)])
    fargs, fmt = fmt_choice(rnd, decimal)
    args += fargs
    if decimal:
        args.append('-D' if rnd.random() < 0.5 else '--decimal')
    rnames, maddr = [], 0
    if vlevel:
        args.append({1: rnd.choice(('-v', '--verbose')), 2: rnd.choice(('-vv', '-v -v'))}[vlevel])
        if ' ' in args[-1]:
            args[-1:] = args[-1].split(' ')
        if custom:
            rnames = rnd.sample(SHOWN, rnd.choice((0, 3, 8, 14))) if vlevel == 2 or rnd.random() < 0.5 else []
            cells = [cl for cl, v in p['in']['ov'] if 16384 <= cl < 49152]
            maddr = rnd.choice(cells) if cells and rnd.random() < 0.6 else -1
            mtxt = '' if maddr < 0 else '{m[%s]}' % rnd.choice((str(maddr), '$%04X' % maddr, '0x%04x' % maddr))
            line = '{pc}|{t}|%s|%s|{i}' % (','.join('{r[%s]}' % n for n in rnames), mtxt)
            args.extend(['-I', 'TraceLine%s%s=%s' % ('Decimal' if decimal else '', '2' if vlevel == 2 else '', line)])
        elif vlevel == 2:
            rnames = list(VV_NAMES)
    if stats:
        args.append('--stats')
    mapfile = ''
    if rnd.random() < 0.25:
        mapfile = tag + '.map'
        args.extend(['--map', mapfile])
    dump = ''
    if rnd.random() < 0.7:
        dump = tag + rnd.choice(('-out.z80', '-out.szx'))
    primary = rnd.choice(('c', 'c', 'py'))
    obs = {}
    for impl in ('c', 'py'):
        a = list(args)
        if impl == 'py':
            a.append('--python')
        a.append(p['infile'])
        outs = []
        if dump:
            outs.append(dump.replace('-out', '-' + impl))
            a.append(outs[0])
        if mapfile:
            a[a.index('--map') + 1] = mapfile + impl
        for f in outs + ([mapfile + impl] if mapfile else []):
            with contextlib.suppress(OSError):
                os.remove(os.path.join(cwd, f))
        text, err = run_tool(a, cwd)
        o = {'text': text, 'err': err, 'args': a, 'dump': outs[0] if outs else '', 'map': mapfile + impl if mapfile else ''}
        obs[impl] = o
    o1, o2 = obs[primary], obs['py' if primary == 'c' else 'c']
    norm = lambda o: re.sub(r'^Simulation time: .*$', 'Simulation time', o['text'], flags=re.M).replace(o['dump'] or '\0', 'DUMP').replace(o['map'] or '\0', 'MAP')
    same = int(o1['err'] == o2['err'] and norm(o1) == norm(o2))

    def rd(o, name):
        try:
            with open(os.path.join(cwd, o[name]), 'rb') as f:
                return f.read()
        except OSError:
            return None
    if same and dump and rd(o1, 'dump') != rd(o2, 'dump'):
        same = 0
    if same and mapfile and rd(o1, 'map') != rd(o2, 'map'):
        same = 0
    tags = []
    st7 = [o['v'] for o in p['op']['state'] if o['n'] == '7ffd']
    if st7 and p['kind'] in ('z80', 'szx', 'sna') and st7[-1] != p['in']['p7']:
        tags.append('state-7ffd-differs-from-file')
    if p['userom'] and is128:
        tags.append('rom-file-128k')
    if vlevel == 0 and not maxops and not maxt and {'loop', 'block-repeat'} & set(p['features']):
        tags.append('fast-loops')
    common = dict(case, decimal=decimal, vlevel=vlevel, custom=custom, maddr=maddr, rnames=rnames, mode=mode, probe_len=len(probe), tags=tags,
                  gen={'seed_idx': p['idx']})
    out = []
    for o, impl, sm in ((o1, primary, same),) + (((o2, 'py' if primary == 'c' else 'c', 1),) if not same else ()):
        c = dict(common, impl=impl, same=sm, cmd=o['args'], secondary=int(o is o2))
        c.update(observe(o, p, cwd, dump, mapfile, is128))
        c['op'] = dict(p['op'], stop=stop, maxops=maxops, maxt=maxt, ints=p['ints'], cmio=p['cmio'], tafter=c.pop('tafter'), fmt=fmt)
        if not same:
            c['other'] = {'err': (o2 if o is o1 else o1)['err'], 'text': (o2 if o is o1 else o1)['text'][-400:]}
        out.append(c)
    for f in os.listdir(cwd):
        if f.startswith(tag + '.') or f.startswith(tag + '-'):
            with contextlib.suppress(OSError):
                os.remove(os.path.join(cwd, f))
    return out


def observe(o, p, cwd, dump, mapfile, is128):
    """What one run printed and wrote -> the observation fields of a case."""
    parsed = parse_output(o['text'], p) if not o['err'] else None
    exc = o['err'] or parsed['err']
    tafter = []
    snap = {'has': 0}
    mp = {'has': 0, 'a': []}
    if not exc:
        if dump:
            if o['dump'] not in parsed['wrote'] or not os.path.isfile(os.path.join(cwd, o['dump'])):
                exc = 'snapshot-not-written'
            else:
                snap = read_dump(os.path.join(cwd, o['dump']), p)
        if mapfile and not exc:
            try:
                with open(os.path.join(cwd, o['map'])) as f:
                    rows = f.read().split('\n')
                if rows[-1] == '':
                    rows.pop()
                if any(not re.match(r'^\$[0-9A-F]{4}$', r_) for r_ in rows) or rows != sorted(rows) or o['map'] not in parsed['wrote']:
                    exc = 'map-format'
                mp = {'has': 1, 'a': [int(r_[1:], 16) for r_ in rows]}
            except (OSError, ValueError):
                exc = 'map-not-written'
        if p['cmio'] and not exc:
            # contended runs: the clock after every instruction is an input of the specification (TraceRun!TAfter)
            ts = [ln['t'] for ln in parsed['lines']]
            final = parsed['stats']['t'] + ts[0] if parsed['stats']['has'] and ts else -1
            tafter = ts[1:] + [final if final >= 0 else (ts[-1] + 4 if ts else 0)]
    d = {'exc': exc, 'tafter': tafter, 'snap': snap, 'map': mp}
    if parsed and not parsed['err']:
        d.update(lines=parsed['lines'], stop=parsed['stop'], stats=parsed['stats'])
    else:
        d.update(lines=[], stop={'a': '', 'kind': 'none', 'n': 0}, stats={'has': 0, 't': 0, 'ms': 0, 'ops': 0})
    return d


SLIM = ('in', 'op', 'soft', 'decimal', 'vlevel', 'custom', 'maddr', 'rnames', 'exc', 'lines', 'stop', 'stats', 'snap', 'map', 'same')


def slim(c):
    d = {k: c[k] for k in SLIM}
    if not d['snap'].get('has'):
        d['snap'] = {'has': 0, 'err': '', 'szx': 0, 'is128': 0, 'plus2': 0, 'r': [0] * 30, 't': -1, 'border': 0, 'p7': 0, 'fffd': 0,
                     'ay': [0] * 16, 'fe': -1, 'diff': [], 'diffok': 1}
    return d
