"""C17 driver: generate skool macro term trees, render them into concrete macro text in every documented
concrete syntax, plant the text in seven places of a skool file, run the real skool2asm.main / skool2html.main
and project the expansion found at each place.

Three parts:
  Shadow   - an evaluator of the term trees used ONLY to keep generated inputs inside the documented domain
             (no division by zero, bounded values and lengths, terminating #WHILE loops) and to learn which
             sub-expressions can be negative (the renderer needs parentheses there).  It takes no part in the
             verdict: TLC evaluates spec/macro/Macro.tla!Expand on the same tree and compares.
  Gen      - random term trees (AST shapes are documented in Macro.tla) + state changing preambles.
  Render   - term tree -> macro text, choosing among the concrete syntaxes of skool-macros.rst.
"""
import html
import io
import os
import random
import re
import sys
import shutil
import contextlib

from ..lib.common import REPO, MachineryError

LIM = 1 << 30
BO = 49152               # origin of the data block of every generated skool file
NBASE = 48               # bytes defined there by DEFB statements
NPOKE = 64               # addresses BO .. BO+NPOKE-1 are peeked and poked
MAXOUT = 260             # longest expansion accepted
MAXSRC = 900             # longest macro text accepted
SAFE_OUT = set(range(32, 127)) - {35, 38, 60, 62, 126, 94, 96}

BINOPS = ['+', '-', '*', '/', '%', '**', '&', '|', '^', '<<', '>>', '<', '>', '==', '!=', '<=', '>=', '&&', '||']
CMP = ['<', '>', '==', '!=', '<=', '>=']


class Reject(Exception):
    """The generated tree leaves the documented domain: draw another one."""


# ------------------------------------------------------------------------------------------------ AST helpers
def T(s):
    return {'t': 'Text', 's': [ord(c) for c in s]}


def Seq(xs):
    return {'t': 'Seq', 'xs': list(xs)}


def Lit(v):
    return {'o': 'lit', 'v': v}


def Var(n):
    return {'o': 'var', 'n': n}


def Bin(o, a, b):
    return {'o': o, 'a': a, 'b': b}


def P(*es):
    """positional parameter group; None = omitted"""
    return [{'k': i + 1, 'e': e} for i, e in enumerate(es) if e is not None]


def strip_private(x):
    """copy of the tree without the generator's private '_' annotations (what TLC gets)"""
    if isinstance(x, dict):
        return {k: strip_private(v) for k, v in x.items() if not k.startswith('_')}
    if isinstance(x, list):
        return [strip_private(v) for v in x]
    return x


def tags(x, acc=None):
    acc = set() if acc is None else acc
    if isinstance(x, dict):
        if 't' in x:
            acc.add(x['t'])
        if 'o' in x and x['o'] in ('m', 'pre', 'sub', 'var'):
            acc.add('e:' + x['o'])
        elif 'o' in x and x['o'] != 'lit':
            acc.add('op:' + x['o'])
        for v in x.values():
            tags(v, acc)
    elif isinstance(x, list):
        for v in x:
            tags(v, acc)
    return acc


# ---------------------------------------------------------------------------------------------------- shadow
def floordiv(a, b):
    return a // b


def apply_op(o, a, b):
    if o in ('/', '%') and b == 0:
        raise Reject('div0')
    if o == '**' and not 0 <= b <= 5:
        raise Reject('exp')
    if o in ('<<', '>>') and not 0 <= b <= 16:
        raise Reject('shift')
    if o == '+':
        r = a + b
    elif o == '-':
        r = a - b
    elif o == '*':
        r = a * b
    elif o == '/':
        r = a // b
    elif o == '%':
        r = a % b
    elif o == '**':
        r = a ** b
    elif o == '&':
        r = a & b
    elif o == '|':
        r = a | b
    elif o == '^':
        r = a ^ b
    elif o == '<<':
        r = a << b
    elif o == '>>':
        r = a >> b
    elif o == '<':
        r = int(a < b)
    elif o == '>':
        r = int(a > b)
    elif o == '==':
        r = int(a == b)
    elif o == '!=':
        r = int(a != b)
    elif o == '<=':
        r = int(a <= b)
    elif o == '>=':
        r = int(a >= b)
    elif o == '&&':
        r = int(a != 0 and b != 0)
    elif o == '||':
        r = int(a != 0 or b != 0)
    else:
        raise MachineryError('unknown operator ' + o)
    if abs(r) >= LIM:
        raise Reject('overflow')
    return r


def num(v, base, w, upper):
    if base == 16:
        d = '%X' % abs(v) if upper else '%x' % abs(v)
    elif base == 2:
        d = bin(abs(v))[2:]
    else:
        d = str(abs(v))
    return ('-' if v < 0 else '') + '0' * (w - len(d)) + d


class Env:
    def __init__(self, pc, base, case, bb):
        self.vars = {'base': base, 'case': case, 'mode[base]': base, 'mode[case]': case}
        self.svars = {}
        self.mem = {}
        self.stack = []
        self.defs = {}
        self.subs = {}
        self.pc = pc
        self.base = base
        self.case = case
        self.bb = bb
        self.steps = 0

    def read(self, a):
        if a in self.mem:
            return self.mem[a]
        if BO <= a < BO + len(self.bb):
            return self.bb[a - BO]
        return 0


class Shadow:
    def __init__(self, env):
        self.env = env
        self.taken = set()          # coverage notes, e.g. 'If:false', 'For:n=0'

    # -- expressions
    def p1(self, e, res):
        o = e['o']
        if o in ('lit', 'var', 'sub'):
            return
        if o == 'm':
            s = self.expand(e['x'])
            if not re.fullmatch(r'-?[0-9]+', s):
                raise Reject('nested macro output is not an integer: %r' % s)
            res[id(e)] = int(s)
        elif o == 'pre':
            if self.expand(e['x']) != '':
                raise Reject('pre output')
            self.p1(e['e'], res)
        else:
            self.p1(e['a'], res)
            self.p1(e['b'], res)

    def val(self, e, res):
        o = e['o']
        env = self.env
        if o == 'lit':
            v = e['v']
        elif o == 'var':
            if e['n'] not in env.vars:
                raise Reject('undefined var ' + e['n'])
            v = env.vars[e['n']]
        elif o == 'sub':
            b = env.subs.get(e['n'])
            if b is None or b[0] != 1:
                raise Reject('sub ' + e['n'])
            v = b[1]
        elif o == 'm':
            v = res[id(e)]
        elif o == 'pre':
            v = self.val(e['e'], res)
        else:
            a = self.val(e['a'], res)
            b = self.val(e['b'], res)
            if o in ('&&', '||') and not e.get('_truth') and (a not in (0, 1) or b not in (0, 1)):
                raise Reject('non-boolean operand of %s in a value context' % o)
            v = apply_op(o, a, b)
        if abs(v) >= LIM:
            raise Reject('big')
        if v < 0:
            e['_neg'] = True
        return v

    def params(self, g, defaults):
        res = {}
        for ent in g:
            self.p1(ent['e'], res)
        vals = list(defaults)
        for ent in g:
            vals[ent['k'] - 1] = self.val(ent['e'], res)
        return vals

    # -- terms
    def expand(self, x):
        env = self.env
        env.steps += 1
        if env.steps > 4000:
            raise Reject('too many steps')
        out = getattr(self, 'x_' + x['t'])(x)
        if len(out) > MAXOUT:
            raise Reject('output too long')
        return out

    def x_Text(self, x):
        return ''.join(chr(c) for c in x['s'])

    def x_Seq(self, x):
        return ''.join(self.expand(y) for y in x['xs'])

    def x_Sub(self, x):
        b = self.env.subs.get(x['n'])
        if b is None:
            raise Reject('unbound sub')
        if b[0] == 2:
            return self.expand(b[3])
        return b[2]

    def x_Eval(self, x):
        v, base, w = self.params(x['p'], [0, 10, 1])
        if base not in (2, 10, 16):
            raise Reject('base')
        if not 0 <= w <= 12 or (v < 0 and w > 1):
            raise Reject('width')            # sign + zero padding is not documented
        self.taken.add('Eval:base%d' % base)
        return num(v, base, w, self.env.case != 1)

    def x_N(self, x):
        v, hw, dw, affix, hx = self.params(x['p'], [0, -1, 1, 0, 0])
        if v < 0 or not 0 <= dw <= 8 or not -1 <= hw <= 8:
            raise Reject('N domain')
        env = self.env
        if env.base == 16 or (hx != 0 and env.base != 10):
            if hw == -1:
                hw = 2 if v < 256 else 4
            pre = self.x_Text({'s': x['pre']}) if affix else ''
            suf = self.x_Text({'s': x['suf']}) if affix else ''
            self.taken.add('N:hex')
            return pre + num(v, 16, hw, env.case != 1) + suf
        self.taken.add('N:dec')
        return num(v, 10, dw, False)

    def x_If(self, x):
        v, = self.params(x['p'], [0])
        self.taken.add('If:%s:%d' % (bool(v), x['nb']))
        if v:
            return self.expand(x['a'])
        if x['nb'] == 2:
            return self.expand(x['b'])
        return ''

    def x_Map(self, x):
        key, = self.params(x['p'], [0])
        keys = [self.params([{'k': 1, 'e': kv['k']}], [0])[0] for kv in x['ks']]
        if len(set(keys)) != len(keys):
            raise Reject('duplicate map keys')           # which pair wins is not documented
        for kv, k in zip(x['ks'], keys):
            if k == key:
                self.taken.add('Map:hit')
                return self.expand(kv['v'])
        self.taken.add('Map:default')
        return self.expand(x['d'])

    def loop(self, bs, x, sep, subs_in_sep):
        env = self.env
        out = []
        n = len(bs)
        for i, b in enumerate(bs):
            old = dict(env.subs)
            env.subs[x['var']] = b
            out.append(self.expand(x['body']))
            env.subs = old
            if i < n - 1:
                if x['hasf'] == 1 and i == n - 2:
                    out.append(self.expand(x['fsep']))
                elif subs_in_sep:
                    old = dict(env.subs)
                    env.subs[x['var']] = b
                    out.append(self.expand(sep))
                    env.subs = old
                else:
                    out.append(self.expand(sep))
        return ''.join(out)

    def x_For(self, x):
        start, stop, step, flags = self.params(x['p'], [0, 0, 1, 0])
        if step == 0 or not 0 <= flags <= 7:
            raise Reject('For domain')
        rng = list(range(start, stop + (1 if step > 0 else -1), step))
        if len(rng) > 9:
            raise Reject('long loop')
        if rng and min(rng) < 0:
            x['_negvar'] = True
        sep = x['sep']
        if flags & 1:
            sep = Seq([T(','), sep])
        if flags & 2:
            sep = Seq([sep, T(',')])
        self.taken.add('For:n=%d' % min(len(rng), 3))
        self.taken.add('For:flags=%d' % flags)
        return self.loop([(1, v, str(v), None) for v in rng], x, sep, bool(flags & 4))

    def x_Foreach(self, x):
        bs = []
        for it in x['items']:
            if it['kind'] == 1:
                bs.append((1, it['iv'], str(it['iv']), None))
                if it['iv'] < 0:
                    x['_negvar'] = True
            else:
                bs.append((0, 0, ''.join(chr(c) for c in it['s']), None))
        self.taken.add('Foreach:n=%d' % min(len(bs), 3))
        return self.loop(bs, x, x['sep'], False)

    def x_While(self, x):
        out = ''
        for i in range(10):
            v, = self.params([{'k': 1, 'e': x['c']}], [0])
            if not v:
                self.taken.add('While:n=%d' % min(i, 2))
                return out
            out += self.expand(x['body']).strip(' ')
        raise Reject('while does not terminate quickly')

    def x_Let(self, x):
        v, = self.params([{'k': 1, 'e': x['e']}], [0])
        self.env.vars[x['n']] = v
        return ''

    def x_LetS(self, x):
        self.env.svars[x['n']] = self.expand(x['v'])
        return ''

    def x_Format(self, x):
        case, = self.params(x['p'], [0])
        if case not in (0, 1, 2):
            raise Reject('case')
        out = ''
        for p in x['parts']:
            if p['f'] == 0:
                out += ''.join(chr(c) for c in p['s'])
            elif p['f'] == 2:
                if p['n'] not in self.env.svars:
                    raise Reject('format string var')
                out += self.env.svars[p['n']]
            else:
                if p['n'] not in self.env.vars:
                    raise Reject('format var')
                v = self.env.vars[p['n']]
                if v < 0 and (p['w'] > 1 or p['ty'] in ('x', 'X', 'b')):
                    raise Reject('negative formatted value')
                d = num(v, {'x': 16, 'X': 16, 'b': 2}.get(p['ty'], 10), 1, p['ty'] == 'X')
                out += ('0' if p['z'] else ' ') * (p['w'] - len(d)) + d
        if case == 1:
            out = out.lower()
        elif case == 2:
            out = out.upper()
        return out

    def x_Def(self, x):
        self.env.defs[x['n']] = x
        return ''

    def x_Call(self, x):
        env = self.env
        d = env.defs.get(x['n'])
        if d is None:
            raise Reject('undefined macro')
        given = {ent['k'] for ent in x['p']}
        for i, ip in enumerate(d['ip']):
            if not ip['hasd'] and i + 1 not in given:
                raise Reject('missing argument')
        vals = self.params(x['p'], [ip['d'] for ip in d['ip']])
        if len(x['sa']) > len(d['sp']) or any(not sp['hasd'] for sp in d['sp'][len(x['sa']):]):
            raise Reject('string args')
        old = dict(env.subs)
        for ip, v in zip(d['ip'], vals):
            env.subs[ip['n']] = (1, v, str(v), None)
            if v < 0:
                d['_negp'] = d.get('_negp', set()) | {ip['n']}
        for i, sp in enumerate(d['sp']):
            env.subs[sp['n']] = (2, 0, '', x['sa'][i] if i < len(x['sa']) else sp['d'])
        out = self.expand(d['body'])
        env.subs = old
        if d['flags'] & 2:
            out = out.strip(' ')
        return out

    def addr(self, a):
        if not BO <= a < BO + NPOKE:
            raise Reject('address outside the data block')
        return a

    def x_Peek(self, x):
        a, = self.params(x['p'], [0])
        return str(self.env.read(self.addr(a)))

    def x_Pokes(self, x):
        for g in x['gs']:
            a, v, n, s = self.params(g, [0, 0, 1, 1])
            if not (0 <= v <= 255 and 1 <= n <= 6 and 1 <= s <= 8):
                raise Reject('pokes domain')
            for i in range(n):
                self.env.mem[self.addr(a + i * s)] = v
        return ''

    def x_Pushs(self, x):
        if len(self.env.stack) >= 3:
            raise Reject('deep stack')
        self.env.stack.append(dict(self.env.mem))
        return ''

    def x_Pops(self, x):
        if not self.env.stack:
            raise Reject('empty stack')
        self.env.mem = self.env.stack.pop()
        return ''

    def x_Chr(self, x):
        c, flags = self.params(x['p'], [0, 0])
        if not 0 <= flags <= 3:
            raise Reject('chr flags')
        if flags & 2:
            c = {94: 8593, 96: 163, 127: 169}.get(c, c)
        if not chr_ok(c):
            raise Reject('chr code')
        return chr(c)

    def x_Str(self, x):
        a, flags, length = self.params(x['p'], [0, 0, -1])
        if not 0 <= flags <= 15 or length > 40:
            raise Reject('str domain')
        env = self.env
        data = []
        if length >= 0:
            data = [env.read(self.addr(a + i)) for i in range(length)]
        else:
            while True:
                b = env.read(self.addr(a))
                if flags & 8:
                    old = dict(env.subs)
                    env.subs['b'] = (1, b, str(b), None)
                    v, = self.params([{'k': 1, 'e': x['end']}], [0])
                    env.subs = old
                    if v:
                        break
                    if b == 0 or b >= 128:
                        raise Reject('unclear whether 0 / bit 7 also terminate')
                elif b == 0:
                    break
                elif b & 128:
                    data.append(b & 127)
                    break
                data.append(b)
                a += 1
        if any(b not in SAFE_OUT for b in data):
            raise Reject('unsafe character in memory string')
        s = ''.join(chr(b) for b in data)
        if flags & 1:
            s = s.rstrip(' ')
        if flags & 2:
            s = s.lstrip(' ')
        for bit in (1, 2, 4, 8):
            if flags & bit:
                self.taken.add('Str:bit%d' % bit)
        self.taken.add('Str:len' if length >= 0 else 'Str:scan')
        return s

    def x_Space(self, x):
        n, = self.params(x['p'], [1])
        if not 0 <= n <= 12:
            raise Reject('space')
        return ' ' * n

    def x_Pc(self, x):
        return str(self.env.pc)

    def x_Pre(self, x):
        m = x['x']
        t = m['t']
        res = {}
        # every nested macro is expanded first, in textual order; then the macro itself
        if t in ('Eval', 'Peek', 'Chr', 'Space', 'N'):
            for ent in m['p']:
                self.p1(ent['e'], res)
            vals = {'Eval': [0, 10, 1], 'Peek': [0], 'Chr': [0, 0], 'Space': [1], 'N': [0, -1, 1, 0, 0]}[t]
            for ent in m['p']:
                vals[ent['k'] - 1] = self.val(ent['e'], res)
            m2 = dict(m)
            m2['p'] = [{'k': i + 1, 'e': Lit(v)} for i, v in enumerate(vals)]
            return self.expand(m2)
        if t == 'Let':
            self.p1(m['e'], res)
            self.env.vars[m['n']] = self.val(m['e'], res)
            return ''
        if t == 'If':
            for ent in m['p']:
                self.p1(ent['e'], res)
            a = self.expand(m['a'])
            b = self.expand(m['b']) if m['nb'] == 2 else ''
            v = self.val(m['p'][0]['e'], res)
            self.taken.add('Pre:If')
            return a if v else b
        if t == 'Map':
            for ent in m['p']:
                self.p1(ent['e'], res)
            d = self.expand(m['d'])
            kvs = []
            for kv in m['ks']:
                r2 = {}
                self.p1(kv['k'], r2)
                kvs.append((kv['k'], r2, self.expand(kv['v'])))
            key = self.val(m['p'][0]['e'], res)
            keys = [self.val(k, r2) for k, r2, v in kvs]
            if len(set(keys)) != len(keys):
                raise Reject('duplicate map keys')
            self.taken.add('Pre:Map')
            for (k, r2, v), kk in zip(kvs, keys):
                if kk == key:
                    return v
            return d
        raise Reject('Pre of ' + t)


def chr_ok(c):
    if c in (35, 38, 60, 62, 126, 40, 41, 44, 91, 93, 123, 125, 58, 36):
        return False
    return 33 <= c <= 125 or 161 <= c <= 255 or c in (8593, 960, 8364, 9731)


# ------------------------------------------------------------------------------------------------- generator
VARNAMES = ['a', 'b', 'c', 'k', 'x', 'y', 'cnt', 'idx', 'lo', 'hi', 'v1', 't_2']
DEFNAMES = ['ZA', 'ZB', 'QQ', 'MIN', 'ADDX', 'TWICE', 'W']
PARAMNAMES = ['p', 'q', 'r', 's', 't', 'u', 'w', 'z']      # not hex digits: "$a" must not look like a number
LOW = 'abcdefghijklmnopqrstuvwxyz'
UPC = 'ABCDEFGHXYZ'
DIG = '0123456789'
PUNCT = " .:;!?-+*=/_'\"&<>|^%@"
CHR_CODES = [65, 66, 90, 97, 122, 48, 57, 33, 43, 45, 61, 63, 64, 95, 124, 47, 34, 39, 169, 163, 233, 255, 161,
             8593, 960, 8364, 9731, 94, 96, 127]

# strings in the data block: (offset, bytes); every file gets them at fixed offsets, so that #STR can aim
STRINGS = [
    (0, [ord(c) for c in 'hello world'] + [0]),
    (12, [ord(c) for c in 'Two'[:-1]] + [ord('o') + 128]),
    (15, [ord(c) for c in '  pad  two   x  '] + [0]),
    (32, [ord(c) for c in 'Three!'] + [255]),
    (39, [ord(c) for c in 'a=b+c'] + [13]),
    (45, [7, 0, 200]),
]


def base_bytes(rng):
    bb = [0] * NBASE
    for off, bs in STRINGS:
        bb[off:off + len(bs)] = bs
    # a little variety that keeps the terminators in place
    for i in (1, 2, 3, 4, 33, 34, 40):
        if rng.random() < 0.3:
            bb[i] = rng.choice([ord(c) for c in LOW + DIG + ' .-'])
    return bb[:NBASE]


class Gen:
    def __init__(self, rng, maxdepth=4):
        self.r = rng
        self.maxdepth = maxdepth
        self.vars = []
        self.svars = []
        self.locked = set()
        self.defs = {}            # name -> (def node, kind 'int' | 'text')
        self.isubs = []           # integer substitutions in scope (symbolic names)
        self.nsym = 0
        self.pushdepth = 0
        self.memops = True
        self.inloop = 0

    # ---- text
    def text(self, lo=1, hi=8, alpha=None, edge=False):
        r = self.r
        alpha = alpha or r.choice([LOW, LOW + ' ', LOW + DIG + ' ', LOW + UPC + DIG + PUNCT, PUNCT + LOW, DIG, LOW + DIG + "&<> ;"])
        n = r.randint(lo, hi)
        s = ''.join(r.choice(alpha) for _ in range(n))
        if edge and n:
            nonsp = [c for c in alpha if c != ' '] or ['x']
            s = r.choice(nonsp) + s[1:-1] + (r.choice(nonsp) if n > 1 else '')
        return s

    # ---- expressions
    def lit(self):
        r = self.r
        c = r.random()
        if c < .5:
            return Lit(r.randint(0, 12))
        if c < .78:
            return Lit(r.randint(0, 300))
        if c < .88:
            return Lit(-r.randint(1, 40))
        if c < .96:
            return Lit(r.choice([255, 256, 1023, 4096, 65535, 65536, 1 << 20, -(1 << 20), 49152, 32767, -32768]))
        return Lit(r.randint(-(1 << 20), 1 << 20))

    def atom(self, d):
        r = self.r
        c = r.random()
        if c < .38 or (not self.vars and not self.isubs and d <= 0):
            return self.lit()
        if c < .62 and self.vars:
            return Var(r.choice(self.vars + ['base', 'case', 'mode[base]', 'mode[case]'][:r.choice([0, 0, 0, 4])] or self.vars))
        if c < .75 and self.isubs:
            return {'o': 'sub', 'n': r.choice(self.isubs)}
        if d > 0 and c < .93:
            return {'o': 'm', 'x': self.int_term(d - 1)}
        if d > 0 and self.vars and c < .97:
            free = [v for v in self.vars if v not in self.locked]
            if free:
                n = r.choice(free)
                return {'o': 'pre', 'x': {'t': 'Let', 'n': n, 'e': self.expr(0, 1)}, 'e': Var(n)}
        return self.lit()

    def expr(self, d, ed=2, kind='int'):
        """d: macro nesting budget, ed: operator nesting budget"""
        r = self.r
        if kind == 'truth':
            c = r.random()
            if ed > 0 and c < .3:
                e = Bin(r.choice(['&&', '||']), self.expr(d, ed - 1, 'truth'), self.expr(d, ed - 1, 'truth'))
                e['_truth'] = True
                return e
            if c < .75:
                return self.expr(d, ed, 'bool')
            return self.expr(d, ed, 'int')
        if kind == 'bool':
            c = r.random()
            if ed > 0 and c < .2:
                return Bin(r.choice(['&&', '||']), self.expr(d, ed - 1, 'bool'), self.expr(d, ed - 1, 'bool'))
            if ed > 0 and c < .92:
                return Bin(r.choice(CMP), self.expr(d, ed - 1), self.expr(d, ed - 1))
            return Lit(r.randint(0, 1))
        if ed <= 0 or r.random() < .3:
            return self.atom(d)
        free = [v for v in self.vars if v not in self.locked]
        if d > 0 and free and r.random() < .04:
            # {n} written to the left of a #LET(n=...) nested in the same parameter string still sees the new value
            n = r.choice(free)
            return Bin(r.choice(['+', '-', '*', '|']), Var(n), {'o': 'pre', 'x': {'t': 'Let', 'n': n, 'e': self.expr(0, 1)}, 'e': self.atom(0)})
        o = r.choice(['+', '+', '-', '-', '*', '*', '/', '%', '**', '&', '|', '^', '<<', '>>', 'cmp', 'bool'])
        if o == 'cmp':
            return Bin(r.choice(CMP), self.expr(d, ed - 1), self.expr(d, ed - 1))
        if o == 'bool':
            return self.expr(d, ed, 'bool')
        a = self.expr(d, ed - 1)
        if o in ('/', '%'):
            b = Lit(r.choice([1, 2, 3, 5, 7, 8, 10, 16, 100, 256, -1, -2, -3, -7])) if r.random() < .8 else self.expr(d, ed - 1)
        elif o == '**':
            a = self.atom(0) if r.random() < .7 else a
            b = Lit(r.randint(0, 5)) if r.random() < .9 else Bin('%', self.atom(0), Lit(4))
        elif o in ('<<', '>>'):
            b = Lit(r.randint(0, 10)) if r.random() < .9 else Bin('&', self.atom(0), Lit(7))
        elif o == '*':
            b = Lit(r.randint(-9, 20)) if r.random() < .6 else self.expr(d, ed - 1)
        else:
            b = self.expr(d, ed - 1)
        return Bin(o, a, b)

    def small(self, d, mod):
        """an expression with a value in 0..mod-1 whatever its operands are"""
        r = self.r
        c = r.random()
        if c < .45:
            return Lit(r.randrange(mod))
        if c < .8 or mod & (mod - 1):
            return Bin('%', self.expr(d, 1), Lit(mod))
        return Bin('&', self.expr(d, 1), Lit(mod - 1))

    def addr(self, d, span=16):
        r = self.r
        base = BO + r.choice([0, 0, 12, 15, 32, 39, 45, 48, 50, NPOKE - span])
        base = min(base, BO + NPOKE - span)
        c = r.random()
        if c < .5:
            return Lit(base + r.randrange(span))
        return Bin('+', Lit(base), self.small(d, span))

    # ---- terms that expand to an integer
    def int_term(self, d):
        r = self.r
        c = r.random()
        if d <= 0:
            c = c * .45
        if c < .25:
            return {'t': 'Eval', 'p': P(self.expr(d, 2))}
        if c < .40:
            return {'t': 'Peek', 'p': P(self.addr(d))}
        if c < .45:
            return {'t': 'Pc'} if r.random() < .5 or not self.isubs else {'t': 'Sub', 'n': r.choice(self.isubs)}
        if c < .65:
            return self.if_(d, self.int_leaf)
        if c < .8:
            return self.map_(d, self.int_leaf)
        idefs = [n for n, (dn, k) in self.defs.items() if k == 'int']
        if c < .92 and idefs:
            return self.call(d, r.choice(idefs))
        return {'t': 'Eval', 'p': P(self.expr(d, 2))}

    def int_leaf(self, d):
        if d > 0 and self.r.random() < .5:
            return self.int_term(d)
        return T(str(self.r.randint(0, 99)))

    def if_(self, d, leaf):
        r = self.r
        nb = r.choice([1, 1, 2, 2, 2])
        x = {'t': 'If', 'p': P(self.expr(d - 1, 2, 'truth')), 'a': leaf(d - 1), 'b': T(''), 'nb': nb}
        if nb == 2:
            x['b'] = leaf(d - 1)
        elif leaf == self.int_leaf:
            x['nb'] = 2
            x['b'] = leaf(d - 1)
        return x

    def map_(self, d, leaf):
        r = self.r
        n = r.randint(0, 4)
        keys = r.sample(range(0, 12), n)
        ks = []
        for k in keys:
            ke = Lit(k)
            c = r.random()
            if c < .2 and k > 1:
                ke = Bin('+', Lit(k - 1), Lit(1))
            elif c < .3:
                ke = Bin('*', Lit(k), Lit(1))
            elif c < .35:
                ke = Bin('-', Lit(k + 300), Lit(300))
            ks.append({'k': ke, 'v': leaf(d - 1)})
        c = r.random()
        if c < .45 and keys:
            key = Lit(r.choice(keys)) if r.random() < .5 else Bin('+', Lit(r.choice(keys) - 3), Lit(3))
        elif c < .85:
            key = self.small(d - 1, 12)
        else:
            key = self.expr(d - 1, 2)
        return {'t': 'Map', 'p': P(key), 'd': leaf(d - 1), 'ks': ks}

    def call(self, d, name):
        r = self.r
        dn, kind = self.defs[name]
        ents = []
        for i, ip in enumerate(dn['ip']):
            if ip['hasd'] and r.random() < .4:
                continue
            ents.append({'k': i + 1, 'e': self.expr(d - 1, 1) if r.random() < .7 else self.lit()})
        if r.random() < .4:
            r.shuffle(ents)              # keyword arguments in any order
        nreq = len([sp for sp in dn['sp'] if not sp['hasd']])
        nsa = r.randint(nreq, len(dn['sp']))
        sa = [self.inline(d - 1, 2) for _ in range(nsa)]
        return {'t': 'Call', 'n': name, 'p': ents, 'sa': sa}

    # ---- general terms
    def leaf(self, d):
        return T(self.text(0, 6))

    def inline(self, d, n=2):
        """a short piece of text possibly containing macros"""
        r = self.r
        xs = []
        for _ in range(r.randint(1, n)):
            if r.random() < .45 or d <= 0:
                xs.append(T(self.text(0, 5)))
            else:
                xs.append(self.term(d))
        return xs[0] if len(xs) == 1 else Seq(xs)

    def edged(self, d, n=3, stmts=True):
        """body for #WHILE / #DEF: begins and ends with visible literal text or a number"""
        xs = [T(self.text(1, 3, LOW + DIG + '.:!', edge=True))]
        for _ in range(self.r.randint(0, n)):
            xs.append(self.stmt_or_term(d) if stmts else self.term(d))
        xs.append(T(self.text(1, 3, LOW + DIG + '.:!', edge=True)))
        return Seq(xs)

    def term(self, d):
        r = self.r
        if d <= 0:
            return r.choice([self.leaf, self.t_eval, self.t_n, self.t_peek, self.t_chr, self.t_space, self.t_pc,
                             self.t_format, self.t_str])(0)
        f = r.choice([self.t_eval, self.t_n, self.t_n, self.t_if, self.t_if, self.t_map, self.t_map, self.t_for, self.t_for,
                      self.t_for, self.t_foreach, self.t_foreach, self.t_while, self.t_while, self.t_format, self.t_format,
                      self.t_peek, self.t_chr, self.t_chr, self.t_str, self.t_str, self.t_space, self.t_pc, self.t_call,
                      self.t_call, self.t_call, self.t_pre, self.t_pre, self.t_pre, self.t_sub, self.int_term])
        return f(d)

    def t_sub(self, d):
        if self.isubs:
            return {'t': 'Sub', 'n': self.r.choice(self.isubs)}
        return self.t_eval(d)

    def t_eval(self, d):
        r = self.r
        e = self.expr(d - 1, r.choice([1, 2, 2, 3]))
        base = width = None
        c = r.random()
        if c < .5:
            base = Lit(r.choice([2, 10, 16, 16]))
            if r.random() < .15:
                base = Bin('+', Lit(8), Lit(8))
            if r.random() < .6:
                width = Lit(r.randint(1, 9))
            if r.random() < .5:
                e = Bin('&', e, Lit(r.choice([255, 65535, 15])))
        elif c < .6:
            width = Lit(r.randint(1, 6))
            e = Bin('&', e, Lit(65535))
        return {'t': 'Eval', 'p': P(e, base, width)}

    def t_n(self, d):
        r = self.r
        v = Bin('&', self.expr(d - 1, 2), Lit(r.choice([255, 65535, 4095, (1 << 20) - 1]))) if r.random() < .6 else Lit(r.choice(
            [0, 5, 15, 16, 255, 256, 4660, 65535, 65536, 1000000]))
        hw = Lit(r.randint(1, 6)) if r.random() < .4 else None
        dw = Lit(r.randint(1, 6)) if r.random() < .4 else None
        affix = r.choice([None, None, Lit(0), Lit(1), Lit(1)])
        hx = r.choice([None, Lit(0), Lit(1), Lit(1)])
        x = {'t': 'N', 'p': P(v, hw, dw, affix, hx), 'pre': [], 'suf': [], 'nsuf': 0}
        if affix is not None and affix['v'] == 1:
            x['pre'] = [ord(c) for c in r.choice(['0x', '$', '', '&', 'h ', '<'])]
            x['nsuf'] = r.choice([0, 1])
            if x['nsuf']:
                x['suf'] = [ord(c) for c in r.choice(['h', '', ' hex', '>'])]
        return x

    def t_if(self, d):
        return self.if_(d, lambda dd: self.inline(dd, 2))

    def t_map(self, d):
        return self.map_(d, lambda dd: self.inline(dd, 1))

    def sym(self):
        self.nsym += 1
        return 'L%d' % self.nsym

    def t_for(self, d):
        r = self.r
        var = self.sym()
        start = Lit(r.randint(-3, 9)) if r.random() < .7 else self.small(d - 1, 5)
        step = Lit(r.choice([1, 1, 1, 2, 3, -1, -2]))
        n = r.choice([0, 1, 2, 2, 3, 3, 4, 6])
        if isinstance(start.get('v'), int) and r.random() < .8:
            stop = Lit(start['v'] + step['v'] * (n - 1) + (r.choice([0, 0, 1]) if abs(step['v']) > 1 else 0)) if n else Lit(start['v'] - step['v'])
        else:
            stop = Bin('+', start, Lit(r.randint(-1, 4))) if r.random() < .5 else Lit(r.randint(-2, 8))
        flags = r.choice([None, None, 0, 1, 2, 3, 4, 5, 6, 7, 1, 2, 3, 5, 6, 7])
        self.isubs.append(var)
        body = self.loop_body(d, var)
        sep = T(self.text(0, 3, " ;.+-|/:&<>\'\""))
        if flags is not None and flags & 4 and r.random() < .7:
            sep = Seq([sep, {'t': 'Sub', 'n': var}, T(r.choice(['', ':', ' ']))])
        self.isubs.pop()
        hasf = r.choice([0, 0, 1])
        fsep = T(self.text(0, 5, LOW + ' +&<\'')) if hasf else T('')
        p = P(start, stop, step if (step['v'] != 1 or r.random() < .3 or flags is not None) else None,
              Lit(flags) if flags is not None else None)
        if flags is not None and r.random() < .4:
            p = [e for e in p if not (e['k'] == 3 and step['v'] == 1)]       # "1,3,,1"
        return {'t': 'For', 'p': p, 'var': var, 'body': body, 'sep': sep, 'fsep': fsep, 'hasf': hasf}

    def loop_body(self, d, var):
        r = self.r
        xs = []
        for _ in range(r.randint(1, 3)):
            c = r.random()
            if c < .3:
                xs.append({'t': 'Sub', 'n': var})
            elif c < .5:
                xs.append(T(self.text(0, 3)))
            elif c < .6 and self.vars:
                xs.append(self.t_let(d - 1))
            else:
                xs.append(self.term(d - 1))
        return xs[0] if len(xs) == 1 else Seq(xs)

    def t_foreach(self, d):
        r = self.r
        var = self.sym()
        n = r.choice([1, 2, 2, 3, 3, 4])
        if r.random() < .5:
            items = [{'kind': 1, 'iv': r.randint(-5, 60), 's': []} for _ in range(n)]
            if r.random() < .3:
                items = [{'kind': 1, 'iv': BO + r.randrange(NPOKE), 's': []} for _ in range(n)]
            self.isubs.append(var)
            body = self.loop_body(d, var)
            self.isubs.pop()
        else:
            items = [{'kind': 0, 'iv': 0, 's': [ord(c) for c in self.text(0, 5, LOW + DIG + ' +-.&<>\'')]} for _ in range(n)]
            xs = [{'t': 'Sub', 'n': var}]
            if r.random() < .6:
                xs.insert(r.randint(0, 1), self.inline(d - 1, 1))
            body = Seq(xs) if len(xs) > 1 else xs[0]
        hasf = r.choice([0, 0, 1])
        return {'t': 'Foreach', 'items': items, 'var': var, 'body': body, 'sep': T(self.text(0, 3, " ;.+-|/:&<>\'\"")),
                'fsep': T(self.text(0, 5, LOW + ' +&<\'')) if hasf else T(''), 'hasf': hasf}

    def t_while(self, d):
        r = self.r
        free = [v for v in self.vars if v not in self.locked]
        if not free:
            return self.t_eval(d)
        cv = r.choice(free)
        n = r.choice([0, 1, 2, 3])
        self.locked.add(cv)
        body = self.edged(d - 1, 2)
        self.locked.discard(cv)
        c = r.random()
        if c < .4:
            cond = Bin('>', Var(cv), Lit(0))
            step = Bin('-', Var(cv), Lit(1))
        elif c < .7:
            cond = Var(cv)
            step = Bin('-', Var(cv), Lit(1))
        elif c < .85:
            cond = Bin('!=', Var(cv), Lit(0))
            step = Bin('/', Var(cv), Lit(2))
        else:
            cond = Bin('<', Bin('-', Lit(n), Var(cv)), Lit(n))
            step = Bin('-', Var(cv), Lit(1))
        cond['_truth'] = True
        body['xs'].insert(r.randint(1, len(body['xs']) - 1), {'t': 'Let', 'n': cv, 'e': step})
        return Seq([{'t': 'Let', 'n': cv, 'e': Lit(n)}, {'t': 'While', 'c': cond, 'body': body}])

    def t_let(self, d):
        free = [v for v in self.vars if v not in self.locked]
        if not free:
            return T('')
        return {'t': 'Let', 'n': self.r.choice(free), 'e': self.expr(d, 2)}

    def t_format(self, d):
        r = self.r
        parts = []
        for _ in range(r.randint(1, 4)):
            if r.random() < .4 or not self.vars:
                parts.append({'f': 0, 's': [ord(c) for c in self.text(1, 4, LOW + UPC + DIG + ' .:=&<')]})
            elif self.svars and r.random() < .3:
                parts.append({'f': 2, 'n': r.choice(self.svars), 'z': 0, 'w': 0, 'ty': '', 's': []})
            else:
                ty = r.choice(['', '', 'd', 'x', 'X', 'b'])
                w = r.choice([0, 0, 2, 4, 5, 8])
                parts.append({'f': 1, 'n': r.choice(self.vars), 'z': r.choice([0, 1]) if w else 0, 'w': w, 'ty': ty, 's': []})
        case = r.choice([None, None, 0, 1, 2])
        return {'t': 'Format', 'p': P(Lit(case) if case is not None else None), 'parts': parts}

    def t_peek(self, d):
        return {'t': 'Peek', 'p': P(self.addr(d - 1))}

    def t_chr(self, d):
        r = self.r
        c = r.choice(CHR_CODES)
        num_ = Lit(c) if r.random() < .7 else Bin('+', Lit(65), self.small(d - 1, 26))
        flags = r.choice([None, None, 0, 1, 2, 3])
        return {'t': 'Chr', 'p': P(num_, Lit(flags) if flags is not None else None)}

    def t_str(self, d):
        r = self.r
        off, bs = r.choice(STRINGS[:5])
        k = r.random()
        a = Lit(BO + off + r.choice([0, 0, 0, 1, 2]))
        if k < .2:
            a = Bin('+', Lit(BO), Lit(off))
        term_ = bs[-1]
        flags = r.choice([0, 0, 1, 2, 3, 4, 5, 6, 7])
        end = Lit(0)
        length = None
        if term_ in (255, 13) or r.random() < .15:
            flags |= 8
            c = r.random()
            if term_ == 255:
                end = Bin('==', {'o': 'sub', 'n': 'b'}, Lit(255)) if c < .6 else Bin('>', {'o': 'sub', 'n': 'b'}, Lit(127))
            elif term_ == 13:
                end = Bin('<', {'o': 'sub', 'n': 'b'}, Lit(32)) if c < .6 else Bin('==', {'o': 'sub', 'n': 'b'}, Lit(13))
            else:
                end = Bin('==', {'o': 'sub', 'n': 'b'}, Lit(r.choice([32, ord('o'), ord('l')])))
            end['_truth'] = True
        if r.random() < .25:
            length = Lit(r.randint(0, len(bs) - 1))
            flags &= 7
        x = {'t': 'Str', 'p': P(a, Lit(flags) if (flags or length is not None or r.random() < .2) else None, length), 'end': end,
             'hasend': 1 if (flags & 8 and length is None) else 0}
        return x

    def t_space(self, d):
        r = self.r
        c = r.random()
        if c < .25:
            return {'t': 'Space', 'p': []}
        if c < .8:
            return {'t': 'Space', 'p': P(Lit(r.randint(0, 6)))}
        return {'t': 'Space', 'p': P(self.small(d - 1, 5))}

    def t_pc(self, d):
        return {'t': 'Pc'}

    def t_call(self, d):
        if not self.defs:
            return self.t_eval(d)
        return self.call(d, self.r.choice(sorted(self.defs)))

    def t_pre(self, d):
        r = self.r
        c = r.random()
        if c < .35:
            m = self.t_eval(d)
        elif c < .45:
            m = self.t_peek(d)
        elif c < .5:
            m = self.t_chr(d)
        elif c < .55:
            m = {'t': 'Space', 'p': P(self.small(d - 1, 5))}
        elif c < .62 and self.vars:
            m = self.t_let(d - 1)
            if m['t'] != 'Let':
                m = self.t_eval(d)
        elif c < .82:
            m = self.if_(d, lambda dd: self.pure_inline(dd))
        else:
            m = self.map_(d, lambda dd: self.pure_inline(dd))
            if r.random() < .6:
                for kv in m['ks']:          # keys written with skool macros: the documented reason for #()
                    if r.random() < .6:
                        kv['k'] = {'o': 'm', 'x': {'t': 'Eval', 'p': P(kv['k'])}}
        return {'t': 'Pre', 'x': m}

    def pure_inline(self, d):
        """pre-expanded output strings: macros whose output contains no commas, brackets or colons"""
        r = self.r
        c = r.random()
        if c < .4 or d <= 0:
            return T(self.text(0, 5, LOW + DIG + ' .&<'))
        if c < .7:
            return self.t_eval(d)
        if c < .85:
            return self.t_n(d) if r.random() < .5 else self.t_peek(d)
        return Seq([T(self.text(0, 2, LOW)), self.t_eval(d)])

    # ---- statements
    def t_pokes(self, d):
        r = self.r
        gs = []
        for _ in range(r.choice([1, 1, 2, 3])):
            n = r.choice([None, None, 1, 2, 3, 4])
            step = r.choice([None, 1, 2, 3]) if n else None
            span = (n or 1) * (step or 1)
            a = self.addr(d, 16)
            if isinstance(a.get('v'), int):
                a = Lit(min(a['v'], BO + NPOKE - span))
            elif span > 1:
                a = Lit(BO + r.randrange(NPOKE - span))
            v = Lit(r.randint(0, 255)) if r.random() < .6 else Bin('&', self.expr(d, 1), Lit(255))
            if r.random() < .15:
                v = Lit(r.choice([ord(c) for c in LOW + ' ']))
            gs.append(P(a, v, Lit(n) if n else None, Lit(step) if step else None))
        return {'t': 'Pokes', 'gs': gs}

    def t_def(self, name):
        r = self.r
        kind = r.choice(['int', 'int', 'text'])
        nip = r.choice([0, 1, 1, 2, 2, 3])
        names = r.sample(PARAMNAMES, nip)
        ip = []
        seen_default = False
        for n in names[:nip]:
            hasd = 1 if (seen_default or r.random() < .35) else 0
            seen_default = seen_default or bool(hasd)
            ip.append({'n': n, 'd': r.randint(0, 20) if hasd else 0, 'hasd': hasd})
        sp = []
        if kind == 'text' and r.random() < .7:
            for sn in r.sample([n for n in PARAMNAMES if n not in names[:nip]], r.choice([1, 1, 2])):
                hasd = 1 if (sp and sp[-1]['hasd']) or r.random() < .4 else 0
                dflt = T('')
                if hasd:
                    c = r.random()
                    dflt = T(self.text(0, 4, LOW + DIG + '.-'))
                    if c < .4 and ip:
                        # "their default values may refer to the integer argument values"
                        dflt = Seq([dflt, {'t': 'Sub', 'n': ip[0]['n']}])
                sp.append({'n': sn, 'hasd': hasd, 'd': dflt})
        flags = r.choice([0, 0, 1, 2, 3])
        saved = self.isubs
        self.isubs = [p['n'] for p in ip]
        if kind == 'int':
            e = self.expr(1, 2) if ip else self.expr(1, 1)
            if ip and r.random() < .8:
                e = Bin(r.choice(['+', '*', '-', '&']), {'o': 'sub', 'n': ip[0]['n']}, e)
            if r.random() < .3 and len(ip) > 1:
                a, b = {'o': 'sub', 'n': ip[0]['n']}, {'o': 'sub', 'n': ip[1]['n']}
                cond = Bin('<', a, b)
                cond['_truth'] = True
                body = {'t': 'If', 'p': P(cond), 'a': {'t': 'Sub', 'n': ip[0]['n']}, 'b': {'t': 'Sub', 'n': ip[1]['n']}, 'nb': 2}
            else:
                body = {'t': 'Eval', 'p': P(e)}
        else:
            xs = [T(self.text(1, 3, LOW + DIG + '.:!', edge=True))]
            for _ in range(r.randint(0, 2)):
                xs.append(self.term(1))
            for q in sp:
                xs.insert(r.randint(1, len(xs)), {'t': 'Sub', 'n': q['n']})
            if ip:
                xs.insert(r.randint(1, len(xs)), {'t': 'Sub', 'n': ip[0]['n']})
            if r.random() < .25 and self.vars:
                xs.insert(r.randint(1, len(xs)), self.t_let(1))
            xs.append(T(self.text(1, 3, LOW + DIG + '.:!', edge=True)))
            body = Seq(xs)
        self.isubs = saved
        x = {'t': 'Def', 'n': name, 'flags': flags, 'ip': ip, 'sp': sp, 'body': body, 'hasflags': r.choice([0, 1]) if flags == 0 else 1}
        self.defs[name] = (x, kind)
        return x

    def stmt_or_term(self, d):
        r = self.r
        c = r.random()
        if c < .2 and self.vars:
            return self.t_let(d)
        if c < .35 and self.memops:
            return self.t_pokes(d)
        if c < .45 and self.pushdepth < 3 and d > 0 and self.memops:
            return self.block(d)
        if c < .55:
            return self.t_peek(d)
        return self.term(d)

    def block(self, d):
        """#PUSHS ... #POPS with pokes in between and peeks after"""
        r = self.r
        self.pushdepth += 1
        name = r.choice(['', '', 'x', 's1', 'tmp', 'q2'])
        xs = [{'t': 'Pushs', 'name': name}, T(r.choice(' .:;!?-') + self.text(0, 2, LOW))]
        for _ in range(r.randint(1, 4)):
            xs.append(self.stmt_or_term(d - 1) if r.random() < .6 else self.t_pokes(d - 1))
        xs.append({'t': 'Pops'})
        self.pushdepth -= 1
        for _ in range(r.randint(0, 2)):
            xs.append(T(self.text(1, 2, ' .:;')))
            xs.append(self.t_peek(d - 1))
        return Seq(xs)

    def case(self):
        r = self.r
        d = self.maxdepth
        xs = []
        # texts that poke are bracketed by #PUSHS/#POPS so that every planted copy starts from the same memory
        self.memops = r.random() < .45
        if self.memops:
            self.pushdepth = 1
            xs.append({'t': 'Pushs', 'name': r.choice(['', '', 'x', 'main'])})
            xs.append(T(r.choice(' .:;!?-') + self.text(0, 2, LOW)))
        lets = []
        for name in r.sample(VARNAMES, r.choice([1, 2, 2, 3, 4])):
            e = self.lit() if r.random() < .6 or not self.vars else self.expr(0, 2)
            lets.append({'t': 'Let', 'n': name, 'e': e})
            self.vars.append(name)
            if r.random() < .3:
                lets.append(T(self.text(0, 2, LOW + ' ')))
        for name in r.sample(['s$', 'msg$', 'w1$'], r.choice([0, 0, 1, 2])):
            v = T(self.text(1, 6, LOW + DIG + ' .:&<', edge=True))
            if r.random() < .4:
                v = Seq([v, self.t_eval(1), T(self.text(1, 2, LOW, edge=True))])
            lets.append({'t': 'LetS', 'n': name, 'v': v})
            self.svars.append(name)
        # definitions come first in the text (their bodies may use the variables: they are expanded when called)
        for name in r.sample(DEFNAMES, r.choice([0, 1, 1, 2, 2])):
            xs.append(self.t_def(name))
            if r.random() < .5:
                xs.append(T(self.text(0, 2, LOW + ' ')))
        xs += lets
        for _ in range(r.choice([0, 0, 1, 2]) if self.memops else 0):
            xs.append(self.t_pokes(1))
        for _ in range(r.choice([2, 3, 3, 4])):
            if r.random() < .5:
                xs.append(T(self.text(0, 4)))
            xs.append(self.stmt_or_term(r.choice([d, d, d - 1, d - 2, 1])))
        if r.random() < .5:
            xs.append(T(self.text(0, 4)))
        if self.memops:
            xs.append({'t': 'Pops'})
        if r.random() < .4:
            xs.append(T(self.text(1, 2, ' .:;')))
            xs.append(self.t_peek(0))
        return Seq(xs)


# -------------------------------------------------------------------------------------------------- renderer
ALT_DELIMS = "/|!@%^*_+=:;'\"?."
LOOPVARS = ['n', 'm', 'q', 'i', 'j', 'zz', 'N', 'var', '@', '$v', 'n1', '_', 'xx', '%n']
BRACKETS = {'(': ')', '[': ']', '{': '}'}
PH_OPEN, PH_CLOSE = '', ''        # private markers for #DEF1 placeholders while braces get doubled
PH_LOOP = ''                             # private marker for the loop variable while its name is chosen


class CannotRender(Exception):
    pass


def doc_match(text, opening, closing):
    """index after the bracket that closes text[0] (docs: brackets of the same kind nest), or -1"""
    depth = 0
    for i, ch in enumerate(text):
        if ch == opening:
            depth += 1
        elif ch == closing:
            depth -= 1
            if depth == 0:
                return i + 1
    return -1


def doc_split_commas(s):
    """docs: "any commas that appear between parentheses are retained" """
    out, depth, cur = [], 0, ''
    for ch in s:
        if ch == '(':
            depth += 1
        elif ch == ')':
            depth = max(0, depth - 1)
        if ch == ',' and depth == 0:
            out.append(cur)
            cur = ''
        else:
            cur += ch
    out.append(cur)
    return out


def paren_balanced(s):
    depth = 0
    for ch in s:
        if ch == '(':
            depth += 1
        elif ch == ')':
            depth -= 1
            if depth < 0:
                return False
    return depth == 0


def prec(o):
    return {'||': 1, '&&': 2, '<': 4, '>': 4, '==': 4, '!=': 4, '<=': 4, '>=': 4, '|': 5, '^': 6, '&': 7, '<<': 8, '>>': 8,
            '+': 9, '-': 9, '*': 10, '/': 10, '%': 10, '**': 12}[o]


class Render:
    def __init__(self, rng, defs):
        self.r = rng
        self.defs = defs              # name -> Def node (all definitions of the case)
        self.scope = {}               # symbolic substitution name -> (spelling, may be negative)
        self.used = set()             # syntax classes used (evidence / vacuity)
        self.htmlsafe = True
        self.inloop = 0
        self.inint = 0                # > 0 while rendering an integer parameter string

    # ---- expressions
    def lit(self, v, top):
        r = self.r
        if v < 0:
            c = r.random()
            s = '-' + self.lit(-v, True)
            if c < .15:
                s = '0-' + self.lit(-v, True)
                return '(' + s + ')'
            return s if top else '(' + s + ')'
        c = r.random()
        if c < .3:
            self.used.add('lit:hex')
            h = '%X' % v if r.random() < .6 else '%x' % v
            if self.nolowerhex:
                h = h.upper()
            if r.random() < .25:
                h = h.rjust(r.choice([2, 4]), '0')
            return '$' + h
        return str(v)

    nolowerhex = False

    def expr(self, e, top=True, follow=None):
        r = self.r
        o = e['o']
        neg = e.get('_neg', False)
        if o == 'lit':
            return self.lit(e['v'], top)
        if o == 'var':
            self.used.add('field')
            s = '{' + e['n'] + '}'
        elif o == 'sub':
            sp, sneg = self.scope[e['n']]
            neg = neg or sneg
            s = sp
            if s.startswith('$') and s[1:].isalpha() and (follow is None or follow.isalnum() or follow == '_'):
                s = '${' + s[1:] + '}'
        elif o == 'm':
            self.used.add('nested-in-int')
            self.inint += 1
            s = self.term(e['x'], follow if not (neg and not top) else ')')
            self.inint -= 1
        elif o == 'pre':
            self.used.add('nested-let-in-int')
            self.inint += 1
            s = self.term(e['x'], '{') + self.expr(e['e'], False)
            self.inint -= 1
            return s if (top and not neg) else '(' + s + ')'
        else:
            return self.binop(e, top, follow)
        if neg and not top:
            return '(' + s + ')'
        if r.random() < .08:
            return '(' + s + ')'
        return s

    def binop(self, e, top, follow, bare=False):
        r = self.r
        o = e['o']
        self.used.add('op:' + o)

        def operand(x, right):
            if x['o'] not in ('lit', 'var', 'sub', 'm', 'pre'):
                po, pi = prec(o), prec(x['o'])
                # parentheses may be dropped only where the documentation's own examples do so
                free = ((o in ('+', '-') and x['o'] in ('*', '/', '%') and pi > po)
                        or (o in ('&&', '||') and x['o'] in CMP)
                        or (o in ('+', '*') and x['o'] == o and not right)
                        or (o == '||' and x['o'] == '&&'))
                if free and r.random() < .6:
                    self.used.add('expr:precedence')
                    return self.binop(x, True, None, bare=True)
                s = self.binop(x, False, None)
                if s.startswith('(') and doc_match(s, '(', ')') == len(s):
                    return s
                return '(' + s + ')'
            return self.expr(x, False, o[0] if not right else None)
        sp = r.choice(['', '', '', ' '])
        a = operand(e['a'], False)
        b = operand(e['b'], True)
        if sp:
            self.used.add('expr:spaces')
        s = a + sp + o + sp + b
        if bare or (top and r.random() < .85):
            return s
        return '(' + (r.choice(['', ' ']) if sp else '') + s + ')'

    # ---- parameter groups
    def ints(self, g, nmax, follow, names=None, must_paren=False, allow_empty_bare=True):
        """integer parameters of a macro: bare or parenthesised, blanks for omitted ones, keywords if named"""
        r = self.r
        simple = all(ent['e']['o'] == 'lit' and ent['e']['v'] >= 0 for ent in g)
        inorder = all(g[i]['k'] < g[i + 1]['k'] for i in range(len(g) - 1))
        unsafe = follow is None or follow.isalnum() or follow in ',$(='
        full = bool(g) and g[-1]['k'] == nmax and inorder
        bare_ok = simple and not must_paren and (not unsafe or (full and follow == ',')) and (g or allow_empty_bare)
        if not g and not unsafe and not must_paren and allow_empty_bare:
            return ''
        items = []
        pos = 0
        kw = False
        for ent in g:
            k = ent['k']
            if names and (kw or k <= pos or r.random() < .35 or not inorder):
                kw = True
                items.append((names[k - 1], ent['e']))
            else:
                while pos < k - 1:
                    items.append((None, None))
                    pos += 1
                items.append((None, ent['e']))
                pos = k
        if kw:
            self.used.add('ints:keyword')
        if any(e is None for n, e in items):
            self.used.add('ints:blank')
        # (a bare list that ends with a keyword argument and is followed by a comma would swallow what follows: a parser that
        # has seen a keyword cannot know the list is complete)
        if bare_ok and not (kw and follow == ',') and r.random() < .55:
            self.used.add('ints:bare')
            out = []
            for i, (n, e) in enumerate(items):
                if e is None:
                    out.append('')
                else:
                    out.append((n + '=' if n else '') + self.lit(e['v'], True))
            return ','.join(out)
        if not inorder and not names:
            raise CannotRender('unordered positional parameters')
        self.used.add('ints:paren')
        out = []
        for i, (n, e) in enumerate(items):
            if e is None:
                out.append('')
                continue
            s = self.expr(e, True, ',' if i < len(items) - 1 else ')')
            if r.random() < .12:
                s = ' ' + s + r.choice(['', ' '])
                self.used.add('ints:spaces')
            out.append((n + ('=' if r.random() < .8 else ' = ') if n else '') + s)
        return '(' + ','.join(out) + ')'

    # ---- string parameters
    def strings(self, items, single=False, noalnum=False, parens_only=False):
        """string parameter(s) of a macro between documented delimiters"""
        r = self.r
        styles = ['(', '(', '(', '[', '{', 'alt', 'alt']
        if parens_only:
            styles = ['(']
        r.shuffle(styles)
        for st in styles + ([] if parens_only else ['(', '[', '{', 'alt', 'alt', 'alt', 'alt', 'alt', 'alt']):
            s = self.try_style(items, single, st, noalnum)
            if s is not None:
                return s
        raise CannotRender('no delimiter fits %r' % (items,))

    def try_style(self, items, single, st, noalnum):
        r = self.r
        if st in BRACKETS:
            cl = BRACKETS[st]
            body = items[0] if single else ','.join(items)
            s = st + body + cl
            if doc_match(s, st, cl) != len(s):
                return None
            if not single and doc_split_commas(body) != list(items):
                return None
            self.used.add('str:' + st + ('1' if single else 'n'))
            if self.inint and st == '{':
                self.used.add('nested-brace-in-int')
            return s
        joined = ''.join(items)
        cands = [c for c in ALT_DELIMS if c not in joined]
        # (quotes inside #FOR/#FOREACH strings used to be escaped to &quot; / &#x27; in HTML mode - fixed finding
        # macro:probe:loop-html-escape; they are generated freely again)
        if not self.htmlsafe:
            pass
        elif any(c in joined for c in '&<>'):
            # in HTML mode "&", "<" and ">" reach the macro parser as "&amp;", "&lt;", "&gt;": the
            # docs rule out these three as delimiters; ";" would be found inside the escaped text
            cands = [c for c in cands if c != ';']
        # an item that ends with a '$name' replacement field must not be followed by a character that would extend the name
        ends_sub = any(re.search(r'\$[A-Za-z_][A-Za-z0-9_]*$', it) for it in items)
        if ends_sub:
            cands = [c for c in cands if not (c.isalnum() or c == '_')]
        if not cands:
            return None
        d = r.choice(cands)
        if single:
            self.used.add('str:alt1')
            return d + items[0] + d
        seps = [c for c in ALT_DELIMS + ' ' + ',' if c not in joined and (c != ';' or not any(x in joined for x in '&<>'))
                ]
        # docs: "When a comma-separated sequence of string parameters is split, any commas that appear between parentheses
        # are retained" - also when the sequence is written with an alternative delimiter and ',' as the separator
        comma_ok = ',' in joined and doc_split_commas(','.join(items)) == list(items)
        if comma_ok and r.random() < .5:
            seps = [',']
        if ends_sub:
            seps = [c for c in seps if not (c.isalnum() or c == '_')]
        if not seps:
            return None
        sp = d if (r.random() < .3 and d in seps) else (' ' if (r.random() < .2 and ' ' in seps) else r.choice(seps))
        body = sp.join(items)
        s = d + sp + body + sp + d
        # docs: "must open with ds, be separated by s, and close with sd"
        end = s.rfind(sp + d) if sp == ',' else s.find(sp + d, 2)
        if end != len(s) - 2 or (doc_split_commas(s[2:end]) if sp == ',' else s[2:end].split(sp)) != list(items):
            return None
        if sp == ',' and ',' in joined:
            self.used.add('str:alt-comma-parens')
        self.used.add('str:alt-same' if sp == d else ('str:alt-space' if sp == ' ' else 'str:alt'))
        return s

    # ---- terms
    def first_char(self, xs, i, follow):
        """first character of the text that follows item i of a sequence"""
        for j in range(i + 1, len(xs)):
            y = xs[j]
            if y['t'] == 'Text':
                if y['s']:
                    return chr(y['s'][0])
            elif y['t'] == 'Seq':
                c = self.first_char(y['xs'], -1, '')
                if c:
                    return c
            elif y['t'] == 'Sub':
                return None
            else:
                return '#'
        return follow

    def term(self, x, follow):
        t = x['t']
        if t == 'Text':
            return ''.join(chr(c) for c in x['s'])
        if t == 'Seq':
            return ''.join(self.term(y, self.first_char(x['xs'], i, follow)) for i, y in enumerate(x['xs']))
        if t == 'Sub':
            sp = self.scope[x['n']][0]
            if sp.startswith('$') and sp[1:].isalpha():
                if follow is None or follow.isalnum() or follow == '_' or self.r.random() < .3:
                    return '${' + sp[1:] + '}'
            return sp
        if t == 'Pre':
            name, params = self.macro(x['x'], '')
            self.used.add('pre-expand')
            return name + '#' + self.strings([params], single=True, noalnum=True)
        name, params = self.macro(x, follow)
        return name + params

    def macro(self, x, follow):
        return getattr(self, 'm_' + x['t'])(x, follow)

    def m_Eval(self, x, follow):
        return '#EVAL', self.ints(x['p'], 3, follow, allow_empty_bare=False)

    def m_N(self, x, follow):
        affix = any(ent['k'] == 4 and ent['e'].get('v') != 0 for ent in x['p'])
        if affix:
            items = [''.join(chr(c) for c in x['pre'])]
            if x['nsuf']:
                items.append(''.join(chr(c) for c in x['suf']))
            st = self.strings(items, single=False)
            return '#N', self.ints(x['p'], 5, st[0], allow_empty_bare=False) + st
        return '#N', self.ints(x['p'], 5, follow, allow_empty_bare=False)

    def m_If(self, x, follow):
        items = [self.term(x['a'], follow)]
        if x['nb'] == 2:
            items.append(self.term(x['b'], follow))
        st = self.strings(items)
        return '#IF', self.ints(x['p'], 1, st[0], allow_empty_bare=False) + st

    def m_Map(self, x, follow):
        items = [self.term(x['d'], follow)]
        for kv in x['ks']:
            items.append(self.expr(kv['k'], True, ':') + ':' + self.term(kv['v'], follow))
        st = self.strings(items)
        return '#MAP', self.ints(x['p'], 1, st[0], allow_empty_bare=False) + st

    def loop_strings(self, x, subs_in_sep):
        r = self.r
        neg = x.get('_negvar', False)
        PH_LOOP = chr(0xE010 + self.inloop)        # private marker of this loop's variable while its name is chosen
        for attempt in range(12):
            var = r.choice(LOOPVARS)
            self.scope[x['var']] = (PH_LOOP, neg)
            self.inloop += 1
            body = self.term(x['body'], None)
            sep = self.term(x['sep'], None)
            fsep = self.term(x['fsep'], None)
            self.inloop -= 1
            del self.scope[x['var']]
            if var in body.replace(PH_LOOP, '') or var in sep.replace(PH_LOOP, '') or var in fsep:
                continue
            if PH_LOOP in fsep or (PH_LOOP in sep and not subs_in_sep):
                raise CannotRender('loop variable in separator')
            b2, s2 = body.replace(PH_LOOP, var), sep.replace(PH_LOOP, var)
            # the value must replace exactly the placeholders: no accidental occurrence may arise
            if b2.count(var) != body.count(PH_LOOP) or s2.count(var) != sep.count(PH_LOOP):
                continue
            # ... nor an overlapping one: 'ub1z' + 'zz' holds 'zz' once, but one character early
            if b2.replace(var, '\ue0ff') != body.replace(PH_LOOP, '\ue0ff') or s2.replace(var, '\ue0ff') != sep.replace(PH_LOOP, '\ue0ff'):
                continue
            if any(c in var for c in '&<>;') or var in ('amp', 'lt', 'gt'):
                continue
            items = [var, b2]
            if x['hasf']:
                items += [s2, fsep]
            elif s2 or r.random() < .3:
                items.append(s2)
            self.used.add('loopvar:' + var)
            return self.strings(items)
        raise CannotRender('no loop variable name fits')

    def m_For(self, x, follow):
        flags = [ent['e'].get('v', 0) for ent in x['p'] if ent['k'] == 4]
        st = self.loop_strings(x, bool(flags and flags[0] & 4))
        return '#FOR', self.ints(x['p'], 4, st[0], allow_empty_bare=False) + st

    def m_Foreach(self, x, follow):
        items = [str(it['iv']) if it['kind'] == 1 else ''.join(chr(c) for c in it['s']) for it in x['items']]
        return '#FOREACH', self.strings(items) + self.loop_strings(x, False)

    def m_While(self, x, follow):
        r = self.r
        body = self.term(x['body'], '')
        pad = r.choice(['', '', ' ', '  '])
        pad2 = r.choice(['', '', ' '])
        if pad or pad2:
            self.used.add('while:padded-body')
        return '#WHILE', '(' + self.expr(x['c'], True, ')') + ')' + self.strings([pad + body + pad2], single=True)

    def m_Let(self, x, follow):
        return '#LET', self.strings([x['n'] + '=' + self.expr(x['e'], True, None)], single=True)

    def m_LetS(self, x, follow):
        self.used.add('let:string')
        return '#LET', self.strings([x['n'] + '=' + self.term(x['v'], '')], single=True)

    def m_Format(self, x, follow):
        text = ''
        for p in x['parts']:
            if p['f'] == 0:
                text += ''.join(chr(c) for c in p['s'])
            elif p['f'] == 2:
                text += '{' + p['n'] + '}'
            else:
                spec = ('0' if p['z'] else '') + (str(p['w']) if p['w'] else '') + p['ty']
                text += '{' + p['n'] + (':' + spec if spec or self.r.random() < .1 else '') + '}'
        st = self.strings([text], single=True)
        # docs: "if text could be read as an integer parameter, case should be explicitly specified"
        explicit = bool(x['p']) or not re.search('[g-zG-Z]', re.sub(r'\{[^}]*\}', '', text)) or st[0] != '('
        if explicit and not x['p']:
            return '#FORMAT', self.ints(P(Lit(0)), 1, st[0], allow_empty_bare=False) + st
        return '#FORMAT', self.ints(x['p'], 1, st[0]) + st

    def m_Def(self, x, follow):
        r = self.r
        fl1 = x['flags'] & 1
        saved = dict(self.scope)
        negp = x.get('_negp', set())
        for ip in x['ip']:
            self.scope[ip['n']] = ((PH_OPEN + ip['n'] + PH_CLOSE) if fl1 else '$' + ip['n'], ip['n'] in negp)
        for sp in x['sp']:
            self.scope[sp['n']] = ((PH_OPEN + sp['n'] + PH_CLOSE) if fl1 else '$' + sp['n'], False)
        old = self.nolowerhex
        self.nolowerhex = True
        body = self.term(x['body'], '' if x['flags'] & 2 else None)
        self.nolowerhex = old
        self.scope = saved
        if fl1:
            body = body.replace('{', '{{').replace('}', '}}').replace(PH_OPEN, '{').replace(PH_CLOSE, '}')
            self.used.add('def:fields')
        sig = '#' + x['n']
        if x['ip'] or x['sp']:
            sig += '(' + ','.join(ip['n'] + ('=%s' % self.lit(ip['d'], True) if ip['hasd'] else '') for ip in x['ip']) + ')'
        if x['sp']:
            # defaults of string parameters are written with the placeholder syntax the flags select
            saved2 = dict(self.scope)
            for ip in x['ip']:
                self.scope[ip['n']] = ('{' + ip['n'] + '}' if fl1 else '$' + ip['n'], False)
            sig += '(' + ','.join(sp['n'] + ('=' + self.term(sp['d'], ',') if sp['hasd'] else '') for sp in x['sp']) + ')'
            self.scope = saved2
            self.used.add('def:string-params')
            if any(sp['hasd'] for sp in x['sp']):
                self.used.add('def:string-default')
        definition = r.choice(['', ' ']) + sig + r.choice([' ', '  ']) + body + r.choice(['', ' '])
        required = any(not ip['hasd'] for ip in x['ip'])
        st = self.strings([definition], single=True)
        if x['hasflags'] or x['flags']:
            fl = self.ints(P(Lit(x['flags'])), 1, st[0], allow_empty_bare=False)
        elif st[0] == '(' and not required:
            # "#DEF(#M ...)" without flags re-reads the definition as an integer parameter string, which
            # expands #M if a previous expansion of the same text has already defined it
            fl = '0'
        else:
            fl = ''
        return '#DEF', fl + st

    def m_Call(self, x, follow):
        d = self.defs[x['n']]
        names = [ip['n'] for ip in d['ip']]
        if d['sp'] and (x['sa'] or not all(sp['hasd'] for sp in d['sp'])):
            items = [self.term(a, None) for a in x['sa']]
            # docs: "if every string parameter of the defined macro is optional, the string arguments must be
            # either omitted entirely or provided between parentheses"
            st = self.strings(items, single=len(d['sp']) == 1, parens_only=all(sp['hasd'] for sp in d['sp']))
            pr = self.ints(x['p'], len(names), st[0], names) if names else ''
            if len(x['sa']) < len(d['sp']):
                self.used.add('call:string-default')
            return '#' + x['n'], pr + st
        if d['sp']:
            # all string arguments omitted: the macro must not be followed by an opening parenthesis
            self.used.add('call:string-default')
            if follow is None or follow == '(':
                raise CannotRender('optional string arguments omitted before a parenthesis')
        if not names:
            if follow is None or follow.isupper():
                raise CannotRender('macro name would run into the following text')
            return '#' + x['n'], ''
        return '#' + x['n'], self.ints(x['p'], len(names), follow, names, allow_empty_bare=bool(follow is not None and not follow.isupper()))

    def m_Peek(self, x, follow):
        return '#PEEK', self.ints(x['p'], 1, follow, allow_empty_bare=False)

    def m_Pokes(self, x, follow):
        out = []
        for i, g in enumerate(x['gs']):
            last = i == len(x['gs']) - 1
            out.append(self.ints(g, 4, ';' if not last else (None if follow in (';', None) else follow), allow_empty_bare=False))
        if follow == ';':
            raise CannotRender('#POKES followed by ;')
        return '#POKES', ';'.join(out)

    def m_Pushs(self, x, follow):
        if follow is None or follow.isalnum() or follow in '$#':
            raise CannotRender('snapshot name would run into the following text')
        return '#PUSHS', x['name']

    def m_Pops(self, x, follow):
        if follow is None or follow.isupper():
            raise CannotRender('#POPS followed by a capital letter')
        return '#POPS', ''

    def m_Chr(self, x, follow):
        return '#CHR', self.ints(x['p'], 2, follow, allow_empty_bare=False)

    def m_Str(self, x, follow):
        if x['hasend']:
            old = self.scope.get('b')
            self.scope['b'] = ('$b', False)
            end = '(' + self.expr(x['end'], True, ')') + ')'
            if old is None:
                del self.scope['b']
            else:
                self.scope['b'] = old
            return '#STR', self.ints(x['p'], 3, '(', allow_empty_bare=False) + end
        return '#STR', self.ints(x['p'], 3, follow, allow_empty_bare=False)

    def m_Space(self, x, follow):
        if not x['p']:
            if follow is None or follow.isalnum() or follow in ',$(=':
                return '#SPACE', '()' if self.r.random() < .5 else '(1)'
            return '#SPACE', ''
        return '#SPACE', self.ints(x['p'], 1, follow, allow_empty_bare=False)

    def m_Pc(self, x, follow):
        if follow is None or follow.isupper():
            raise CannotRender('#PC followed by a capital letter')
        return '#PC', ''


# ------------------------------------------------------------------------------------- skool file, real tools
# place id -> (description, offset of the address #PC stands for there)
# the entry is  A: XOR A ; <3>  / mid-block <4> /  A+1: INC A ; {<6>  /  A+2: RET ; }  / end <5>: the end comment follows the
# continuation row of a multi-instruction comment, whose #PC is that of the group's first instruction
PLACES = [('title', 0), ('description', 0), ('register', 0), ('instruction', 0), ('mid-block', 1), ('end', 2), ('group', 1)]
BASE_OPTS = {0: [], 10: ['-D'], 16: ['-H']}
CASE_OPTS = {0: [], 1: ['-l'], 2: ['-u']}
RE_PLANT = re.compile(r'~b(\d+)x(\d)~(.*?)~e\1x\2~', re.S)


def entry_address(i):
    return 32768 + 4 * i


def skool_source(texts, bb):
    lines = ['@start', '; Data', 'b%d DEFB %s' % (BO, ','.join(str(b) for b in bb)), '']
    for i, text in enumerate(texts):
        a = entry_address(i)

        def pl(k):
            return '~b%dx%d~%s~e%dx%d~' % (i, k, text, i, k)
        lines += ['; ' + pl(0), ';', '; ' + pl(1), ';', '; HL ' + pl(2),
                  'c%05d XOR A ; %s' % (a, pl(3)), '; ' + pl(4), ' %05d INC A ; {%s' % (a + 1, pl(6)), ' %05d RET   ; }' % (a + 2),
                  '; ' + pl(5), '']
    return '\n'.join(lines) + '\n'


def codes(s):
    # &#160; (HTML) and a space (ASM) are the two documented spellings of what #SPACE produces
    return [32 if ord(c) == 160 else ord(c) for c in s]


def run_tools(texts, bb, base, case, wd, tag):
    """-> (asm, htm, exc): asm[i][k] / htm[i][k] = expansion text found at place k of entry i"""
    from skoolkit import skool2asm, skool2html
    d = os.path.join(wd, tag)
    shutil.rmtree(d, ignore_errors=True)
    os.makedirs(d)
    path = os.path.join(d, 'm.skool')
    with open(path, 'w', encoding='utf-8') as f:
        f.write(skool_source(texts, bb))
    opts = BASE_OPTS[base] + CASE_OPTS[case]
    asm = [[None] * len(PLACES) for _ in texts]
    htm = [[None] * len(PLACES) for _ in texts]
    exc = ''
    out, err = io.StringIO(), io.StringIO()
    try:
        with contextlib.redirect_stdout(out), contextlib.redirect_stderr(err):
            skool2asm.main(['-q', '-w', '-P', 'line-width=1000000'] + opts + [path])
    except BaseException as e:                   # skoolkit reports errors with sys.exit(1)
        exc = 'skool2asm: %s: %s %s' % (type(e).__name__, e, err.getvalue().strip()[-300:])
    for m in RE_PLANT.finditer(out.getvalue()):
        asm[int(m.group(1))][int(m.group(2))] = m.group(3)
    out, err = io.StringIO(), io.StringIO()
    try:
        with contextlib.redirect_stdout(out), contextlib.redirect_stderr(err):
            skool2html.main(['-q', '-w', 'd', '-d', d] + opts + [path])
    except BaseException as e:
        exc = (exc + ' | ' if exc else '') + 'skool2html: %s: %s %s' % (type(e).__name__, e, err.getvalue().strip()[-300:])
    hd = os.path.join(d, 'm', 'asm')
    if os.path.isdir(hd):
        for fn in os.listdir(hd):
            with open(os.path.join(hd, fn), encoding='utf-8') as f:
                page = f.read()
            for m in RE_PLANT.finditer(page):
                htm[int(m.group(1))][int(m.group(2))] = html.unescape(m.group(3))
    shutil.rmtree(d, ignore_errors=True)
    return asm, htm, exc


def make_case(rng, base, case, bb, maxdepth, ea):
    """one generated text: (tree for TLC, macro text, syntax classes used, shadow notes, shadow expansion)"""
    for attempt in range(200):
        g = Gen(rng, maxdepth)
        tree = g.case()
        try:
            outs = []
            notes = set()
            for off in (0, 1, 2):
                sh = Shadow(Env(ea + off, base, case, bb))     # annotations are cumulative
                outs.append(sh.expand(tree))
                notes |= sh.taken
            r = Render(rng, {n: d for n, (d, k) in g.defs.items()})
            text = r.term(tree, '~')
        except (Reject, CannotRender):
            continue
        if len(text) > MAXSRC or '~' in text or '\n' in text:
            continue
        return tree, text, r.used, notes, outs
    raise MachineryError('macro generator: 200 rejected trees in a row')


def worker(args):
    """args = (seed, file index, number of texts, base, case, maxdepth, workdir) -> list of case dicts for TLC"""
    sd, fi, n, base, case, maxdepth, wd = args
    rng = random.Random(sd * 1000003 + fi)
    bb = base_bytes(rng)
    made = [make_case(rng, base, case, bb, maxdepth, entry_address(i)) for i in range(n)]
    texts = [m[1] for m in made]
    asm, htm, exc = run_tools(texts, bb, base, case, wd, 'f%d' % fi)
    excs = [exc] * n
    where = list(range(n))          # the entry each text was expanded in
    if exc:
        # one text broke the whole run: find it by running every text on its own (it then sits in entry 0)
        for i in range(n):
            a1, h1, e1 = run_tools([texts[i]], bb, base, case, wd, 'f%d_%d' % (fi, i))
            asm[i], htm[i], excs[i] = a1[0], h1[0], e1
            where[i] = 0
    cases = []
    for i, (tree, text, used, notes, outs) in enumerate(made):
        locs = []
        e = excs[i]
        for k, (pname, off) in enumerate(PLACES):
            a, h = asm[i][k], htm[i][k]
            if (a is None or h is None) and not e:
                e = 'expansion not found at %s (asm %s, html %s)' % (pname, a is not None, h is not None)
            locs.append({'pc': entry_address(where[i]) + off, 'asm': codes(a or ''), 'html': codes(h or '')})
        cases.append({'key': 'f%d.%d' % (fi, i), 'term': strip_private(tree), 'base': base, 'case': case, 'bo': BO, 'bb': bb,
                      'ea': entry_address(where[i]), 'locs': locs, 'exc': e[:600], 'text': text,
                      'tags': sorted(tags(tree)), 'used': sorted(used), 'notes': sorted(notes), 'shadow': outs})
    return cases


def _for(start, stop, body, sep, fsep=None):
    return {'t': 'For', 'p': P(Lit(start), Lit(stop)), 'var': 'L1', 'body': body, 'sep': T(sep), 'fsep': T(fsep or ''),
            'hasf': 1 if fsep is not None else 0}


SUBL1 = {'t': 'Sub', 'n': 'L1'}

# Hand-written texts for input classes the random generator deliberately stays away from, because the unchanged
# tree fails on them (reported to the lead; each probe has its own violation key).
PROBES = [
    # HTML mode: parse_for / parse_foreach html.escape() the joined output although only the output string was
    # unescaped before: '&', '<', '>' in separators and #FOREACH values come out as '&amp;amp;', '&amp;lt;', ...
    ('loop-html-escape/for-sep-lt', _for(1, 3, SUBL1, '<'), '#FOR(1,3)(n,n,<)'),
    ('loop-html-escape/for-fsep-amp', _for(1, 3, SUBL1, ', ', ' & '), '#FOR(1,3)(n,n,, | & )'.replace('(n,n,, | & )', '//n/n/, / & //')),
    ('loop-html-escape/foreach-value-amp', {'t': 'Foreach', 'items': [{'kind': 0, 'iv': 0, 's': [ord(c) for c in 'a&b']},
                                                      {'kind': 0, 'iv': 0, 's': [ord('c')]}],
                           'var': 'L1', 'body': SUBL1, 'sep': T(';'), 'fsep': T(''), 'hasf': 0}, '#FOREACH(a&b,c)(n,n,;)'),
    # ... and quotes in the output string become &quot; / &#x27;, so a nested macro that uses them as delimiters
    # is no longer parsable in HTML mode
    ('loop-html-escape/for-body-quote-delimiter', _for(1, 2, {'t': 'If', 'p': P({'o': 'sub', 'n': 'L1'}), 'a': T('a'), 'b': T('b'), 'nb': 2}, ';'),
     '#FOR(1,2)(n,#IF(n)"|a|b|",;)'),
]


def probes(wd):
    cases = []
    bb = base_bytes(random.Random(0))
    for name, tree, text in PROBES:
        asm, htm, exc = run_tools([text], bb, 0, 0, wd, 'probe')
        locs = []
        for k, (pname, off) in enumerate(PLACES):
            a, h = asm[0][k], htm[0][k]
            if (a is None or h is None) and not exc:
                exc = 'expansion not found at %s (asm %s, html %s)' % (pname, a is not None, h is not None)
            locs.append({'pc': entry_address(0) + off, 'asm': codes(a or ''), 'html': codes(h or '')})
        cases.append({'key': 'probe:' + name, 'term': tree, 'base': 0, 'case': 0, 'bo': BO, 'bb': bb, 'ea': entry_address(0),
                      'locs': locs, 'exc': exc[:600], 'text': text, 'tags': sorted(tags(tree)), 'used': [], 'notes': [],
                      'shadow': []})
    return cases
