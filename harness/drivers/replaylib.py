"""Shared by the replay(path) functions of the check modules: read a replays/<ID>-n.json file, print the verdict.

A replay re-drives the code of the CURRENT working tree on the input recorded in the file and lets TLC judge the fresh
observation; it never writes evidence/<ID>.json (no Report.finish)."""
import json

from ..lib.common import MachineryError


def load(path, pid):
    """-> (whole record, its 'replay' object); MachineryError if the file cannot be used."""
    try:
        with open(path) as f:
            d = json.load(f)
    except (OSError, ValueError) as e:
        raise MachineryError('unusable replay file %s: %s: %s' % (path, type(e).__name__, e))
    if not isinstance(d, dict) or not isinstance(d.get('replay'), dict):
        raise MachineryError('unusable replay file %s: no replay object in it' % path)
    if d.get('property') not in (None, pid):
        raise MachineryError('replay file %s belongs to property %s, not %s' % (path, d.get('property'), pid))
    print('replay of %s: key %s' % (path, d.get('key')))
    return d, d['replay']


def need(rp, path, *names):
    missing = [n for n in names if n not in rp]
    if missing:
        raise MachineryError('unusable replay file %s: the recorded case has no %s' % (path, ', '.join(missing)))


def verdict(pid, path, found):
    """found: list of 'key: clause ...' lines, one per clause that fails again on the current tree."""
    if found:
        print('VIOLATION property=%s replay=%s' % (pid, path))
        for line in found[:8]:
            print('  ' + ' | '.join(str(line).split('\n'))[:600])
        return 1
    print('OK property=%s replay: not reproduced' % pid)
    return 0
