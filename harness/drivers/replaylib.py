"""Shared by the replay(path) functions of the check modules: read a replays/<ID>-n.json file, print the verdict.

A replay re-drives the code of the CURRENT working tree on the input recorded in the file and lets TLC judge the fresh
observation; it never writes evidence/<ID>.json (no Report.finish)."""
import base64
import json
import random
import struct

from ..lib.common import MachineryError


def load(path, pid):
    """-> (whole record, its 'replay' object); MachineryError if the file cannot be used."""
    try:
        with open(path) as f:
            d = json.load(f)
    except (OSError, ValueError) as e:
        raise MachineryError('unusable replay file %s: %s: %s' % (path, type(e).__name__, e))
    if not isinstance(d, dict) or not isinstance(d.get('replay'), dict):
        raise MachineryError('unusable replay file %s: no replay object in it' % path)
    if d.get('property') not in (None, pid):
        raise MachineryError('replay file %s belongs to property %s, not %s' % (path, d.get('property'), pid))
    print('replay of %s: key %s' % (path, d.get('key')))
    return d, d['replay']


def need(rp, path, *names):
    missing = [n for n in names if n not in rp]
    if missing:
        raise MachineryError('unusable replay file %s: the recorded case has no %s' % (path, ', '.join(missing)))


def verdict(pid, path, found):
    """found: list of 'key: clause ...' lines, one per clause that fails again on the current tree."""
    if found:
        print('VIOLATION property=%s replay=%s' % (pid, path))
        for line in found[:8]:
            print('  ' + ' | '.join(str(line).split('\n'))[:600])
        return 1
    print('OK property=%s replay: not reproduced' % pid)
    return 0


def rnd_state(rnd):
    """The state of a random.Random as a small JSON-able object: a generator put back into this state makes the same case
    (program bytes of any size, filler, option choices) again, so the case need not be stored byte by byte."""
    st = rnd.getstate()
    return {'version': st[0], 'mt': base64.b64encode(struct.pack('<625I', *st[1])).decode('ascii'), 'gauss': st[2]}


def rnd_restore(d):
    rnd = random.Random(0)
    try:
        rnd.setstate((d['version'], tuple(struct.unpack('<625I', base64.b64decode(d['mt']))), d['gauss']))
    except Exception as e:
        raise MachineryError('unusable generator state in the replay file: %s: %s' % (type(e).__name__, e))
    return rnd
