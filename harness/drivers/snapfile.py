"""Independent decoder (and a minimal encoder) for .z80 (v1/v2/v3) and .szx snapshot files.

Written from the published format documents, not from skoolkit:
  * "Z80 file format" (worldofspectrum.net/faq/reference/z80format.htm)
  * "ZX-State (.szx) file format" (spectaculator.com/docs/zx-state)
Only the standard library is used (zlib for SZX RAM pages - a trusted projection, DESIGN §5).
The run-length decoder here is itself validated against Z80Rle!SpecDecode by TLC (RleTables.tla).

A decoded snapshot is a plain dict:
  fmt 'z80'|'szx', version (z80: 1|2|3), machine '48K'|'128K'|'+2'|'?<id>',
  a f bc de hl a2 f2 bc2 de2 hl2 ix iy sp pc i r iff1 iff2 im border issue2 tstates (None when the
  file does not carry it) o7ffd offfd ay[16] fe memptr (None in z80), banks {bank number: bytes(16384)},
  raw (container pieces: header bytes / chunk bytes / compressed blocks).
Bank numbering is the 128K one; a 48K machine has banks 5 (0x4000), 2 (0x8000), 0 (0xC000).
"""
import struct
import zlib


class FormatError(Exception):
    pass


# ----------------------------------------------------------------------------------------------
# Z80 run-length scheme: ED ED n b stands for n times b; every other byte stands for itself.
# ----------------------------------------------------------------------------------------------
def rle_decode(block):
    """Decode a v2/v3 data block (no end marker). Raises FormatError on a truncated ED ED group
    and on a zero repeat count (which only occurs in the v1 end marker)."""
    out = bytearray()
    n = len(block)
    i = 0
    while i < n:
        if block[i] == 0xED and i + 1 < n and block[i + 1] == 0xED:
            if i + 3 >= n:
                raise FormatError('truncated ED ED group at %d' % i)
            cnt, b = block[i + 2], block[i + 3]
            if cnt == 0:
                raise FormatError('ED ED 00 at %d' % i)
            out += bytes([b]) * cnt
            i += 4
        else:
            out.append(block[i])
            i += 1
    return bytes(out)


def rle_decode_v1(block):
    """Decode a v1 block: the data ends at the marker 00 ED ED 00. Returns (data, bytes consumed)."""
    out = bytearray()
    n = len(block)
    i = 0
    while True:
        if i >= n:
            raise FormatError('v1 block without end marker')
        if block[i:i + 4] == b'\x00\xed\xed\x00':
            return bytes(out), i + 4
        if block[i] == 0xED and i + 1 < n and block[i + 1] == 0xED:
            if i + 3 >= n:
                raise FormatError('truncated ED ED group at %d' % i)
            cnt, b = block[i + 2], block[i + 3]
            if cnt == 0:
                raise FormatError('ED ED 00 at %d' % i)
            out += bytes([b]) * cnt
            i += 4
        else:
            out.append(block[i])
            i += 1


def rle_encode(data, minrun=5):
    """A straightforward encoder following the format text (used only to build input files for
    snapmod; not the object of the check)."""
    out = bytearray()
    i, n = 0, len(data)
    while i < n:
        b = data[i]
        j = i
        while j < n and data[j] == b and j - i < 255:
            j += 1
        cnt = j - i
        if cnt >= minrun or (b == 0xED and cnt >= 2):
            out += bytes((0xED, 0xED, cnt, b))
            i = j
        elif b == 0xED:
            # a single ED: the byte after it is never taken into a run
            out.append(0xED)
            i += 1
            if i < n:
                out.append(data[i])
                i += 1
        else:
            out += bytes([b]) * cnt
            i = j
    return bytes(out)


# ----------------------------------------------------------------------------------------------
# .z80
# ----------------------------------------------------------------------------------------------
FRAME = {'48K': 69888, '128K': 70908, '+2': 70908}


def _w(d, o):
    return d[o] + 256 * d[o + 1]


def z80_machine(version, mode, modify):
    if version == 2:
        m48, m128 = (0, 1), (3, 4)
    else:
        m48, m128 = (0, 1, 3), (4, 5, 6)
    if mode in m48:
        return '48K'
    if mode in m128:
        return '+2' if modify else '128K'
    if mode == 12:
        return '+2'
    return '?%d' % mode


def read_z80(data):
    data = bytes(data)
    if len(data) < 30:
        raise FormatError('z80 file shorter than 30 bytes')
    s = {'fmt': 'z80', 'fe': None, 'memptr': None}
    h = data
    s['a'], s['f'] = h[0], h[1]
    s['bc'], s['hl'] = _w(h, 2), _w(h, 4)
    pc = _w(h, 6)
    s['sp'] = _w(h, 8)
    s['i'] = h[10]
    b12 = 1 if h[12] == 255 else h[12]
    s['r'] = (h[11] & 0x7F) | ((b12 & 1) << 7)
    s['border'] = (b12 >> 1) & 7
    compressed_v1 = bool(b12 & 0x20)
    s['de'] = _w(h, 13)
    s['bc2'], s['de2'], s['hl2'] = _w(h, 15), _w(h, 17), _w(h, 19)
    s['a2'], s['f2'] = h[21], h[22]
    s['iy'], s['ix'] = _w(h, 23), _w(h, 25)
    s['iff1'] = 1 if h[27] else 0
    s['iff2'] = 1 if h[28] else 0
    s['iff1_raw'], s['iff2_raw'] = h[27], h[28]
    s['im'] = h[29] & 3
    s['issue2'] = (h[29] >> 2) & 1
    s['o7ffd'], s['offfd'], s['ay'], s['tstates'] = 0, 0, [0] * 16, None
    banks = {}
    raw = {'blocks': {}}
    if pc != 0:
        s['version'] = 1
        s['pc'] = pc
        s['machine'] = '48K'
        raw['header'] = data[:30]
        if compressed_v1:
            ram, used = rle_decode_v1(data[30:])
            raw['blocks'][None] = (None, data[30:30 + used])
        else:
            ram = data[30:]
            raw['blocks'][None] = (0xFFFF, ram)
        if len(ram) != 49152:
            raise FormatError('v1 RAM is %d bytes' % len(ram))
        banks[5], banks[2], banks[0] = ram[:16384], ram[16384:32768], ram[32768:]
    else:
        xlen = _w(h, 30)
        if xlen == 23:
            s['version'] = 2
        elif xlen in (54, 55):
            s['version'] = 3
        else:
            raise FormatError('unknown additional header length %d' % xlen)
        hl = 32 + xlen
        raw['header'] = data[:hl]
        s['pc'] = _w(h, 32)
        mode = h[34]
        s['machine'] = z80_machine(s['version'], mode, h[37] & 0x80)
        is128 = s['machine'] in ('128K', '+2')
        s['o7ffd'] = h[35]
        s['offfd'] = h[38]
        s['ay'] = list(h[39:55])
        if s['version'] == 3:
            q = FRAME.get(s['machine'], 69888) // 4
            lo, hi = _w(h, 55), h[57]
            # hi counts 3,0,1,2 through the frame; lo counts down from q-1 to 0 in each quarter
            s['tstates'] = ((hi + 1) % 4) * q + (q - 1 - lo)
            s['t_lo'], s['t_hi'] = lo, hi
        i = hl
        while i < len(data):
            if i + 3 > len(data):
                raise FormatError('truncated block header at %d' % i)
            blen, page = _w(data, i), data[i + 2]
            i += 3
            if blen == 0xFFFF:
                chunk = data[i:i + 16384]
                dec = chunk
                used = 16384
            else:
                chunk = data[i:i + blen]
                if len(chunk) != blen:
                    raise FormatError('truncated block for page %d' % page)
                dec = rle_decode(chunk)
                used = blen
            if len(dec) != 16384:
                raise FormatError('page %d decodes to %d bytes' % (page, len(dec)))
            i += used
            if is128:
                bank = page - 3
            else:
                bank = {8: 5, 4: 2, 5: 0}.get(page)
            if bank is None or not 0 <= bank <= 7:
                raise FormatError('unexpected page %d' % page)
            if bank in banks:
                raise FormatError('page %d twice' % page)
            banks[bank] = dec
            raw['blocks'][bank] = (blen, chunk)
    s['banks'] = banks
    s['raw'] = raw
    return s


def write_z80(s, version=3, compress=True, hdr_len=None):
    """Build a .z80 file from a decoded-snapshot style dict (used to feed snapmod with v1/v2 files
    and with uncompressed blocks)."""
    h = bytearray(30)
    h[0], h[1] = s['a'], s['f']
    h[2:4] = struct.pack('<H', s['bc'])
    h[4:6] = struct.pack('<H', s['hl'])
    h[8:10] = struct.pack('<H', s['sp'])
    h[10] = s['i']
    h[11] = s['r'] & 0x7F
    h[12] = (s['r'] >> 7) | (s['border'] << 1)
    h[13:15] = struct.pack('<H', s['de'])
    h[15:17] = struct.pack('<H', s['bc2'])
    h[17:19] = struct.pack('<H', s['de2'])
    h[19:21] = struct.pack('<H', s['hl2'])
    h[21], h[22] = s['a2'], s['f2']
    h[23:25] = struct.pack('<H', s['iy'])
    h[25:27] = struct.pack('<H', s['ix'])
    h[27], h[28] = s['iff1'], s['iff2']
    h[29] = s['im'] | (s.get('issue2', 0) << 2)
    banks = s['banks']
    if version == 1:
        h[6:8] = struct.pack('<H', s['pc'])
        ram = banks[5] + banks[2] + banks[0]
        if compress:
            h[12] |= 0x20
            return bytes(h) + rle_encode(ram) + b'\x00\xed\xed\x00'
        return bytes(h) + ram
    xlen = hdr_len or (23 if version == 2 else 54)
    x = bytearray(2 + xlen)
    x[0:2] = struct.pack('<H', xlen)
    x[2:4] = struct.pack('<H', s['pc'])
    is128 = s['machine'] in ('128K', '+2')
    if is128:
        x[4] = 3 if version == 2 else 4
        if s['machine'] == '+2':
            x[7] |= 0x80
    x[5] = s.get('o7ffd', 0)
    x[8] = s.get('offfd', 0)
    x[9:25] = bytes(s.get('ay', [0] * 16))
    if version == 3:
        frame = FRAME[s['machine']]
        q = frame // 4
        t = s['tstates'] % frame
        x[25:27] = struct.pack('<H', q - 1 - (t % q))
        x[27] = (t // q + 3) % 4
    out = bytearray(h + x)
    for bank in sorted(banks):
        page = bank + 3 if is128 else {5: 8, 2: 4, 0: 5}[bank]
        if compress:
            blk = rle_encode(banks[bank])
            out += struct.pack('<HB', len(blk), page) + blk
        else:
            out += struct.pack('<HB', 0xFFFF, page) + banks[bank]
    return bytes(out)


# ----------------------------------------------------------------------------------------------
# .szx
# ----------------------------------------------------------------------------------------------
SZX_MACHINES = {0: '16K', 1: '48K', 2: '128K', 3: '+2', 4: '+2A', 5: '+3', 6: '+3e', 7: 'Pentagon128'}


def read_szx(data):
    data = bytes(data)
    if len(data) < 8 or data[:4] != b'ZXST':
        raise FormatError('not a ZXST file')
    s = {'fmt': 'szx', 'version': (data[4], data[5])}
    s['machine'] = SZX_MACHINES.get(data[6], '?%d' % data[6])
    raw = {'header': data[:8], 'chunks': {}, 'order': []}
    s.update(o7ffd=0, offfd=0, ay=[0] * 16, fe=0, issue2=0, border=0, tstates=None, memptr=0)
    banks = {}
    i = 8
    while i < len(data):
        if i + 8 > len(data):
            raise FormatError('truncated chunk header at %d' % i)
        cid = data[i:i + 4]
        size = struct.unpack('<I', data[i + 4:i + 8])[0]
        body = data[i + 8:i + 8 + size]
        if len(body) != size:
            raise FormatError('truncated chunk %r' % cid)
        i += 8 + size
        raw['order'].append(cid)
        if cid == b'RAMP':
            flags, page = struct.unpack('<HB', body[:3])
            d = body[3:]
            if flags & 1:
                d = zlib.decompress(d)
            if len(d) != 16384:
                raise FormatError('RAM page %d is %d bytes' % (page, len(d)))
            if page in banks:
                raise FormatError('RAM page %d twice' % page)
            banks[page] = d
            continue
        if cid in raw['chunks']:
            raise FormatError('chunk %r twice' % cid)
        raw['chunks'][cid] = body
        if cid == b'Z80R':
            if size != 37:
                raise FormatError('Z80R size %d' % size)
            (af, s['bc'], s['de'], s['hl'], af2, s['bc2'], s['de2'], s['hl2'], s['ix'], s['iy'], s['sp'], s['pc'],
             s['i'], s['r'], i1, i2, s['im'], t, hold, flags, s['memptr']) = struct.unpack('<12H5BI2BH', body)
            s['a'], s['f'] = af >> 8, af & 255
            s['a2'], s['f2'] = af2 >> 8, af2 & 255
            s['iff1'], s['iff2'] = (1 if i1 else 0), (1 if i2 else 0)
            s['iff1_raw'], s['iff2_raw'] = i1, i2
            s['tstates'] = t
        elif cid == b'SPCR':
            if size != 8:
                raise FormatError('SPCR size %d' % size)
            s['border'], s['o7ffd'], s['fe'] = body[0], body[1], body[3]
        elif cid == b'AY\x00\x00':
            if size != 18:
                raise FormatError('AY size %d' % size)
            s['offfd'] = body[1]
            s['ay'] = list(body[2:18])
        elif cid == b'KEYB':
            if size != 5:
                raise FormatError('KEYB size %d' % size)
            s['issue2'] = struct.unpack('<I', body[:4])[0] & 1
    if b'Z80R' not in raw['chunks']:
        raise FormatError('no Z80R chunk')
    s['banks'] = banks
    s['raw'] = raw
    return s


def write_szx(s, compress=True):
    """Build a .szx file from a decoded-snapshot style dict (input files for snapmod)."""
    mid = {'48K': 1, '128K': 2, '+2': 3}[s['machine']]
    out = bytearray(b'ZXST' + bytes((1, 4, mid, 0)))

    def chunk(cid, body):
        out.extend(cid + struct.pack('<I', len(body)) + body)
    z = struct.pack('<12H5BI2BH', s['f'] | (s['a'] << 8), s['bc'], s['de'], s['hl'], s['f2'] | (s['a2'] << 8), s['bc2'],
                    s['de2'], s['hl2'], s['ix'], s['iy'], s['sp'], s['pc'], s['i'], s['r'], s['iff1'], s['iff2'], s['im'],
                    s['tstates'], 0, 0, s.get('memptr') or 0)
    chunk(b'Z80R', z)
    chunk(b'SPCR', bytes((s['border'], s.get('o7ffd', 0), 0, s.get('fe') or 0, 0, 0, 0, 0)))
    if mid == 1:
        chunk(b'KEYB', struct.pack('<IB', s.get('issue2', 0), 0))
    else:
        chunk(b'AY\x00\x00', bytes((0, s.get('offfd', 0))) + bytes(s.get('ay', [0] * 16)))
    for bank in sorted(s['banks']):
        d = s['banks'][bank]
        if compress:
            chunk(b'RAMP', struct.pack('<HB', 1, bank) + zlib.compress(d, 6))
        else:
            chunk(b'RAMP', struct.pack('<HB', 0, bank) + d)
    return bytes(out)


def read_snapshot(path):
    with open(path, 'rb') as f:
        data = f.read()
    if path.lower().endswith('.z80'):
        return read_z80(data)
    if path.lower().endswith('.szx'):
        return read_szx(data)
    raise FormatError('unknown type ' + path)
