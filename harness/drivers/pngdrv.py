"""C15 driver: generate abstract images, render them with the real code (ImageWriter.write_image with
Udg/Frame objects, the #UDG/#UDGARRAY/#FONT/#SCR/#FRAMES macros through skool2html, sna2img.main) and
project the PNG files that come out into the observation record judged by spec/png/PngCases.tla.

Trusted base (DESIGN §5): project() - PNG chunk parsing, CRC-32 (zlib.crc32), inflate (zlib), scanline
unfiltering and unpacking of palette indexes.  It shares no code with skoolkit.
"""
import io
import os
import random
import re
from concurrent.futures import ThreadPoolExecutor
import subprocess
import sys
import zlib

from ..lib import cbuild
from ..lib.common import REPO, PY, MachineryError

INT_MAX = 2 ** 31 - 1
SIG = bytes((137, 80, 78, 71, 13, 10, 26, 10))
SPECIALISED = ('bd0', 'bd1_nt', 'bd1_at', 'bd2_nt', 'bd2_at', 'bd4_nt')


# ----------------------------------------------------------------------------------------------------
# trusted projection: file bytes -> observation
# ----------------------------------------------------------------------------------------------------
def _i(b):
    return min(int.from_bytes(b, 'big'), INT_MAX)


def _tname(typ):
    return typ.decode('ascii') if all(65 <= c <= 90 or 97 <= c <= 122 for c in typ) else 'x' + typ.hex()


def _unfilter(raw, h, stride):
    """Returns list of h bytearrays (without the filter byte) or None if a filter type is invalid."""
    rows = []
    prev = bytearray(stride)
    pos = 0
    for _ in range(h):
        ft = raw[pos]
        cur = bytearray(raw[pos + 1:pos + 1 + stride])
        pos += 1 + stride
        if ft == 0:
            pass
        elif ft == 1:
            for i in range(1, stride):
                cur[i] = (cur[i] + cur[i - 1]) & 255
        elif ft == 2:
            for i in range(stride):
                cur[i] = (cur[i] + prev[i]) & 255
        elif ft == 3:
            for i in range(stride):
                a = cur[i - 1] if i else 0
                cur[i] = (cur[i] + (a + prev[i]) // 2) & 255
        elif ft == 4:
            for i in range(stride):
                a = cur[i - 1] if i else 0
                b = prev[i]
                c = prev[i - 1] if i else 0
                p = a + b - c
                pa, pb, pc = abs(p - a), abs(p - b), abs(p - c)
                pr = a if pa <= pb and pa <= pc else (b if pb <= pc else c)
                cur[i] = (cur[i] + pr) & 255
        else:
            return None
        rows.append(cur)
        prev = cur
    return rows


def _decode_frame(data, w, h, bd):
    """-> (zok, rows of palette indexes)"""
    if w < 1 or h < 1 or bd not in (1, 2, 4, 8) or w * h > 4000000:
        return 0, []
    try:
        d = zlib.decompressobj()
        raw = d.decompress(data)
        if not d.eof or d.unused_data:
            return 0, []
    except zlib.error:
        return 0, []
    stride = (w * bd + 7) // 8
    if len(raw) != h * (1 + stride):
        return 0, []
    lines = _unfilter(raw, h, stride)
    if lines is None:
        return 0, []
    per = 8 // bd
    msk = (1 << bd) - 1
    rows = []
    for ln in lines:
        row = []
        for byte in ln:
            for k in range(per):
                row.append((byte >> (8 - bd * (k + 1))) & msk)
        rows.append(row[:w])
    return 1, rows


def project(data):
    obs = {'chunks': [], 'ihdr': [0] * 7, 'plen': 0, 'pal': [], 'trns': [], 'frames': []}
    if data[:8] != SIG:
        return obs
    ch = obs['chunks']
    ch.append({'t': 'SIG', 'seq': -1, 'nf': -1, 'crc': 1})
    pos = 8
    frames = []          # dicts with 'data'
    pending = None       # fcTL seen, no data yet
    idat = None
    while pos < len(data):
        if pos + 12 > len(data):
            ch.append({'t': 'TRUNCATED', 'seq': -1, 'nf': -1, 'crc': 0})
            break
        n = int.from_bytes(data[pos:pos + 4], 'big')
        typ = data[pos + 4:pos + 8]
        if pos + 12 + n > len(data):
            ch.append({'t': 'TRUNCATED', 'seq': -1, 'nf': -1, 'crc': 0})
            break
        body = data[pos + 8:pos + 8 + n]
        crc = int.from_bytes(data[pos + 8 + n:pos + 12 + n], 'big')
        pos += 12 + n
        t = _tname(typ)
        c = {'t': t, 'seq': -1, 'nf': -1, 'crc': 1 if zlib.crc32(typ + body) & 0xFFFFFFFF == crc else 0}
        ch.append(c)
        if t == 'IHDR' and n == 13:
            obs['ihdr'] = [_i(body[0:4]), _i(body[4:8]), body[8], body[9], body[10], body[11], body[12]]
        elif t == 'IHDR':
            c['t'] = 'IHDR-bad-length'
        elif t == 'PLTE':
            obs['plen'] = n
            obs['pal'] = [list(body[i:i + 3]) for i in range(0, n - n % 3, 3)]
        elif t == 'tRNS':
            obs['trns'] = list(body)
        elif t == 'acTL':
            if n == 8:
                c['nf'] = _i(body[0:4])
            else:
                c['t'] = 'acTL-bad-length'
        elif t == 'fcTL':
            if n == 26:
                c['seq'] = _i(body[0:4])
                pending = {'fc': 1, 'w': _i(body[4:8]), 'h': _i(body[8:12]), 'xo': _i(body[12:16]), 'yo': _i(body[16:20]),
                           'dn': _i(body[20:22]), 'dd': _i(body[22:24]), 'dop': body[24], 'bop': body[25], 'data': b''}
            else:
                c['t'] = 'fcTL-bad-length'
        elif t == 'IDAT':
            if idat is None:
                if pending is not None:
                    idat = pending
                    pending = None
                else:
                    idat = {'fc': 0, 'w': obs['ihdr'][0], 'h': obs['ihdr'][1], 'xo': 0, 'yo': 0, 'dn': 0, 'dd': 0,
                            'dop': 0, 'bop': 0, 'data': b''}
                frames.append(idat)
            idat['data'] += body
        elif t == 'fdAT':
            if n >= 4:
                c['seq'] = _i(body[0:4])
                if pending is not None:
                    frames.append(pending)
                    pending = None
                if frames and frames[-1] is not idat:
                    frames[-1]['data'] += body[4:]
            else:
                c['t'] = 'fdAT-bad-length'
    bd = obs['ihdr'][2]
    for f in frames:
        zok, rows = _decode_frame(f.pop('data'), f['w'], f['h'], bd)
        f['zok'] = zok
        f['rows'] = rows
        obs['frames'].append(f)
    return obs


# ----------------------------------------------------------------------------------------------------
# generator of abstract inputs (the records PngCases.tla reads as c.frames etc.)
# ----------------------------------------------------------------------------------------------------
class Gen:
    def __init__(self, seed, wi, tier):
        self.rng = random.Random(seed)
        self.tier = tier
        self.attr_ptr = (wi * 37) % 256
        self.maxw, self.maxh = (64, 48) if tier == 'quick' else (128, 96)
        self.scales = (1, 2, 3, 4) if tier == 'quick' else (1, 2, 3, 4, 5, 6, 7, 8)
        self.n = 0

    def next_attr(self):
        a = self.attr_ptr
        self.attr_ptr = (a + 1) % 256
        return a

    def pattern(self, kinds=('00', 'FF', 'A5', '5A', 'alt', 'rnd', 'rnd')):
        r = self.rng
        k = r.choice(kinds)
        if k == '00':
            return [0] * 8
        if k == 'FF':
            return [255] * 8
        if k == 'A5':
            return [0xA5] * 8
        if k == '5A':
            return [0x5A] * 8
        if k == 'alt':
            return [0xA5, 0x5A] * 4
        return [r.randrange(256) for _ in range(8)]

    def tiles(self, rows, cols, target, mtype, masked, flash):
        """target: wanted palette size class 1, 2, 4 (3-4), 16 (5+), or 0 (anything)."""
        r = self.rng
        out = []
        a0 = self.next_attr()
        a1 = self.next_attr()
        if target in (2, 4) and a0 & 7 == (a0 >> 3) & 7:
            a0 ^= 1 + r.randrange(7)          # ink != paper
        if target == 4:
            # a second attribute sharing the paper (3 colours) or not (3-4)
            if r.random() < 0.5:
                a1 = (a0 & 0xF8) | (a1 & 7)
            a1 = (a1 & 0xBF) | (a0 & 0x40)
        mono = [0] * 8 if (a0 >> 1) & 1 else [255] * 8
        for y in range(rows):
            row = []
            for x in range(cols):
                if target == 1:
                    a = a0
                    if masked:
                        d = [0] * 8 if mtype == 2 else self.pattern()
                        m = [0] * 8
                    else:
                        d = self.pattern() if (a & 7) == ((a >> 3) & 7) else list(mono)
                        m = []
                elif target == 2:
                    a = a0
                    d = self.pattern()
                    if masked:
                        # ink + transparent only
                        m = [255] * 8
                        if mtype == 2 and r.random() < 0.5:
                            m = self.pattern()
                            d = [b | (mm ^ 255) for b, mm in zip(d, m)]       # u=0 => m=1
                    else:
                        m = []
                elif target == 4:
                    a = a0 if (masked or (x + y) % 2 == 0) else a1
                    d = self.pattern()
                    m = self.pattern() if masked else []
                elif target == 16:
                    a = self.next_attr()
                    d = self.pattern()
                    m = self.pattern() if masked and r.random() < 0.8 else []
                else:
                    a = r.choice((self.next_attr(), r.randrange(256), a0))
                    d = self.pattern()
                    m = self.pattern() if masked and r.random() < 0.7 else []
                if flash == 1:
                    a |= 128
                elif flash == 0:
                    a &= 127
                elif flash == 2 and r.random() < 0.5:
                    a ^= 128
                row.append({'a': a, 'd': d, 'm': m})
            out.append(row)
        if masked and mtype and not any(t['m'] for row in out for t in row):
            out[0][0]['m'] = self.pattern()
        return out

    def crop(self, fw, fh, inc, mode):
        """-> (x, y, w, h) with w/h 0 = not given; the view never exceeds maxw x maxh."""
        r = self.rng
        mw, mh = self.maxw, self.maxh
        if self.tier == 'thorough' and r.random() < 0.02:
            mw, mh = 256, 192
        x = y = w = h = 0
        k = min(7, inc - 1)
        if mode == 'none':
            pass
        elif mode == 'aligned':
            x = inc * r.randrange(fw // inc)
            y = inc * r.randrange(fh // inc)
            w = inc * r.randint(1, (fw - x) // inc)
            h = inc * r.randint(1, (fh - y) // inc)
        elif mode in ('left', 'top', 'right', 'bottom', 'all'):
            if mode in ('left', 'all'):
                x = inc * r.randrange(fw // inc) + r.randint(1, k)
            if mode in ('top', 'all'):
                y = inc * r.randrange(fh // inc) + r.randint(1, k)
            if mode in ('right', 'all'):
                e = inc * r.randint((x // inc) + 1, fw // inc) - r.randint(1, k)
                w = e - x if e > x else 1
            if mode in ('bottom', 'all'):
                e = inc * r.randint((y // inc) + 1, fh // inc) - r.randint(1, k)
                h = e - y if e > y else 1
        elif mode == 'thinw':
            x = r.randrange(fw)
            w = 1
            y = r.choice((0, r.randrange(fh)))
            h = r.choice((0, r.randint(1, fh)))
        elif mode == 'thinh':
            y = r.randrange(fh)
            h = 1
            x = r.choice((0, r.randrange(fw)))
            w = r.choice((0, r.randint(1, fw)))
        elif mode == 'dot':
            x, y, w, h = r.randrange(fw), r.randrange(fh), 1, 1
        elif mode == 'over':
            x, y = r.randrange(fw), r.randrange(fh)
            w, h = fw - x + r.randint(1, 9), fh - y + r.randint(0, 9)
        else:
            x, y = r.randrange(fw), r.randrange(fh)
            w, h = r.randint(1, fw - x), r.randint(1, fh - y)
        # enforce the size limit
        vw = min(w or fw, fw - x)
        vh = min(h or fh, fh - y)
        if vw > mw:
            w = mw - r.randrange(min(8, mw))
        if vh > mh:
            h = mh - r.randrange(min(8, mh))
        return x, y, w, h

    def frame(self, target=0, masked=None, cropmode=None, flash=2, dims=None, scale=None, geo=True, mtypes=(0, 1, 2), nolimit=False):
        r = self.rng
        scale = scale or r.choice(self.scales)
        if dims:
            rows, cols = dims
        elif self.tier == 'thorough' and r.random() < 0.004:
            rows, cols, scale = r.randint(12, 24), r.randint(16, 32), 1
        else:
            rows, cols = r.randint(1, 3), r.randint(1, 4)
        if masked is None:
            masked = r.random() < 0.5
        mtype = r.choice([m for m in mtypes if m] or [0]) if masked else r.choice(mtypes)
        if mtype == 0:
            masked_tiles = r.random() < 0.15     # mask bytes present but mask type 0
        else:
            masked_tiles = masked
        udgs = self.tiles(rows, cols, target, mtype, masked_tiles, flash)
        flip = r.randrange(4) if geo else 0
        rot = r.randrange(4) if geo else 0
        inc = 8 * scale
        trows, tcols = (cols, rows) if rot % 2 else (rows, cols)
        fw, fh = inc * tcols, inc * trows
        fits = fw <= self.maxw and fh <= self.maxh
        if cropmode is None:
            cropmode = r.choice(('none', 'none', 'aligned', 'left', 'top', 'right', 'bottom', 'all', 'all', 'thinw', 'thinh',
                                 'dot', 'over', 'random', 'random'))
        if geo and cropmode in ('none', 'over') and not fits and fh <= self.maxw and fw <= self.maxh:
            rot ^= 1                      # the other orientation fits
            fw, fh = fh, fw
            fits = True
        if nolimit and not fits:
            return {'udgs': udgs, 'flip': flip, 'rot': rot & 2, 'inv': 0, 'flip2': 0, 'rot2': 0, 'scale': scale, 'mask': mtype,
                    'x': 0, 'y': 0, 'w': 0, 'h': 0, 'xo': 0, 'yo': 0, 'delay': 32}
        if cropmode in ('none', 'over') and not fits:
            cropmode = 'random' if cropmode == 'over' else r.choice(('aligned', 'all', 'random'))
        x, y, w, h = self.crop(fw, fh, inc, cropmode)
        return {'udgs': udgs, 'flip': flip, 'rot': rot, 'inv': 0, 'flip2': 0, 'rot2': 0, 'scale': scale, 'mask': mtype,
                'x': x, 'y': y, 'w': w, 'h': h, 'xo': 0, 'yo': 0, 'delay': 32}

    def settings(self, frames, anim=None):
        r = self.rng
        tindex = 0
        if r.random() < 0.3:
            t = frames[0]['udgs'][0][0]
            tindex = r.choice((ink_of(t['a']), paper_of(t['a']), r.randint(1, 15), r.randint(0, 15)))
        alpha = r.choice((-1, -1, 0, 255, r.randrange(256)))
        pngalpha = r.choice((255, 255, 0, r.randrange(256)))
        if anim is None:
            anim = 1 if r.random() < 0.8 else 0
        return {'tindex': tindex, 'alpha': alpha, 'pngalpha': pngalpha, 'anim': 1 if anim else 0}


def ink_of(a):
    c = a & 7
    return 1 if c == 0 else (8 + c if a & 64 else 1 + c)


def paper_of(a):
    c = (a >> 3) & 7
    return 1 if c == 0 else (8 + c if a & 64 else 1 + c)


def dims_of(f):
    """(view width, view height, full width, full height) of an abstract frame (harness-side bookkeeping only)."""
    rows, cols = len(f['udgs']), len(f['udgs'][0])
    if (f['rot'] + f['rot2']) % 2:
        rows, cols = cols, rows
    fw, fh = 8 * f['scale'] * cols, 8 * f['scale'] * rows
    return min(f['w'] or fw, fw - f['x']), min(f['h'] or fh, fh - f['y']), fw, fh


def crop_class(f):
    vw, vh, fw, fh = dims_of(f)
    inc = 8 * f['scale']
    return {'L': f['x'] % inc, 'R': (f['x'] + vw) % inc, 'T': f['y'] % inc, 'B': (f['y'] + vh) % inc,
            'full': vw == fw and vh == fh, 'vw': vw, 'vh': vh}


def um_combos(f):
    """the (graphic bit, mask bit) combinations present in masked tiles of an uncropped masked frame"""
    s = set()
    if f['mask'] and crop_class(f)['full']:
        for row in f['udgs']:
            for t in row:
                if t['m']:
                    for d, m in zip(t['d'], t['m']):
                        if d & m:
                            s.add((f['mask'], 1, 1))
                        if d & ~m & 255:
                            s.add((f['mask'], 1, 0))
                        if ~d & m & 255:
                            s.add((f['mask'], 0, 1))
                        if ~d & ~m & 255:
                            s.add((f['mask'], 0, 0))
    return s


# ----------------------------------------------------------------------------------------------------
# route 1: the API - skoolkit.image.ImageWriter.write_image with skoolkit.graphics objects
# ----------------------------------------------------------------------------------------------------
def run_api(case, generic=False, share=False, lazy=False):
    """-> (png bytes, [names of the _build_image_data_* methods called])"""
    from skoolkit.image import ImageWriter
    from skoolkit.graphics import Udg, Frame, adjust_udgs
    iw = ImageWriter({'PNGEnableAnimation': case['anim'], 'PNGAlpha': case['pngalpha']})
    used = []
    pmd = iw.writer.png_method_dict
    for bd in pmd:
        for fs in pmd[bd]:
            for mk in pmd[bd][fs]:
                meth = pmd[bd][fs][mk]
                if generic:
                    pmd[bd][fs][mk] = iw.writer._build_image_data_bd_any
                else:
                    def wrapped(frame, mask, bit_depth, _m=meth, _n=meth.__name__.replace('_build_image_data_', '')):
                        used.append(_n)
                        return _m(frame, mask, bit_depth)
                    pmd[bd][fs][mk] = wrapped
    frames = []
    for i, f in enumerate(case['frames']):
        cache = {}
        udgs = []
        for row in f['udgs']:
            urow = []
            for t in row:
                key = (t['a'], tuple(t['d']), tuple(t['m']))
                if share and key in cache:
                    u = cache[key]              # the same object at several places of the array
                else:
                    u = cache[key] = Udg(t['a'], list(t['d']), list(t['m']) if t['m'] else None)
                urow.append(u)
            udgs.append(urow)
        if lazy:
            src = (lambda u=udgs, fl=f['flip'], ro=f['rot']: adjust_udgs(u, fl, ro))
        else:
            src = adjust_udgs(udgs, f['flip'], f['rot'])
        tindex, alpha = (case['tindex'], case['alpha']) if i == 0 else ((case['tindex'] + 5) % 16, (case['alpha'] + 77) % 256)
        frames.append(Frame(src, f['scale'], f['mask'], f['x'], f['y'], f['w'] or None, f['h'] or None, f['delay'],
                            'f%d' % i, tindex, alpha, f['xo'], f['yo']))
    buf = io.BytesIO()
    iw.write_image(frames, buf)
    return buf.getvalue(), used


# ----------------------------------------------------------------------------------------------------
# route 2: image macros through skool2html (one run per batch of macros)
# ----------------------------------------------------------------------------------------------------
class Mem:
    def __init__(self, rng, start=32768):
        self.rng = rng
        self.b = {}
        self.ptr = start

    def alloc(self, n):
        a = self.ptr
        self.ptr += n
        return a

    def put(self, addr, values, step=1):
        for i, v in enumerate(values):
            self.b[addr + i * step] = v

    def tile(self, t, step=1, inc=0, interleave_mask=False):
        """store graphic (and mask) bytes; -> (addr, mask addr or None)"""
        if t['m'] and interleave_mask and step == 2:
            a = self.alloc(16)
            self.put(a, [(v - inc) % 256 for v in t['d']], 2)
            self.put(a + 1, t['m'], 2)
            return a, a + 1
        a = self.alloc(8 * step)
        self.put(a, [(v - inc) % 256 for v in t['d']], step)
        ma = None
        if t['m']:
            ma = self.alloc(8 * step)
            self.put(ma, t['m'], step)
        return a, ma

    def skool(self, macros):
        lo, hi = min(self.b), max(self.b)
        lines = ['; Images', ';']
        for m in macros:
            lines.append('; ' + m)
        first = True
        for a in range(lo, hi + 1, 16):
            vals = ','.join(str(self.b.get(k, (k * 7 + 3) & 255)) for k in range(a, min(a + 16, hi + 1)))
            lines.append('%s%05d DEFB %s' % ('b' if first else ' ', a, vals))
            first = False
        return '\n'.join(lines) + '\n'

    def image(self, org=16384):
        data = bytearray(65536 - org)
        for k in range(org, 65536):
            data[k - org] = self.b.get(k, (k * 7 + 3) & 255)
        return bytes(data)


def _params(rng, names, values, defaults):
    """positional parameters up to the last non-default one, sometimes keyword arguments"""
    out = []
    last = max([i for i, (v, d) in enumerate(zip(values, defaults)) if v != d] or [-1])
    kw = rng.random() < 0.4
    for i in range(len(values)):
        if i > last:
            break
        if values[i] == defaults[i] and rng.random() < 0.6:
            if not kw:
                out.append('')
            continue
        out.append('%s=%d' % (names[i], values[i]) if kw else str(values[i]))
    return ','.join(out)


def _crop(f):
    if (f['x'], f['y'], f['w'], f['h']) == (0, 0, 0, 0):
        return ''
    if f['w'] == 0 and f['h'] == 0:
        return '{%d,%d}' % (f['x'], f['y'])
    if f['h'] == 0:
        return '{%d,%d,%d}' % (f['x'], f['y'], f['w'])
    if f['w'] == 0:
        return '{x=%d,y=%d,height=%d}' % (f['x'], f['y'], f['h'])
    return '{%d,%d,%d,%d}' % (f['x'], f['y'], f['w'], f['h'])


def macro_udg(rng, mem, f, st, fname):
    t = f['udgs'][0][0]
    step = rng.choice((1, 1, 2, 3))
    inc = rng.choice((0, 0, 1, 200))
    addr, maddr = mem.tile(t, step, inc, interleave_mask=rng.random() < 0.5)
    mstep = step
    head = _params(rng, ('attr', 'scale', 'step', 'inc', 'flip', 'rotate', 'mask', 'tindex', 'alpha'),
                   (t['a'], f['scale'], step, inc, f['flip'], f['rot'], f['mask'] if maddr is not None else rng.choice((0, 1, 2)),
                    st['tindex'], st['alpha']), (56, 4, 1, 0, 0, 0, 1, 0, -1))
    s = '#UDG%d' % addr + (',' + head if head else '')
    if maddr is not None:
        s += ':%d' % maddr + (',%d' % mstep if rng.random() < 0.5 or mstep != step else '')
    else:
        f['mask'] = 0       # "if no mask is specified, the UDG is not masked"; irrelevant for the pixels (no mask bytes)
    return s + _crop(f) + '(%s)' % fname


def macro_udgarray(rng, mem, f, st, fname):
    udgs = f['udgs']
    rows, cols = len(udgs), len(udgs[0])
    flat = [t for row in udgs for t in row]
    step = rng.choice((1, 1, 1, 2))
    inc = rng.choice((0, 0, 0, 3))
    dattr = rng.choice((56, flat[0]['a']))
    form = rng.choice(('each', 'each', 'range', 'grid', 'rep', 'attrs'))
    same = all(t == flat[0] for t in flat)
    nomask = not any(t['m'] for t in flat)
    allmask = all(t['m'] for t in flat)
    sameattr = all(t['a'] == flat[0]['a'] for t in flat)
    if form == 'rep' and not same:
        form = 'each'
    if form in ('range', 'grid', 'attrs') and not (nomask or allmask):
        form = 'each'
    if form in ('range', 'grid') and not sameattr:
        form = 'attrs'
    specs = []
    attrs = ''
    if form == 'each':
        for t in flat:
            a, ma = mem.tile(t, step, inc, interleave_mask=rng.random() < 0.5)
            s = '%d' % a
            if t['a'] != dattr or rng.random() < 0.3:
                s += ',%d' % t['a']
            if ma is not None:
                s += ':%d' % ma
            specs.append(s)
    elif form == 'rep':
        a, ma = mem.tile(flat[0], step, inc)
        s = '%dx%d' % (a, len(flat))
        if flat[0]['a'] != dattr:
            s += ',%d' % flat[0]['a']
        if ma is not None:
            s += ':%dx%d' % (ma, len(flat))
        specs.append(s)
    else:
        # graphic bytes of all tiles in one block, masks in another; attributes by spec or from memory
        n = len(flat)
        if form == 'grid' and rows > 1:
            # rows of the array are `vs` bytes apart, tiles in a row 8*step apart
            vs = 8 * step * cols + rng.choice((0, 8, 16))
            base = mem.alloc(vs * rows)
            mbase = mem.alloc(vs * rows) if allmask else None
            for i, t in enumerate(flat):
                off = (i // cols) * vs + (i % cols) * 8 * step
                mem.put(base + off, [(v - inc) % 256 for v in t['d']], step)
                if allmask:
                    mem.put(mbase + off, t['m'], step)
            last = (rows - 1) * vs + (cols - 1) * 8 * step
            s = '%d-%d-%d-%d' % (base, base + last, 8 * step, vs)
            ms = '%d-%d-%d-%d' % (mbase, mbase + last, 8 * step, vs) if allmask else None
        else:
            base = mem.alloc(8 * step * n)
            mbase = mem.alloc(8 * step * n) if allmask else None
            for i, t in enumerate(flat):
                mem.put(base + 8 * step * i, [(v - inc) % 256 for v in t['d']], step)
                if allmask:
                    mem.put(mbase + 8 * step * i, t['m'], step)
            if n == 1:
                s, ms = '%d' % base, ('%d' % mbase if allmask else None)
            else:
                s = '%d-%d-%d' % (base, base + 8 * step * (n - 1), 8 * step)
                ms = '%d-%d-%d' % (mbase, mbase + 8 * step * (n - 1), 8 * step) if allmask else None
        if form != 'attrs' and flat[0]['a'] != dattr:
            s += ',%d' % flat[0]['a']
        if ms:
            s += ':' + ms
        specs.append(s)
        if form == 'attrs':
            ab = mem.alloc(n)
            mem.put(ab, [t['a'] for t in flat])
            attrs = '[%d-%d]' % (ab, ab + n - 1) if n > 1 else '[%d]' % ab
    mask = f['mask']
    if nomask:
        f['mask'] = 0
        mask = rng.choice((0, 1, 2))
    head = _params(rng, ('attr', 'scale', 'step', 'inc', 'flip', 'rotate', 'mask', 'tindex', 'alpha'),
                   (dattr, f['scale'], step, inc, f['flip'], f['rot'], mask, st['tindex'], st['alpha']),
                   (56, 2, 1, 0, 0, 0, 1, 0, -1))
    return '#UDGARRAY%d' % cols + (',' + head if head else '') + '(' + ';'.join(specs) + ')' + attrs + _crop(f) + '(%s)' % fname


FONT_CHARS = 'ABCDEFGHIJKLMNOPQRSTUVWXYZabcdefghijklmnopqrstuvwxyz0123456789 !+-./:=?@_'


def macro_font(rng, mem, f, st, fname):
    tiles = f['udgs'][0]
    attr = tiles[0]['a']
    base = mem.alloc(96 * 8)
    if rng.random() < 0.3:
        text = None
        for i, t in enumerate(tiles):
            mem.put(base + 8 * i, t['d'])
    else:
        chars = rng.sample(FONT_CHARS, len(tiles))
        text = ''.join(chars)
        for c, t in zip(chars, tiles):
            mem.put(base + 8 * (ord(c) - 32), t['d'])
    head = _params(rng, ('chars', 'attr', 'scale', 'tindex', 'alpha'),
                   (0 if text else len(tiles), attr, f['scale'], st['tindex'], st['alpha']), (0, 56, 2, 0, -1))
    s = '#FONT%d' % base + (',' + head if head else '')
    if text:
        s += '(%s)' % text
    return s + _crop(f) + '(%s)' % fname


def macro_scr(rng, mem, f, st, fname):
    udgs = f['udgs']
    rows, cols = len(udgs), len(udgs[0])
    if rng.random() < 0.5:
        df, af = 16384, 22528
    else:
        df = mem.alloc(6144)
        af = mem.alloc(768)
    x0, y0 = rng.randint(0, 32 - cols), rng.randint(0, 24 - rows)
    w, h = cols, rows
    if x0 + cols == 32 and rng.random() < 0.5:
        w = cols + 3            # reaches beyond the screen: clipped
    for r, row in enumerate(udgs):
        for c, t in enumerate(row):
            cy, cx = y0 + r, x0 + c
            mem.put(df + 2048 * (cy // 8) + 32 * (cy % 8) + cx, t['d'], 256)
            mem.b[af + 32 * cy + cx] = t['a']
    head = _params(rng, ('scale', 'x', 'y', 'w', 'h', 'df', 'af', 'tindex', 'alpha'),
                   (f['scale'], x0, y0, w, h, df, af, st['tindex'], st['alpha']), (1, 0, 0, 32, 24, 16384, 22528, 0, -1))
    return '#SCR' + head + _crop(f) + '(%s)' % fname


def run_skool2html(wd, name, mem, macros, anim, pngalpha):
    """writes name.skool / name.ref, runs skool2html; returns the directory that holds the images"""
    skool = os.path.join(wd, name + '.skool')
    with open(skool, 'w') as fh:
        fh.write(mem.skool(macros))
    with open(os.path.join(wd, name + '.ref'), 'w') as fh:
        fh.write('[ImageWriter]\nPNGEnableAnimation=%d\nPNGAlpha=%d\n[Paths]\nFontImagePath=images/all\n'
                 'ScreenshotImagePath=images/all\nUDGImagePath=images/all\n' % (anim, pngalpha))
    out = os.path.join(wd, name + '-html')
    p = subprocess.run([PY, '-B', os.path.join(REPO, 'skool2html.py'), '-q', '-d', out, skool], env=cbuild.sub_env(with_c=False),
                       stdout=subprocess.PIPE, stderr=subprocess.STDOUT, text=True, timeout=600)
    if p.returncode != 0:
        return None, p.stdout[-1500:]
    return os.path.join(out, name, 'images', 'all'), p.stdout[-1500:]


# ----------------------------------------------------------------------------------------------------
# route 3: sna2img.main
# ----------------------------------------------------------------------------------------------------
def run_sna2img(wd, name, mem, args, scr=False):
    from skoolkit import sna2img
    if scr:
        infile = os.path.join(wd, name + '.scr')
        data = mem.image(16384)[:6912]
    else:
        infile = os.path.join(wd, name + '.bin')
        data = mem.image(16384)
    with open(infile, 'wb') as fh:
        fh.write(data)
    outfile = os.path.join(wd, name + '.png')
    sna2img.main(list(args) + ([] if scr else ['-B']) + [infile, outfile])
    with open(outfile, 'rb') as fh:
        return fh.read()


# ----------------------------------------------------------------------------------------------------
# worker
# ----------------------------------------------------------------------------------------------------
TARGETS = (1, 2, 4, 16)
CROPMODES = ('none', 'aligned', 'left', 'top', 'right', 'bottom', 'all', 'thinw', 'thinh', 'dot', 'over', 'random')


def _vkey(key, tag):
    return ':'.join(key.split(':')[:2]) + ('+' + tag if tag else '')


def _case(key, route, frames, st, png, tag='', **extra):
    c = {'key': key, 'vkey': _vkey(key, tag), 'route': route, 'frames': frames, 'obs': project(png)}
    c.update(st)
    c.update(extra)
    return c


def _exc(key, route, frames, st, e, tag='', **extra):
    c = {'key': key, 'vkey': _vkey(key, tag), 'route': route, 'frames': frames, 'obs': project(b''), 'exc': '%s: %s' % (type(e).__name__, e),
         'exctype': getattr(e, 'tname', type(e).__name__)}
    c.update(st)
    c.update(extra)
    c['exckey'] = '%s:%s' % (c['exctype'], exc_class(c))
    return c


def exc_class(c):
    """input class of a case that raised, for stable violation keys"""
    tags = []
    f = c['frames'][0]
    if len(c['frames']) > 1:
        tags.append('seq')
    elif c['anim'] and any(t['a'] >= 128 for row in f['udgs'] for t in row):
        tags.append('flash')
    cc = crop_class(f)
    if not cc['full']:
        tags.append('cropped')
        if f['x'] > cc['vw'] or f['y'] > cc['vh']:
            tags.append('origin>size')
    return '+'.join(tags) or 'plain'


def _fkey(f):
    cc = crop_class(f)
    return 's%d:m%d:f%dr%d:%s' % (f['scale'], f['mask'], f['flip'], f['rot'],
                                  'full' if cc['full'] else 'crop-L%dR%dT%dB%d' % (cc['L'], cc['R'], cc['T'], cc['B']))


def api_cases(g, n_sys, n_rand, n_multi):
    """systematic (palette class x masked x cropped x flash) + random + multi-frame cases through the API"""
    r = g.rng
    out = []
    specs = []
    i = 0
    while len(specs) < n_sys:
        target = TARGETS[i % 4]
        masked = (i // 4) % 2 == 1
        cropmode = 'none' if (i // 8) % 2 == 0 else CROPMODES[1 + (i // 16) % (len(CROPMODES) - 1)]
        flash = (0, 2, 1)[(i // 8) % 3]
        scale = g.scales[(i // 3) % len(g.scales)]
        specs.append((target, masked, cropmode, flash, scale))
        i += 1
    for target, masked, cropmode, flash, scale in specs:
        if g.tier == 'quick':
            # the uncropped image must fit into 64x48
            maxc, maxr = max(1, 8 // scale), max(1, 6 // scale)
        else:
            maxc, maxr = max(1, 16 // scale), max(1, 12 // scale)
        if cropmode == 'none':
            cols, rows = r.randint(1, min(4, maxc)), r.randint(1, min(3, maxr))
            if target == 16 and rows * cols < 3:
                cols, rows = min(4, maxc), min(3, maxr)
                if rows * cols < 3:
                    cols, rows = 3, 1         # same number of pixels as 64x48, needed for 5+ colours without cropping
        else:
            cols, rows = r.randint(1, 4), r.randint(1, 3)
        f = g.frame(target, masked, cropmode, flash, (rows, cols), scale, nolimit=cropmode == 'none')
        st = g.settings([f])
        out.append(('sys', [f], st))
    for _ in range(n_rand):
        f = g.frame()
        out.append(('rnd', [f], g.settings([f])))
    for _ in range(n_multi):
        nf = r.choice((2, 2, 3, 4))
        f1 = g.frame(r.choice((0, 0, 2, 4)), None, r.choice(('none', 'all', 'random')), 2, (r.randint(1, 3), r.randint(2, 4)), r.choice((1, 2)))
        fs = [f1]
        w1, h1 = dims_of(f1)[:2]
        for k in range(1, nf):
            for _try in range(50):
                f = g.frame(r.choice((0, 0, 2, 16)), None, None, 2)
                vw, vh = dims_of(f)[:2]
                if vw <= w1 and vh <= h1:
                    break
            else:
                f = dict(f1, udgs=g.tiles(len(f1['udgs']), len(f1['udgs'][0]), 0, f1['mask'], f1['mask'] > 0, 2))
                vw, vh = w1, h1
            f['xo'], f['yo'] = r.randint(0, w1 - vw), r.randint(0, h1 - vh)
            fs.append(f)
        for f in fs:
            f['delay'] = r.choice((1, 32, 50, 255, 256, 1000, 65535))
        out.append(('seq', fs, g.settings(fs)))
    return out


def drive_api(g, plans, stats):
    cases = []
    r = g.rng
    for kind, frames, st in plans:
        share = r.random() < 0.3
        lazy = r.random() < 0.2
        case = dict(st, frames=frames)
        key = 'api:%s:%s%s' % (kind, _fkey(frames[0]), ':seq%d' % len(frames) if len(frames) > 1 else '')
        try:
            png, used = run_api(case, share=share, lazy=lazy)
        except Exception as e:
            cases.append(_exc(key, 'api', frames, st, e, enc=[]))
            continue
        for u in used:
            stats['enc'][u] = stats['enc'].get(u, 0) + 1
        cases.append(_case(key, 'api', frames, st, png, enc=used))
        spec = [u for u in set(used) if u in SPECIALISED]
        if spec:
            # the same frames forced through the generic encoder
            gkey = key + ':generic-for-' + '+'.join(sorted(spec))
            try:
                png2, _ = run_api(case, generic=True, share=share, lazy=lazy)
                cases.append(_case(gkey, 'api-generic', frames, st, png2, tag='generic', enc=['bd_any'], twin=len(cases) - 1))
            except Exception as e:
                cases.append(_exc(gkey, 'api-generic', frames, st, e, tag='generic', enc=[]))
            for u in spec:
                stats['generic_twin'][u] = stats['generic_twin'].get(u, 0) + 1
    return cases


def drive_macros(g, wd, wi, n_batches, per_batch, stats):
    """#UDG / #UDGARRAY / #FONT / #SCR / #FRAMES through skool2html"""
    r = g.rng
    cases = []
    for b in range(n_batches):
        anim = (b + wi) % 3 != 2
        pngalpha = (255, 0, 100)[(b + wi) % 3]
        mem = Mem(r)
        macros = []
        planned = []
        name = 'w%db%d' % (wi, b)
        scr_used = False
        for k in range(per_batch):
            kind = ('udg', 'udgarray', 'udgarray', 'font', 'scr', 'frames')[(k + b + wi) % 6]
            fname = 'img%d' % k
            if kind == 'udg':
                f = g.frame(r.choice((0, 1, 2, 4)), None, None, 2, (1, 1))
                st = g.settings([f], anim)
                st['pngalpha'] = pngalpha
                m = macro_udg(r, mem, f, st, fname)
                planned.append(('udg', fname, [f], st, m, ''))
            elif kind == 'udgarray':
                f = g.frame(r.choice((0, 0, 1, 2, 4, 16)))
                st = g.settings([f], anim)
                st['pngalpha'] = pngalpha
                m = macro_udgarray(r, mem, f, st, fname)
                planned.append(('udgarray', fname, [f], st, m, ''))
            elif kind == 'font':
                sc = r.choice(g.scales[:4])
                f = g.frame(r.choice((1, 2)), False, None, 2, (1, r.randint(1, max(1, min(6, 8 // sc)))), sc, geo=False, mtypes=(0,))
                for t in f['udgs'][0]:
                    t['a'], t['m'] = f['udgs'][0][0]['a'], []
                st = g.settings([f], anim)
                st['pngalpha'] = pngalpha
                m = macro_font(r, mem, f, st, fname)
                planned.append(('font', fname, [f], st, m, ''))
            elif kind == 'scr':
                if scr_used:
                    continue            # one screen region per batch (regions would overwrite each other)
                scr_used = True
                f = g.frame(r.choice((0, 4, 16)), False, None, 2, None, None, geo=False, mtypes=(0,))
                for row in f['udgs']:
                    for t in row:
                        t['m'] = []
                st = g.settings([f], anim)
                st['pngalpha'] = pngalpha
                m = macro_scr(r, mem, f, st, fname)
                planned.append(('scr', fname, [f], st, m, ''))
            else:
                nf = r.choice((2, 3))
                f1 = g.frame(r.choice((0, 2, 4)), None, r.choice(('none', 'all')), 2, (r.randint(1, 2), r.randint(2, 3)), r.choice((1, 2)))
                fs = [f1]
                w1, h1 = dims_of(f1)[:2]
                for j in range(1, nf):
                    for _try in range(50):
                        f = g.frame(0, None, None, 2)
                        vw, vh = dims_of(f)[:2]
                        if vw <= w1 and vh <= h1:
                            break
                    else:
                        f = dict(f1, udgs=g.tiles(len(f1['udgs']), len(f1['udgs'][0]), 0, f1['mask'], f1['mask'] > 0, 2))
                        vw, vh = w1, h1
                    f['xo'], f['yo'] = r.randint(0, w1 - vw), r.randint(0, h1 - vh)
                    fs.append(f)
                st = g.settings(fs, anim)
                st['pngalpha'] = pngalpha
                ms = []
                specs = []
                delay = 32
                tag = ''
                for j, f in enumerate(fs):
                    fst = st if j == 0 else dict(st, tindex=(st['tindex'] + 3) % 16, alpha=(st['alpha'] + 9) % 256)
                    ms.append(macro_udgarray(r, mem, f, fst, '*%sf%d' % (fname, j)))
                    d = r.choice((1, 32, 50, 255, 256, 1000, 65535))
                    if j > 0 and r.random() < 0.3 and not (f['xo'] or f['yo'] or fs[j - 1]['xo'] or fs[j - 1]['yo']):
                        # bare frame name: the delay is carried over from the previous frame.  Only used after a frame
                        # at (0,0): the parser also carries x,y over (documentation: default (0,0)) - a macro-parameter
                        # question outside C15, so the generator stays where both readings agree.
                        specs.append('%sf%d' % (fname, j))
                    else:
                        delay = d
                        specs.append('%sf%d,%d,%d,%d' % (fname, j, delay, f['xo'], f['yo']) if (f['xo'] or f['yo'] or r.random() < 0.5)
                                     else '%sf%d,%d' % (fname, j, delay))
                    f['delay'] = delay
                m = ' '.join(ms) + ' #FRAMES(%s)(%s)' % (';'.join(specs), fname)
                planned.append(('frames', fname, fs, st, m, tag))
        imgdir, log_tail = run_skool2html(wd, name, mem, [p[4] for p in planned], 1 if anim else 0, pngalpha)
        results = {}
        if imgdir is None:
            # one macro made skool2html fail: run every macro on its own to find out which
            with ThreadPoolExecutor(4) as ex:
                futs = [ex.submit(run_skool2html, wd, '%sm%d' % (name, k), mem, [p[4]], 1 if anim else 0, pngalpha)
                        for k, p in enumerate(planned)]
                for p, fu in zip(planned, futs):
                    results[p[1]] = fu.result()
        for kind, fname, fs, st, m, tag in planned:
            key = 'macro:%s:%s%s' % (kind, _fkey(fs[0]), ':seq%d' % len(fs) if len(fs) > 1 else '')
            st = dict(st, anim=1 if anim else 0)
            idir, tail = results.get(fname, (imgdir, log_tail))
            path = os.path.join(idir, fname + '.png') if idir else None
            if path and os.path.isfile(path):
                with open(path, 'rb') as fh:
                    cases.append(_case(key, 'skool2html', fs, st, fh.read(), tag=tag, macro=m, enc=[]))
            else:
                e = RuntimeError('no image written: ' + tail[-600:])
                last = [ln for ln in tail.splitlines() if ln.strip()][-1:] or ['']
                mt = re.match(r'([A-Za-z_][\w.]*): ', last[0])
                e.tname = mt.group(1) if mt else 'NoImage'
                cases.append(_exc(key, 'skool2html', fs, st, e, tag=tag, macro=m, enc=[]))
            stats['macro'][kind] = stats['macro'].get(kind, 0) + 1
    return cases


def drive_sna2img(g, wd, wi, n, stats):
    r = g.rng
    cases = []
    for k in range(n):
        mem = Mem(r)
        kind = ('scr', 'udgarray', 'udg', 'font', 'scrmacro')[(k + wi) % 5]
        anim = r.random() < 0.7
        name = 'w%ds%d' % (wi, k)
        args = []
        st = {'tindex': 0, 'alpha': -1, 'pngalpha': 255, 'anim': 1 if anim else 0}
        if kind == 'scr':
            # plain screenshot mode: -o X,Y -S WxH (tiles) -s scale
            sc = r.choice(g.scales[:4])
            f = g.frame(r.choice((0, 4, 16)), False, 'none', 2, (r.randint(1, max(1, 6 // sc)), r.randint(1, max(1, 8 // sc))), sc,
                        geo=False, mtypes=(0,))
            for row in f['udgs']:
                for t in row:
                    t['m'] = []
            rows, cols = len(f['udgs']), len(f['udgs'][0])
            x0, y0 = r.randint(0, 32 - cols), r.randint(0, 24 - rows)
            for rr, row in enumerate(f['udgs']):
                for c, t in enumerate(row):
                    cy, cx = y0 + rr, x0 + c
                    mem.put(16384 + 2048 * (cy // 8) + 32 * (cy % 8) + cx, t['d'], 256)
                    mem.b[22528 + 32 * cy + cx] = t['a']
            args += ['-o', '%d,%d' % (x0, y0), '-S', '%dx%d' % (cols, rows)]
            if sc != 1 or r.random() < 0.5:
                args += ['-s', str(sc)]
        else:
            if kind == 'udg':
                f = g.frame(r.choice((0, 2, 4)), None, None, 2, (1, 1))
                st.update(g.settings([f], anim), pngalpha=255)
                m = macro_udg(r, mem, f, st, 'x')
            elif kind == 'udgarray':
                f = g.frame(r.choice((0, 0, 2, 4, 16)))
                st.update(g.settings([f], anim), pngalpha=255)
                m = macro_udgarray(r, mem, f, st, 'x')
            elif kind == 'font':
                sc = r.choice(g.scales[:4])
                f = g.frame(2, False, None, 2, (1, r.randint(1, max(1, min(6, 8 // sc)))), sc, geo=False, mtypes=(0,))
                for t in f['udgs'][0]:
                    t['a'], t['m'] = f['udgs'][0][0]['a'], []
                st.update(g.settings([f], anim), pngalpha=255)
                m = macro_font(r, mem, f, st, 'x')
            else:
                f = g.frame(r.choice((0, 16)), False, None, 2, None, None, geo=False, mtypes=(0,))
                for row in f['udgs']:
                    for t in row:
                        t['m'] = []
                st.update(g.settings([f], anim), pngalpha=255)
                m = macro_scr(r, mem, f, st, 'x')
            m = m[:m.rindex('(')]                  # no filename
            args += ['-e', m if r.random() < 0.5 else m[1:]]
        # sna2img's own flip / rotate / invert act on the image the macro describes
        if r.random() < 0.5:
            fl, ro = r.randrange(4), r.choice((0, 1, 2, 3, 3, 5, 6))
            vw, vh = dims_of(f)[:2]
            if ro % 2 and (f['x'], f['y'], f['w'], f['h']) != (0, 0, 0, 0):
                ro -= 1                           # keep the cropping specification inside the turned image
            f['flip2'], f['rot2'] = fl, ro
            if fl:
                args += ['-f', str(fl)]
            if ro:
                args += ['-r', str(ro)]
            vw2, vh2 = dims_of(f)[:2]
            if vw2 > max(g.maxw, vw) or vh2 > max(g.maxh, vh):
                pass
        if r.random() < 0.3:
            f['inv'] = 1
            args.append('-i')
        if not anim:
            args.append('-n')
        key = 'sna2img:%s:%s' % (kind, _fkey(f))
        try:
            png = run_sna2img(wd, name, mem, args, scr=(kind == 'scr' and r.random() < 0.5))
            cases.append(_case(key, 'sna2img', [f], st, png, macro=' '.join(args), enc=[]))
        except BaseException as e:
            if isinstance(e, KeyboardInterrupt):
                raise
            cases.append(_exc(key, 'sna2img', [f], st, e, macro=' '.join(args), enc=[]))
        stats['sna2img'][kind] = stats['sna2img'].get(kind, 0) + 1
    return cases


def work(args):
    seed, wi, tier, wd, n_sys, n_rand, n_multi, n_batches, per_batch, n_sna = args
    cbuild.repo_only()
    import skoolkit
    if not os.path.abspath(skoolkit.__file__).startswith(os.path.abspath(REPO) + os.sep):
        raise MachineryError('skoolkit imported from %s, not %s' % (skoolkit.__file__, REPO))
    g = Gen(seed * 1000003 + wi, wi, tier)
    stats = {'enc': {}, 'generic_twin': {}, 'macro': {}, 'sna2img': {}}
    mywd = os.path.join(wd, 'w%d' % wi)
    os.makedirs(mywd, exist_ok=True)
    cases = drive_api(g, api_cases(g, n_sys, n_rand, n_multi), stats)
    cases += drive_macros(g, mywd, wi, n_batches, per_batch, stats)
    cases += drive_sna2img(g, mywd, wi, n_sna, stats)
    return cases, stats
