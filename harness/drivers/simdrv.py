"""Single-step case generation and execution on the four simulator implementations.

A case (DESIGN Appendix A.1, simplified):
  {"key": "...", "r": [30 ints], "ov": [[addr, byte], ...], "inv": int (-1 = no tracer),
   "frame": 69888, "ia": 32,
   "obs": [{"impl": "py"|"c"|"pycm"|"ccm", "r": [...], "wr": [[addr, byte]...], "io": [[kind, port, val]...], "exc": ""}]}
Memory = Base(a) pattern (identical to Z80Bits!Base) + overlay `ov`.
`wr` is the diff of the WHOLE 64K address space after the step (so any stray write is seen).
"""
import random

from ..lib import cbuild

N_REGS = 30
A, F, B, C, D, E, H, L, IXh, IXl, IYh, IYl, SP, SP2, I, R = range(16)
PC, T, IFF, IM, HALT, MEMPTR = 24, 25, 26, 27, 28, 29


def base(a):
    return ((a * 73) + ((a // 256) * 29) + 11) % 256


BASE = [base(a) for a in range(65536)]
BASE_BYTES = bytes(BASE)


class Tracer:
    def __init__(self):
        self.inv = 0
        self.io = []

    def read_port(self, registers, port):
        self.io.append(['i', port, 0])
        return self.inv

    def write_port(self, registers, port, value, offset=0):
        self.io.append(['o', port, value])


class OutOnlyTracer:
    def __init__(self):
        self.io = []

    def write_port(self, registers, port, value, offset=0):
        self.io.append(['o', port, value])


class Impl:
    """One simulator implementation with its own persistent 48K memory."""

    def __init__(self, name, cls, use_bytes):
        from skoolkit import simutils
        self.name = name
        self.use_bytes = use_bytes
        self.mem = bytearray(BASE_BYTES) if use_bytes else list(BASE)
        self.ref = bytearray(BASE_BYTES) if use_bytes else list(BASE)
        self.sim = simutils.from_memory(cls, self.mem, None, None, {'fast_djnz': False, 'fast_ldir': False})
        self.mem = self.sim.memory      # the C simulators convert the memory they are given into their own bytearray
        self.tracer = Tracer()
        self.otracer = OutOnlyTracer()
        self.cur = None

    def run_case(self, case):
        mem, ref, sim = self.mem, self.ref, self.sim
        for a, v in case['ov']:
            mem[a] = v
            ref[a] = v
        regs = sim.registers
        for i, v in enumerate(case['r']):
            regs[i] = v
        inv = case['inv']
        if inv >= 0:
            tr = self.tracer
            tr.inv = inv
        else:
            tr = self.otracer
        tr.io = []
        if self.cur is not tr:
            sim.set_tracer(tr)
            self.cur = tr
        exc = ''
        try:
            sim.run(case['r'][PC])
        except Exception as e:  # any exception is an observation, not a harness failure
            exc = '%s: %s' % (type(e).__name__, e)
        wr = []
        if mem != ref:
            if self.use_bytes:
                wr = [[a, mem[a]] for a in range(65536) if mem[a] != ref[a]]
                mem[:] = BASE_BYTES
                ref[:] = BASE_BYTES
            else:
                wr = [[a, mem[a]] for a in range(65536) if mem[a] != ref[a]]
                for a, _ in wr:
                    mem[a] = BASE[a]
                for a, _ in case['ov']:
                    mem[a] = BASE[a]
                    ref[a] = BASE[a]
        else:
            for a, _ in case['ov']:
                mem[a] = BASE_BYTES[a]
                ref[a] = BASE_BYTES[a]
        out = [int(v) for v in regs]
        return {'impl': self.name, 'r': out, 'wr': wr, 'io': [list(x) for x in tr.io], 'exc': exc}


class Impl128:
    """One simulator implementation on a 128K machine whose paging is fixed and LOCKED (bit 5 of 0x7FFD
    set, so neither the C simulators nor a paging tracer can change it): the CPU sees the same Base(a)
    pattern + overlay as on the 48K machine; `page` is the RAM bank at 0xC000, `rom` the ROM at 0."""

    def __init__(self, name, cls, page, rom):
        from skoolkit import simutils
        from skoolkit.pagingtracer import Memory
        assert page not in (2, 5)
        self.name = name
        self.page, self.rom = page, rom
        self.o7ffd = 0x20 | (rom << 4) | page
        banks = [[0] * 0x4000 for _ in range(8)]
        banks[5][:] = BASE[0x4000:0x8000]
        banks[2][:] = BASE[0x8000:0xC000]
        banks[page][:] = BASE[0xC000:]
        mem = Memory(banks, self.o7ffd)
        for r in mem.roms:
            r[:] = BASE[:0x4000]
        self.sim = simutils.from_memory(cls, mem, None, None, {'fast_djnz': False, 'fast_ldir': False})
        self.mem = self.sim.memory
        self.tracer = Tracer()
        self.otracer = OutOnlyTracer()
        self.cur = None
        self.touched = []

    def _pages(self):
        m = self.mem
        return [('rom0', m.roms[0], 0), ('rom1', m.roms[1], 0)] + [('bank%d' % i, m.banks[i], i) for i in range(8)]

    def run_case(self, case):
        mem, sim = self.mem, self.sim
        if mem.o7ffd != self.o7ffd or mem.memory[0] is not mem.roms[self.rom] or mem.memory[3] is not mem.banks[self.page]:
            raise AssertionError('paging changed although locked')
        for a, v in case['ov']:
            mem[a] = v
        regs = sim.registers
        for i, v in enumerate(case['r']):
            regs[i] = v
        inv = case['inv']
        if inv >= 0:
            tr = self.tracer
            tr.inv = inv
        else:
            tr = self.otracer
        tr.io = []
        if self.cur is not tr:
            sim.set_tracer(tr)
            self.cur = tr
        exc = ''
        try:
            sim.run(case['r'][PC])
        except Exception as e:
            exc = '%s: %s' % (type(e).__name__, e)
        ov = dict((a, v) for a, v in case['ov'])
        wr = []
        # visible address space: diff against Base + overlay
        vis = (mem.roms[self.rom], mem.banks[5], mem.banks[2], mem.banks[self.page])
        for q in range(4):
            pg = vis[q]
            exp = BASE_BYTES[q * 0x4000:(q + 1) * 0x4000]
            # (a page that equals the pattern again can still differ from pattern + overlay: a store of the pattern's value
            #  into an overlaid cell)
            if bytes(pg) != exp or any(a // 0x4000 == q for a in ov):
                for x in range(0x4000):
                    a = q * 0x4000 + x
                    if pg[x] != ov.get(a, BASE[a]):
                        wr.append([a, int(pg[x])])
                    if pg[x] != BASE[a]:
                        pg[x] = BASE[a]
        # hidden pages must stay as they were (zeros / pattern): report as writes to addresses >= 65536
        hidden = [(1 - self.rom, mem.roms[1 - self.rom], BASE_BYTES[:0x4000])]
        for i in range(8):
            if i not in (2, 5, self.page):
                hidden.append((2 + i, mem.banks[i], None))
        for k, pg, exp in hidden:
            if (bytes(pg) != exp) if exp is not None else any(pg):
                for x in range(0x4000):
                    e = exp[x] if exp is not None else 0
                    if pg[x] != e:
                        wr.append([65536 + k * 0x4000 + x, int(pg[x])])
                        pg[x] = e
        out = [int(v) for v in regs]
        return {'impl': self.name, 'r': out, 'wr': wr, 'io': [list(x) for x in tr.io], 'exc': exc}


_impls128 = {}


def impls128(page, rom):
    """py / pycm / ccm (and c) on a 128K machine with `page` at 0xC000."""
    key = (page, rom)
    if key not in _impls128:
        cbuild.preload()
        import skoolkit
        from skoolkit.simulator import Simulator
        from skoolkit.cmiosimulator import CMIOSimulator
        _impls128[key] = [Impl128('py', Simulator, page, rom), Impl128('c', skoolkit.CSimulator, page, rom),
                          Impl128('pycm', CMIOSimulator, page, rom), Impl128('ccm', skoolkit.CCMIOSimulator, page, rom)]
    return _impls128[key]


_impls = None


def impls():
    global _impls
    if _impls is None:
        cbuild.preload()
        import skoolkit
        from skoolkit.simulator import Simulator
        from skoolkit.cmiosimulator import CMIOSimulator
        _impls = [Impl('py', Simulator, False), Impl('c', skoolkit.CSimulator, True),
                  Impl('pycm', CMIOSimulator, False), Impl('ccm', skoolkit.CCMIOSimulator, True)]
    return _impls


# ------------------------------------------------------------------ generation
B8 = (0x00, 0x01, 0x0F, 0x10, 0x7F, 0x80, 0xFE, 0xFF, 0x99, 0x9A, 0x66, 0xA5)
B16 = (0x0000, 0x0001, 0x00FF, 0x0100, 0x0FFF, 0x1000, 0x3FFE, 0x3FFF, 0x4000, 0x4001, 0x7FFF, 0x8000, 0xFFFE, 0xFFFF,
       0xF000, 0xEFFF)
EDGE_W = (None, 0xFFFF, 0x3FFF, None, 0xFFFE, None, 0x3FFE, None, 0x0000, None)
PCS = (0x8000, 0x8000, 0x8000, 0x6000, 0xC123, 0xFFFC, 0xFFFD, 0xFFFE, 0xFFFF, 0x3FFE, 0x3FFF, 0x4000, 0x0000)
# frame positions that are never contended (top border) so that the CMIO simulators add no delay
TS48 = (0, 1, 20, 22, 23, 27, 28, 31, 32, 100, 5000, 69888 - 4, 69888 - 9, 69888 - 5, 69888 - 1, 69888 + 23, 69888 * 2 - 4)


TS128 = (0, 1, 20, 30, 31, 32, 33, 35, 36, 37, 100, 5000, 70908 - 4, 70908 - 9, 70908 - 5, 70908 - 1, 70908 + 23, 70908 + 35,
         70908 * 2 - 4)
# (bank at 0xC000, ROM) configurations of the locked 128K machine used for single steps
CONF128 = ((1, 0), (4, 1), (7, 0), (0, 1), (3, 1), (6, 0))


def r8(rnd):
    return rnd.choice(B8) if rnd.random() < 0.5 else rnd.randrange(256)


def r16(rnd):
    return rnd.choice(B16) if rnd.random() < 0.5 else rnd.randrange(65536)


def slots():
    """All 1792 opcode slots as tuples of leading bytes + position of the opcode byte."""
    out = []
    for op in range(256):
        out.append(((op,), 'M%02X' % op))
    for op in range(256):
        out.append(((0xCB, op), 'CB%02X' % op))
    for op in range(256):
        out.append(((0xED, op), 'ED%02X' % op))
    for pfx in (0xDD, 0xFD):
        for op in range(256):
            out.append(((pfx, op), '%02X%02X' % (pfx, op)))
    for pfx in (0xDD, 0xFD):
        for op in range(256):
            out.append(((pfx, 0xCB, None, op), '%02XCB%02X' % (pfx, op)))
    return out


def make_case(slot, rnd, variant=0, frame=69888, ia=32):
    lead, name = slot
    pc = rnd.choice(PCS) if variant else 0x8000
    ins = []
    for b in lead:
        ins.append(r8(rnd) if b is None else b)
    while len(ins) < 4:
        ins.append(r8(rnd))
    if len(lead) <= 2:
        # a 16-bit immediate (where the instruction has one) at an edge: LD (0xFFFF),rr stores its second byte at 0x0000,
        # LD (0x3FFF),rr its first byte in ROM.  Variants 1 and 2 of every slot have these two values, others sometimes.
        w = EDGE_W[variant % len(EDGE_W)]
        if w is None and rnd.random() < 0.25:
            w = rnd.choice(B16)
        if w is not None:
            ins[len(lead)], ins[len(lead) + 1] = w & 255, w >> 8
    if lead[0] in (0xDD, 0xFD):
        # the index displacement at the ends of its signed range in fixed variants (0x80 = -128, the only value whose
        # sign extension differs between '< 128' and '<= 128')
        d = {4: 0x80, 5: 0x7F, 6: 0xFF, 7: 0x00, 8: 0x81}.get(variant % 12)
        if d is not None:
            ins[2] = d
    regs = [0] * N_REGS
    for i in (A, F, B, C, D, E, H, L, IXh, IXl, IYh, IYl, I, R, 16, 17, 18, 19, 20, 21, 22, 23):
        regs[i] = r8(rnd)
    for hi in (B, D, H, IXh, IYh):
        if rnd.random() < 0.5:
            v = r16(rnd)
            regs[hi], regs[hi + 1] = v >> 8, v & 255
    regs[SP] = r16(rnd)
    if lead[0] in (0xDD, 0xFD) and variant % 12 in (4, 5, 6, 7, 8):
        # ... with the index register well inside RAM, so that both IX+d and the wrong IX-d/IX+256-d would show
        for hi in (IXh, IYh):
            v = rnd.choice((0x8000, 0x9ABC, 0xC080, 0x6100))
            regs[hi], regs[hi + 1] = v >> 8, v & 255
    if variant % len(EDGE_W) in (1, 2):
        regs[A] = 0xFF if variant % len(EDGE_W) == 1 else 0x00      # with the 0xFFFF / 0x3FFF immediates: A:n = 0xFFFF after IN A,(0xFF)
    # the stack pointer at the ROM/RAM/64K edges in fixed variants of every slot (pushes and pops split over the edge)
    sp_edge = {3: 0x4001, 4: 0x4000, 5: 0x0001, 6: 0xFFFF}.get(variant % 12)
    if sp_edge is not None:
        regs[SP] = sp_edge
    regs[PC] = pc
    regs[T] = rnd.choice(TS48) if frame == 69888 else rnd.choice(TS128 if frame == 70908 else TS48[:11])
    regs[IFF] = rnd.randrange(2)
    regs[IM] = rnd.randrange(3)
    regs[HALT] = 0
    regs[MEMPTR] = rnd.randrange(65536)
    # block instructions: make BC small often so that both outcomes are exercised
    if len(lead) > 1 and lead[0] == 0xED and lead[1] >= 0xA0:
        # the counter about to run out / just wrapped in fixed variants (the last iteration sets the flags differently)
        bc = {1: 1, 2: 2, 3: 0, 7: 0x0100, 8: 0x01FF}.get(variant % 12)
        if bc is None and rnd.random() < 0.6:
            bc = rnd.choice((0, 1, 2, 0x100, 0x101, 0x8000, 0x8100, 0x7F00, 0xFF00))
        if bc is not None:
            regs[B], regs[C] = bc >> 8, bc & 255
    if lead[0] == 0x10 and rnd.random() < 0.5:
        regs[B] = rnd.choice((0, 1, 2))
    ov = [[(pc + i) % 65536, b] for i, b in enumerate(ins)]
    if variant % 2:
        # memory operands with byte-edge values (0x00, 0x7F, 0x80, 0xFF ...) instead of the background pattern: what (HL),
        # (BC), (DE) and the stack top hold decides carries and overflows
        code = {a for a, _ in ov}
        for ptr in (regs[L] + 256 * regs[H], regs[C] + 256 * regs[B], regs[E] + 256 * regs[D], regs[SP]):
            for k in (0, 1):
                a = (ptr + k) % 65536
                if a not in code and rnd.random() < 0.6:
                    ov.append([a, rnd.choice(B8)])
                    code.add(a)
    inv = rnd.choice((-1, r8(rnd), r8(rnd)))
    return {'key': '%s/%d' % (name, variant), 'r': regs, 'ov': ov, 'inv': inv, 'frame': frame, 'ia': ia}


E16 = (0x0000, 0x0001, 0x0FFF, 0x1000, 0x7FFF, 0x8000, 0xFFFF)
ALU16 = ('M09', 'M19', 'M29', 'M39', 'ED4A', 'ED5A', 'ED6A', 'ED7A', 'ED42', 'ED52', 'ED62', 'ED72',
         'DD09', 'DD19', 'DD29', 'DD39', 'FD09', 'FD19', 'FD29', 'FD39')
BLOCKCP = ('EDA1', 'EDA9', 'EDB1', 'EDB9')


def edge_cases(seed):
    """A deterministic sweep that random operands reach only by luck: the 16-bit adders over every pair of edge operands
    x carry in (signed overflow and half carry sit exactly at 0x7FFF/0x8000/0x0FFF/0x1000, and the carry moves them by one),
    and the block compares over every pair of byte edges x counter 0/1/2 (the last iteration decides P/V)."""
    rnd = random.Random(seed)
    by_name = {n: (lead, n) for lead, n in slots()}
    cases = []
    for n in ALU16:
        for hl in E16:
            for rr in E16:
                for cy in (0, 1):
                    c = make_case(by_name[n], rnd, 0)
                    r = c['r']
                    for hi in (H, IXh, IYh):
                        r[hi], r[hi + 1] = hl >> 8, hl & 255
                    for hi in (B, D):
                        r[hi], r[hi + 1] = rr >> 8, rr & 255
                    r[SP] = rr
                    r[F] = (r[F] & 0xFE) | cy
                    c['key'] = '%s/edge:%04X:%04X:%d' % (n, hl, rr, cy)
                    cases.append(c)
    for n in BLOCKCP:
        for a in B8:
            for m in B8:
                for bc in (0, 1, 2):
                    c = make_case(by_name[n], rnd, 0)
                    r = c['r']
                    r[A] = a
                    r[H], r[L] = 0x81, 0x00
                    r[B], r[C] = bc >> 8, bc & 255
                    c['ov'] = [x for x in c['ov'] if x[0] != 0x8100] + [[0x8100, m]]
                    c['key'] = '%s/edge:%02X:%02X:%d' % (n, a, m, bc)
                    cases.append(c)
    return run_cases(cases)


def run_cases(cases):
    for c in cases:
        c['obs'] = [im.run_case(c) for im in impls()]
    return cases


def gen_and_run(args):
    """Worker entry (multiprocessing): (seed, slot_indexes, variants) -> executed cases."""
    seed, idxs, variants = args
    rnd = random.Random(seed)
    sl = slots()
    cases = []
    for i in idxs:
        for v in range(variants):
            cases.append(make_case(sl[i], rnd, v))
    return run_cases(cases)


def gen_and_run128(args):
    """(seed, slot_indexes, variants) -> executed cases on the four implementations over 128K memory (locked paging,
    different banks / ROMs at 0xC000 / 0x0000); stores into hidden pages show up as writes to addresses >= 65536."""
    seed, idxs, variants = args
    rnd = random.Random(seed)
    sl = slots()
    cases = []
    for i in idxs:
        for v in range(variants):
            page, rom = CONF128[(i + v) % len(CONF128)]
            c = make_case(sl[i], rnd, 1 + v, frame=70908, ia=36)
            c['key'] = '%s/128:%d:%d:%d' % (sl[i][1], page, rom, v)
            c['obs'] = [im.run_case(c) for im in impls128(page, rom)]
            cases.append(c)
    return cases
