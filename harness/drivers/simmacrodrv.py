"""E01 driver: the simulator-backed skool macros (#SIM, #TSTATES, #AUDIO in sim mode) driven through the real tools.

One case = one skool file:
  * the whole 64K (48K snapshot) or ROM 0 + RAM banks 5, 2, the first paged bank and every bank the session pages
    in (128K snapshot) is given the background pattern Z80Bits!Base by @defb directives / @bank side files, so that
    any read of any address agrees with the specification's memory model;
  * a generated program (straight-line code, DJNZ / JR NZ / DEC-OR loops, conditional skips, CALL/RET with RET cc,
    LDIR/LDDR/CPIR, stores through locally loaded pointers, PUSH/POP, OUT/IN, EI/DI/IM, EI+HALT next to a frame
    boundary, 128K paging and AY writes) is assembled by the tool itself from the instruction text (@assemble
    default 2);
  * one comment (an instruction comment or a mid-block comment) holds a "session": a sequence of #SIM, #FORMAT0
    of sim[...] fields, #PEEK, #TSTATES (static and executed), #POKES, #PUSHS/#POPS, #BANK and #AUDIO macros, each
    followed by a ~k~ marker;
  * skool2asm.main and skool2html.main expand it; the text between the markers is projected to lists of integers.
    #AUDIO delays are recorded by a plug-in AudioWriter component (documented component API: write_audio(audio_file,
    delays, options)) declared in a skoolkit.ini in the worker's directory.

Nothing here computes an expected value: SimCases.tla does (spec/simmacro).  The generator only keeps the inputs
inside the documented domain (every executed store goes through a pointer loaded in the same fragment, every run
starts and stops at a fragment boundary and therefore terminates, no SCF/CCF/BIT n,(HL) whose flag bits 3/5 the Z80
documents leave open, 128K programs never page RAM 2/5 or ROM 1 at runtime).
"""
import contextlib
import html
import io
import json
import os
import random
import re
import shutil

from ..lib.common import REPO, VERIF, MachineryError

BAD = -999999
FRAME = (69888, 70908)


def base(a):
    return ((a * 73) + ((a // 256) * 29) + 11) % 256


# ------------------------------------------------------------------------------------------- audio recorder
class DelayRecorder:
    """AudioWriter component: writes the delays it is given instead of a WAV file."""

    def __init__(self, config=None):
        self.config = config

    def formats(self):
        return ('.wav',)

    def write_audio(self, audio_file, delays, options):
        audio_file.write(json.dumps({'delays': list(delays), 'offset': options.offset, 'is128k': bool(options.is128k),
                                     'contention': int(bool(options.contention)), 'interrupts': int(bool(options.interrupts))}).encode())


def prepare_cwd(d):
    """skoolkit reads skoolkit.ini from the current directory once per process"""
    os.makedirs(d, exist_ok=True)
    with open(os.path.join(d, 'skoolkit.ini'), 'w') as f:
        f.write('[skoolkit]\nAudioWriter=%s:harness.drivers.simmacrodrv.DelayRecorder\n' % VERIF)
    os.chdir(d)


# ------------------------------------------------------------------------------------------------ assembler
R8 = {'B': 0, 'C': 1, 'D': 2, 'E': 3, 'H': 4, 'L': 5, 'A': 7}
R8N = ['B', 'C', 'D', 'E', 'H', 'L', 'A']
ALU = ['ADD A,', 'ADC A,', 'SUB ', 'SBC A,', 'AND ', 'XOR ', 'OR ', 'CP ']
ROT = ['RLC', 'RRC', 'RL', 'RR', 'SLA', 'SRA', None, 'SRL']
RP = ['BC', 'DE', 'HL', 'SP']
RPW = {'BC': 'BC', 'DE': 'DE', 'HL': 'HL', 'SP': ''}
CC = ['NZ', 'Z', 'NC', 'C', 'PO', 'PE', 'P', 'M']


def K(text, *bs, w=''):
    """constant instruction; w = 8-bit registers it writes"""
    bs = list(bs)
    return ('I', len(bs), lambda a, L, t=text, b=bs: (t, b), frozenset(w))


def REL(mn, op, label):
    return ('I', 2, lambda a, L: ('%s%d' % (mn, L[label]), [op, (L[label] - (a + 2)) & 255]), frozenset('B' if op == 0x10 else ''))


def ABS(mn, ops, label, w=''):
    ops = list(ops)
    return ('I', len(ops) + 2, lambda a, L: ('%s%d' % (mn, L[label]), ops + [L[label] & 255, L[label] >> 8]), frozenset(w))


def LBL(name):
    return ('L', name)


def lo(v):
    return v & 255


def hi(v):
    return (v >> 8) & 255


class ProgGen:
    def __init__(self, rng, org, dw, is128=False, clean=False, pages=()):
        self.r = rng
        self.org = org
        self.dw = dw                  # data window: dw .. dw+127
        self.is128 = is128
        self.clean = clean            # no port I/O, no contended accesses, no wild reads (cmio sessions)
        self.pages = list(pages)      # RAM banks the program may page in (128K)
        self.nl = 0
        self.subs = []                # [(label, items)]
        self.kinds = []
        self.touch = []               # addresses the fragment being generated may store to

    def label(self):
        self.nl += 1
        return 'l%d' % self.nl

    # ---- single register-level instructions
    def simple(self, protect=frozenset(), mem=True):
        for _ in range(200):
            it = self._simple(mem)
            if not (it[3] & protect):
                return it
        return K('NOP', 0)

    def _simple(self, mem):
        r = self.r
        c = r.randrange(30)
        rn = r.choice(R8N)
        rc = R8[rn]
        n = r.choice([0, 1, 2, 15, 16, 127, 128, 255, r.randrange(256), r.randrange(256)])
        if c < 3:
            return K('LD %s,%d' % (rn, n), 0x06 + 8 * rc, n, w=rn)
        if c < 5:
            r2 = r.choice(R8N)
            return K('LD %s,%s' % (rn, r2), 0x40 + 8 * rc + R8[r2], w=rn)
        if c < 8:
            o = r.randrange(8)
            return K('%s%s' % (ALU[o], rn), 0x80 + 8 * o + rc, w='' if o == 7 else 'A')
        if c < 10:
            o = r.randrange(8)
            return K('%s%d' % (ALU[o], n), 0xC6 + 8 * o, n, w='' if o == 7 else 'A')
        if c < 12:
            return K('INC %s' % rn, 0x04 + 8 * rc, w=rn) if r.random() < .5 else K('DEC %s' % rn, 0x05 + 8 * rc, w=rn)
        if c == 12:
            t, b = r.choice([('RLCA', 0x07), ('RRCA', 0x0F), ('RLA', 0x17), ('RRA', 0x1F), ('DAA', 0x27), ('CPL', 0x2F)])
            return K(t, b, w='A')
        if c == 13:
            return K('NEG', 0xED, 0x44, w='A')
        if c == 14:
            o = r.choice([0, 1, 2, 3, 4, 5, 7])
            return K('%s %s' % (ROT[o], rn), 0xCB, 8 * o + rc, w=rn)
        if c == 15:
            b = r.randrange(8)
            return K('BIT %d,%s' % (b, rn), 0xCB, 0x40 + 8 * b + rc)
        if c == 16:
            b = r.randrange(8)
            if r.random() < .5:
                return K('SET %d,%s' % (b, rn), 0xCB, 0xC0 + 8 * b + rc, w=rn)
            return K('RES %d,%s' % (b, rn), 0xCB, 0x80 + 8 * b + rc, w=rn)
        if c == 17:
            p = r.randrange(3)
            if r.random() < .5:
                return K('INC %s' % RP[p], 0x03 + 16 * p, w=RPW[RP[p]])
            return K('DEC %s' % RP[p], 0x0B + 16 * p, w=RPW[RP[p]])
        if c == 18:
            p = r.randrange(4)
            return K('ADD HL,%s' % RP[p], 0x09 + 16 * p, w='HL')
        if c == 19:
            p = r.randrange(4)
            if r.random() < .5:
                return K('ADC HL,%s' % RP[p], 0xED, 0x4A + 16 * p, w='HL')
            return K('SBC HL,%s' % RP[p], 0xED, 0x42 + 16 * p, w='HL')
        if c == 20:
            return r.choice([K('EX DE,HL', 0xEB, w='DEHL'), K("EX AF,AF'", 0x08, w='A'), K('EXX', 0xD9, w='BCDEHL')])
        if c == 21:
            x = r.randrange(4)
            if x == 0:
                return K('LD A,R', 0xED, 0x5F, w='A')
            if x == 2:
                return K('LD R,A', 0xED, 0x4F)
            return K('LD A,I', 0xED, 0x57, w='A')
        if c == 22:
            x = r.randrange(6)
            pre, nm = r.choice([(0xDD, 'IX'), (0xFD, 'IY')])
            v = r.randrange(65536)
            if x == 0:
                return K('LD %s,%d' % (nm, v), pre, 0x21, lo(v), hi(v))
            if x == 1:
                return K('INC %s' % nm, pre, 0x23)
            if x == 2:
                p = r.randrange(4)
                return K('ADD %s,%s' % (nm, [RP[0], RP[1], nm, RP[3]][p]), pre, 0x09 + 16 * p)
            if x == 3:
                return K('LD A,%sl' % nm, pre, 0x7D, w='A')
            if x == 4:
                return K('LD %sh,%d' % (nm, n), pre, 0x26, n)
            return K('DEC %s' % nm, pre, 0x2B)
        if c == 23:
            return r.choice([K('NOP', 0), K('EI', 0xFB), K('DI', 0xF3), K('IM 1', 0xED, 0x56), K('IM 2', 0xED, 0x5E),
                             K('IM 0', 0xED, 0x46), K('NOP', 0)])
        if c < 27 and mem:
            a = self.dw + r.randrange(0, 126)
            x = r.randrange(8)
            if x == 0:
                return K('LD A,(%d)' % a, 0x3A, lo(a), hi(a), w='A')
            if x in (1, 3, 4, 7):
                self.touch += [a, a + 1]
            if x == 1:
                return K('LD (%d),A' % a, 0x32, lo(a), hi(a))
            if x == 2:
                return K('LD HL,(%d)' % a, 0x2A, lo(a), hi(a), w='HL')
            if x == 3:
                return K('LD (%d),HL' % a, 0x22, lo(a), hi(a))
            if x == 4:
                p = r.choice([0, 1, 3])
                return K('LD (%d),%s' % (a, RP[p]), 0xED, 0x43 + 16 * p, lo(a), hi(a))
            if x == 5:
                p = r.choice([0, 1])
                return K('LD %s,(%d)' % (RP[p], a), 0xED, 0x4B + 16 * p, lo(a), hi(a), w=RP[p])
            if x == 6:
                return K('LD IX,(%d)' % a, 0xDD, 0x2A, lo(a), hi(a))
            return K('LD (%d),IY' % a, 0xFD, 0x22, lo(a), hi(a))
        if c < 29 and mem and not self.clean:
            # wild reads: whatever the pointer registers hold
            x = r.randrange(7)
            if x == 0:
                q = r.choice(['B', 'C', 'D', 'E', 'A'])
                return K('LD %s,(HL)' % q, 0x46 + 8 * R8[q], w=q)
            if x == 1:
                o = r.randrange(8)
                return K('%s(HL)' % ALU[o], 0x86 + 8 * o, w='' if o == 7 else 'A')
            if x == 2:
                return K('LD A,(BC)', 0x0A, w='A')
            if x == 3:
                return K('LD A,(DE)', 0x1A, w='A')
            if x == 4:
                d = r.randrange(-128, 128)
                q = r.choice(R8N)
                pre, nm = r.choice([(0xDD, 'IX'), (0xFD, 'IY')])
                return K('LD %s,(%s%+d)' % (q, nm, d), pre, 0x46 + 8 * R8[q], d & 255, w=q)
            if x == 5:
                d = r.randrange(-128, 128)
                o = r.randrange(8)
                return K('%s(IX%+d)' % (ALU[o], d), 0xDD, 0x86 + 8 * o, d & 255, w='' if o == 7 else 'A')
            v = r.randrange(65536)
            return K('LD A,(%d)' % v, 0x3A, lo(v), hi(v), w='A')
        return K('NOP', 0)

    def _w(self, v):
        return [lo(v), hi(v)]

    def body(self, n, protect=frozenset(), mem=True):
        return [self.simple(protect, mem) for _ in range(n)]

    # ---- fragments
    def f_straight(self):
        return self.body(self.r.randint(1, 6))

    def f_hl(self):
        r = self.r
        k = r.randrange(16, 100)
        a = self.dw + k
        its = [K('LD HL,%d' % a, 0x21, lo(a), hi(a), w='HL')]
        self.touch += [a, a + 1, a - 1, a + 2]
        moves = 0
        for _ in range(r.randint(1, 5)):
            x = r.randrange(13)
            q = r.choice(['B', 'C', 'D', 'E', 'A'])
            n = r.randrange(256)
            if x == 0:
                its.append(K('LD %s,(HL)' % q, 0x46 + 8 * R8[q], w=q))
            elif x == 1:
                q2 = r.choice(R8N)
                its.append(K('LD (HL),%s' % q2, 0x70 + R8[q2]))
            elif x == 2:
                its.append(K('LD (HL),%d' % n, 0x36, n))
            elif x == 3:
                its.append(K('INC (HL)', 0x34))
            elif x == 4:
                its.append(K('DEC (HL)', 0x35))
            elif x == 5:
                o = r.randrange(8)
                its.append(K('%s(HL)' % ALU[o], 0x86 + 8 * o, w='A'))
            elif x == 6:
                o = r.choice([0, 1, 2, 3, 4, 5, 7])
                its.append(K('%s (HL)' % ROT[o], 0xCB, 8 * o + 6))
            elif x == 7:
                b = r.randrange(8)
                its.append(K('SET %d,(HL)' % b, 0xCB, 0xC6 + 8 * b) if r.random() < .5 else K('RES %d,(HL)' % b, 0xCB, 0x86 + 8 * b))
            elif x == 8:
                its.append(K('RLD', 0xED, 0x6F, w='A') if r.random() < .5 else K('RRD', 0xED, 0x67, w='A'))
            elif x in (9, 10) and moves < 4:
                moves += 1
                its.append(K('INC HL', 0x23, w='HL') if r.random() < .5 else K('DEC HL', 0x2B, w='HL'))
            else:
                its.append(self.simple(frozenset('HL'), mem=False))
        return its

    def f_ix(self):
        r = self.r
        pre, nm = r.choice([(0xDD, 'IX'), (0xFD, 'IY')])
        a = self.dw + 64
        its = [K('LD %s,%d' % (nm, a), pre, 0x21, lo(a), hi(a))]
        for _ in range(r.randint(1, 4)):
            d = r.randrange(-40, 41)
            x = r.randrange(8)
            if x in (1, 2, 4, 5, 6):
                self.touch.append(a + d)
            q = r.choice(R8N)
            n = r.randrange(256)
            if x == 0:
                its.append(K('LD %s,(%s%+d)' % (q, nm, d), pre, 0x46 + 8 * R8[q], d & 255, w=q))
            elif x == 1:
                its.append(K('LD (%s%+d),%s' % (nm, d, q), pre, 0x70 + R8[q], d & 255))
            elif x == 2:
                its.append(K('LD (%s%+d),%d' % (nm, d, n), pre, 0x36, d & 255, n))
            elif x == 3:
                o = r.randrange(8)
                its.append(K('%s(%s%+d)' % (ALU[o], nm, d), pre, 0x86 + 8 * o, d & 255, w='A'))
            elif x == 4:
                its.append(K('INC (%s%+d)' % (nm, d), pre, 0x34, d & 255) if r.random() < .5 else K('DEC (%s%+d)' % (nm, d), pre, 0x35, d & 255))
            elif x == 5:
                o = r.choice([0, 1, 2, 3, 4, 5, 7])
                its.append(K('%s (%s%+d)' % (ROT[o], nm, d), pre, 0xCB, d & 255, 8 * o + 6))
            elif x == 6:
                b = r.randrange(8)
                its.append(K('SET %d,(%s%+d)' % (b, nm, d), pre, 0xCB, d & 255, 0xC6 + 8 * b) if r.random() < .5
                           else K('RES %d,(%s%+d)' % (b, nm, d), pre, 0xCB, d & 255, 0x86 + 8 * b))
            else:
                its.append(self.simple(mem=False))
        return its

    def f_bcde(self):
        r = self.r
        a = self.dw + r.randrange(8, 120)
        self.touch.append(a)
        if r.random() < .5:
            its = [K('LD BC,%d' % a, 0x01, lo(a), hi(a), w='BC')]
            its += [r.choice([K('LD (BC),A', 0x02), K('LD A,(BC)', 0x0A, w='A')])]
        else:
            its = [K('LD DE,%d' % a, 0x11, lo(a), hi(a), w='DE')]
            its += [r.choice([K('LD (DE),A', 0x12), K('LD A,(DE)', 0x1A, w='A')])]
        return its + self.body(r.randint(0, 2))

    def f_stack(self):
        r = self.r
        its = []
        for _ in range(r.randint(1, 4)):
            x = r.randrange(7)
            p = r.randrange(4)
            nm = ['BC', 'DE', 'HL', 'AF'][p]
            if x < 2:
                its.append(K('PUSH %s' % nm, 0xC5 + 16 * p))
            elif x < 4:
                its.append(K('POP %s' % nm, 0xC1 + 16 * p, w={'AF': 'A'}.get(nm, nm)))
            elif x == 4:
                its.append(K('PUSH IX', 0xDD, 0xE5) if r.random() < .5 else K('POP IY', 0xFD, 0xE1))
            elif x == 5:
                its.append(K('EX (SP),HL', 0xE3, w='HL'))
            else:
                its.append(self.simple())
        return its

    def f_block(self):
        r = self.r
        x = r.randrange(6)
        src = self.dw + r.randrange(8, 100)
        dst = self.dw + r.randrange(8, 100)
        n = r.randint(1, 6)
        if r.random() < .15:
            src = r.randrange(65536) if not self.clean else src       # wild source, local destination
        its = [K('LD HL,%d' % src, 0x21, lo(src), hi(src), w='HL'), K('LD BC,%d' % n, 0x01, n, 0, w='BC')]
        if x < 4:
            its.insert(1, K('LD DE,%d' % dst, 0x11, lo(dst), hi(dst), w='DE'))
            self.touch += [dst, dst + (n - 1 if x == 0 else 1 - n if x == 1 else 0)]
        if r.random() < .5:
            its = [its[-1]] + its[:-1]
        if x == 0:
            its.append(K('LDIR', 0xED, 0xB0, w='BCDEHL'))
        elif x == 1:
            its.append(K('LDDR', 0xED, 0xB8, w='BCDEHL'))
        elif x == 2:
            its.append(K('LDI', 0xED, 0xA0, w='BCDEHL'))
        elif x == 3:
            its.append(K('LDD', 0xED, 0xA8, w='BCDEHL'))
        else:
            v = base(src + r.randrange(0, n + 1)) if r.random() < .6 else r.randrange(256)
            its.append(K('LD A,%d' % v, 0x3E, v, w='A'))
            its.append(r.choice([K('CPIR', 0xED, 0xB1, w='BCHL'), K('CPDR', 0xED, 0xB9, w='BCHL'), K('CPI', 0xED, 0xA1, w='BCHL')]))
        return its

    def f_io(self):
        r = self.r
        x = r.randrange(6)
        n = r.randrange(256)
        if x == 0:
            return [K('LD A,%d' % n, 0x3E, n, w='A'), K('OUT (254),A', 0xD3, 0xFE)]
        if x == 1:
            return [K('OUT (254),A', 0xD3, 0xFE)]
        if x == 2:
            port = r.choice([254, 0x7FFD, 0xFFFD, 0xBFFD, r.randrange(65536)])
            if self.is128:
                port = r.choice([254, 0xFFFE, r.randrange(65536) | 2])       # A1 = 1: neither paging nor AY
            q = r.choice(['A', 'D', 'E', 'H', 'L'])
            return [K('LD BC,%d' % port, 0x01, lo(port), hi(port), w='BC'), K('OUT (C),%s' % q, 0xED, 0x41 + 8 * R8[q])]
        if self.is128:
            return [K('OUT (254),A', 0xD3, 0xFE)]
        if x == 3:
            return [K('IN A,(254)', 0xDB, 0xFE, w='A')]
        if x == 4:
            q = r.choice(R8N)
            return [K('IN %s,(C)' % q, 0xED, 0x40 + 8 * R8[q], w=q)]
        return [K('LD A,%d' % n, 0x3E, n, w='A'), K('IN A,(%d)' % (n ^ 85), 0xDB, n ^ 85, w='A')]

    def f_page(self):
        r = self.r
        page = r.choice(self.pages)
        v = page + r.choice([0, 0, 8, 64, 128, 192])           # bits 3, 6, 7 do not select memory; never bit 4 (ROM 1) or 5 (lock)
        port = r.choice([0x7FFD, 0x7FFD, 0x7FFD, 0x3FFD, 0x5FF5, 0x7DFD])     # A15 = 0, A1 = 0
        its = [K('LD BC,%d' % port, 0x01, lo(port), hi(port), w='BC'), K('LD A,%d' % v, 0x3E, v, w='A'), K('OUT (C),A', 0xED, 0x79)]
        if r.random() < .3:
            its = [its[1], its[0], its[2]]
        return its

    def f_ay(self):
        r = self.r
        reg = r.choice(list(range(16)) + [16, 200])
        val = r.randrange(16)
        its = [K('LD BC,65533', 0x01, 0xFD, 0xFF, w='BC'), K('LD A,%d' % reg, 0x3E, reg, w='A'), K('OUT (C),A', 0xED, 0x79),
               K('LD B,191', 0x06, 191, w='B'), K('LD E,%d' % val, 0x1E, val, w='E'), K('OUT (C),E', 0xED, 0x59)]
        return its

    def f_djnz(self):
        r = self.r
        n = r.randint(1, 6)
        top = self.label()
        return [K('LD B,%d' % n, 0x06, n, w='B'), LBL(top)] + self.inner(frozenset('B')) + [REL('DJNZ ', 0x10, top)]

    def f_djnz_self(self):
        r = self.r
        n = r.choice([1, 2, 3, 5, 9, 17, 40, 0]) if r.random() < .9 else r.randint(1, 60)
        top = self.label()
        its = [K('LD B,%d' % n, 0x06, n, w='B'), LBL(top), REL('DJNZ ', 0x10, top)]
        if r.random() < .3:
            its.insert(0, r.choice([K('EI', 0xFB), K('DI', 0xF3)]))
        return its

    def f_count(self):
        r = self.r
        q = r.choice(['C', 'D', 'E', 'H', 'L', 'A', 'B'])
        n = r.randint(1, 5)
        top = self.label()
        its = [K('LD %s,%d' % (q, n), 0x06 + 8 * R8[q], n, w=q), LBL(top)] + self.inner(frozenset(q))
        its.append(K('DEC %s' % q, 0x05 + 8 * R8[q], w=q))
        its.append(REL('JR NZ,', 0x20, top) if r.random() < .6 else ABS('JP NZ,', [0xC2], top))
        return its

    def f_de(self):
        r = self.r
        n = r.randint(1, 5)
        top = self.label()
        p = r.choice([0, 1, 2])
        h, l = [('B', 'C'), ('D', 'E'), ('H', 'L')][p]
        return [K('LD %s,%d' % (RP[p], n), 0x01 + 16 * p, n, 0, w=RP[p]), LBL(top), K('DEC %s' % RP[p], 0x0B + 16 * p, w=RP[p]),
                K('LD A,%s' % h, 0x78 + R8[h], w='A'), K('OR %s' % l, 0xB0 + R8[l], w='A'), REL('JR NZ,', 0x20, top)]

    def inner(self, protect):
        """loop body: register instructions, absolute loads/stores, sometimes a conditional skip"""
        r = self.r
        its = self.body(r.randint(0, 3), protect)
        if r.random() < .25:
            its += self.f_cond(protect, depth=1)
        return its

    def flagset(self, protect):
        r = self.r
        for _ in range(50):
            x = r.randrange(6)
            n = r.randrange(256)
            q = r.choice(R8N)
            if x == 0:
                it = K('CP %d' % n, 0xFE, n)
            elif x == 1:
                it = K('OR A', 0xB7, w='A') if 'A' not in protect else K('CP 0', 0xFE, 0)
            elif x == 2:
                it = K('AND %d' % n, 0xE6, n, w='A')
            elif x == 3:
                it = K('DEC %s' % q, 0x05 + 8 * R8[q], w=q)
            elif x == 4:
                it = K('BIT %d,%s' % (n % 8, q), 0xCB, 0x40 + 8 * (n % 8) + R8[q])
            else:
                it = K('ADD A,%d' % n, 0xC6, n, w='A')
            if not (it[3] & protect):
                return it
        return K('CP 1', 0xFE, 1)

    def f_cond(self, protect=frozenset(), depth=0):
        r = self.r
        skip = self.label()
        its = [self.flagset(protect)] if r.random() < .8 else []
        y = r.randrange(8)
        if y < 4 and r.random() < .6:
            its.append(REL('JR %s,' % CC[y], 0x20 + 8 * y, skip))
        else:
            its.append(ABS('JP %s,' % CC[y], [0xC2 + 8 * y], skip))
        its += self.body(r.randint(1, 3), protect)
        its.append(LBL(skip))
        return its

    def sub(self):
        r = self.r
        name = self.label()
        its = self.body(r.randint(1, 3))
        if r.random() < .2:
            p = r.randrange(3)
            its = [K('PUSH %s' % RP[p], 0xC5 + 16 * p)] + its + [K('POP %s' % RP[p], 0xC1 + 16 * p, w=RP[p])]
        elif r.random() < .6:
            y = r.randrange(8)
            its += [self.flagset(frozenset()), K('RET %s' % CC[y], 0xC0 + 8 * y)] + self.body(r.randint(1, 2))
        its.append(K('RET', 0xC9))
        self.subs.append((name, its))
        return name

    def f_call(self):
        r = self.r
        name = r.choice(self.subs)[0] if self.subs and r.random() < .4 else self.sub()
        if r.random() < .6:
            return [ABS('CALL ', [0xCD], name, w='ABCDEHL')]
        y = r.randrange(8)
        return [self.flagset(frozenset()), ABS('CALL %s,' % CC[y], [0xC4 + 8 * y], name, w='ABCDEHL')]

    def f_jump(self):
        r = self.r
        t = self.label()
        junk = self.body(r.randint(1, 2))
        x = r.randrange(3)
        if x == 0:
            return [REL('JR ', 0x18, t)] + junk + [LBL(t)]
        if x == 1:
            return [ABS('JP ', [0xC3], t)] + junk + [LBL(t)]
        return [ABS('LD HL,', [0x21], t, w='HL'), K('JP (HL)', 0xE9)] + junk + [LBL(t)]

    def f_halt(self):
        return [K('EI', 0xFB), K('HALT', 0x76)]

    def f_audio(self):
        r = self.r
        top = self.label()
        d = self.label()
        n = r.randint(2, 6)
        m = r.randint(1, 9)
        q = r.choice(['E', 'L', 'C'])
        its = []
        if r.random() < .5:
            v = r.randrange(256)
            its.append(K('LD A,%d' % v, 0x3E, v, w='A'))
        its += [K('LD %s,%d' % (q, n), 0x06 + 8 * R8[q], n, w=q), LBL(top), K('OUT (254),A', 0xD3, 0xFE)]
        x = r.choice([16, 16, 16, 24, 7, 255, 17])
        its.append(K('XOR %d' % x, 0xEE, x, w='A'))
        its += [K('LD B,%d' % m, 0x06, m, w='B'), LBL(d), REL('DJNZ ', 0x10, d), K('DEC %s' % q, 0x05 + 8 * R8[q], w=q), REL('JR NZ,', 0x20, top)]
        return its

    # ---- whole program
    def program(self, kinds):
        """kinds: list of fragment kind names -> laid out program"""
        frags = []
        for k in kinds:
            self.touch = []
            its = getattr(self, 'f_' + k)()
            frags.append((k, its, sorted(set(self.touch))))
        items = []
        bounds_i = []
        for k, its, tch in frags:
            bounds_i.append(len(items))
            items += its
        bounds_i.append(len(items))
        items.append(K('RET', 0xC9))
        for name, its in self.subs:
            items.append(LBL(name))
            items += its
        # layout
        labels = {}
        addr = self.org
        addrs = []
        for it in items:
            addrs.append(addr)
            if it[0] == 'L':
                labels[it[1]] = addr
            else:
                addr += it[1]
        ins = []
        for it, a in zip(items, addrs):
            if it[0] == 'I':
                text, bs = it[2](a, labels)
                if len(bs) != it[1]:
                    raise MachineryError('length of %s' % text)
                ins.append((a, text, bs))
        bounds = [addrs[i] if i < len(addrs) else addr for i in bounds_i]
        return {'org': self.org, 'ins': ins, 'bounds': bounds, 'kinds': [f[0] for f in frags], 'touch': [f[2] for f in frags], 'end': addr}


HANDLERS = [
    # IM 1 (and IM 0): counts at CNT
    (56, [('PUSH AF', [0xF5]), ('LD A,({cnt})', [0x3A, 'cl', 'ch']), ('INC A', [0x3C]), ('LD ({cnt}),A', [0x32, 'cl', 'ch']),
          ('POP AF', [0xF1]), ('EI', [0xFB]), ('RET', [0xC9])]),
    # IM 2 through the vector tables: adds 16 at CNT+1
    (80, [('PUSH AF', [0xF5]), ('LD A,({cnt2})', [0x3A, 'dl', 'dh']), ('ADD A,16', [0xC6, 16]), ('LD ({cnt2}),A', [0x32, 'dl', 'dh']),
          ('POP AF', [0xF1]), ('EI', [0xFB]), ('RETI', [0xED, 0x4D])]),
]
VECTORS = [(0x3FFF, [80, 0]), (0x9FFF, [80, 0])]       # I = 63 (default) and I = 159


def handler_ins(cnt):
    out = []
    sub = {'cl': lo(cnt), 'ch': hi(cnt), 'dl': lo(cnt + 1), 'dh': hi(cnt + 1)}
    for org, lst in HANDLERS:
        a = org
        ent = []
        for text, bs in lst:
            bs = [sub.get(b, b) for b in bs]
            ent.append((a, text.format(cnt=cnt, cnt2=cnt + 1), bs))
            a += len(bs)
        out.append(ent)
    return out


# ------------------------------------------------------------------------------------------------ sessions
FIELDS = ['A', 'F', 'BC', 'DE', 'HL', '^A', '^F', '^BC', '^DE', '^HL', 'IX', 'IY', 'I', 'R', 'SP', 'PC', 'tstates', 'iff', 'im',
          'halted', '7ffd', 'fffd']
REGPARS = [('a', 255), ('f', 255), ('bc', 65535), ('de', 65535), ('hl', 65535), ('xa', 255), ('xf', 255), ('xbc', 65535),
           ('xde', 65535), ('xhl', 65535), ('ix', 65535), ('iy', 65535), ('r', 255), ('memptr', 65535)]
SIMNAMES = ('stop', 'start', 'clear', 'a', 'f', 'bc', 'de', 'hl', 'xa', 'xf', 'xbc', 'xde', 'xhl', 'ix', 'iy', 'i', 'r', 'sp',
            'execint', 'tstates', 'iff', 'im', 'cmio', 'memptr')
FIELD16 = ['BC', 'DE', 'HL', '^BC', '^DE', '^HL', 'IX', 'IY', 'SP', 'PC']
FIELD8 = ['A', 'F', '^A', '^F', 'I', 'R']


def lit(v):
    return {'k': 0, 'v': v, 'f': '', 'i': 0}


def fld(name, i=0, off=0):
    return {'k': 1, 'v': off, 'f': name, 'i': i}


def vtext(rng, v):
    if v['k'] == 1:
        t = '{sim[%s]}' % v['f'] if v['f'] != 'ay' else '{sim[ay][%d]}' % v['i']
        return t + ('%+d' % v['v'] if v['v'] else '')
    if v['v'] >= 10 and rng.random() < .2:
        return '$%X' % v['v'] if rng.random() < .5 else '$%04x' % v['v']
    return str(v['v'])


class Session:
    """generator-side bookkeeping: only what is needed to keep the ops inside the documented domain"""

    def __init__(self, rng, prog, kind, is128, pages, dw, cnt, clean):
        self.r = rng
        self.p = prog
        self.kind = kind
        self.is128 = is128
        self.pages = pages
        self.dw = dw
        self.cnt = cnt
        self.clean = clean
        self.ops = []
        self.has = False          # sim dictionary populated
        self.zero = prog['org'] == 0          # code at address 0, no interrupt routines: "start ... 0 if this is the first run"
        self.pos = 0 if self.zero else None   # index of the boundary where the simulator's PC stands
        self.depth = 0
        self.spset = False
        self.texts = []
        self.classes = set()
        self.nb = len(prog['bounds']) - 1
        self.kinds = prog['kinds']
        self.paged = False
        self.follow = 'mem'
        self.recent_stack = False
        self.recent = []          # addresses the code executed most recently may have stored to
        self.sp_safe = False      # clean sessions: SP known to point into uncontended memory
        self.ival = 63            # the I register the simulator state holds (IM 2 vector tables exist for 63 and 159)

    def add(self, op, text, cls):
        op.setdefault('d', 0)
        op['asm'] = []
        op['html'] = []
        self.ops.append(op)
        self.texts.append(text)
        self.classes.add(cls)

    # ---- helpers
    def span(self, i=None, maxlen=3, allow_halt=False):
        """(a, b): run from boundary a to boundary b > a; an EI/HALT fragment may only be the first one of a run"""
        r = self.r
        for _ in range(50):
            a = r.randrange(self.nb) if i is None else i
            if a >= self.nb:
                return None
            b = r.randint(a + 1, min(self.nb, a + maxlen))
            for q in range(a + 1, b):
                if self.kinds[q] == 'halt':
                    b = q
                    break
            if self.kinds[a] == 'halt' and not allow_halt:
                if i is not None:
                    return None
                continue
            return a, b
        return None

    def sp_value(self):
        r = self.r
        c = [0xA800, 0xBF00, 0xA7F1] + ([] if self.is128 else [0xFF80]) + ([] if self.clean else [23552, 0x5BFF, 0x5FF0])
        return r.choice(c)

    def sim_params(self, fresh, halt):
        """register / state parameters of a #SIM"""
        r = self.r
        ps = []
        n = r.choice([0, 0, 1, 2, 3, 5, 14])
        for name, mx in r.sample(REGPARS, min(n, len(REGPARS))):
            v = r.choice([0, 1, mx, r.randrange(mx + 1), r.randrange(mx + 1)])
            if self.has and not fresh and r.random() < .12:
                f = r.choice(FIELD8 if mx == 255 else FIELD16 + FIELD8)
                ps.append({'n': name, 'v': fld(f)})
            else:
                ps.append({'n': name, 'v': lit(v)})
        if (fresh and (self.clean or r.random() < .5)) or r.random() < .15:
            ps.append({'n': 'sp', 'v': lit(self.sp_value())})
        if r.random() < .15 and not self.clean:
            ps.append({'n': 'i', 'v': lit(r.choice([63, 159, 63, 159, 0, 200, 255]))})
        return ps

    def note_span(self, i, j, ints):
        t = [a for f in self.p['touch'][i:j] for a in f]
        if ints or 'halt' in self.kinds[i:j]:
            t += [self.cnt, self.cnt + 1]
        self.recent = t
        self.recent_stack = any(k in ('stack', 'call') for k in self.kinds[i:j]) or ints

    def new_ival(self, ps, fresh):
        for p in ps:
            if p['n'] == 'i':
                return p['v']['v']
        return 63 if fresh else self.ival

    # ---- ops
    def op_sim_run(self):
        r = self.r
        first0 = self.zero and not self.has and self.pos == 0
        cont = ((self.has and self.pos is not None and self.pos < self.nb) or first0) and r.random() < (.8 if first0 else .55)
        fresh = not self.has
        clear = None
        open_ = 0
        if self.has and r.random() < .2:
            clear = 1
            fresh = True
            cont = False
            if self.zero and r.random() < .4:
                # clear=1 without start: "start ... default: stop from the previous invocation" vs "reset [registers] to their
                # default values" - the documents leave the start address open (the tools start at 0)
                cont, open_, self.pos = True, 1, 0
        elif r.random() < .08:
            clear = 0
        if first0 and cont:
            self.classes.add('sim:first0')
        sp = self.span(self.pos if cont else None, allow_halt=True)
        if sp is None:
            return False
        i, j = sp
        halt = self.kinds[i] == 'halt'
        ps = self.sim_params(fresh, halt)
        names = {p['n'] for p in ps}
        frame = FRAME[self.is128]
        execint = None
        if halt:
            execint = 1
            ps = [p for p in ps if p['n'] not in ('i',)]
            ps.append({'n': 'tstates', 'v': lit(frame * r.randrange(0, 4) + frame - r.randrange(8, 150))})
            im = r.choice([1, 1, 2, 2, 0])
            ps.append({'n': 'im', 'v': lit(im)})
            if im == 2:
                ps.append({'n': 'i', 'v': lit(r.choice([63, 159]))})
            if r.random() < .5:
                ps.append({'n': 'iff', 'v': lit(r.randrange(2))})
        else:
            x = r.random()
            if x < .12 and not self.zero:
                execint = 1
            elif x < .2:
                execint = 0
            if r.random() < .25:
                # a clock value somewhere, sometimes just before a frame boundary
                t = r.choice([0, 1, 31, 32, frame - r.randrange(1, 60), frame + r.randrange(0, 40), 2 * frame - r.randrange(1, 200),
                              r.randrange(0, 8 * frame)])
                ps.append({'n': 'tstates', 'v': lit(t)})
            if r.random() < .2:
                ps.append({'n': 'iff', 'v': lit(r.randrange(2))})
            if r.random() < .15:
                ps.append({'n': 'im', 'v': lit(r.randrange(3))})
            if execint == 1 and 'i' not in names and r.random() < .5:
                ps.append({'n': 'i', 'v': lit(r.choice([63, 159]))})
        if execint is not None:
            ps.append({'n': 'execint', 'v': lit(execint)})
        if self.clean:
            ps.append({'n': 'cmio', 'v': lit(1)})
        elif r.random() < .05:
            ps.append({'n': 'cmio', 'v': lit(0)})
        if clear is not None:
            ps.append({'n': 'clear', 'v': lit(clear)})
        ps.append({'n': 'stop', 'v': lit(self.p['bounds'][j])})
        if not cont:
            sv = lit(self.p['bounds'][i])
            if self.has and not fresh and self.pos == i and r.random() < .3:
                sv = fld('PC')
            ps.append({'n': 'start', 'v': sv})
        # an interrupt may be accepted: IM 2 needs a vector table at I * 256 + 255 (defined for I = 63 and 159 only)
        ival = self.new_ival(ps, fresh)
        if execint == 1 and ival not in (63, 159):
            ps = [p for p in ps if p['n'] != 'i'] + [{'n': 'i', 'v': lit(r.choice([63, 159]))}]
            ival = ps[-1]['v']['v']
        self.ival = ival
        if self.clean and not any(p['n'] == 'sp' for p in ps) and (fresh or not self.sp_safe):
            ps.append({'n': 'sp', 'v': lit(self.sp_value())})       # cmio=1: keep the stack out of contended memory
        self.sp_safe = True if any(p['n'] == 'sp' for p in ps) else self.sp_safe and not fresh
        self.emit_sim(ps, open_)
        self.has = True
        self.pos = j
        ks = self.kinds[i:j]
        if 'page' in ks:
            self.paged = True
        self.note_span(i, j, execint == 1)
        self.classes.add('sim:run:cont' if cont else 'sim:run:start')
        if clear == 1:
            self.classes.add('sim:clear')
        if halt:
            self.classes.add('sim:halt')
        if execint == 1:
            self.classes.add('sim:execint')
        for k in ks:
            self.classes.add('frag:' + k)
        self.classes.add('sim:span%d' % (j - i))
        return True

    def op_sim_set(self, ps=None):
        r = self.r
        fresh = not self.has
        if ps is None:
            clear = r.random() < .2
            ps = self.sim_params(fresh or clear, False)
            if clear:
                ps.append({'n': 'clear', 'v': lit(1)})
            if r.random() < .3:
                ps.append({'n': 'tstates', 'v': lit(r.randrange(0, 300000))})
            if r.random() < .3:
                ps.append({'n': 'iff', 'v': lit(r.randrange(2))})
            if r.random() < .3:
                ps.append({'n': 'im', 'v': lit(r.randrange(3))})
            if clear or fresh:
                self.pos = None
            self.ival = self.new_ival(ps, fresh or clear)
            self.sp_safe = True if any(p['n'] == 'sp' for p in ps) else self.sp_safe and not (fresh or clear)
        elif fresh:
            self.sp_safe = False
        self.emit_sim(ps)
        self.has = True
        self.classes.add('sim:set')
        return True

    def emit_sim(self, ps, open_=0):
        r = self.r
        r.shuffle(ps)
        style = r.random()
        anyfield = any(p['v']['k'] == 1 for p in ps)
        if style < .55 or not ps:
            text = '#SIM(%s)' % ','.join('%s=%s' % (p['n'], vtext(r, p['v'])) for p in ps)
            if not ps:
                text = '#SIM'
        else:
            by = {p['n']: p for p in ps}
            last = max(SIMNAMES.index(n) for n in by)
            if style < .8 and last > 2:
                # leading positional parameters, the rest by keyword
                npos = r.randint(1, 3)
                pos = [vtext(r, by[n]['v']) if n in by else '' for n in SIMNAMES[:npos]]
                kw = ['%s=%s' % (n, vtext(r, by[n]['v'])) for n in by if SIMNAMES.index(n) >= npos]
                text = '#SIM(%s)' % ','.join(pos + kw)
            else:
                pos = [vtext(r, by[n]['v']) if n in by else '' for n in SIMNAMES[:last + 1]]
                body = ','.join(pos)
                if not anyfield and last <= 1 and 'stop' in by and '$' not in body and r.random() < .6 and not body.endswith(','):
                    text = '#SIM' + body
                else:
                    text = '#SIM(%s)' % body
        self.add({'t': 'sim', 'ps': ps, 'd': open_}, text, 'sim')

    def op_fields(self, full=False):
        r = self.r
        if not self.has:
            return False
        names = list(FIELDS)
        if not full:
            names = r.sample(names, r.randint(1, 8))
        fs = [{'n': n, 'i': 0} for n in names]
        if full or r.random() < .3:
            for i in (r.sample(range(16), 3) if not full else range(16)):
                fs.append({'n': 'ay', 'i': i})
        if full or r.random() < .3:
            fs.append({'n': 'MEMPTR', 'i': 0})
        parts = ['{sim[%s]}' % f['n'] if f['n'] != 'ay' else '{sim[ay][%d]}' % f['i'] for f in fs]
        if len(fs) == 1 and r.random() < .5:
            text = '#EVAL(%s)' % parts[0]
        else:
            text = '#FORMAT0(%s)' % ','.join(parts)
        self.add({'t': 'fields', 'fs': fs}, text, 'fields')
        return True

    def op_peek(self):
        r = self.r
        x = r.random()
        if self.recent and r.random() < .55:
            a = lit(r.choice(self.recent) & 65535)
            self.classes.add('peek:stored')
        elif self.has and getattr(self, 'recent_stack', False) and r.random() < .3:
            a = fld('SP', 0, r.choice([0, 1, -1, -2, 2]))
        elif x < .45:
            a = lit(self.dw + r.randrange(128))
        elif x < .55:
            a = lit(self.cnt + r.randrange(2))
        elif x < .7:
            a = lit(r.choice([23550, 23551, 0x9FFE, 0x9FFF, 0xBEFE, 0xBEFF, 0xFF7E, 0xFF7F, 0x5BFD, 0x5FFF]))
        elif x < .8 and self.has:
            a = fld(r.choice(['HL', 'DE', 'BC', 'SP', 'IX', 'PC']))
        elif x < .9:
            a = lit(self.p['org'] + r.randrange(self.p['end'] - self.p['org']))
        else:
            a = lit(r.randrange(65536))
        t = vtext(r, a)
        text = '#PEEK' + t if a['k'] == 0 and r.random() < .5 else '#PEEK(%s)' % t
        self.add({'t': 'peek', 'a': a}, text, 'peek')
        return True

    def op_ts_static(self):
        r = self.r
        ins = self.p['ins']
        i = r.randrange(len(ins))
        flags = r.choice([0, 0, 1, 1, 2, 2, 3])
        x = r.random()
        if x < .3:
            stop = None
        else:
            j = r.randint(i + 1, min(len(ins), i + r.choice([1, 2, 4, 8, 30])))
            stop = ins[j][0] if j < len(ins) else self.p['end']
        start = ins[i][0]
        op = {'t': 'ts', 'start': lit(start), 'stop': lit(stop if stop is not None else -1), 'flags': flags, 'execint': 0,
              'txt': 1 if flags & 2 else 0}
        if stop is None and flags == 0:
            text = '#TSTATES%d' % start if r.random() < .6 else '#TSTATES(%d)' % start
        elif flags == 0:
            text = r.choice(['#TSTATES%d,%d', '#TSTATES(%d,%d)', '#TSTATES(%d,%d,0)']) % (start, stop)
        else:
            ss = '' if stop is None else str(stop)
            text = r.choice(['#TSTATES%d,%s,%d', '#TSTATES(%d,%s,%d)']) % (start, ss, flags)
        if flags & 2:
            text += r.choice(['($min,$max)', '[$min,$max]', '/$min,$max/'])
        self.add(op, text, 'ts:static:%d' % flags)
        if stop is None:
            self.classes.add('ts:static:nostop')
        return True

    def op_ts_exec(self):
        r = self.r
        sp = self.span(None)
        if sp is None:
            return False
        i, j = sp
        if 'ay' in self.kinds[i:j]:
            # open finding e01:probe:tstates-leaks-ay (see PROBES): executed #TSTATES writes through to sim[ay][N]
            return False
        start, stop = self.p['bounds'][i], self.p['bounds'][j]
        execint = r.choice([0, 0, 0, 1]) if self.ival in (63, 159) and not self.zero else 0
        flags = 4 + r.choice([0, 0, 1])
        txt = r.random() < .25
        sv = lit(start)
        if self.has and self.pos == i and r.random() < .3:
            sv = fld('PC')
        if txt:
            # "$tstates for the actual timing value": start from a zero clock so that value and clock coincide
            self.op_sim_set([{'n': 'tstates', 'v': lit(0)}])
            flags |= 2
        op = {'t': 'ts', 'start': sv, 'stop': lit(stop), 'flags': flags, 'execint': execint, 'txt': 0}
        st = vtext(r, sv)
        if execint or sv['k'] == 1 or r.random() < .5:
            text = '#TSTATES(%s,%d,%d%s)' % (st, stop, flags, ',%d' % execint if execint or r.random() < .3 else '')
        else:
            text = '#TSTATES%s,%d,%d' % (st, stop, flags)
        if txt:
            text += '($tstates)'
        self.add(op, text, 'ts:exec' + (':text' if txt else ''))
        if not self.has:
            self.classes.add('ts:exec:nosim')
        if execint:
            self.classes.add('ts:exec:execint')
        if 'page' in self.kinds[i:j]:
            self.classes.add('ts:exec:page')
        self.note_span(i, j, execint == 1)
        self.follow = 'page' if 'page' in self.kinds[i:j] else 'mem'
        return True

    def op_pokes(self):
        r = self.r
        a = self.dw + r.randrange(120)
        n = r.choice([1, 1, 2, 3])
        step = r.choice([1, 1, 2])
        b = r.randrange(256)
        if n == 1 and r.random() < .7:
            text = '#POKES%d,%d' % (a, b)
        else:
            text = '#POKES%d,%d,%d,%d' % (a, b, n, step)
        self.add({'t': 'pokes', 'a': a, 'b': b, 'n': n, 'step': step}, text, 'pokes')
        return True

    def op_pushs(self):
        if self.depth >= 2 or self.is128:
            return False
        self.depth += 1
        self.add({'t': 'pushs'}, '#PUSHS', 'pushs')
        return True

    def op_pops(self):
        if self.depth == 0:
            return False
        self.depth -= 1
        self.add({'t': 'pops'}, '#POPS', 'pops')
        return True

    def op_bank(self):
        if not self.is128:
            return False
        page = self.r.choice(self.pages)
        self.add({'t': 'bank', 'page': page}, '#BANK%d' % page, 'bank')
        return True

    def op_audio(self):
        r = self.r
        idx = [i for i, k in enumerate(self.kinds) if k == 'audio']
        if not idx or self.kind != 'audio':
            return False
        i = r.choice(idx)
        a = i if r.random() < .7 else max(0, i - 1)
        if 'halt' in self.kinds[a:i + 1]:
            a = i
        j = i + 1
        start, stop = self.p['bounds'][a], self.p['bounds'][j]
        execint = r.choice([0, 0, 1, 2]) if self.ival in (63, 159) else 0
        offset = r.choice([-1, -1, 0, 1000, 69000, 69880, r.randrange(200000)])
        name = 'a%d.wav' % len(self.ops)
        op = {'t': 'audio', 'start': start, 'stop': stop, 'execint': execint, 'offset': offset, 'fname': name}
        if execint == 0 and offset < 0 and r.random() < .6:
            text = '#AUDIO1,%d,%d(%s)' % (start, stop, name)
        elif r.random() < .5:
            text = '#AUDIO(1,%d,%d,%d,0%s)(%s)' % (start, stop, execint, ',%d' % offset if offset >= 0 else '', name)
        else:
            kw = ['sim=1', 'start=%d' % start, 'stop=%d' % stop, 'execint=%d' % execint] + (['offset=%d' % offset] if offset >= 0 else [])
            r.shuffle(kw)
            text = '#AUDIO(%s)(%s)' % (','.join(kw), name)
        self.add(op, text, 'audio')
        self.has = True
        self.pos = j
        self.note_span(a, j, execint > 0)
        if execint:
            self.classes.add('audio:execint%d' % execint)
        return True


def gen_session(rng, prog, kind, is128, pages, dw, cnt, clean, nops):
    s = Session(rng, prog, kind, is128, pages, dw, cnt, clean)
    r = rng
    # opening
    x = r.random()
    if x < .12:
        s.op_ts_exec()
    elif x < .2:
        s.op_ts_static()
    elif x < .3:
        s.op_sim_set()
        s.op_fields(full=r.random() < .5)
    tries = 0
    while len(s.ops) < nops and tries < 200:
        tries += 1
        x = r.random()
        n0 = len(s.ops)
        if x < .30:
            if s.op_sim_run():
                if r.random() < .8:
                    s.op_fields(full=r.random() < .4)
        elif x < .36:
            if s.op_sim_set() and r.random() < .7:
                s.op_fields(full=r.random() < .3)
        elif x < .48:
            s.op_ts_exec()
            if len(s.ops) > n0:
                # "#TSTATES ... operates on a copy of the internal memory snapshot": nothing changed
                if r.random() < .3:
                    s.op_fields(full=r.random() < .5)
                if s.recent and r.random() < .6:
                    s.op_peek()
                if s.follow == 'page' and r.random() < .7:
                    s.op_sim_set([])                     # rewrites the sim dictionary (with the snapshot's 7ffd) and nothing else
                    s.add({'t': 'fields', 'fs': [{'n': '7ffd', 'i': 0}]}, '#EVAL({sim[7ffd]})', 'fields')
                    pa = 49152 + r.randrange(16384)
                    s.add({'t': 'peek', 'a': lit(pa)}, '#PEEK%d' % pa, 'peek')
        elif x < .60:
            s.op_ts_static()
        elif x < .76:
            s.op_peek()
        elif x < .80:
            s.op_pokes()
        elif x < .84:
            s.op_pushs()
        elif x < .88:
            s.op_pops()
        elif x < .92:
            s.op_bank()
        elif x < .97 or (kind == 'audio' and r.random() < .5):
            if s.op_audio() and r.random() < .8:
                s.op_fields(full=r.random() < .4)
        else:
            s.op_fields()
    if kind == 'audio' and not any(op['t'] == 'audio' for op in s.ops):
        if s.op_audio():
            s.op_fields(full=True)
    while s.depth:
        s.op_pops()
        s.op_peek()
    return s


# --------------------------------------------------------------------------------------------- skool source
_BG48 = None
_SIDE = None


def background_lines():
    global _BG48
    if _BG48 is None:
        _BG48 = ['@defb=%d:%s' % (p, ','.join(str(base(a)) for a in range(p, p + 256))) for p in range(0, 65536, 256)]
    return _BG48


def side_source():
    global _SIDE
    if _SIDE is None:
        lines = ['; bank']
        for p in range(49152, 65536, 256):
            lines.append('%s%d DEFB %s' % ('b' if p == 49152 else ' ', p, ','.join(str(base(a)) for a in range(p, p + 256))))
        _SIDE = '\n'.join(lines) + '\n'
    return _SIDE


def skool_source(case, text, place, side='side.skool'):
    lines = ['@start']
    if case['is128']:
        for b in case['fill']:
            if b != case['p7']:
                lines.append('@bank=%d,%s' % (b, side))
        lines.append('@bank=%d' % case['p7'])
    lines += background_lines()
    for a, bs in VECTORS:
        lines.append('@defb=%d:%s' % (a, ','.join(map(str, bs))))
    for ent in case['handlers']:
        lines += ['; Interrupt routine']
        for k, (a, t, bs) in enumerate(ent):
            lines.append('%s%05d %s' % ('c' if k == 0 else ' ', a, t))
        lines.append('')
    lines.append('; Routine')
    ins = case['prog']['ins']
    kind, at = place
    for k, (a, t, bs) in enumerate(ins):
        if kind == 'mid' and k == at:
            lines.append('; ' + text)
        cm = ' ; ' + text if kind == 'ins' and k == at else ''
        lines.append('%s%05d %s%s' % ('c' if k == 0 else ' ', a, t, cm))
    return '\n'.join(lines) + '\n'


RE_OUT = re.compile(r'(.*?)~(\d+)~', re.S)
RE_INTS = re.compile(r'-?\d+(,-?\d+)*')


def project(s, nops):
    """expanded session text -> list of integer lists (one per op), or None"""
    m = re.search(r'~S~(.*?)~E~', s, re.S)
    if not m:
        return None
    outs = [None] * nops
    for mm in RE_OUT.finditer(m.group(1)):
        k = int(mm.group(2))
        if k < nops:
            outs[k] = mm.group(1)
    return outs


def ints(out, op):
    if out is None:
        return [BAD]
    if op['t'] == 'audio':
        return None
    if out == '':
        return []
    if op['t'] in ('fields', 'peek', 'ts') and RE_INTS.fullmatch(out):
        return [int(x) for x in out.split(',')]
    return [BAD]


_CSIMS = None


def select_simulators(impl):
    """'c': the C simulators (built from the tree by cbuild.preload); 'py': the pure Python ones the macros fall back to
    when the C extension is not available"""
    global _CSIMS
    from skoolkit import skoolmacro
    if _CSIMS is None:
        _CSIMS = (skoolmacro.CSimulator, skoolmacro.CCMIOSimulator)
        if None in _CSIMS:
            raise MachineryError('C simulators not loaded')
    skoolmacro.CSimulator, skoolmacro.CCMIOSimulator = _CSIMS if impl == 'c' else (None, None)


def run_tools(case, text, place, d, do_asm, do_html):
    from skoolkit import skool2asm, skool2html
    select_simulators(case.get('impl', 'c'))
    shutil.rmtree(d, ignore_errors=True)
    os.makedirs(d)
    path = os.path.join(d, 'p.skool')
    with open(path, 'w') as f:
        f.write(skool_source(case, text, place, os.path.join(d, 'side.skool')))
    if case['is128']:
        with open(os.path.join(d, 'side.skool'), 'w') as f:
            f.write(side_source())
    exc = ''
    asm_s = html_s = None
    if do_asm:
        out, err = io.StringIO(), io.StringIO()
        try:
            with contextlib.redirect_stdout(out), contextlib.redirect_stderr(err):
                skool2asm.main(['-q', '-w', '-P', 'line-width=1000000', path])
        except BaseException as e:
            exc = 'skool2asm: %s: %s %s' % (type(e).__name__, e, err.getvalue().strip()[-300:])
        asm_s = out.getvalue()
    audio = {}
    if do_html:
        out, err = io.StringIO(), io.StringIO()
        try:
            with contextlib.redirect_stdout(out), contextlib.redirect_stderr(err):
                skool2html.main(['-q', '-w', 'd', '-d', d, path])
        except BaseException as e:
            exc = (exc + ' | ' if exc else '') + 'skool2html: %s: %s %s' % (type(e).__name__, e, err.getvalue().strip()[-300:])
        page = os.path.join(d, 'p', 'asm', '%d.html' % case['prog']['org'])
        if os.path.isfile(page):
            with open(page, encoding='utf-8') as f:
                html_s = html.unescape(f.read())
        ad = os.path.join(d, 'p', 'audio')
        if os.path.isdir(ad):
            for fn in os.listdir(ad):
                with open(os.path.join(ad, fn), 'rb') as f:
                    try:
                        audio[fn] = json.loads(f.read().decode())
                    except ValueError:
                        audio[fn] = {'delays': [BAD]}
    shutil.rmtree(d, ignore_errors=True)
    return asm_s, html_s, audio, exc


KINDS48 = ['straight', 'hl', 'ix', 'bcde', 'stack', 'block', 'io', 'djnz', 'djnz_self', 'count', 'de', 'cond', 'call', 'jump']


def make_case(rng, key, kind):
    """kind: 'plain' | 'int' | 'audio' | 'clean' | '128' | 'zero'"""
    r = rng
    is128 = kind == '128'
    clean = kind == 'clean'
    org = r.choice([32768, 32768, 33000, 0x8400, 0xB000, 0x6000, 0x7F80]) if not clean else r.choice([32768, 33000, 0xB000])
    if is128:
        org = r.choice([32768, 33000, 0x6000])
    if kind == 'zero':
        org = 0
    dw = 0x9000
    pages, p7, fill = [], 0, []
    if is128:
        p7 = r.choice([0, 1, 3, 4, 6, 7])
        pages = sorted({p7} | set(r.sample([0, 1, 3, 4, 6, 7], r.choice([1, 2]))))
        fill = pages
        if r.random() < .6:
            dw = 0xC100
    cnt = dw + 126
    g = ProgGen(r, org, dw, is128, clean, pages)
    avail = [k for k in KINDS48 if not (clean and k == 'io')]
    nf = r.randint(3, 7)
    kinds = [r.choice(avail) for _ in range(nf)]
    if kind == 'int':
        for _ in range(r.choice([1, 1, 2])):
            kinds.insert(r.randrange(len(kinds) + 1), 'halt')
    if kind == 'audio':
        for _ in range(r.choice([1, 2, 3])):
            kinds.insert(r.randrange(len(kinds) + 1), 'audio')
    if is128:
        for _ in range(r.choice([1, 2, 3])):
            kinds.insert(r.randrange(len(kinds) + 1), r.choice(['page', 'page', 'ay']))
        if r.random() < .4:
            kinds.insert(r.randrange(len(kinds) + 1), 'halt')        # 128K frame: 70908 T-states, INT active for 36
    prog = g.program(kinds)
    if prog['end'] - org > 900:
        return None
    s = gen_session(r, prog, kind, is128, pages, dw, cnt, clean, r.randint(6, 14))
    if not s.ops:
        return None
    text = '~S~' + ''.join('%s~%d~' % (t, k) for k, t in enumerate(s.texts)) + '~E~'
    if ' ' in text:
        raise MachineryError('space in session text: ' + text)
    place = ('ins', r.randrange(len(prog['ins']))) if r.random() < .6 else ('mid', r.randrange(1, len(prog['ins'])))
    handlers = handler_ins(cnt) if kind != 'zero' else []
    ov = {}
    for a, bs in VECTORS:
        for i, b in enumerate(bs):
            ov[a + i] = b
    for ent in handlers:
        for a, t, bs in ent:
            for i, b in enumerate(bs):
                ov[a + i] = b
    for a, t, bs in prog['ins']:
        for i, b in enumerate(bs):
            ov[a + i] = b
    if any(a >= 49152 for a in ov):
        raise MachineryError('code above 0xC000')
    has_audio = any(op['t'] == 'audio' for op in s.ops)
    case = {'key': key, 'kind': kind, 'is128': 1 if is128 else 0, 'p7': p7, 'fill': fill, 'prog': prog, 'handlers': handlers,
            'ov': [[a, b] for a, b in sorted(ov.items())], 'ins': [[a, len(bs)] for a, t, bs in prog['ins']],
            'ops': s.ops, 'asm': 0 if has_audio else 1, 'html': 1, 'exc': '', 'text': text, 'place': list(place),
            'impl': 'py' if r.random() < .2 else 'c', 'classes': sorted(s.classes)}
    case['classes'].append('impl:' + case['impl'])
    return case


def observe(case, wd, tag):
    asm_s, html_s, audio, exc = run_tools(case, case['text'], tuple(case['place']), os.path.join(wd, tag), case['asm'] == 1, True)
    n = len(case['ops'])
    ao = project(asm_s, n) if asm_s is not None else None
    ho = project(html_s, n) if html_s is not None else None
    if not exc:
        if case['asm'] and ao is None:
            exc = 'session text not found in skool2asm output'
        elif ho is None:
            exc = 'session text not found in skool2html output'
    for k, op in enumerate(case['ops']):
        if op['t'] == 'audio':
            rec = audio.get(op['fname'])
            op['html'] = list(rec['delays']) if rec else []
            op['rec'] = rec
            op['asm'] = []
            if ho is not None and ho[k] is not None and '<audio' not in ho[k]:
                op['html'] = [BAD]
        else:
            op['asm'] = ints(ao[k], op) if ao is not None else []
            op['html'] = ints(ho[k], op) if ho is not None else []
    case['exc'] = exc[:600]
    return case


def worker(args):
    """args = (seed, index, kind, workdir) -> case dict (observations filled in) or None"""
    sd, idx, kind, wd = args
    rng = random.Random(sd * 1000003 + idx * 7919 + 17)
    for attempt in range(20):
        case = make_case(rng, 's%d' % idx, kind)
        if case is not None:
            break
    else:
        raise MachineryError('no session generated for index %d' % idx)
    return observe(case, wd, 'f%d' % idx)


TLC_FIELDS = ('is128', 'p7', 'ov', 'ins', 'ops', 'asm', 'html', 'exc')
OP_FIELDS = {'sim': ('ps',), 'fields': ('fs',), 'peek': ('a',), 'ts': ('start', 'stop', 'flags', 'execint', 'txt'),
             'audio': ('start', 'stop', 'execint', 'offset'), 'pokes': ('a', 'b', 'n', 'step'), 'bank': ('page',), 'pushs': (), 'pops': ()}


def slim(case):
    c = {k: case[k] for k in TLC_FIELDS}
    c['ops'] = [dict({'t': op['t'], 'd': op['d'], 'asm': op['asm'], 'html': op['html']}, **{f: op[f] for f in OP_FIELDS[op['t']]})
                for op in case['ops']]
    return c


# --------------------------------------------------------------------------------------------------- probes
# Hand-written sessions for input classes the random generator deliberately stays away from, because the unchanged
# tree fails on them (reported to the lead; each probe has its own violation key e01:probe:<name>).  They run when
# their key is registered in known_findings.json or when VERIF_E01_PROBES=1.
def _ops(*lst):
    ops, texts = [], []
    for op, text in lst:
        op = dict(op, d=0, asm=[], html=[])
        ops.append(op)
        texts.append(text)
    return ops, texts


def _sim(**kw):
    return {'t': 'sim', 'ps': [{'n': n, 'v': lit(v)} for n, v in kw.items()]}


def _ts(start, stop, flags):
    return {'t': 'ts', 'start': lit(start), 'stop': lit(stop), 'flags': flags, 'execint': 0, 'txt': 0}


def _fields(*names):
    return {'t': 'fields', 'fs': [{'n': n if isinstance(n, str) else 'ay', 'i': 0 if isinstance(n, str) else n} for n in names]}


PROBES = [
    # "$tstates for the actual timing value when bit 2 of flags is set": parse_tstates substitutes the simulator's
    # clock (registers[T]) instead of the difference it returns when no text is given
    ('tstates-text-is-absolute-clock', 0, 0, [],
     [(32768, 'LD A,1', [62, 1]), (32770, 'INC A', [60]), (32771, 'RET', [201])],
     [(_sim(tstates=1000), '#SIM(tstates=1000)'), (_ts(32768, 32771, 6), '#TSTATES(32768,32771,6)($tstates)')]),
    # "#TSTATES ... operates on a copy" / "#SIM copies the simulator state as it was left by the most recent invocation
    # of either the #AUDIO or the #SIM macro": the PagingTracer of an executed #TSTATES shares the ay list of the sim
    # dictionary, so AY writes of the timed code show up in sim[ay][N]
    ('tstates-leaks-ay', 1, 0, [0],
     [(32768, 'LD BC,65533', [1, 253, 255]), (32771, 'LD A,4', [62, 4]), (32773, 'OUT (C),A', [237, 121]), (32775, 'LD B,191', [6, 191]),
      (32777, 'OUT (C),A', [237, 121]), (32779, 'RET', [201])],
     [(_sim(clear=1), '#SIM(clear=1)'), (_ts(32768, 32779, 4), '#TSTATES(32768,32779,4)'),
      (_fields(4, 'fffd'), '#FORMAT0({sim[ay][4]},{sim[fffd]})')]),
    # "#POPS ... replaces [the snapshot] with the one that was previously saved": on a 128K snapshot the saved 64K view is
    # copied into whatever is paged in at the time of #POPS, so code run by #SIM that pages another bank in leaves that
    # bank overwritten with the saved bank's bytes (and the paging changed)
    ('pops-128k-after-paging', 1, 0, [0, 1],
     [(32768, 'LD BC,32765', [1, 253, 127]), (32771, 'LD A,1', [62, 1]), (32773, 'OUT (C),A', [237, 121]), (32775, 'LD (49408),A', [50, 0, 193]),
      (32778, 'RET', [201])],
     [({'t': 'pokes', 'a': 49408, 'b': 77, 'n': 1, 'step': 1}, '#POKES49408,77'), ({'t': 'pushs'}, '#PUSHS'),
      (_sim(stop=32778, start=32768), '#SIM(32778,32768)'), ({'t': 'pops'}, '#POPS'), ({'t': 'peek', 'a': lit(49408)}, '#PEEK49408'),
      ({'t': 'bank', 'page': 1}, '#BANK1'), ({'t': 'peek', 'a': lit(49408)}, '#PEEK49408')]),
]


def probe_cases(wd, names):
    cases = []
    for name, is128, p7, fill, ins, lst in PROBES:
        if name not in names:
            continue
        ops, texts = _ops(*lst)
        text = '~S~' + ''.join('%s~%d~' % (t, k) for k, t in enumerate(texts)) + '~E~'
        prog = {'org': ins[0][0], 'ins': [tuple(i) for i in ins], 'bounds': [], 'kinds': [], 'end': ins[-1][0] + len(ins[-1][2])}
        ov = {}
        for a, bs in VECTORS:
            for i, b in enumerate(bs):
                ov[a + i] = b
        for a, t, bs in ins:
            for i, b in enumerate(bs):
                ov[a + i] = b
        case = {'key': 'probe:' + name, 'kind': 'probe', 'is128': is128, 'p7': p7, 'fill': fill, 'prog': prog, 'handlers': [],
                'ov': [[a, b] for a, b in sorted(ov.items())], 'ins': [[a, len(bs)] for a, t, bs in ins], 'ops': ops, 'asm': 1,
                'html': 1, 'exc': '', 'text': text, 'place': ['ins', 0], 'classes': []}
        cases.append(observe(case, wd, 'probe'))
    return cases
