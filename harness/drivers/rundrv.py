"""C10 driver: run code in the real trace.py for n1+n2 instructions vs n1, snapshot, n2 more."""
import base64
import hashlib
import os
import random

from . import pipedrv, progdrv, simdrv


def project(path):
    """Abstract state of a snapshot file as read by skoolkit's own reader (validated by C09)."""
    from skoolkit.snapshot import Snapshot
    s = Snapshot.get(path)
    frame = 70908 if len(s.ram(-1)) == 0x20000 else 69888
    regs = [s.a, s.f, s.bc, s.de, s.hl, s.ix, s.iy, s.sp, s.i, s.r, s.a2, s.f2, s.bc2, s.de2, s.hl2, s.pc]
    ram = s.ram(-1)
    banks = [hashlib.md5(bytes(ram[a:a + 0x4000])).hexdigest() for a in range(0, len(ram), 0x4000)]
    return {'regs': [int(x) for x in regs], 'iff': int(s.iff1), 'im': int(s.im), 'border': int(s.border),
            'tpos': int(s.tstates) % frame, 'o7ffd': int(s.out7ffd), 'offfd': int(s.outfffd), 'ay': [int(v) for v in s.ay],
            'fe': int(s.outfe) & 0x1F, 'memptr': int(s.memptr), 'banks': banks, 'ram': list(ram)}


def first_diff(a, b):
    for i, (x, y) in enumerate(zip(a, b)):
        if x != y:
            return i
    return -1


def gen_io_program(rnd):
    """128K program around the state a snapshot has to carry besides registers and RAM: AY register select / write / read
    back (incl. select values >= 16, which deselect), 0x7FFD paging with ROM and lock bits, border/0xFE, stores into the
    paged bank, interleaved with EI/HALT/IM 2 fragments.  Everything read from a port is stored to memory, so that it
    shows in the final snapshot."""
    regs = [0] * 30
    R = simdrv
    for i in (R.A, R.F, R.B, R.C, R.D, R.E, R.H, R.L, 8, 9, 10, 11, R.I, R.R, 16, 17, 18, 19, 20, 21, 22, 23):
        regs[i] = simdrv.r8(rnd)
    regs[R.SP] = rnd.choice((0xBF00, 0x8F00, 0xFFF0, 0xC010))
    regs[R.IM] = rnd.choice((1, 1, 2))
    regs[R.I] = rnd.choice((0x80, 0x85, 0xA0))
    regs[R.IFF] = rnd.randrange(2)
    start = 0x8000
    code = []
    cellp = [0x9100]

    def cell():
        cellp[0] += 1
        return cellp[0]

    n = rnd.choice((20, 40, 80))
    # a third of the programs lock the paging early (bit 5 of 0x7FFD) and go on writing to the port: wherever the run is
    # split afterwards, the resumed half must still ignore those writes
    lock_at = rnd.randrange(2, 12) if rnd.random() < 0.33 else -1
    while len(code) < n:
        k = rnd.randrange(12)
        if lock_at >= 0 and len(code) >= lock_at:
            v = rnd.choice((0, 1, 3, 4, 6, 7)) | rnd.choice((0, 0x10)) | 0x20
            code += [0x01, 0xFD, 0x7F, 0x3E, v, 0xED, 0x79]
            lock_at = -1
            continue
        if k == 0:      # select an AY register (or none)
            v = rnd.choice((0, 1, 7, 8, 13, 14, 15, 16, 17, 0x1F, 0x20, 0x8E, 0xFF, rnd.randrange(256)))
            code += [0x01, 0xFD, 0xFF, 0x3E, v, 0xED, 0x79]
        elif k == 1:    # write the selected AY register
            code += [0x01, 0xFD, 0xBF, 0x3E, rnd.randrange(256), 0xED, 0x79]
        elif k == 2:    # read the selected AY register and store it
            a = cell()
            code += [0x01, 0xFD, 0xFF, 0xED, 0x78, 0x32, a & 255, a >> 8]
        elif k == 3:    # page
            v = rnd.choice((0, 1, 3, 4, 6, 7)) | rnd.choice((0, 0x10)) | (0x20 if rnd.random() < 0.08 else 0)
            code += [0x01, 0xFD, 0x7F, 0x3E, v, 0xED, 0x79]
        elif k == 4:    # store into / load from the paged bank
            a = rnd.choice((0xC000, 0xC001, 0xFFFF, 0xE123))
            code += [0x3E, rnd.randrange(256), 0x32, a & 255, a >> 8] if rnd.random() < 0.6 else [0x3A, a & 255, a >> 8, 0x32, 0x00, 0x91]
        elif k == 5:    # border / speaker / mic
            code += [0x3E, rnd.randrange(256), 0xD3, 0xFE]
        elif k == 6:
            code += [0xFB, 0x76] if rnd.random() < 0.3 else [0xFB, 0x00]
        elif k == 7:
            a = cell()
            code += [0xDB, 0xFE, 0x32, a & 255, a >> 8]      # IN A,(FE) ; store
        elif k == 8:
            code += [0x06, rnd.randrange(1, 4), 0x10, 0xFE]
        elif k == 9:
            code += [0xF5, 0xC5, 0xE1, 0xD1]
        elif k == 10:
            code += [0xED, 0x5F] if rnd.random() < 0.5 else [0xED, 0x57]
        else:
            code += [rnd.choice((0x00, 0x3C, 0x27, 0xD9, 0x08))]
    code += [0xC3, 0x00, 0x80]
    ov = [[start + i, b] for i, b in enumerate(code)]
    vt = regs[R.I] * 256 + 255
    ov += [[vt, 0x00], [vt + 1, 0x90], [0x9000, 0xF5], [0x9001, 0xF1], [0x9002, 0xFB], [0x9003, 0xED], [0x9004, 0x4D]]
    regs[R.PC] = start
    return start, ov, regs


def make_start(rnd, wd, idx, m128):
    """Write a start snapshot with a generated program using the real write_snapshot."""
    from skoolkit.snapshot import write_snapshot
    kind = rnd.choice(('struct', 'struct', 'edge', 'prefix', 'soup'))
    start, ov, regs = progdrv.gen_program(rnd, kind)
    if start < 0x4000 or kind == 'edge':
        # code must live in RAM for a snapshot: relocate edge/ROM programs to a RAM page boundary instead
        kind = 'struct'
        start, ov, regs = progdrv.gen_program(rnd, kind)
        while start < 0x4000:
            start, ov, regs = progdrv.gen_program(rnd, kind)
    hint = None
    if rnd.random() < 0.1:
        # a run that crosses a frame boundary, idles into the display period and then uses block transfers, the stack and
        # direct loads/stores in contended memory: the absolute clock is far beyond one frame by then
        kind = 'longrun'
        frame_ = 70908 if m128 else 69888
        n_it = rnd.randrange(560, 2100)
        start = 0x8000
        code = [0xF3, 0x01, n_it & 255, n_it >> 8, 0x0B, 0x78, 0xB1, 0x20, 0xFB,
                0x21, 0x00, 0x40, 0x11, 0x00, 0x50, 0x01, rnd.randrange(2, 24), 0x00, 0xED, 0xB0,
                0x31, 0x00, 0x58, 0xF5, 0xC5, 0x32, 0x00, 0x60, 0x3A, 0x10, 0x40,
                0x21, 0x20, 0x48, 0x11, 0x30, 0x48, 0x01, rnd.randrange(2, 12), 0x00, 0xED, 0xB8,
                0xED, 0xA0, 0xED, 0xA8, 0xE1, 0xD1, 0x18, 0xFE]
        ov = [[start + i, b] for i, b in enumerate(code)]
        pre = 2 + 4 * n_it
        hint = {'total': pre + 22, 'splits': sorted(set([1, rnd.randrange(2, 12), rnd.randrange(40, pre // 2), rnd.randrange(pre // 2, pre),
                                                         pre + rnd.randrange(1, 6), pre + rnd.randrange(6, 12), pre + rnd.randrange(12, 20)])),
                't': frame_ - rnd.randrange(30, 400)}
    elif m128 and rnd.random() < 0.6:
        kind = 'io128'
        start, ov, regs = gen_io_program(rnd)
    elif rnd.random() < 0.15:
        # HALT exactly at the last contended address: while halted the next address (uncontended) is fetched
        kind = 'haltedge'
        start = 0x7FFE
        ov = [[0x7FFE, 0xFB], [0x7FFF, 0x76], [0x8000, 0x3C], [0x8001, 0x18], [0x8002, 0xFB], [0x38, 0xFB], [0x39, 0xC9]]
        regs[simdrv.IM] = 1
        regs[simdrv.IFF] = 1
    frame = 70908 if m128 else 69888
    ram = [0] * 49152
    for a, v in ov:
        if a >= 0x4000:
            ram[a - 0x4000] = v
    R = simdrv
    reg = ['a=%d' % regs[R.A], 'f=%d' % regs[R.F], 'bc=%d' % (regs[R.B] * 256 + regs[R.C]), 'de=%d' % (regs[R.D] * 256 + regs[R.E]),
           'hl=%d' % (regs[R.H] * 256 + regs[R.L]), 'ix=%d' % (regs[8] * 256 + regs[9]), 'iy=%d' % (regs[10] * 256 + regs[11]),
           'sp=%d' % regs[R.SP], 'i=%d' % regs[R.I], 'r=%d' % regs[R.R], 'pc=%d' % start]
    t = rnd.choice((0, 20, 14335 + 224 * 50 + rnd.randrange(128), frame - 40, frame - 12, frame - 3, frame // 2, rnd.randrange(frame), 2 ** 24 - 300, 2 ** 24 - 40))
    if hint:
        t = hint['t']
    state = ['iff=%d' % regs[R.IFF], 'im=%d' % regs[R.IM], 'tstates=%d' % t, 'border=%d' % rnd.randrange(8)]
    if m128:
        banks = [[0] * 0x4000 for _ in range(8)]
        o7 = rnd.choice((0, 1, 3, 4, 6, 7, 0x10, 0x17))
        banks[5] = ram[:0x4000]
        banks[2] = ram[0x4000:0x8000]
        banks[o7 % 8][:] = ram[0x8000:]
        state += ['7ffd=%d' % o7, 'fffd=%d' % rnd.choice((rnd.randrange(16), rnd.randrange(16), 16, 31, 255, 0x8E))]
        state += ['ay[%d]=%d' % (i, rnd.randrange(256)) for i in rnd.sample(range(16), rnd.randrange(1, 6))]
        ramarg = banks
        machine = '128K'
    else:
        ramarg = ram
        machine = '48K'
    path = os.path.join(wd, 'start%d.%s' % (idx, rnd.choice(('z80', 'szx'))))
    write_snapshot(path, ramarg, reg, state, machine)
    return path, t, kind, hint


def legs(args):
    seed, n, wd = args
    from ..lib import cbuild
    cbuild.preload()
    from skoolkit import trace
    rnd = random.Random(seed)
    sub = os.path.join(wd, 's%d' % seed)
    os.makedirs(sub, exist_ok=True)
    out = []
    for k in range(n):
        m128 = rnd.random() < 0.45
        start, t0, kind, hint = make_start(rnd, sub, k, m128)
        total = rnd.choice((6, 12, 25, 60))
        if hint:
            total = hint['total']
        base = []
        if rnd.random() < 0.5:
            base.append('-c')
        if rnd.random() < 0.5:
            base.append('--python')
        fmt = rnd.choice(('szx', 'z80'))
        # the start snapshot itself (a few hundred bytes: the RAM is almost empty) travels with the record, so that a violation can
        # be replayed after the scratch directory is gone
        with open(start, 'rb') as f:
            startfile = {'name': os.path.basename(start), 'b64': base64.b64encode(f.read()).decode('ascii')}
        fa = os.path.join(sub, 'a%d.szx' % k)
        pa, e = leg_a(start, base, total, fa)
        if pa is None:
            out.append({'key': 'legA', 'err': e, 'splits': [], 'opts': base, 'fmt': fmt, 't0': t0, 'kind': kind, 'm128': int(m128),
                        'total': total, 'startfile': startfile})
            continue
        splits = sorted(set(rnd.sample(range(1, total), min(total - 1, 6))))
        if hint:
            splits = [x for x in hint['splits'] if 0 < x < total]
        rec = {'key': '%s/%s/%s' % (kind, fmt, '128' if m128 else '48'), 'err': '', 'opts': base, 'fmt': fmt, 't0': t0, 'kind': kind,
               'm128': int(m128), 'total': total, 'start': start, 'startfile': startfile, 'splits': []}
        for n1 in splits:
            rec['splits'].append(split_point(sub, k, start, base, total, n1, fmt, m128, pa))
        out.append(rec)
    return out


def leg_a(start, base, total, fa):
    """`total` instructions in one go -> (projection of the final snapshot, '') or (None, error text)."""
    from skoolkit import trace
    _, e, rc = pipedrv.run_tool(trace.main, base + ['-m', str(total), start, fa])
    if rc or not os.path.isfile(fa):
        return None, 'leg A rc=%s %s' % (rc, e[-200:])
    return project(fa), ''


def split_point(sub, k, start, base, total, n1, fmt, m128, pa):
    """n1 instructions, snapshot in format fmt, the remaining total - n1 from that snapshot -> split record (A = one go, B = resumed)."""
    from skoolkit import trace
    fm = os.path.join(sub, 'm%d_%d.%s' % (k, n1, fmt))
    fb = os.path.join(sub, 'b%d_%d.szx' % (k, n1))
    _, e1, rc1 = pipedrv.run_tool(trace.main, base + ['-m', str(n1), start, fm])
    _, e2, rc2 = pipedrv.run_tool(trace.main, base + ['-m', str(total - n1), fm, fb]) if not rc1 else ('', '', 1)
    if rc1 or rc2 or not os.path.isfile(fb):
        return {'n1': n1, 'err': 'rc=%s/%s %s %s' % (rc1, rc2, e1[-150:], e2[-150:])}
    pb = project(fb)
    rd = first_diff(pa['ram'], pb['ram'])
    pm = project(fm)
    mpc = pm['regs'][15]
    if mpc >= 0x4000:
        if m128:
            bank = {1: 5, 2: 2, 3: pm['o7ffd'] % 8}[mpc // 0x4000]
            opc = pm['ram'][bank * 0x4000 + mpc % 0x4000]
        else:
            opc = pm['ram'][mpc - 0x4000]
    else:
        opc = -1
    sp = {'n1': n1, 'err': '', 'ramdiff': rd, 'mid_pc': mpc, 'mid_halt': 1 if opc == 0x76 else 0}
    for f in ('regs', 'iff', 'im', 'border', 'tpos', 'o7ffd', 'offfd', 'ay', 'fe', 'memptr', 'banks'):
        sp['a_' + f] = pa[f]
        sp['b_' + f] = pb[f]
    for f in (fm, fb):
        os.remove(f)
    return sp


def replay_case(wd, rec, n1):
    """The recorded start snapshot and options through trace.py of the current tree again -> (fresh record, fresh split or None)."""
    from ..lib import cbuild
    cbuild.preload()
    sf = rec['startfile']
    start = os.path.join(wd, os.path.basename(sf['name']))
    with open(start, 'wb') as f:
        f.write(base64.b64decode(sf['b64']))
    new = {k: rec[k] for k in ('key', 'opts', 'fmt', 't0', 'kind', 'm128', 'total') if k in rec}
    pa, e = leg_a(start, list(rec['opts']), rec['total'], os.path.join(wd, 'a0.szx'))
    new['err'] = e
    if pa is None or n1 is None:
        return new, None
    return new, split_point(wd, 0, start, list(rec['opts']), rec['total'], n1, rec['fmt'], rec['m128'], pa)


def probe_ay48(wd):
    """Open finding resume:ay-on-48k: trace.py answers the AY ports (register select 0xFFFD, data 0xBFFD, read-back) on a 48K
    machine too, but a 48K snapshot carries no AY state: select register 3, write 0x55 / save / read it back -> 0 instead of 0x55."""
    from ..lib import cbuild
    cbuild.preload()
    from skoolkit.snapshot import write_snapshot
    code = [0x01, 0xFD, 0xFF, 0x3E, 0x03, 0xED, 0x79, 0x06, 0xBF, 0x3E, 0x55, 0xED, 0x79, 0x06, 0xFF, 0xED, 0x78,
            0x32, 0x00, 0x91, 0x18, 0xFE]
    ram = [0] * 49152
    ram[0x4000:0x4000 + len(code)] = code
    sub = os.path.join(wd, 'probe')
    os.makedirs(sub, exist_ok=True)
    start = os.path.join(sub, 'ay48.z80')
    write_snapshot(start, ram, ['pc=32768', 'sp=65000'], ['iff=0', 'tstates=100'], '48K')
    with open(start, 'rb') as f:
        startfile = {'name': 'ay48.z80', 'b64': base64.b64encode(f.read()).decode('ascii')}
    out = []
    for k, fmt in enumerate(('szx', 'z80')):
        pa, e = leg_a(start, [], 9, os.path.join(sub, 'a%d.szx' % k))
        rec = {'key': 'ay48/%s/48' % fmt, 'err': e if pa is None else '', 'opts': [], 'fmt': fmt, 't0': 100, 'kind': 'ay48', 'm128': 0,
               'total': 9, 'start': start, 'startfile': startfile, 'splits': []}
        if pa is not None:
            rec['splits'].append(split_point(sub, k, start, [], 9, 6, fmt, 0, pa))
        out.append(rec)
    return out
