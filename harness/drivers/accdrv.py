"""C13 driver.

Part 1: export of skoolkit.loadsample.ACCELERATORS with a concrete memory image per entry (for TLC).
Part 2: scenario runs of the real LoadTracer (Python simulator) / CSimulator.load: a sampling loop, a DEC A delay loop or
        a port-reading sequence on a small hand-made tape, run until a stop address; the final registers and player
        state are the observation that TLC compares with TapePlayer!Run of the plain system.
Part 3: custom-loader tapes (ROM LD-BYTES relocated to RAM with one of the recognised sampling loops spliced in, turbo
        TZX blocks, headerless blocks) on top of bin2tap output, real tap2sna.main under a configuration matrix, and the
        projection of the snapshots for the TLC judge.
"""
import contextlib
import time
import io
import os
import random
import zlib

from ..lib import cbuild
from ..lib.common import REPO, MachineryError
from . import loaddrv, pipedrv, replaylib, snapfile, tapedrv, z80len

BASE = 0x9000          # where the loop images live (>= 0x8000: tap2sna's default in_min_addr)
EXIT = 0x7000          # where time-out exits / returns lead (outside every loop region)
STACK = 0x6000
WILD = 256

# 1-based TLA register numbers
TLA_REG = {0: 3, 1: 4, 2: 5, 3: 6, 4: 7, 5: 8, 7: 1}


def _skool():
    cbuild.preload()
    import skoolkit  # noqa: F401


# ------------------------------------------------------------------------------------------------ part 1
def accelerator_image(acc):
    """Concrete bytes for an accelerator's code pattern. Returns (bytes incl. trailing jump operand, notes)."""
    code = [WILD if not isinstance(b, int) else b for b in acc.code]
    out = list(code)
    n = len(code)
    j = 0
    while j < n:
        if code[j] != WILD:
            j += 1
            continue
        k = j
        while k < n and code[k] == WILD:
            k += 1
        prev = code[j - 1] if j else None
        if prev == 0x3E and k - j == 1:
            out[j] = 0x7F                              # LD A,n
        elif prev in (0xCA, 0xD2, 0xC2, 0xDA) and k - j == 2:
            out[j], out[j + 1] = EXIT % 256, EXIT // 256   # JP cc,exit
        else:
            out[j] = 0xC9                              # bytes skipped by a JR while the counter is non-zero: time-out exit
            for i in range(j + 1, k):
                out[i] = 0x00
        j = k
    # walk the instructions: a pattern may end in the middle of its last one (the opcode of JP cc,LD_SAMPLE)
    j = 0
    while j < n:
        if code[j] == WILD:                             # filler skipped by a JR
            j += 1
            continue
        ln = z80len.length(out + [0, 0, 0], j)
        if j + ln > n:
            if out[j] & 0xC7 != 0xC2 or j + ln - n != 2:
                raise MachineryError('accelerator %s: pattern ends inside %02X' % (acc.name, out[j]))
            out += [BASE % 256, BASE // 256]
        j += ln
    return out


def export_accelerators():
    _skool()
    from skoolkit.loadsample import ACCELERATORS, Accelerator
    res = []
    for name in ACCELERATORS:
        acc = Accelerator(*ACCELERATORS[name])
        code = [WILD if not isinstance(b, int) else b for b in acc.code]
        img = accelerator_image(acc)
        if acc.c1 != len(code) - acc.c0:
            raise MachineryError('accelerator %s: c1 inconsistent' % name)
        tail = code[acc.c0 + 2:]
        pre = []
        if code[acc.c0] == 0xED:
            pre.append([TLA_REG[1], 0xFE])              # IN r,(C): the loop assumes C = 0xFE
            tail = code[acc.c0 + 2:]
        if not acc.ear_mask and tail and 0xA0 <= tail[0] <= 0xA7 and tail[0] != 0xA6:
            pre.append([TLA_REG[tail[0] & 7], 0x40])    # AND r: the loop assumes r holds the EAR mask
        xor = [i for i, b in enumerate(tail) if 0xA8 <= b <= 0xAD]
        andn = [i for i, b in enumerate(tail) if b == 0xE6]
        earbase = 2 if xor and andn and xor[0] < andn[0] else 0
        ov = [[BASE + i, b] for i, b in enumerate(img)] + [[STACK, EXIT % 256], [STACK + 1, EXIT // 256]]
        res.append(dict(name=name, code=code, c0=acc.c0, c1=acc.c1, counter=acc.counter, inc=int(bool(acc.inc)), lt=acc.loop_time,
                        lr=acc.loop_r_inc, ear=acc.ear if acc.ear_mask else -1, mask=acc.ear_mask, pol=acc.polarity,
                        ov=ov, img=img, inaddr=BASE + acc.c0, lo=BASE, hi=BASE + len(img) - 1, pre=pre, earbase=earbase))
    return res


# ------------------------------------------------------------------------------------------------ part 2
SINK = 0xA000
FAR = 400000
FRAME = 69888
TP_KEYS = ('next', 'idx', 'ended', 'bend', 'run', 'custom', 'tend', 'unann')


def _base_mem():
    from .simdrv import BASE as PATTERN
    return PATTERN


def _tracer_cfg(accs, deca, pause, stop, timeout):
    return {'accelerate_dec_a': deca, 'accelerators': accs, 'fast_load': 0, 'finish_tape': 0, 'first_edge': 0, 'in_min_addr': 0x8000,
            'list_accelerators': 1, 'pause': pause, 'polarity': 0, 'stop': stop, 'timeout': timeout, 'tracefile': None,
            'trace_line': None, 'prefix': None, 'byte_fmt': None, 'word_fmt': None}


def _tape_blocks(specs):
    """specs: list of (pulse durations, data bytes, (zero, one), pause T-states) -> skoolkit TapeBlock objects."""
    from skoolkit.tape import TapeBlock, TapeBlockTimings
    blocks = []
    for n, (pulses, data, (z, o), pause) in enumerate(specs, 1):
        tm = TapeBlockTimings(pulses=tuple((1, d) for d in pulses), zero=(z, z), one=(o, o), pause=pause)
        b = TapeBlock(n, bytes(data), tm)
        b.keys = None
        blocks.append(b)
    return blocks


def run_scenario(sc):
    """Run one scenario on the real code under each configuration. Returns the TLC case (with observations)."""
    from skoolkit import CSimulator
    from skoolkit.simulator import Simulator
    from skoolkit.loadtracer import LoadTracer
    from skoolkit.loadsample import ACCELERATORS, Accelerator
    pattern = _base_mem()
    case = None
    obs = []
    for impl, cls in (('py', Simulator), ('c', CSimulator)):
        for cfgname, accnames, deca in sc['configs']:
            mem = list(pattern)
            for a, v in sc['ov']:
                mem[a] = v
            ref = bytes(mem)
            sim = cls(mem if cls is Simulator else bytearray(ref), config={'fast_djnz': False, 'fast_ldir': False})
            mem = sim.memory
            if accnames == 'auto':
                accs = set(Accelerator(*args) for args in ACCELERATORS.values())
            else:
                accs = set(Accelerator(*ACCELERATORS[n]) for n in accnames)
            tracer = LoadTracer(sim, _tape_blocks(sc['tape']), _tracer_cfg(accs, deca, sc['pause'], sc['stop'], sc['timeout']), None)
            edges = [int(e) for e in tracer.edges]
            blocks = [{'s': int(b.start), 'e': int(b.end)} for b in tracer.blocks]
            st = tracer.state
            tp = dict(sc['tp'])
            if tp.get('mid'):
                # start in the middle of the first block: edge number idx is the last one passed
                st[1] = tp['idx']
                st[0] = edges[tp['idx'] + 1]
                st[4], st[5], st[7] = 1, 1, 0
            regs = list(sc['r'])
            if sc.get('t_rel') is not None:
                regs[25] = edges[tp['idx']] + sc['t_rel'] if tp.get('mid') else sc['t_rel']
            if case is None:
                tp0 = dict(zip(TP_KEYS, (int(st[i]) for i in range(8))))
                tp0['bidx'] = int(tracer.block_index)
                case = {'key': sc['key'], 'S': {'edges': edges, 'blocks': blocks, 'pause': sc['pause'], 'inmin': 0x8000, 'rom48': 1, 'inrc': sc.get('inrc', 0),
                                              'frame': FRAME, 'ia': 32},
                        'r': regs, 'ov': sc['ov'], 'tp': tp0, 'stops': [sc['stop']], 'fuel': sc['fuel']}
            for i, v in enumerate(regs):
                sim.registers[i] = v
            sim.set_tracer(tracer, bool(sc.get('inrc', 0)), False)
            exc = ''
            try:
                with contextlib.redirect_stdout(io.StringIO()):
                    tracer.run(7, 0, 0, [0] * 16, 0)
            except Exception as e:       # an exception is an observation
                exc = '%s: %s' % (type(e).__name__, e)
            after = bytes(mem)
            wr = [[a, after[a]] for a in range(65536) if after[a] != ref[a]] if after != ref else []
            tp1 = dict(zip(TP_KEYS, (int(tracer.state[i]) for i in range(8))))
            tp1['bidx'] = int(tracer.block_index)
            obs.append({'impl': '%s/%s' % (impl, cfgname), 'r': [int(v) for v in sim.registers][:30], 'tp': tp1, 'wr': wr, 'exc': exc,
                        'hits': sum(int(a.hits) for a in accs) + int(tracer.dec_a_jr_hits) + int(tracer.dec_a_jp_hits)})
    case['obs'] = obs
    case['sc'] = sc                 # the whole input (program, registers, tape, configurations): --replay runs it again
    return case


def loop_image(acc, lo=BASE):
    """accelerator image + exits: fall-through and the EXIT address jump to SINK, forward jumps land in a NOP sled."""
    img = list(acc['img'])
    jp = [0xC3, SINK % 256, SINK // 256]
    body = img + jp
    body += [0x00] * (40 - len(body)) + jp
    ov = [[lo + i, b] for i, b in enumerate(body)]
    ov += [[EXIT + i, b] for i, b in enumerate(jp)]
    ov += [[STACK, EXIT % 256], [STACK + 1, EXIT // 256], [SINK, 0x00]]
    return ov


REG_INDEX = {3: 2, 4: 3, 5: 4, 6: 5, 7: 6, 8: 7, 1: 0}    # TLA (1-based) -> skoolkit register index


def gen_loop_scenario(rnd, acc, idx_in_list):
    """A sampling loop entered at its first byte with the next edge a few iterations away."""
    lt = acc['lt']
    p = rnd.randrange(2) if acc['mask'] else (1 + acc['pol']) % 2
    idx = 2 + p
    ctr = rnd.choice((rnd.randrange(256), rnd.randrange(256), rnd.choice((0, 1, 2, 127, 128, 250, 251, 252, 253, 254, 255))))
    kind = rnd.choice(('near', 'near', 'near', 'limit', 'level', 'late', 'iff', 'blockend'))
    k = rnd.choice((1, 1, 2, 3, 4, 6, 9))
    d = (k - 1) * lt + rnd.choice((0, 1, lt - 1, rnd.randrange(lt))) + 40
    if kind == 'limit':
        d = 12 * lt + rnd.randrange(lt)
        ctr = rnd.choice((250, 252, 253, 254)) if acc['inc'] else rnd.choice((1, 2, 3, 5, 0))
    elif kind == 'late':
        d = rnd.choice((0, 1, 5, 16))            # the edge has (nearly) passed when the first IN starts
    regs = [(i * 37 + ctr) % 256 for i in range(30)]
    regs[12] = STACK
    regs[13] = 0
    regs[24] = BASE
    regs[25] = 0
    regs[26] = 1 if kind == 'iff' else 0
    regs[27], regs[28], regs[29] = 1, 0, 0
    regs[1] = rnd.randrange(256)
    regs[15] = rnd.randrange(256)
    regs[acc['counter']] = ctr
    if acc['mask']:
        bit = ((idx - acc['pol']) % 2) * acc['mask']
        if kind == 'level':
            bit ^= acc['mask']                    # the loop does not spin at this level
        regs[acc['ear']] = acc['earbase'] + bit
    for tr, v in acc['pre']:
        regs[REG_INDEX[tr]] = v
    # tape: edges 0,10,20,(30) in the past, the next one d T-states after the start, then far ones; one data byte closes the block
    past = [1000] + [10] * (idx - 1)
    t_rel = 7                                      # start 7 T-states after edge number idx
    pulses = past + [d + t_rel] + [FAR] * (2 if kind != 'blockend' else 0)
    tape = [(pulses, [0xA5], (FAR, FAR + 1), 0)]
    if kind == 'blockend':
        tape = [(pulses, [], (FAR, FAR + 1), 3500), ([FAR], [0xA5], (FAR, FAR + 1), 0)]
        tape = [(past + [d + t_rel], [0x80], (FAR, FAR + 1), 0)]      # the block ends two edges after the next one
    name = acc['name']
    configs = [('none', (), 0), ('one', (name,), 0), ('auto', 'auto', 3)]
    fuel = (min(k, 40) + 8) * 16 + 80 if kind != 'limit' else 22 * 16 + 80
    return {'key': 'loop/%s/%s' % (name, kind), 'ov': loop_image(acc), 'r': regs, 't_rel': t_rel, 'tp': {'mid': 1, 'idx': idx}, 'tape': tape,
            'pause': 1, 'stop': SINK, 'timeout': 10 ** 6, 'fuel': fuel, 'configs': configs, 'inrc': int(acc['code'][acc['c0']] == 0xED)}


def gen_deca_scenario(rnd):
    kind = rnd.choice(('jr', 'jr', 'jp', 'jp', 'other'))
    a = rnd.choice((rnd.randrange(256), rnd.randrange(1, 40), rnd.randrange(1, 40), rnd.choice((0, 1, 2, 255, 0x16, 3))))
    iff = 1 if rnd.random() < 0.15 else 0
    lo = rnd.choice((BASE, 0x8000, 0xC0F0, 0x80FE))
    jp = [0xC3, SINK % 256, SINK // 256]
    if kind == 'jr':
        code = [0x3D, 0x20, 0xFD] + jp
    elif kind == 'jp':
        code = [0x3D, 0xC2, lo % 256, lo // 256] + jp
    else:
        code = [0x3D, 0x20, 0xFC] + jp              # DEC A: JR NZ,$-2 is not the delay loop; entered at DEC A
        code = [0x00] + code
        a = rnd.randrange(1, 30)
    ov = [[lo + i, b] for i, b in enumerate(code)] + [[SINK, 0]]
    regs = [(i * 29 + a) % 256 for i in range(30)]
    regs[0] = a
    regs[1] = rnd.randrange(256)
    regs[12], regs[13] = STACK, 0
    regs[15] = rnd.randrange(256)
    regs[24] = lo + (1 if kind == 'other' else 0)
    regs[25] = 50000 + rnd.randrange(4000)
    regs[26] = iff
    regs[27], regs[28], regs[29] = 1, 0, 0
    tape = [([2168] * 4, [0xFF], (855, 1710), 0)]
    configs = [('d%d' % d, (), d) for d in range(4)]
    return {'key': 'deca/%s/%s' % (kind, 'iff' if iff else 'di'), 'ov': ov, 'r': regs, 't_rel': None, 'tp': {}, 'tape': tape, 'pause': 1,
            'stop': SINK, 'timeout': 10 ** 7, 'fuel': 2 * 256 + 8 if kind != 'other' else 3 * 40, 'configs': configs}


def gen_player_scenario(rnd):
    """A straight-line program of port reads and delays over a 2-3 block tape: announce, block change, pause, last edge."""
    nb = rnd.choice((1, 2, 2, 3))
    tape = []
    for b in range(nb):
        pulses = [rnd.choice((600, 900, 2168, 50, 5)) for _ in range(rnd.randrange(1, 5))]
        data = [rnd.randrange(256)] if rnd.random() < 0.8 or b == nb - 1 else []
        unit = rnd.choice((300, 855, 70))
        tape.append((pulses, data, (unit, 2 * unit), rnd.choice((0, 0, 3500, 20000))))
    code = []
    steps = 0
    for _ in range(rnd.randrange(6, 30)):
        w = rnd.random()
        if w < 0.55:
            code += [0x3E, rnd.choice((0x7F, 0xFE, 0x00)), 0xDB, 0xFE]       # LD A,n: IN A,($FE)
            steps += 2
        elif w < 0.65:
            code += [0xDB, rnd.choice((0xFF, 0x1F))]                           # a port that is not the ULA
            steps += 1
        elif w < 0.9:
            n = rnd.choice((1, 3, 20, 60, 100))
            code += [0x06, n, 0x10, 0xFE]                                      # LD B,n: DJNZ $
            steps += 1 + n
        else:
            code += [0x00] * rnd.randrange(1, 6)
            steps += 6
    code += [0xC3, SINK % 256, SINK // 256]
    lo = rnd.choice((0x8000, 0x9000, 0x7F00))        # 0x7F00: below in_min_addr - the tape is not heard
    ov = [[lo + i, b] for i, b in enumerate(code)] + [[SINK, 0]]
    regs = [(i * 31 + 7) % 256 for i in range(30)]
    regs[12], regs[13] = STACK, 0
    regs[24] = lo
    regs[25] = rnd.choice((0, 1000, 123456))
    regs[26] = 0
    regs[27], regs[28], regs[29] = 1, 0, 0
    pause = rnd.randrange(2)
    configs = [('p%d' % pause, (), 0), ('p%d-auto' % pause, 'auto', 3)]
    return {'key': 'player/b%d/p%d/%s' % (nb, pause, 'low' if lo < 0x8000 else 'hi'), 'ov': ov, 'r': regs, 't_rel': None, 'tp': {}, 'tape': tape,
            'pause': pause, 'stop': SINK, 'timeout': 10 ** 7, 'fuel': steps + 8, 'configs': configs}


def gen_short_pulse_scenario(acc):
    """Known finding e2e:probe/short-pulse at scenario level: two edges 20 T-states apart, both between two samples."""
    rnd = random.Random(1)
    sc = gen_loop_scenario(rnd, acc, 0)
    idx = sc['tp']['idx']
    d = 2 * acc['lt'] + 40
    sc['tape'] = [([1000] + [10] * (idx - 1) + [d + 7, 20, FAR, FAR], [0xA5], (FAR, FAR + 1), 0)]
    sc['r'][26] = 0
    sc['r'][acc['counter']] = 100
    sc['r'][acc['ear']] = acc['earbase'] + ((idx - acc['pol']) % 2) * acc['mask']
    sc['key'] = 'probe/short-pulse/%s' % acc['name']
    sc['fuel'] = 170 * 16
    return sc


def scenario_worker(args):
    seed, n_loop_rounds, n_deca, n_player, part, parts = args
    _skool()
    rnd = random.Random(seed)
    accs = export_accelerators()
    out = []
    for rnd_round in range(n_loop_rounds):
        for i, acc in enumerate(accs):
            if (i + rnd_round) % parts == part:
                out.append(run_scenario(gen_loop_scenario(rnd, acc, i)))
    if part == 0:
        out.append(run_scenario(gen_short_pulse_scenario([a for a in accs if a['name'] == 'rom'][0])))
    for _ in range(n_deca):
        out.append(run_scenario(gen_deca_scenario(rnd)))
    for _ in range(n_player):
        out.append(run_scenario(gen_player_scenario(rnd)))
    return out


# ------------------------------------------------------------------------------------------------ part 3
ROM_LD_BYTES = 0x0556
ROM_LD_EDGE_2 = 0x05E3
ROM_LD_EDGE_1 = 0x05E7
ROM_END = 0x0605
# absolute operands inside 0x0556..0x05E6 that point into the routine itself (CALL LD-EDGE-1/2, JP NC,LD-8-BITS)
ROM_ABS = (0x056D, 0x057C, 0x0583, 0x0592, 0x059C, 0x05CB, 0x05D6, 0x05E4)


def rom48():
    with open(os.path.join(REPO, 'skoolkit', 'resources', '48.rom'), 'rb') as f:
        rom = f.read()
    sig = (rom[0x0556:0x055A], rom[0x055E:0x0562], rom[0x0562:0x056B], rom[0x05E7:0x05ED])
    want = (bytes((0x14, 0x08, 0x15, 0xF3)), bytes((0x21, 0x3F, 0x05, 0xE5)), bytes((0xDB, 0xFE, 0x1F, 0xE6, 0x20, 0xF6, 0x02, 0x4F, 0xBF)),
            bytes((0x3E, 0x16, 0x3D, 0x20, 0xFD, 0xA7)))
    if sig != want:
        raise MachineryError('48.rom does not contain the LD-BYTES routine this harness relocates')
    for a in ROM_ABS:
        t = rom[a] + 256 * rom[a + 1]
        if not ROM_LD_BYTES <= t < ROM_END or rom[a - 1] not in (0xCD, 0xD2):
            raise MachineryError('unexpected operand at %04X in 48.rom' % a)
    return rom


def ear_usable(acc):
    """Accelerator shapes that can stand in for the ROM's LD-SAMPLE: counter B, EAR state in C, loop while unchanged."""
    return acc['counter'] == 2 and acc['inc'] == 1 and acc['ear'] == 3 and acc['mask'] in (0x20, 0x40) and acc['pol'] == 0


def build_loader(rom, org, acc, dly, wait, decjp=False):
    """ROM LD-BYTES relocated to `org` with LD-EDGE-1 rebuilt around the sampling loop of `acc`, delay constant `dly`,
    leader wait `wait` (HL count). Returns (code bytes, entry address)."""
    body = bytearray(rom[ROM_LD_BYTES:ROM_LD_EDGE_1])          # up to and including LD-EDGE-2
    delta = org - ROM_LD_BYTES
    for a in ROM_ABS:
        o = a - ROM_LD_BYTES
        t = body[o] + 256 * body[o + 1] + delta
        body[o], body[o + 1] = t % 256, t // 256
    # LD HL,wait instead of LD HL,$0415
    o = 0x0571 - ROM_LD_BYTES
    if body[o] != 0x21:
        raise MachineryError('LD HL,$0415 not found')
    body[o + 1], body[o + 2] = wait % 256, wait // 256
    if acc['mask'] == 0x40:
        # the loop tests bit 6 of the port directly: initial EAR state without RRA, AND $40
        o = 0x0564 - ROM_LD_BYTES
        body[o] = 0x00
        body[o + 2] = 0x40
    edge1 = org + len(body)
    if decjp:
        here = edge1 + 2
        delay = [0x3E, dly, 0x3D, 0xC2, here % 256, here // 256, 0xA7]          # LD A,dly: DEC A: JP NZ,$-1: AND A
    else:
        delay = [0x3E, dly, 0x3D, 0x20, 0xFD, 0xA7]                               # LD A,dly: DEC A: JR NZ,$-1: AND A
    sample = edge1 + len(delay)
    img = list(acc['img'])
    # re-aim absolute operands of the image (built for BASE) at the new place
    code = acc['code']
    for j in range(len(img) - 1):
        if img[j] + 256 * img[j + 1] == BASE and (j >= len(code) or code[j] == WILD):
            img[j], img[j + 1] = sample % 256, sample // 256
    tail = [0x79, 0x2F, 0x4F, 0xE6, 0x07, 0xF6, 0x08, 0xD3, 0xFE, 0x37, 0xC9]     # LD A,C: CPL: LD C,A: AND 7: OR 8: OUT ($FE),A: SCF: RET
    pad = [0xC9] * 24                                                              # forward time-out exits land on RET (carry clear)
    stub = sample + len(img) + len(tail) + len(pad)
    out = bytes(body) + bytes(delay + img + tail + pad) + bytes((0xC9,))
    out = bytearray(out)
    # exits that the image sends to EXIT (JP cc,EXIT) -> a RET in the padding
    retaddr = sample + len(img) + len(tail)
    for j in range(len(body) + len(delay), len(body) + len(delay) + len(img) - 1):
        if out[j] == EXIT % 256 and out[j + 1] == EXIT // 256:
            out[j], out[j + 1] = retaddr % 256, retaddr // 256
    # LD HL,$053F: PUSH HL -> LD HL,stub (a RET that hands carry back to the caller)
    o = 0x055E - ROM_LD_BYTES
    out[o + 1], out[o + 2] = stub % 256, stub // 256
    # the ROM's LD-EDGE-2 is CALL LD-EDGE-1: RET NC and now points at org+... (relocated above) - make it point at edge1
    o = ROM_LD_EDGE_2 - ROM_LD_BYTES
    out[o + 1], out[o + 2] = edge1 % 256, edge1 // 256
    for a in (0x056D, 0x0592, 0x059C):                                             # CALL LD-EDGE-1
        o = a - ROM_LD_BYTES
        out[o], out[o + 1] = edge1 % 256, edge1 // 256
    return bytes(out)


def loader_timings(acc, dly, scale=1.0):
    """Pulse lengths that the relocated loader accepts, from its loop time and delay constant."""
    lt = acc['lt']
    o = 79 + 16 * dly - 5                      # per-edge overhead around the sampling loop
    thr = 2 * o + 27 * lt                      # two-edge time that separates a 0 bit from a 1 bit (B > $CB after $B0)
    zero = int(0.355 * thr * scale)
    pilot = int((2 * o + 62 * lt) / 2 * scale)
    sync1 = int((o + 4 * lt) * scale)
    return dict(pilot=pilot, sync1=sync1, sync2=sync1 + 70, zero=zero, one=2 * zero)


def stage_code(stages, fin):
    """LD IX,dest: LD DE,len: LD A,flag: SCF: CALL loader: JP NC,fin  for every stage, then JP fin."""
    code = []
    for dest, length, flag, entry in stages:
        code += [0xDD, 0x21, dest % 256, dest // 256, 0x11, length % 256, length // 256, 0x3E, flag, 0x37, 0xCD, entry % 256, entry // 256,
                 0xD2, fin % 256, fin // 256]
    code += [0xC3, fin % 256, fin // 256]
    return code


def parity(flag, data):
    p = flag
    for b in data:
        p ^= b
    return p


def gen_custom(rnd, accs, idx):
    """A program = stage code + relocated loader + FIN, to be put on tape by bin2tap, and the blocks it loads afterwards."""
    usable = [a for a in accs if ear_usable(a)]
    acc = usable[idx % len(usable)] if idx is not None else rnd.choice(usable)
    dly = rnd.choice((0x16, 0x16, 0x0C, 0x1E))
    decjp = rnd.random() < 0.3
    org = rnd.choice((0x8000, 0x8100, 0x9C40, 0xB000))
    nstages = rnd.choice((1, 2, 2, 3))
    kinds = [rnd.choice(('custom', 'custom', 'rom')) for _ in range(nstages)]
    if 'custom' not in kinds:
        kinds[rnd.randrange(nstages)] = 'custom'
    wait = rnd.choice((0x0020, 0x0030, 0x0040))
    scale = rnd.choice((1.0, 1.0, 0.93, 1.08))
    lens = [rnd.choice((1, 2, 17, 40, 90, 150)) for _ in kinds]
    stack = rnd.choice((0, 0x7F00, 0x6000))
    if (idx is not None and idx % 3 == 1) or rnd.random() < 0.15:
        # last stage: a ROM LD-BYTES call that loads a block over its own return stack (the words at SP-2.. come from the tape)
        kinds = kinds[:2] + ['romstack']
        lens = lens[:2] + [rnd.choice((4, 5, 6, 20, 60))]
        stack = rnd.choice((0x7F00, 0x6000, 0x7E40))
    return dict(acc=acc['name'], dly=dly, decjp=int(decjp), org=org, kinds=kinds, wait=wait, scale=scale,
                lens=lens, flags=[rnd.choice((0xFF, 0xAA, 0x81, 0xD3)) for _ in kinds],
                stack=stack, tail=rnd.random() < 0.3)


def build_custom(rom, accs, g, rnd):
    """-> (program bytes, org, fin, tape block list [(kind, flag, data, timings)], loads [(addr, bytes)])."""
    acc = [a for a in accs if a['name'] == g['acc']][0]
    org = g['org']
    n = len(g['kinds'])
    scode_len = 16 * n + 3
    lorg = org + scode_len
    loader = build_loader(rom, lorg, acc, g['dly'], g['wait'], bool(g['decjp']))
    fin = lorg + len(loader)
    dest = fin + 16
    stages, blocks, loads = [], [], []
    tm = loader_timings(acc, g['dly'], g['scale'])
    trap = fin + 1
    for kind, ln, flag in zip(g['kinds'], g['lens'], g['flags']):
        data = [rnd.randrange(256) for _ in range(ln)]
        if kind == 'romstack':
            # CALL LD-BYTES leaves SP = stack-2; the ROM pushes SA/LD-RET at stack-4: the block starts exactly there, so the
            # routine returns through the first word of the block (FIN = --start); the second word replaces the caller's
            # return address (TRAP: JP FIN); everything the real routine pushes while loading lies below the block
            at = g['stack'] - 4
            data[0:4] = [fin % 256, fin // 256, trap % 256, trap // 256]
            stages.append((at, ln, flag, ROM_LD_BYTES))
            blocks.append((kind, flag, data, tm))
            loads.append((at, data))
            continue
        stages.append((dest, ln, flag, ROM_LD_BYTES if kind == 'rom' else lorg))
        blocks.append((kind, flag, data, tm))
        loads.append((dest, data))
        dest += ln + rnd.choice((0, 3))
    prog = bytes(stage_code(stages, fin)) + loader + bytes((0x00, 0xC3, fin % 256, fin // 256))
    if len(prog) != fin - org + 4:
        raise MachineryError('custom program layout')
    return prog, org, fin, blocks, loads


def write_custom_tape(wd, tag, prog, org, fin, blocks, g, fmt='tzx'):
    """bin2tap puts the program on tape (BASIC loader + code loader + program); the custom blocks follow."""
    from skoolkit import bin2tap
    src = os.path.join(wd, tag + '.bin')
    tap = os.path.join(wd, tag + '.tap')
    with open(src, 'wb') as f:
        f.write(prog)
    args = ['-o', str(org), '-s', str(org)]
    if g['stack']:
        args += ['-p', str(g['stack'])]
    _, e, rc = pipedrv.run_tool(bin2tap.main, args + [src, tap])
    if rc or not os.path.isfile(tap):
        raise MachineryError('bin2tap failed for a custom loader program: %s' % e[-300:])
    raw = open(tap, 'rb').read()
    tapblocks = []
    i = 0
    while i + 2 <= len(raw):
        ln = raw[i] + 256 * raw[i + 1]
        tapblocks.append(raw[i + 2:i + 2 + ln])
        i += 2 + ln
    out = bytearray(tapedrv.tzx_header())
    for b in tapblocks:
        out += tapedrv.tzx10(b, 1000)
    for k, (kind, flag, data, tm) in enumerate(blocks):
        payload = bytes([flag] + data + [parity(flag, data)])
        last = k == len(blocks) - 1
        pause = 0 if last and not g['tail'] else (1000 if kind != 'custom' else 400)
        if kind != 'custom':
            out += tapedrv.tzx10(payload, pause)
        else:
            # enough pilot for the shortened wait plus the 256 leader pairs the loader wants to see
            npilot = 1400
            out += tapedrv.tzx11(payload, pilot=tm['pilot'], sync1=tm['sync1'], sync2=tm['sync2'], zero=tm['zero'], one=tm['one'],
                                 pilot_len=npilot, used=8, pause_ms=pause)
    if g['tail']:
        out += tapedrv.tzx12(2168, 300)            # a trailing tone nobody reads
    path = os.path.join(wd, tag + '.tzx')
    with open(path, 'wb') as f:
        f.write(out)
    return path


SIM_KEYS = ('accelerator', 'accelerate-dec-a', 'pause', 'python', 'fast-load', 'cmio', 'polarity', 'first-edge')


def cfg_opts(cfg):
    return ['%s=%s' % (k, cfg[k]) for k in SIM_KEYS if k in cfg]


def cfg_class(cfg):
    return 'fl%s-cm%s-po%s-fe%s' % (cfg.get('fast-load', 1), cfg.get('cmio', 0), cfg.get('polarity', 0), cfg.get('first-edge', 0))


def cfg_name(cfg):
    return ';'.join('%s=%s' % (k, cfg[k]) for k in SIM_KEYS if k in cfg) or 'default'


def page_sigs(banks):
    """CRC of every 256-byte page of every RAM bank present (a trusted projection of 'all RAM')."""
    out = []
    for b in sorted(banks):
        d = banks[b]
        out += [zlib.crc32(d[i:i + 256]) & 0x7FFFFFFF for i in range(0, 16384, 256)]
    return out


def peek(s, addr):
    banks = s['banks']
    if addr < 0x4000:
        return -1
    if s['machine'] == '48K':
        return banks[{1: 5, 2: 2, 3: 0}[addr // 0x4000]][addr % 0x4000]
    return banks[{1: 5, 2: 2, 3: s['o7ffd'] % 8}[addr // 0x4000]][addr % 0x4000]


REGS16 = ('bc', 'de', 'hl', 'ix', 'iy', 'bc2', 'de2', 'hl2')
REGS8 = ('a', 'f', 'i', 'a2', 'f2', 'iff1', 'iff2', 'im', 'border')


def run_tap2sna(tape, out, start, cfg, machine128=False):
    from skoolkit import tap2sna
    args = []
    if machine128:
        args += ['-c', 'machine=128']
    for o in cfg_opts(cfg):
        args += ['-c', o]
    args += ['-c', 'timeout=120', '--start', str(start), tape, out]
    # tap2sna does not store the clock in the snapshot (get_state(simulator, False)): read it where the snapshot is taken
    seen = {}
    orig = getattr(tap2sna, 'get_state', None)
    if orig is not None:
        def spy(simulator, *a, **kw):
            seen['t'] = int(simulator.registers[25])
            return orig(simulator, *a, **kw)
        tap2sna.get_state = spy
    try:
        so, se, rc = pipedrv.run_tool(tap2sna.main, args)
    finally:
        if orig is not None:
            tap2sna.get_state = orig
    if rc or not os.path.isfile(out):
        return None, 'tap2sna rc=%s %s' % (rc, (se or so)[-200:]), so
    try:
        s = snapfile.read_snapshot(out)
        s['clock'] = seen.get('t', -1)
    except Exception as e:
        return None, 'snapshot unreadable: %s' % e, so
    finally:
        try:
            os.remove(out)
        except OSError:
            pass
    return s, '', so


def project(s, err, cfg, loads, scratch=()):
    """One run -> the record TLC compares."""
    if s is None:
        return {'cfg': cfg_name(cfg), 'cls': cfg_class(cfg), 'err': err, 'pc': -1, 'sp': -1, 'r': -1, 't': -1, 'regs': [], 'pages': [], 'data': [],
                'o7ffd': -1}
    data = []
    for addr, bs in loads:
        data.append([peek(s, addr + i) for i in range(len(bs))])
    return {'cfg': cfg_name(cfg), 'cls': cfg_class(cfg), 'err': '', 'pc': s['pc'], 'sp': s['sp'], 'r': s['r'],
            't': s['clock'], 'regs': [s[k] for k in REGS8] + [s[k] for k in REGS16],
            'pages': page_sigs(s['banks']), 'data': data, 'o7ffd': s['o7ffd'] & 0x3F}


# ---------------------------------------------------------------- configuration matrix
def group_rows(rnd, names, n, python=False):
    """n configurations of the bit-identical group (accelerator, accelerate-dec-a, pause[, python])."""
    rows = []
    seen = set()
    tries = 0
    while len(rows) < n and tries < 200:
        tries += 1
        row = {'accelerator': rnd.choice(('auto', 'none', names)), 'accelerate-dec-a': rnd.randrange(4), 'pause': rnd.randrange(2)}
        key = tuple(sorted(row.items()))
        if key in seen or (row['accelerator'] == 'auto' and row['accelerate-dec-a'] == 3 and row['pause'] == 1):
            continue
        seen.add(key)
        if python:
            row['python'] = 1
        rows.append(row)
    return rows


def full_rows(names):
    return [{'accelerator': a, 'accelerate-dec-a': d, 'pause': p, 'python': y}
            for a in ('auto', 'none', names) for d in range(4) for p in (0, 1) for y in (0, 1)]


def matrix(rnd, names, tier, small, full=False, pyfl0=False):
    """List of configurations; the first one is the default configuration."""
    cfgs = [{}]
    q = tier == 'quick'
    if full:
        for fl in (1, 0):
            for row in full_rows(names):
                if row == {'accelerator': 'auto', 'accelerate-dec-a': 3, 'pause': 1, 'python': 0} and fl == 1:
                    continue
                cfgs.append(dict(row, **{'fast-load': fl}))
        for fl in (1, 0):
            for p in (0, 1):
                for y in (0, 1):
                    cfgs.append({'cmio': 1, 'fast-load': fl, 'pause': p, 'python': y})
        return cfgs
    cfgs += group_rows(rnd, names, 5 if q else 10)
    cfgs += [dict(r, **{'fast-load': 0}) for r in [{}] + group_rows(rnd, names, 4 if q else 8)]
    cfgs += [{'cmio': 1}, {'cmio': 1, 'pause': 0, 'accelerator': rnd.choice(('auto', 'none'))}, {'cmio': 1, 'fast-load': 0, 'pause': rnd.randrange(2)}]
    pol = {'polarity': 1, 'fast-load': rnd.randrange(2)}
    cfgs += [pol] + [dict(r, **pol) for r in group_rows(rnd, names, 1 if q else 3)]
    fe = {'first-edge': rnd.choice((1, 100, 3500, 70001)), 'fast-load': rnd.randrange(2)}
    cfgs += [fe] + [dict(r, **fe) for r in group_rows(rnd, names, 1 if q else 3)]
    if small:
        cfgs += [{'python': 1}] + group_rows(rnd, names, 1 if q else 4, python=True)
        if q and pyfl0:
            cfgs += [{'python': 1, 'fast-load': 0, 'accelerator': rnd.choice(('auto', names)), 'accelerate-dec-a': rnd.choice((1, 3))}]
        if not q:
            cfgs += [{'python': 1, 'cmio': 1}, {'python': 1, 'fast-load': 0, 'accelerator': rnd.choice(('auto', names))},
                     {'python': 1, 'fast-load': 0, 'pause': 0, 'accelerate-dec-a': rnd.randrange(4)}]
    return cfgs


def env_of(cfg):
    return (cfg.get('polarity', 0), cfg.get('first-edge', 0))


def run_matrix(tape, start, cfgs, loads, wd, tag, m128=False, scratch=None):
    """Run every configuration; returns (runs, dropped environments). A tape-side environment (polarity, first-edge) whose
    own default run does not load the tape is outside the property's 'tape that loads' and is dropped."""
    runs = []
    base_ok = {}
    dropped = []
    for k, cfg in enumerate(cfgs):
        env = env_of(cfg)
        if base_ok.get(env) is False:
            continue
        s, err, _ = run_tap2sna(tape, os.path.join(wd, '%s_%d.z80' % (tag, k)), start, cfg, m128)
        p = project(s, err, cfg, loads)
        if scratch:
            for (addr, bs), got in zip(loads, p['data']):
                for i in range(len(got)):
                    if scratch[0] <= addr + i < scratch[1]:
                        got[i] = -2
        if env not in base_ok:
            good = p['err'] == '' and p['pc'] == start
            base_ok[env] = good
            if not good:
                dropped.append('%s:%s' % (env, p['err'] or 'pc=%d' % p['pc']))
                continue
        runs.append(p)
    return runs, dropped


def custom_worker(args):
    seed, indices, tier, wd, fullset = args
    _skool()
    rnd = random.Random(seed)
    rom = rom48()
    accs = export_accelerators()
    sub = os.path.join(wd, 'cu%d' % seed)
    os.makedirs(sub, exist_ok=True)
    out = []
    for idx in indices:
        st = replaylib.rnd_state(rnd)
        g = gen_custom(rnd, accs, idx)
        full = idx in fullset
        if full:
            g['lens'] = [min(x, 40) for x in g['lens']]
        prog, org, fin, blocks, loads = build_custom(rom, accs, g, rnd)
        tag = 'c%d' % idx
        tape = write_custom_tape(sub, tag, prog, org, fin, blocks, g)
        names = g['acc'] + (',rom' if set(g['kinds']) & {'rom', 'romstack'} else '')
        cfgs = matrix(rnd, names, tier, True, full, pyfl0=idx % 8 == 0)
        t0 = time.time()
        runs, dropped = run_matrix(tape, fin, cfgs, loads, sub, tag)
        expect = [d for _, d in loads]
        case = {'key': 'custom/%s/dly%02X/%s%s' % (g['acc'], g['dly'], '+'.join(g['kinds']), '/decjp' if g['decjp'] else ''), 'start': fin,
                'expect': expect, 'runs': runs, 'dropped': dropped, 'gen': g, 'tape': os.path.basename(tape), 'names': names, 'wall': round(time.time() - t0, 2),
                'regen': dict(st, idx=idx, full=int(full))}
        out.append(case)
        for f in os.listdir(sub):
            if f.startswith(tag + '.'):
                os.remove(os.path.join(sub, f))
    return out


def c12_worker(args):
    seed, n, tier, wd = args
    _skool()
    rnd = random.Random(seed)
    sub = os.path.join(wd, 'b%d' % seed)
    os.makedirs(sub, exist_ok=True)
    out = []
    for k in range(n):
        st = replaylib.rnd_state(rnd)
        g = loaddrv.gen_case(rnd, seed * 1000 + k)
        if g['size'] > 7000:
            g['size'] = 6912
            g['data'] = g['data'][:6912]
        ref = loaddrv.run_case(sub, k, g, rnd, keep_tape=True)
        ref.pop('ramfull', None)
        if ref['err'] or ref['loaderr'] or ref['pc'] != g['start']:
            out.append({'key': 'c12/' + ref['key'], 'skipped': ref['err'] or ref['loaderr'] or 'pc'})
            continue
        tape = ref['tape']
        loads = [(g['org'], g['data'])]
        scratch = (g['stack'] - 14, g['stack']) if g['clear'] < 0 else None
        small = g['size'] <= 300 and not g['m128'] and not g['scr']
        cfgs = matrix(rnd, 'rom', tier, small)
        t0 = time.time()
        runs, dropped = run_matrix(tape, g['start'], cfgs, loads, sub, 'p%d' % k, bool(g['m128']), scratch)
        expect = [list(runs[0]['data'][0])] if runs else []
        out.append({'key': 'c12/' + ref['key'], 'start': g['start'], 'expect': expect, 'runs': runs, 'dropped': dropped,
                    'gen': {k2: g[k2] for k2 in ('m128', 'size', 'org', 'start', 'stack', 'clear', 'opts', 'fmt')}, 'tape': os.path.basename(tape),
                    'names': 'rom', 'wall': round(time.time() - t0, 2), 'regen': dict(st, idx=seed * 1000 + k)})
        for f in os.listdir(sub):
            if f.startswith('p%d.' % k) or f.startswith('p%d_' % k):
                try:
                    os.remove(os.path.join(sub, f))
                except OSError:
                    pass
    return out


# ---------------------------------------------------------------- --replay of one tape
def parse_cfg(name):
    """cfg_name() backwards."""
    cfg = {}
    if name != 'default':
        for kv in name.split(';'):
            k, _, v = kv.partition('=')
            cfg[k] = int(v) if v.lstrip('-').isdigit() else v
    return cfg


def replay_tape(wd, rp):
    """Make the tape of a recorded end-to-end case again (generator state -> same program, blocks and timings), run tap2sna of
    the current tree under the recorded configurations (default, class leader, failing one) -> SnapGroups case."""
    _skool()
    os.makedirs(wd, exist_ok=True)
    cfgs = []
    for u in rp['runs']:
        c = parse_cfg(u['cfg'])
        if c not in cfgs:
            cfgs.append(c)
    if rp['key'].startswith('probe/'):
        fn = 'probe_' + rp['key'].split('/')[1].replace('-', '_')
        if fn not in globals():
            raise MachineryError('unknown probe %s' % rp['key'])
        return globals()[fn](wd)
    rg = rp['regen']
    rnd = replaylib.rnd_restore(rg)
    if rp['key'].startswith('custom/'):
        accs = export_accelerators()
        g = gen_custom(rnd, accs, rg['idx'])
        if rg['full']:
            g['lens'] = [min(x, 40) for x in g['lens']]
        if g != rp['gen']:
            raise MachineryError('the replay file was written by a different version of the C13 generator (or accelerator table): it now makes %s, '
                                 'recorded %s' % (g, rp['gen']))
        prog, org, fin, blocks, loads = build_custom(rom48(), accs, g, rnd)
        tag = 'c%d' % rg['idx']          # as in the recorded run: bin2tap names the program on the tape after its input file
        tape = write_custom_tape(wd, tag, prog, org, fin, blocks, g)
        runs, dropped = run_matrix(tape, fin, cfgs, loads, wd, tag)
        return {'key': rp['key'], 'start': fin, 'expect': [d for _, d in loads], 'runs': runs, 'dropped': dropped, 'gen': g}
    if rp['key'].startswith('slow/'):
        g, tape, tag, fin, loads = make_slow_case(rnd, rg['idx'], rg['tier'], wd)
        if g != rp['gen']:
            raise MachineryError('the replay file was written by a different version of the C13 slow-consumer generator: it now makes %s, '
                                 'recorded %s' % (g, rp['gen']))
        runs, dropped = run_matrix(tape, fin, cfgs, loads, wd, tag, bool(g['m128']))
        return {'key': rp['key'], 'start': fin, 'expect': [d for _, d in loads], 'runs': runs, 'dropped': dropped, 'gen': g}
    if rp['key'].startswith('irq/'):
        g, tape, tag, fin, cnt, loads, fes, pos = make_irq_case(rnd, export_accelerators(), rg['idx'], wd)
        if g != rp['gen']:
            raise MachineryError('the replay file was written by a different version of the C13 irq generator: it now makes %s, recorded %s'
                                 % (g, rp['gen']))
        runs, dropped = run_matrix(tape, fin, cfgs, loads, wd, tag, bool(g['m128']))
        return {'key': rp['key'], 'start': fin, 'expect': [d for _, d in loads], 'runs': runs, 'dropped': dropped, 'gen': g}
    g = loaddrv.gen_case(rnd, rg['idx'])
    if g['size'] > 7000:
        g['size'] = 6912
        g['data'] = g['data'][:6912]
    if {k: g[k] for k in rp['gen']} != rp['gen']:
        raise MachineryError('the replay file was written by a different version of the C12 generator')
    k = rg['idx'] % 1000                 # the scratch file number of the recorded run (bin2tap puts the file name on the tape)
    ref = loaddrv.run_case(wd, k, g, rnd, keep_tape=True)
    if ref['err'] or ref['loaderr'] or ref['pc'] != g['start']:
        # the tape does not load in the reference configuration any more: that is C12's business, nothing to compare here
        return {'key': rp['key'], 'skipped': ref['err'] or ref['loaderr'] or 'pc'}
    scratch = (g['stack'] - 14, g['stack']) if g['clear'] < 0 else None
    runs, dropped = run_matrix(ref['tape'], g['start'], cfgs, [(g['org'], g['data'])], wd, 'p%d' % k, bool(g['m128']), scratch)
    return {'key': rp['key'], 'start': g['start'], 'expect': [list(runs[0]['data'][0])] if runs else [], 'runs': runs, 'dropped': dropped}


# ---------------------------------------------------------------- isolated probes (real CLI in a subprocess)
def cli_tap2sna(tape, out, start, cfg):
    """tap2sna.py as a subprocess (a crash of the C simulator must not take the harness down)."""
    import subprocess
    from ..lib.common import PY
    cmd = [PY, os.path.join(REPO, 'tap2sna.py')]
    for o in cfg_opts(cfg):
        cmd += ['-c', o]
    cmd += ['-c', 'timeout=60', '--start', str(start), tape, out]
    try:
        p = subprocess.run(cmd, env=cbuild.sub_env(), stdout=subprocess.PIPE, stderr=subprocess.STDOUT, text=True, errors='replace', timeout=300)
    except subprocess.TimeoutExpired:
        return None, 'tap2sna did not finish in 300 s'
    if p.returncode < 0:
        return None, 'tap2sna killed by signal %d' % -p.returncode
    if p.returncode or not os.path.isfile(out):
        return None, 'tap2sna rc=%s %s' % (p.returncode, p.stdout[-200:].replace('\x08', ''))
    try:
        s = snapfile.read_snapshot(out)
        s['clock'] = 0                     # not observable from outside the process
    except Exception as e:
        return None, 'snapshot unreadable: %s' % e
    finally:
        try:
            os.remove(out)
        except OSError:
            pass
    return s, ''


def probe_dec_counter_zero(wd):
    """An edge counter that re-enters the 'software-projects' sampling loop (DEC B after the IN) with B = 0, i.e. a
    256-iteration time-out: the fast-forward arithmetic must treat counter 0 as 256."""
    _skool()
    from skoolkit import bin2tap
    org = 0x8000
    code = [0xF3, 0x0E, 0x00, 0x11, 0xD0, 0x07]                                       # DI: LD C,0: LD DE,2000
    nxt = org + len(code)
    code += [0x06, 0x00]                                                               # next: LD B,0
    code += [0x3E, 0x7F, 0xDB, 0xFE, 0xA9, 0xE6, 0x40, 0x20, 0x04, 0x05, 0x20, 0xF4]   # LD A,$7F: IN A,($FE): XOR C: AND $40: JR NZ,+4: DEC B: JR NZ,loop
    code += [0x00]                                                                     # time-out: fall into 'found'
    code += [0x79, 0x2F, 0x4F, 0x1B, 0x7A, 0xB3]                                       # found: LD A,C: CPL: LD C,A: DEC DE: LD A,D: OR E
    code += [0x20, (nxt - (org + len(code) + 2)) & 0xFF]                               # JR NZ,next
    fin = org + len(code)
    code += [0x00]
    src, tap, tzx = (os.path.join(wd, 'dcz.' + e) for e in ('bin', 'tap', 'tzx'))
    with open(src, 'wb') as f:
        f.write(bytes(code))
    _, e, rc = pipedrv.run_tool(bin2tap.main, ['-o', str(org), src, tap])
    if rc:
        raise MachineryError('bin2tap failed: %s' % e[-200:])
    raw = open(tap, 'rb').read()
    out = bytearray(tapedrv.tzx_header())
    i = 0
    while i + 2 <= len(raw):
        ln = raw[i] + 256 * raw[i + 1]
        out += tapedrv.tzx10(raw[i + 2:i + 2 + ln], 1000)
        i += 2 + ln
    out += tapedrv.tzx10(bytes([0xFF, 1, 2, 3, 0xFF ^ 1 ^ 2 ^ 3]), 0)
    with open(tzx, 'wb') as f:
        f.write(out)
    runs = []
    for cfg in ({'accelerator': 'none', 'accelerate-dec-a': 0}, {}, {'python': 1}, {'accelerator': 'software-projects', 'pause': 0}):
        s, err = cli_tap2sna(tzx, os.path.join(wd, 'dcz.z80'), fin, cfg)
        runs.append(project(s, err, cfg, []))
    return {'key': 'probe/dec-counter-zero', 'start': fin, 'expect': [], 'runs': runs, 'dropped': [], 'names': 'software-projects',
            'gen': {'program': bytes(code).hex(), 'org': org, 'how': 'bin2tap -o 32768; TAP blocks as TZX 0x10 (pause 1000) + block FF 01 02 03 FF'},
            'tape': 'dcz.tzx'}


def probe_short_pulse(wd):
    """A pulse shorter than one sampling-loop period in the middle of the pilot tone of the last block (TZX pure tone +
    pulse sequence + pure data): the tape loads with and without acceleration."""
    _skool()
    from skoolkit import bin2tap
    org = 40000
    data = [random.Random(1).randrange(256) for _ in range(50)]
    src, tap, tzx = (os.path.join(wd, 'sp.' + e) for e in ('bin', 'tap', 'tzx'))
    with open(src, 'wb') as f:
        f.write(bytes(data))
    _, e, rc = pipedrv.run_tool(bin2tap.main, ['-o', str(org), src, tap])
    if rc:
        raise MachineryError('bin2tap failed: %s' % e[-200:])
    raw = open(tap, 'rb').read()
    blocks = []
    i = 0
    while i + 2 <= len(raw):
        ln = raw[i] + 256 * raw[i + 1]
        blocks.append(raw[i + 2:i + 2 + ln])
        i += 2 + ln
    out = bytearray(tapedrv.tzx_header())
    for b in blocks[:-1]:
        out += tapedrv.tzx10(b, 1000)
    out += tapedrv.tzx12(2168, 1750) + tapedrv.tzx13([20]) + tapedrv.tzx12(2168, 3223) + tapedrv.tzx13([667, 735])
    out += tapedrv.tzx14(blocks[-1], pause_ms=0)
    with open(tzx, 'wb') as f:
        f.write(out)
    loads = [(org, data)]
    runs = []
    for cfg in ({'fast-load': 0, 'accelerator': 'none'}, {'fast-load': 0}, {'fast-load': 0, 'accelerator': 'rom', 'pause': 0}):
        s, err, _ = run_tap2sna(tzx, os.path.join(wd, 'sp.z80'), org, cfg)
        runs.append(project(s, err, cfg, loads))
    return {'key': 'probe/short-pulse', 'start': org, 'expect': [data], 'runs': runs, 'dropped': [], 'names': 'rom',
            'gen': {'how': 'bin2tap -o 40000 of 50 bytes; last block replaced by TZX 0x12 (2168 x 1750), 0x13 [20], 0x12 (2168 x 3223), '
                           '0x13 [667, 735], 0x14 data; fast-load=0'}, 'tape': 'sp.tzx'}


def probe_zero_gap_pause(wd):
    """No gap between the blocks of a bin2tap tape (TZX pause 0) and a real (not fast) load: with pause=0 the tape has moved on
    when BASIC asks for the next block, with pause=1 it waits - the announce sets the clock to different edges."""
    _skool()
    from skoolkit import bin2tap
    org = 40000
    data = [random.Random(2).randrange(256) for _ in range(50)]
    src, tap, tzx = (os.path.join(wd, 'sg.' + e) for e in ('bin', 'tap', 'tzx'))
    with open(src, 'wb') as f:
        f.write(bytes(data))
    _, e, rc = pipedrv.run_tool(bin2tap.main, ['-o', str(org), src, tap])
    if rc:
        raise MachineryError('bin2tap failed: %s' % e[-200:])
    raw = open(tap, 'rb').read()
    out = bytearray(tapedrv.tzx_header())
    i = 0
    while i + 2 <= len(raw):
        ln = raw[i] + 256 * raw[i + 1]
        out += tapedrv.tzx10(raw[i + 2:i + 2 + ln], 0)
        i += 2 + ln
    with open(tzx, 'wb') as f:
        f.write(out)
    loads = [(org, data)]
    runs = []
    for cfg in ({'fast-load': 0}, {'fast-load': 0, 'pause': 0}, {'fast-load': 0, 'pause': 0, 'accelerator': 'none'}):
        s, err, _ = run_tap2sna(tzx, os.path.join(wd, 'sg.z80'), org, cfg)
        runs.append(project(s, err, cfg, loads))
    return {'key': 'probe/zero-gap-pause', 'start': org, 'expect': [data], 'runs': runs, 'dropped': [], 'names': 'rom',
            'gen': {'how': 'bin2tap -o 40000 of 50 bytes; every TAP block as TZX 0x10 with pause 0 ms; fast-load=0; pause=1 vs pause=0'},
            'tape': 'sg.tzx'}


# ------------------------------------------------------------------------------------------------ part 3b
# Custom loaders that keep interrupts ENABLED while they sample port 0xFE, on tapes whose block starts are placed at chosen
# positions of the 50 Hz frame.  The first port read of a block moves the clock to the block's first edge; the tracer then has
# to work out afresh when the next frame interrupt is due, separately in loadtracer.py and in csimulator.c.  The interrupt
# routine changes memory (a counter / FRAMES), R and the stack, so a lost or an extra interrupt shows in the final snapshot.
IRQ_FIXED = (0, 1, 7, 20, 21, 31, 32, -1)
ISR_AT = 0xFFF4          # IM 2, I=$39: the vector is read from $39FF/$3A00 of the ROM (FF FF) -> $FFFF: JR $FFF4 (the byte at 0 is F3)
PROLOGUE = 18


def irq_edges(tape, first_edge, m128=False):
    """Dry run of the real tape parser: the time of the first edge of every block as LoadTracer announces it
    (edges[0] for the first block, the edge after the previous block's last one afterwards)."""
    from skoolkit import tap2sna
    from skoolkit.tape import get_edges
    with open(tape, 'rb') as f:
        data = f.read()
    with contextlib.redirect_stdout(io.StringIO()):
        blocks = tap2sna._get_tape_blocks([(tape, data)], True, 1, 0, (), not m128)
        for b in blocks:
            b.keys = None
        edges, dblocks = get_edges(blocks, first_edge, 0)
    firsts = [edges[0]] + [edges[b.end + 1] for b in dblocks[:-1]]
    return [int(x) for x in firsts]


def gen_irq(rnd, accs, idx):
    usable = [a for a in accs if ear_usable(a)]
    acc = usable[(idx * 7 + 3) % len(usable)]
    n = (1, 2, 3, 2)[idx % 4]
    kinds = ['custom'] * n
    if n > 1 and idx % 3 == 0:
        kinds[rnd.randrange(1, n)] = 'rom'
    frame = 70908 if idx % 8 == 5 else 69888
    ds = [IRQ_FIXED[idx % 8], rnd.randrange(0, 21), rnd.randrange(0, 21), rnd.randrange(0, 41), -rnd.randrange(1, 41)]
    return dict(acc=acc['name'], dly=rnd.choice((0x16, 0x16, 0x0C)), decjp=int(rnd.random() < 0.3), org=rnd.choice((0x8000, 0x9C40, 0xB000)),
                kinds=kinds, wait=rnd.choice((0x0020, 0x0030)), scale=rnd.choice((1.0, 0.95, 1.06)), lens=[rnd.choice((1, 2, 9, 30)) for _ in kinds],
                flags=[rnd.choice((0xFF, 0xAA, 0x81)) for _ in kinds], stack=rnd.choice((0, 0x7F00)), im=2,
                m128=int(frame == 70908), frame=frame, ds=ds, deltas=[0] + [rnd.randrange(-6, 7) for _ in kinds[1:]],
                gaps=[rnd.choice((400, 700, 1000)) for _ in kinds], cmio=int(idx % 4 == 2), npilot=rnd.choice((750, 900)))


def build_irq(rom, accs, g, rnd):
    """-> (program, org, fin, counter address, blocks, loads).  Layout: prologue (IM n: EI) | stage code | loader (EI instead of
    DI) | FIN: NOP: JP FIN | interrupt routine image | counter."""
    acc = [a for a in accs if a['name'] == g['acc']][0]
    if rom[0] != 0xF3 or rom[0x39FF] != 0xFF or rom[0x3A00] != 0xFF or rom[0x38] != 0xF5:
        raise MachineryError('48.rom: no FF FF vector at $39FF or no DI at 0')
    org = g['org']
    n = len(g['kinds'])
    lorg = org + PROLOGUE + 16 * n + 3
    loader = bytearray(build_loader(rom, lorg, acc, g['dly'], g['wait'], bool(g['decjp'])))
    if loader[3] != 0xF3:
        raise MachineryError('no DI at LD-BYTES+3')
    loader[3] = 0xFB                                  # EI: the loader samples the tape with interrupts enabled
    fin = lorg + len(loader)
    isr = fin + 4
    cnt = isr + 12
    dest = fin + 32
    if g['im'] == 2:
        pro = [0x21, isr % 256, isr // 256, 0x11, ISR_AT % 256, ISR_AT // 256, 0x01, 12, 0, 0xED, 0xB0, 0x3E, 0x39, 0xED, 0x47, 0xED, 0x5E, 0xFB]
    else:
        pro = [0x00] * 15 + [0xED, 0x56, 0xFB]        # IM 1 (IY still points at the system variables: started from BASIC): EI
    # PUSH AF: PUSH HL: LD HL,cnt: INC (HL): POP HL: POP AF: EI: RET: NOP: JR $FFF4 (offset byte F3 at address 0)
    isr_img = [0xF5, 0xE5, 0x21, cnt % 256, cnt // 256, 0x34, 0xE1, 0xF1, 0xFB, 0xC9, 0x00, 0x18]
    stages, blocks, loads = [], [], []
    tm = loader_timings(acc, g['dly'], g['scale'])
    for kind, ln, flag in zip(g['kinds'], g['lens'], g['flags']):
        data = [rnd.randrange(256) for _ in range(ln)]
        stages.append((dest, ln, flag, ROM_LD_BYTES if kind == 'rom' else lorg))
        blocks.append((kind, flag, data, tm))
        loads.append((dest, data))
        dest += ln + 2
    prog = bytes(pro) + bytes(stage_code(stages, fin)) + bytes(loader) + bytes((0x00, 0xC3, fin % 256, fin // 256)) + bytes(isr_img) + bytes((0,))
    if len(pro) != PROLOGUE or len(prog) != cnt + 1 - org:
        raise MachineryError('irq program layout')
    return prog, org, fin, cnt, blocks, loads


def write_irq_tape(wd, tag, prog, org, blocks, g, fix):
    """bin2tap's blocks, then for every block: a single pulse (its end is the block's first edge as the tracer sees it, so the
    frame position of every block can be set to 1 T-state), the block, a pause.  fix[k] = (extra pause ms, pulse length)."""
    from skoolkit import bin2tap
    src = os.path.join(wd, tag + '.bin')
    tap = os.path.join(wd, tag + '.tap')
    with open(src, 'wb') as f:
        f.write(prog)
    args = ['-o', str(org), '-s', str(org)]
    if g['stack']:
        args += ['-p', str(g['stack'])]
    _, e, rc = pipedrv.run_tool(bin2tap.main, args + [src, tap])
    if rc or not os.path.isfile(tap):
        raise MachineryError('bin2tap failed for an irq loader program: %s' % e[-300:])
    raw = open(tap, 'rb').read()
    out = bytearray(tapedrv.tzx_header())
    i = 0
    nb = 0
    while i + 2 <= len(raw):
        ln = raw[i] + 256 * raw[i + 1]
        nb += 1
        i += 2 + ln
    i = 0
    k = 0
    while i + 2 <= len(raw):
        ln = raw[i] + 256 * raw[i + 1]
        k += 1
        out += tapedrv.tzx10(raw[i + 2:i + 2 + ln], 1000 + (fix[0][0] if k == nb else 0))
        i += 2 + ln
    for k, (kind, flag, data, tm) in enumerate(blocks):
        payload = bytes([flag] + data + [parity(flag, data)])
        last = k == len(blocks) - 1
        pause = 0 if last else g['gaps'][k] + fix[k + 1][0]
        out += tapedrv.tzx13([fix[k][1]])
        if kind != 'custom':
            out += tapedrv.tzx10(payload, pause)
        else:
            out += tapedrv.tzx11(payload, pilot=tm['pilot'], sync1=tm['sync1'], sync2=tm['sync2'], zero=tm['zero'], one=tm['one'],
                                 pilot_len=g['npilot'], used=8, pause_ms=pause)
    path = os.path.join(wd, tag + '.tzx')
    with open(path, 'wb') as f:
        f.write(out)
    return path, nb


def irq_matrix(rnd, g, fes, names):
    cfgs = [{}]
    for j, fe in enumerate(fes):
        e = {'first-edge': fe}
        # with interrupts enabled the tracers do not fast-forward sampling loops: the Python runs cost the same under every
        # accelerator setting, so there is one per first-edge value and the other speed-up options go to C runs
        cfgs += [e, dict(e, python=1, pause=rnd.choice((1, 1, 0))), dict(e, accelerator=rnd.choice(('none', names)), pause=j % 2)]
        if j == 0 and g['cmio']:
            cfgs += [dict(e, cmio=1), dict(e, cmio=1, python=1)]
        if j == 1:
            cfgs += [dict(e, **{'fast-load': 0}), dict(e, **{'fast-load': 0, 'pause': 0, 'accelerator': 'none'})]
    return cfgs


def make_irq_case(rnd, accs, idx, sub):
    """The tape and its first-edge values: two passes over the real parser's edge list fix the frame position of every block."""
    rom = rom48()
    g = gen_irq(rnd, accs, idx)
    if g['m128']:
        with open(os.path.join(REPO, 'skoolkit', 'resources', '128-1.rom'), 'rb') as f:
            r1 = f.read()
        if r1[0] != 0xF3 or r1[0x39FF] != 0xFF or r1[0x3A00] != 0xFF:
            raise MachineryError('128-1.rom: no FF FF vector at $39FF or no DI at 0')
    prog, org, fin, cnt, blocks, loads = build_irq(rom, accs, g, rnd)
    frame = g['frame']
    tag = 'q%d' % idx
    n = len(blocks)
    fix = [(0, 1200)] * n
    tape, nb = write_irq_tape(sub, tag, prog, org, blocks, g, fix)
    for k in range(1, n):
        firsts = irq_edges(tape, 0, g['m128'])[nb:]
        if len(firsts) != n:
            raise MachineryError('irq tape: %d blocks announced, expected %d' % (len(firsts), n))
        s = (g['deltas'][k] - (firsts[k] - firsts[0])) % frame
        fix[k] = (s // 3500, 1200 + (s % 3500))
        tape, nb = write_irq_tape(sub, tag, prog, org, blocks, g, fix)
    firsts = irq_edges(tape, 0, g['m128'])[nb:]
    if len(firsts) != n or any((firsts[k] - firsts[0] - g['deltas'][k]) % frame for k in range(n)):
        raise MachineryError('irq tape: block starts %s do not have the frame offsets %s' % (firsts, g['deltas']))
    fes = []
    for d in g['ds']:
        fe = (d - firsts[0]) % frame
        if fe not in fes:
            fes.append(fe)
    # where every block starts in its frame under every first-edge value (again from the real edge list)
    pos = {}
    for fe in fes:
        pos[fe] = [x % frame for x in irq_edges(tape, fe, g['m128'])[nb:]]
    return g, tape, tag, fin, cnt, loads, fes, pos


def irq_worker(args):
    seed, indices, tier, wd = args
    _skool()
    rnd = random.Random(seed)
    accs = export_accelerators()
    sub = os.path.join(wd, 'irq%d' % seed)
    os.makedirs(sub, exist_ok=True)
    out = []
    for idx in indices:
        st = replaylib.rnd_state(rnd)
        g, tape, tag, fin, cnt, loads, fes, pos = make_irq_case(rnd, accs, idx, sub)
        names = g['acc'] + (',rom' if 'rom' in g['kinds'] else '')
        cfgs = irq_matrix(rnd, g, fes, names)
        t0 = time.time()
        where = [(23672, [0, 0, 0])] if g['im'] == 1 else [(cnt, [0])]
        runs, dropped = run_matrix(tape, fin, cfgs, loads + where, sub, tag, bool(g['m128']))
        ints = []
        for u in runs:
            v = u['data'].pop() if u['data'] else []
            ints.append(sum(x << (8 * i) for i, x in enumerate(v)) if v and min(v) >= 0 else -1)
        frame = g['frame']
        early = sum(1 for u in runs for p in pos.get(parse_cfg(u['cfg']).get('first-edge', -1), ()) if p < 21)
        window = sum(1 for u in runs for p in pos.get(parse_cfg(u['cfg']).get('first-edge', -1), ()) if p < 32)
        out.append({'key': 'irq/im%d/%s/%s%s' % (g['im'], g['acc'], '+'.join(g['kinds']), '/128' if g['m128'] else ''), 'start': fin,
                    'expect': [d for _, d in loads], 'runs': runs, 'dropped': dropped, 'gen': g, 'tape': os.path.basename(tape), 'names': names,
                    'wall': round(time.time() - t0, 2), 'regen': dict(st, idx=idx), 'irq': dict(ints=ints, early=early, window=window, pos={str(k): v for k, v in pos.items()})})
        for f in os.listdir(sub):
            if f.startswith(tag + '.'):
                os.remove(os.path.join(sub, f))
    return out


# ------------------------------------------------------------------------------------------------ part 3c
# "Slow consumers": a program that runs with interrupts enabled (IM 1, the ROM routine counts FRAMES), waits a long time
# (HALT x N or a busy loop) before it asks the ROM loader for the next headerless block, and goes on running for some frames
# after every load.  When the wait is longer than the next block, the fast load moves the clock BACKWARDS to the block's last
# edge; the tracers must work out the time of the next frame interrupt from the new clock (separately in loadtracer.py and
# csimulator.c), otherwise interrupts are lost until the clock has caught up (FRAMES, R, stack).
SLOW_WAITS = (('halt', 1), ('halt', 1), ('busy', 30), ('halt', 30), ('busy', 50))
SLOW_FORCE = (('busy', 100), ('halt', 100), ('busy', 200), ('halt', 50), ('halt', 200), ('busy', 400))


def _wait_code(kind, n):
    if kind == 'halt':
        return [0x01, n % 256, n // 256, 0x76, 0x0B, 0x78, 0xB1, 0x20, 0xFA]          # LD BC,n: HALT: DEC BC: LD A,B: OR C: JR NZ,-6
    # LD HL,n: LD BC,2688: DEC BC: LD A,B: OR C: JR NZ,-5: DEC HL: LD A,H: OR L: JR NZ,-13   (one outer turn = one frame)
    return [0x21, n % 256, n // 256, 0x01, 0x80, 0x0A, 0x0B, 0x78, 0xB1, 0x20, 0xFB, 0x2B, 0x7C, 0xB5, 0x20, 0xF3]


def gen_slow(rnd, idx, tier):
    """Waits in frames.  The clock goes back at a fast load when wait + work after the previous load > gap + duration of the block:
    one stage of every tape is made long enough for that (short leaders, gaps and blocks keep the Python runs affordable)."""
    q = tier == 'quick'
    n = (2, 2, 3, 3)[idx % 4]
    real = idx % 4 == 1                    # long leaders: the ROM routine can also load these blocks for real (fast-load=0)
    if real:
        waits = [rnd.choice((('halt', 1), ('busy', 30))) for _ in range(n)]
        k = rnd.randrange(1, n)
        waits[k] = ('busy', 120)
        lens = [rnd.choice((2, 17)) for _ in range(n)]
        gaps = [300] * n
        pilots = [rnd.choice((2400, 2600)) for _ in range(n)]
    else:
        waits = [rnd.choice(SLOW_WAITS[:5]) for _ in range(n)]
        force = SLOW_FORCE[(idx // 4) % (4 if q else 6)]
        k = rnd.randrange(1, n)
        waits[k] = force
        lens = [rnd.choice((2, 17, 60) if q or force[1] < 200 else (2, 17, 60, 300)) for _ in range(n)]
        gaps = [rnd.choice((300, 500) if force[1] < 200 else (300, 1000, 2000)) for _ in range(n)]
        pilots = [rnd.choice((600, 1000) if force[1] < 200 else (1000, 3223)) for _ in range(n)]
    if not real and force[1] < 100:
        gaps[k - 1], pilots[k], lens[k] = 300, 600, min(lens[k], 17)
    return dict(waits=[list(w) for w in waits], after=[rnd.choice((3, 5, 8)) for _ in range(n)], halts=[rnd.choice((0, 2)) for _ in range(n)],
                lens=lens, flags=[rnd.choice((0xFF, 0x55, 0x80, 0x07)) for _ in range(n)], pilots=pilots, real=int(real), gaps=gaps,
                tail=int(idx % 5 != 4 or k == n - 1), org=rnd.choice((0x8000, 0x9C40, 0xC000)), stack=rnd.choice((0, 0x7F00)), m128=int(idx % 8 == 6),
                pyreal=int(idx % 8 == 1), cmio=int(idx % 4 == 2), pycmio=int(idx % 8 == 2))


def build_slow(g, rnd):
    def emit(fin, dests):
        code = [0xED, 0x56, 0xFB]                                   # IM 1: EI
        for k in range(len(g['waits'])):
            code += _wait_code(*g['waits'][k])
            d, ln, fl = dests[k], g['lens'][k], g['flags'][k]
            code += [0xDD, 0x21, d % 256, d // 256, 0x11, ln % 256, ln // 256, 0x3E, fl, 0x37, 0xCD, 0x56, 0x05, 0xD2, fin % 256, fin // 256]
            code += _wait_code('busy', g['after'][k])
            if g['halts'][k]:
                code += _wait_code('halt', g['halts'][k])
        return code + [0x00, 0xC3, fin % 256, fin // 256]
    size = len(emit(0, [0] * len(g['waits'])))
    fin = g['org'] + size - 4
    dests = []
    d = fin + 8
    for ln in g['lens']:
        dests.append(d)
        d += ln + 3
    prog = bytes(emit(fin, dests))
    datas = [[rnd.randrange(256) for _ in range(ln)] for ln in g['lens']]
    return prog, fin, [(a, b) for a, b in zip(dests, datas)]


def write_slow_tape(wd, tag, prog, g, loads):
    from skoolkit import bin2tap
    src = os.path.join(wd, tag + '.bin')
    tap = os.path.join(wd, tag + '.tap')
    with open(src, 'wb') as f:
        f.write(prog)
    args = ['-o', str(g['org']), '-s', str(g['org'])]
    if g['stack']:
        args += ['-p', str(g['stack'])]
    _, e, rc = pipedrv.run_tool(bin2tap.main, args + [src, tap])
    if rc or not os.path.isfile(tap):
        raise MachineryError('bin2tap failed for a slow-consumer program: %s' % e[-300:])
    raw = open(tap, 'rb').read()
    out = bytearray(tapedrv.tzx_header())
    i = 0
    while i + 2 <= len(raw):
        ln = raw[i] + 256 * raw[i + 1]
        out += tapedrv.tzx10(raw[i + 2:i + 2 + ln], 1000)
        i += 2 + ln
    n = len(loads)
    for k, (_, data) in enumerate(loads):
        flag = g['flags'][k]
        payload = bytes([flag] + data + [parity(flag, data)])
        pause = g['gaps'][k] if k < n - 1 or g['tail'] else 0
        out += tapedrv.tzx11(payload, pilot_len=g['pilots'][k], pause_ms=pause)
    if g['tail']:
        out += tapedrv.tzx12(2168, 300)            # a trailing tone: the last fast load is not at the end of the tape either
    path = os.path.join(wd, tag + '.tzx')
    with open(path, 'wb') as f:
        f.write(out)
    return path


def slow_matrix(rnd, g):
    cfgs = [{}, {'python': 1}, {'accelerator': 'none', 'accelerate-dec-a': rnd.randrange(3)}]
    if max(n for _, n in g['waits']) <= 1:
        cfgs += [{'pause': 0}]
    if g['real']:
        cfgs += [{'fast-load': 0}, {'fast-load': 0, 'accelerator': 'none'}] + ([{'fast-load': 0, 'python': 1}] if g['pyreal'] else [])
    if g['cmio']:
        cfgs += [{'cmio': 1}, {'cmio': 1, 'accelerator': 'none'}] + ([{'cmio': 1, 'python': 1}] if g['pycmio'] else [])
    return cfgs


@contextlib.contextmanager
def fast_load_spy(log):
    """Records (clock before, block's last edge) for every ROM fast load that is not at the end of the tape: that is where both
    load loops set the clock to the edge (the method is the tracer's own, called from the Python and from the C loop)."""
    from skoolkit import loadtracer
    orig = loadtracer.LoadTracer.fast_load

    def spy(self, simulator):
        before = int(simulator.registers[25])
        rv = orig(self, simulator)
        if rv and self.state[3] != self.max_index:
            log.append((before, int(self.edges[self.state[3]])))
        return rv
    loadtracer.LoadTracer.fast_load = spy
    try:
        yield
    finally:
        loadtracer.LoadTracer.fast_load = orig


def make_slow_case(rnd, idx, tier, sub):
    g = gen_slow(rnd, idx, tier)
    prog, fin, loads = build_slow(g, rnd)
    tag = 's%d' % idx
    return g, write_slow_tape(sub, tag, prog, g, loads), tag, fin, loads


def slow_worker(args):
    seed, indices, tier, wd = args
    _skool()
    rnd = random.Random(seed)
    sub = os.path.join(wd, 'slow%d' % seed)
    os.makedirs(sub, exist_ok=True)
    out = []
    for idx in indices:
        st = replaylib.rnd_state(rnd)
        g, tape, tag, fin, loads = make_slow_case(rnd, idx, tier, sub)
        cfgs = slow_matrix(rnd, g)
        t0 = time.time()
        log = []
        with fast_load_spy(log):
            runs, dropped = run_matrix(tape, fin, cfgs, loads + [(23672, [0, 0, 0])], sub, tag, bool(g['m128']))
        frames = []
        for u in runs:
            v = u['data'].pop() if u['data'] else []
            frames.append(sum(x << (8 * i) for i, x in enumerate(v)) if v and min(v) >= 0 else -1)
        fd = 70908 if g['m128'] else 69888
        back = [(b - a) // fd for b, a in log if a < b]
        out.append({'key': 'slow/%s%s%s' % ('+'.join('%s%d' % (k, n) for k, n in g['waits']), '/real' if g['real'] else '', '/128' if g['m128'] else ''),
                    'start': fin, 'expect': [d for _, d in loads], 'runs': runs, 'dropped': dropped, 'gen': g, 'tape': os.path.basename(tape),
                    'names': 'rom', 'wall': round(time.time() - t0, 2), 'regen': dict(st, idx=idx, tier=tier),
                    'slow': dict(frames=frames, fast_loads=len(log), clock_back=len(back), clock_back_frames=sorted(set(back))[-6:],
                                 clock_back_over_a_frame=sum(1 for x in back if x >= 1))})
        for f in os.listdir(sub):
            if f.startswith(tag + '.'):
                os.remove(os.path.join(sub, f))
    return out
