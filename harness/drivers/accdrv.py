"""C13 driver.

Part 1: export of skoolkit.loadsample.ACCELERATORS with a concrete memory image per entry (for TLC).
Part 2: scenario runs of the real LoadTracer (Python simulator) / CSimulator.load: a sampling loop, a DEC A delay loop or
        a port-reading sequence on a small hand-made tape, run until a stop address; the final registers and player
        state are the observation that TLC compares with TapePlayer!Run of the plain system.
Part 3: custom-loader tapes (ROM LD-BYTES relocated to RAM with one of the recognised sampling loops spliced in, turbo
        TZX blocks, headerless blocks) on top of bin2tap output, real tap2sna.main under a configuration matrix, and the
        projection of the snapshots for the TLC judge.
"""
import contextlib
import io
import os
import random
import zlib

from ..lib import cbuild
from ..lib.common import REPO, MachineryError
from . import loaddrv, pipedrv, snapfile, tapedrv

BASE = 0x9000          # where the loop images live (>= 0x8000: tap2sna's default in_min_addr)
EXIT = 0x7000          # where time-out exits / returns lead (outside every loop region)
STACK = 0x6000
WILD = 256

# 1-based TLA register numbers
TLA_REG = {0: 3, 1: 4, 2: 5, 3: 6, 4: 7, 5: 8, 7: 1}


def _skool():
    cbuild.preload()
    import skoolkit  # noqa: F401


# ------------------------------------------------------------------------------------------------ part 1
def accelerator_image(acc):
    """Concrete bytes for an accelerator's code pattern. Returns (bytes incl. trailing jump operand, notes)."""
    code = [WILD if not isinstance(b, int) else b for b in acc.code]
    out = list(code)
    n = len(code)
    j = 0
    while j < n:
        if code[j] != WILD:
            j += 1
            continue
        k = j
        while k < n and code[k] == WILD:
            k += 1
        prev = code[j - 1] if j else None
        if prev == 0x3E and k - j == 1:
            out[j] = 0x7F                              # LD A,n
        elif prev in (0xCA, 0xD2, 0xC2, 0xDA) and k - j == 2:
            out[j], out[j + 1] = EXIT % 256, EXIT // 256   # JP cc,exit
        else:
            out[j] = 0xC9                              # bytes skipped by a JR while the counter is non-zero: time-out exit
            for i in range(j + 1, k):
                out[i] = 0x00
        j = k
    if code[-1] in (0xCA, 0xC2, 0xF2, 0xFA):           # pattern ends at the opcode of JP cc,LD_SAMPLE
        out += [BASE % 256, BASE // 256]
    return out


def export_accelerators():
    _skool()
    from skoolkit.loadsample import ACCELERATORS, Accelerator
    res = []
    for name in ACCELERATORS:
        acc = Accelerator(*ACCELERATORS[name])
        code = [WILD if not isinstance(b, int) else b for b in acc.code]
        img = accelerator_image(acc)
        if acc.c1 != len(code) - acc.c0:
            raise MachineryError('accelerator %s: c1 inconsistent' % name)
        tail = code[acc.c0 + 2:]
        pre = []
        if code[acc.c0] == 0xED:
            pre.append([TLA_REG[1], 0xFE])              # IN r,(C): the loop assumes C = 0xFE
            tail = code[acc.c0 + 2:]
        if not acc.ear_mask and tail and 0xA0 <= tail[0] <= 0xA7 and tail[0] != 0xA6:
            pre.append([TLA_REG[tail[0] & 7], 0x40])    # AND r: the loop assumes r holds the EAR mask
        xor = [i for i, b in enumerate(tail) if 0xA8 <= b <= 0xAD]
        andn = [i for i, b in enumerate(tail) if b == 0xE6]
        earbase = 2 if xor and andn and xor[0] < andn[0] else 0
        ov = [[BASE + i, b] for i, b in enumerate(img)] + [[STACK, EXIT % 256], [STACK + 1, EXIT // 256]]
        res.append(dict(name=name, code=code, c0=acc.c0, c1=acc.c1, counter=acc.counter, inc=int(bool(acc.inc)), lt=acc.loop_time,
                        lr=acc.loop_r_inc, ear=acc.ear if acc.ear_mask else -1, mask=acc.ear_mask, pol=acc.polarity,
                        ov=ov, img=img, inaddr=BASE + acc.c0, lo=BASE, hi=BASE + len(img) - 1, pre=pre, earbase=earbase))
    return res
