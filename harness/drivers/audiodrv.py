"""E04 driver: audio generation (skoolkit/audio.py, skoolkit/ay.py) driven through the real code.

  * generators of delay lists (+ [AudioWriter] parameters, #AUDIO options) and of AY register logs
  * routes:  api    AudioWriter(config).write_audio / AYAudioWriter(config).write_audio  (documented component API)
             macro  #AUDIO in a skool file + [AudioWriter] in a ref file, expanded by skool2html.main
                    (sim=0 with a delays specification; sim=1,ay=1 executing a generated program in a 128K snapshot)
             trace  trace.main: a generated program, --audio (printed delays) + WAV / --ay [--beeper] [--ay-mode ..] WAV
  * read_wav(): an independent RIFF reader - a projection of the bytes (chunk table, fmt fields, 16-bit samples);
    whether those make a valid file and the right samples is decided by spec/audio/AudioCases.tla (TLC).
The defaults of the two machines are taken from the documentation (ref-files.rst), not from the code.
"""
import contextlib
import io
import os
import random
import shutil
import struct

from ..lib.common import seed

DEF = {0: dict(cs=3500000, sr=44100, cb=14335, ce=57245, cf=51, fd=69888, ids=[895]),
       1: dict(cs=3546900, sr=44100, cb=14361, ce=58035, cf=51, fd=70908, ids=[1385, 1565])}
NAMES = dict(cs='ClockSpeed', sr='SampleRate', cb='ContentionBegin', ce='ContentionEnd', cf='ContentionFactor',
             fd='FrameDuration', ids='InterruptDelay')
MAXS = 1500          # samples per case given to TLC (upper bound aimed at by the generators)


# ------------------------------------------------------------------------------------------------ RIFF reader
def _u32(b, i):
    return struct.unpack_from('<I', b, i)[0]


def _cap(v):
    return min(v, 2 ** 31 - 1)


def read_wav(b):
    n = len(b)
    w = dict(riff=int(b[0:4] == b'RIFF'), wave=int(b[8:12] == b'WAVE'), riffSize=_cap(_u32(b, 4)) if n >= 8 else -1,
             fileLen=n, chunks=[], over=0, fmt=[], samples=[])
    pos, data = 12, None
    while pos + 8 <= n:
        cid, size = b[pos:pos + 4], _u32(b, pos + 4)
        w['chunks'].append(dict(id=cid.decode('latin-1') if all(32 <= x < 127 for x in cid) else cid.hex(), size=_cap(size), off=pos))
        if pos + 8 + size > n:
            w['over'] = 1
            break
        body = b[pos + 8:pos + 8 + size]
        if cid == b'fmt ' and not w['fmt'] and size >= 16:
            w['fmt'] = list(struct.unpack('<HHIIHH', body[:16]))
            w['fmt'][2], w['fmt'][3] = _cap(w['fmt'][2]), _cap(w['fmt'][3])
        if cid == b'data' and data is None:
            data = body
        pos += 8 + size + (size & 1)
    if not w['over'] and pos != n and not (pos == n + 1):
        w['over'] = 2                     # bytes after the last chunk that do not make a chunk header
    if data is not None and w['fmt'] and w['fmt'][5] == 16:
        k = len(data) // 2
        w['samples'] = list(struct.unpack('<%dh' % k, data[:2 * k]))
    return w


# ------------------------------------------------------------------------------------------------ configuration
def effective(is128, over):
    c = dict(DEF[is128])
    c['ids'] = list(c['ids'])
    c.update(over)
    return c


def aw_config(over):
    """[AudioWriter] dictionary (strings, as read from a ref file)"""
    return {NAMES[k]: (','.join(str(x) for x in v) if k == 'ids' else str(v)) for k, v in over.items()}


SMALL = [dict(fd=20000, cb=4000, ce=14000), dict(fd=30000, cb=9000, ce=21000), dict(fd=12345, cb=2345, ce=9876),
         dict(fd=16000, cb=1000, ce=15000), dict(fd=25000, cb=12000, ce=13000)]
RATES = [(3500000, 22050), (3500000, 48000), (3500000, 16000), (3000000, 44100), (3546900, 32000), (4000000, 44100),
         (1000000, 8000), (3500000, 14000), (3500000, 96000)]


def gen_cfg(rng, adjust):
    """-> (is128, overrides)"""
    is128 = int(rng.random() < .4)
    over = {}
    x = rng.random()
    if x < .45:
        pass
    elif x < .75 or not adjust:
        cs, sr = rng.choice(RATES)
        if rng.random() < .3:
            over['sr'] = sr if DEF[is128]['cs'] / sr <= 300 else 22050
        else:
            over['cs'], over['sr'] = cs, sr
    if adjust and rng.random() < .6:
        over.update(rng.choice(SMALL))
        if 'sr' not in over and rng.random() < .5:
            over['sr'] = 22050
    if adjust and rng.random() < .5:
        over['cf'] = rng.choice([51, 25, 100, 13, 7, 150, 15, 33, 1, 64])
    if adjust and rng.random() < .5:
        cb = over.get('cb', DEF[is128]['cb'])
        over['ids'] = rng.choice([[300], [200, 350], [120, 40, 777], [1], [cb - 1], [895], [1385, 1565]])
        over['ids'] = [min(x, cb - 1) for x in over['ids']]
    if adjust and diverges(effective(is128, over)):
        over['cf'] = 51
    return is128, over


def diverges(c):
    """skoolkit's bookkeeping after a whole contended period (Audio!ImplSpanBook) makes the remainder of a delay grow from frame to
    frame when the contended period is long and slow enough: AudioWriter._add_contention then never returns.  The generators stay
    out of that corner (plus a margin); HANG_PROBE below is the one deliberate visit."""
    p = c['ce'] - c['cb']
    k = p * 100 // (100 + c['cf'])
    return 2 * k + c['fd'] - 2 * p < 1000


HANG_PROBE = dict(k='b', is128=0, over=dict(fd=16000, cb=1000, ce=15000, cf=150), opt=dict(vol=100, cmio=1, ints=0, off=15380), delays=[13936],
                  cls=['probe:diverging-span'])


# ------------------------------------------------------------------------------------------------ beeper inputs
def gen_delays(rng, cyc, budget, first=None):
    """delay list with a total of about `budget` T-states; cyc = T-states per sample"""
    out = [] if first is None else [first]
    total = sum(out)
    lo = 2 * cyc + 3
    while total < budget:
        kind = rng.choice(['tone', 'tone', 'pair', 'sweep', 'random', 'short', 'zero', 'long', 'unit'])
        seg = []
        if kind == 'tone':
            seg = [rng.randint(lo, 3000)] * rng.randint(2, 24)
        elif kind == 'pair':
            seg = [rng.randint(lo, 2500), rng.randint(lo, 2500)] * rng.randint(1, 10)
        elif kind == 'sweep':
            d, st = rng.randint(lo, 1500), rng.randint(-40, 60)
            seg = [max(lo, d + i * st) for i in range(rng.randint(3, 16))]
        elif kind == 'random':
            seg = [rng.randint(1, 4000) for _ in range(rng.randint(1, 12))]
        elif kind == 'short':
            seg = [rng.randint(1, cyc) for _ in range(rng.randint(2, 30))]
        elif kind == 'zero':
            seg = [rng.randint(lo, 900), 0, rng.randint(lo, 900)]
        elif kind == 'unit':
            seg = [cyc * rng.randint(1, 5) + rng.choice([-1, 0, 1])] * rng.randint(1, 6)
        else:
            seg = [rng.randint(4000, 15000)]
        for d in seg:
            if total >= budget:
                break
            out.append(d)
            total += d
    return out


def gen_beeper(rng, idx):
    """-> case skeleton: is128, over, opt, delays, cls (set of generator classes for vacuity accounting)"""
    mode = rng.choice(['plain', 'plain', 'cmio', 'cmio', 'ints', 'both', 'both'])
    adjust = mode != 'plain'
    is128, over = gen_cfg(rng, adjust)
    c = effective(is128, over)
    cyc = -(-c['cs'] // c['sr'])
    cap = int(MAXS * c['cs'] / c['sr'])
    cls = {mode}
    opt = dict(vol=100, cmio=int(mode in ('cmio', 'both')), ints=int(mode in ('ints', 'both')), off=0)
    x = rng.random()
    if x < .25:
        opt['vol'] = rng.choice([0, 1, 37, 50, 99, 150, -5, 100, 63])
    first, delays = None, None
    if not adjust:
        budget = rng.randint(min(3000, cap), min(60000, cap))
        if rng.random() < .5:
            opt['off'] = rng.randrange(c['fd'])
    else:
        fd, cb, ce, cf = c['fd'], c['cb'], c['ce'], c['cf']
        span = (ce - cb) * 100 // (100 + cf) + 1
        tg = rng.choice(['cb', 'in', 'ce', 'fd', 'zero', 'random', 'span', 'fcross', 'fdtie', 'two'])
        cls.add('target:' + tg)
        budget = rng.randint(4000, min(cap, max(8000, fd // 2)))
        if tg == 'cb':
            opt['off'] = max(0, cb - rng.randint(0, 3000))
        elif tg == 'in':
            opt['off'] = rng.randint(cb, ce - 1)
        elif tg == 'ce':
            opt['off'] = max(0, ce - rng.randint(0, 4000))
        elif tg == 'fd':
            opt['off'] = max(0, fd - rng.randint(1, 4000))
        elif tg == 'zero':
            opt['off'] = 0
        elif tg == 'random':
            opt['off'] = rng.randrange(fd)
        elif tg == 'span':
            # a delay that begins before / at / inside the contended period and outlasts it
            opt['off'] = max(0, cb - rng.choice([0, 0, 1, 500, 2000]))
            if rng.random() < .3:
                opt['off'] = rng.randint(cb, (cb + ce) // 2)
            pre = gen_delays(rng, cyc, rng.choice([1, 1, 1500])) if rng.random() < .5 else []
            long_ = span + rng.randint(0, 3000) + (cb - opt['off'] if opt['off'] < cb else 0)
            delays = pre + [long_] + gen_delays(rng, cyc, rng.randint(1000, 6000))
        elif tg == 'fcross':
            opt['off'] = max(0, fd - rng.randint(1, 6000))
            first = fd - opt['off'] + rng.randint(0, 3000)
            budget = first + rng.randint(2000, 8000)
        elif tg == 'fdtie':
            # some delay ends exactly on the frame boundary
            opt['off'] = max(0, fd - rng.randint(3000, 9000))
            pre = gen_delays(rng, cyc, rng.randint(500, 2500))
            room = fd - opt['off'] - sum(pre)
            if opt['cmio'] or room <= 0:
                delays = pre + gen_delays(rng, cyc, 5000)
            else:
                delays = pre + [room] + gen_delays(rng, cyc, rng.randint(1500, 5000))
        else:
            # more than one frame
            opt['off'] = rng.randrange(fd)
            budget = min(cap, fd + rng.randint(1000, fd))
    if delays is None:
        delays = gen_delays(rng, cyc, budget, first)
    if len(delays) > 900:
        delays = delays[:900]
    return dict(k='b', is128=is128, over=over, cfg=c, opt=opt, delays=delays, cls=sorted(cls))


# ------------------------------------------------------------------------------------------------ delays specification text
def delays_spec(rng, delays):
    """the documented nesting grammar: integers, [a, b]*n, (a, b)*n, nested; flattens to `delays`"""
    out, i, n = [], 0, len(delays)
    while i < n:
        # longest repetition of a block of length 1..3 starting at i
        best = None
        for bl in (1, 2, 3):
            blk = delays[i:i + bl]
            if len(blk) < bl:
                break
            r = 1
            while delays[i + r * bl:i + (r + 1) * bl] == blk:
                r += 1
            if r > 1 and (best is None or r * bl > best[0] * best[1]):
                best = (r, bl)
        if best and rng.random() < .8:
            r, bl = best
            blk = ', '.join(str(d) for d in delays[i:i + bl])
            form = rng.choice(['[%s]*%d', '(%s,)*%d' if bl == 1 else '(%s)*%d', '[(%s,)]*%d' if bl == 1 else '[[%s]]*%d'])
            out.append(form % (blk, r))
            i += r * bl
        else:
            out.append(str(delays[i]))
            i += 1
    return (', ' if rng.random() < .7 else ',').join(out)


def flatten(x):
    f = []
    for e in x:
        if isinstance(e, (list, tuple)):
            f.extend(flatten(e))
        else:
            f.append(e)
    return f


# ------------------------------------------------------------------------------------------------ AY inputs
def _w(log, t, r, v):
    log.append([t, r, v])


def gen_ay(rng, idx):
    """-> case skeleton: over (sr / fd), opt [vol, res, bpr, mode], log, cls"""
    kind = rng.choice(['tone', 'tone', 'noise', 'dc', 'env', 'env', 'speech', 'speech', 'mix', 'music', 'silent', 'bpr', 'tonenoise'])
    over = {}
    x = rng.random()
    if x < .2:
        over['sr'] = rng.choice([48000, 32000, 30000, 37800, 64000])
    elif x < .27:
        over['sr'] = rng.choice([22050, 11025, 16000, 27000])           # below AYClock/64: see ImplTickPerEighthSample
    if rng.random() < .15:
        over['fd'] = rng.choice([69888, 70000, 71680])
    c = effective(1, over)
    res = rng.choice([622, 622, 622, 311, 1000, 2000, 500, 0])
    mode = rng.choice([0, 0, 1, 2])
    vol = rng.choice([100, 100, 100, 50, 37, 1, 0, 150, -3]) if rng.random() < .3 else 100
    opt = dict(vol=vol, res=res, bpr=0, mode=mode)
    reff = res or 622
    spt = c['sr'] / (50 * c['fd'])                                       # samples per T-state
    nsamp = rng.randint(150, 700)
    t0 = rng.choice([0, 0, rng.randrange(0, 200000)])
    t0 -= t0 % reff                                                      # start of a frame: all initial writes in one frame
    tend = t0 + int(nsamp / spt)
    log = []
    cls = {kind}
    g = lambda bits: rng.randrange(1 << bits)
    ch = rng.randrange(3)
    R = [0] * 14
    # rubbish in the unused bits / in the registers of the silent channels
    for r in (0, 2, 4):
        R[r], R[r + 1] = g(8), g(8)
    R[6] = g(8)
    R[11], R[12], R[13] = g(8), g(3), g(8)
    tps = 1773400 / 8 / c['sr']                                          # ticks per sample
    if kind in ('tone', 'tonenoise', 'mix', 'music', 'bpr'):
        lo_tp = max(1, int(2.4 * tps))
        tp = rng.choice([rng.randint(lo_tp, 60), rng.randint(lo_tp, 60), rng.randint(60, 300), rng.randint(256, 1400), rng.randint(1, 12), 0])
        R[2 * ch] = tp % 256
        R[2 * ch + 1] = (tp // 256) | (g(4) << 4)
    if kind == 'tone':
        R[7] = (0x3F & ~(1 << ch)) | (g(2) << 6)
        R[8 + ch] = rng.randint(1, 15) | (g(3) << 5)
    elif kind == 'noise':
        R[6] = rng.randint(0, 31) | (g(3) << 5)
        R[7] = (0x3F & ~(8 << ch)) | (g(2) << 6)
        R[8 + ch] = rng.randint(1, 15)
    elif kind == 'tonenoise':
        R[7] = (0x3F & ~(9 << ch)) | (g(2) << 6)
        R[8 + ch] = rng.randint(1, 15)
    elif kind == 'dc':
        R[7] = 0x3F | (g(2) << 6)
        R[8 + ch] = rng.randint(0, 15)
    elif kind == 'env':
        # envelope visible step by step: a level lasts 2*EP ticks; two or more cycles in the window where possible
        ep = rng.randint(max(2, int(1.3 * tps)), max(3, int(nsamp * tps / 70)))
        if rng.random() < .15:
            ep = rng.choice([1, 2, 300, 5000])
        R[11], R[12] = ep % 256, ep // 256
        R[13] = rng.randrange(16) | (g(4) << 4)
        R[7] = 0x3F | (g(2) << 6)
        R[8 + ch] = 16 | g(4) | (g(3) << 5)
        if rng.random() < .25:                                            # gated by a tone as well: only drift is judged
            R[7] &= ~(1 << ch)
            cls.add('env+tone')
    elif kind == 'silent':
        R[7] = g(8)
    elif kind in ('mix', 'music', 'bpr'):
        R[7] = g(8)
        for k in range(3):
            R[8 + k] = rng.choice([0, g(4), g(5), 15])
        R[13] = g(4)
        R[11], R[12] = rng.randint(1, 40), 0
    order = list(range(14))
    rng.shuffle(order)
    if kind == 'speech':
        _w(log, t0, 7, 0x3F | (g(2) << 6))
        t = t0
        lv = rng.randint(0, 15)
        hold = rng.randint(1, 6)
        while t < tend:
            _w(log, t + rng.randrange(reff), 8 + ch, lv)
            if rng.random() < .7:
                lv = rng.randint(0, 15)
            t += reff * rng.randint(1, hold)
        log.sort(key=lambda e: e[0])
    else:
        for i, r in enumerate(order):
            if R[r] or rng.random() < .5:
                _w(log, t0 + min(reff - 1, i * rng.randint(0, 40)), r, R[r])
        log.sort(key=lambda e: e[0])
        if not log:
            _w(log, t0, 7, R[7])
    if kind == 'music':
        t = t0 + reff * rng.randint(1, 30)
        while t < tend:
            r = rng.choice([0, 1, 2, 3, 4, 5, 6, 7, 8, 9, 10, 11, 12, 13, 13])
            v = g(8) if r not in (1, 3, 5) else g(2)
            _w(log, t, r, v)
            t += rng.choice([0, 1, 50, reff, reff * rng.randint(1, 40)])
        log = [e for e in log if e[0] < tend]
    if kind == 'bpr' or (kind in ('tone', 'silent', 'speech', 'dc') and rng.random() < .25):
        opt['bpr'] = rng.choice([1, 1, 1, 0])
        cls.add('beeper-in-log')
        cyc = -(-c['cs'] // c['sr'])
        tb = t0 + rng.choice([-3000, -1, 0, 5, 3000, 20000])
        tb = max(0, tb)
        btot = rng.choice([nsamp // 2, nsamp, nsamp + 200]) / spt
        for d in [0] + gen_delays(rng, cyc, int(btot)):
            tb += d
            _w(log, tb, 255, 0)
        log.sort(key=lambda e: (e[0]))
    tend = max(tend, max(e[0] for e in log))
    _w(log, tend, 15, 0)
    return dict(k='a', is128=1, over=over, cfg=c, opt=opt, log=log, cls=sorted(cls), kind=kind)


# ------------------------------------------------------------------------------------------------ routes: API
def run_api(case):
    """-> (wav bytes, adjusted delays or None)"""
    if case['k'] == 'b':
        from skoolkit.audio import AudioWriter, BeeperOptions
        aw = AudioWriter(aw_config(case['over']) or None)
        d = list(case['delays'])
        f = io.BytesIO()
        o = case['opt']
        aw.write_audio(f, d, BeeperOptions(o['vol'], o['cmio'], o['ints'], o['off'], case['is128']))
        return f.getvalue(), d
    from skoolkit.ay import AYAudioWriter, AYOptions
    aw = AYAudioWriter(aw_config(case['over']) or None)
    f = io.BytesIO()
    o = case['opt']
    aw.write_audio(f, [tuple(e) for e in case['log']], AYOptions(o['vol'], o['res'], o['bpr'], o['mode']))
    return f.getvalue(), None


# ------------------------------------------------------------------------------------------------ routes: #AUDIO via skool2html
def macro_text(rng, case, fname):
    o = case['opt']
    spec = delays_spec(rng, case['delays'])
    params = [('execint', o['ints'] * rng.choice([1, 1, 2]), 0), ('cmio', o['cmio'], 0), ('offset', o['off'], None), ('vol', o['vol'], 100)]
    style = rng.choice(['kw', 'pos', 'mixed'])
    if style == 'pos':
        head = '#AUDIO(0,0,0,%d,%d,%d,0,0,%d)' % (params[0][1], o['cmio'], o['off'], o['vol'])
    elif style == 'kw':
        kws = ['%s=%d' % (n, v) for n, v, d in params if v != d or rng.random() < .3]
        rng.shuffle(kws)
        head = '#AUDIO(0%s)' % ''.join(',' + k for k in kws)
    else:
        head = '#AUDIO(0,,,%d,%d,offset=%d,vol=%d)' % (params[0][1], o['cmio'], o['off'], o['vol'])
    return '%s(%s)(%s)' % (head, fname, spec)


def run_macro_group(wd, tag, cases, rng):
    """cases share is128 and [AudioWriter] overrides; -> list of wav bytes (None = no file written), error text"""
    from skoolkit import skool2html
    d = os.path.join(wd, tag)
    shutil.rmtree(d, ignore_errors=True)
    os.makedirs(d)
    is128, over = cases[0]['is128'], cases[0]['over']
    lines = []
    if is128:
        lines.append('@bank=0')
    lines += ['; Routine', ';']
    for i, c in enumerate(cases):
        if c['k'] == 'b':
            c['macro'] = macro_text(rng, c, 'a%d.wav' % i)
        lines.append('; ' + c['macro'].replace('FNAME', 'a%d.wav' % i))
        lines.append('; .')
    lines.append('c32768 RET')
    prog = cases[0].get('prog')
    if prog:
        for a in range(0, len(prog['code']), 8):
            lines.append(' %d DEFB %s' % (prog['org'] + a, ','.join(str(b) for b in prog['code'][a:a + 8])))
    with open(os.path.join(d, 'game.skool'), 'w') as f:
        f.write('\n'.join(lines) + '\n')
    with open(os.path.join(d, 'game.ref'), 'w') as f:
        f.write('[AudioWriter]\n' + ''.join('%s=%s\n' % kv for kv in aw_config(over).items()))
    err = io.StringIO()
    exc = ''
    cwd = os.getcwd()
    try:
        os.chdir(d)
        with contextlib.redirect_stdout(io.StringIO()), contextlib.redirect_stderr(err), limit(60):
            skool2html.main(['-q', '-w', 'd', '-d', os.path.join(d, 'out'), 'game.skool'])
    except BaseException as e:                        # SystemExit included
        exc = '%s: %s %s' % (type(e).__name__, e, err.getvalue().strip()[-300:])
    finally:
        os.chdir(cwd)
    out = []
    for i in range(len(cases)):
        p = os.path.join(d, 'out', 'game', 'audio', 'a%d.wav' % i)
        if os.path.isfile(p):
            with open(p, 'rb') as f:
                out.append(f.read())
        else:
            out.append(None)
    shutil.rmtree(d, ignore_errors=True)
    return out, exc


# ------------------------------------------------------------------------------------------------ programs for trace.py / #AUDIO sim=1
def beeper_program(rng, org=32768):
    """unrolled OUT (254),A / XOR 16 / LD B,n / DJNZ: -> code bytes, stop address"""
    code = [0x3E, rng.choice([0, 16])]                      # LD A,n
    for _ in range(rng.randint(6, 40)):
        code += [0xD3, 0xFE, 0xEE, 0x10]                    # OUT (254),A ; XOR 16
        if rng.random() < .8:
            code += [0x06, rng.randint(1, 160), 0x10, 0xFE]  # LD B,n ; DJNZ $
    code += [0xD3, 0xFE]
    stop = org + len(code)
    code += [0xC9]
    return code, stop


def ay_program(rng, regs, loops, org=32768, beeper=False):
    """set AY registers (list of (r, v)), then a delay loop of `loops` iterations (26 T-states each); optional
    beeper flips inside the loop are not generated (kept simple). -> code, stop, T-states of each OUT, total T-states"""
    code, t, outs = [], 0, []
    for r, v in regs:
        code += [0x01, 0xFD, 0xFF, 0x3E, r, 0xED, 0x79, 0x06, 0xBF, 0x3E, v, 0xED, 0x79]
        outs.append(t + 10 + 7 + 12 + 7 + 7)             # the log holds the clock at the start of the OUT instruction
        t += 10 + 7 + 12 + 7 + 7 + 12
    if beeper:
        code += [0x3E, 0x10, 0xD3, 0xFE]                    # LD A,16 ; OUT (254),A
        t += 7 + 11
    code += [0x11, loops % 256, loops // 256]               # LD DE,loops
    t += 10
    code += [0x1B, 0x7A, 0xB3, 0x20, 0xFB]                  # DEC DE ; LD A,D ; OR E ; JR NZ,-5
    t += 26 * loops - 5
    if beeper:
        code += [0xAF, 0xD3, 0xFE]                          # XOR A ; OUT (254),A
        t += 4 + 11
    stop = org + len(code)
    code += [0xC9]
    return code, stop, outs, t


def run_trace(wd, tag, args, code, org, wavname='out.wav', machine=None):
    """-> (wav bytes or None, stdout text, error text)"""
    from skoolkit import trace
    d = os.path.join(wd, tag)
    shutil.rmtree(d, ignore_errors=True)
    os.makedirs(d)
    out, err, exc = io.StringIO(), io.StringIO(), ''
    wav = os.path.join(d, wavname)
    if machine:
        argv = list(args) + sum((['-p', '%d,%d' % (org + i, b)] for i, b in enumerate(code)), []) + [machine, wav]
    else:
        with open(os.path.join(d, 'prog.bin'), 'wb') as f:
            f.write(bytes(code))
        argv = list(args) + ['-o', str(org), os.path.join(d, 'prog.bin'), wav]
    cwd = os.getcwd()
    try:
        os.chdir(d)
        with contextlib.redirect_stdout(out), contextlib.redirect_stderr(err), limit(60):
            trace.main(argv)
    except BaseException as e:
        exc = '%s: %s %s' % (type(e).__name__, e, err.getvalue().strip()[-300:])
    finally:
        os.chdir(cwd)
    data = None
    if os.path.isfile(wav):
        with open(wav, 'rb') as f:
            data = f.read()
    shutil.rmtree(d, ignore_errors=True)
    return data, out.getvalue(), exc


def parse_trace_delays(text):
    """the list printed by trace.py --audio, read with the documented #AUDIO delays grammar"""
    i = text.find('Delays:')
    if i < 0:
        return None
    lines = []
    for line in text[i + 7:].split('\n')[1:]:
        if not line.startswith(' '):
            break
        lines.append(line)
    spec = ' '.join(' '.join(lines).split())
    if set(spec) - set(' 0123456789,*[]()'):
        return None
    return flatten(eval('[%s]' % spec, {'__builtins__': {}}))


def parse_trace_time(text):
    import re
    m = re.search(r'Z80 execution time: (\d+) T-states', text)
    return int(m.group(1)) if m else None


# ------------------------------------------------------------------------------------------------ worker
def slim(case, wav, adj, route):
    c = dict(k=case['k'], route=route, cfg=case['cfg'], opt=case['opt'], wav=read_wav(wav), cls=case['cls'], over=case['over'],
             is128=case['is128'])
    if case['k'] == 'b':
        c['delays'] = case['delays']
        c['hasadj'] = int(adj is not None)
        c['adj'] = adj if adj is not None else []
    else:
        c['log'] = case['log']
        c['kind'] = case.get('kind', '')
    if 'macro' in case:
        c['macro'] = case['macro'][:300]
    return c


class Hang(Exception):
    pass


def _alarm(*a):
    raise Hang('no result within the time limit')


LIMIT = 20


@contextlib.contextmanager
def limit(seconds=LIMIT):
    import signal
    old = signal.signal(signal.SIGALRM, _alarm)
    signal.alarm(seconds)
    try:
        yield
    finally:
        signal.alarm(0)
        signal.signal(signal.SIGALRM, old)


def api_case(c, cases, errors, seconds=LIMIT):
    try:
        with limit(seconds):
            wav, adj = run_api(c)
        cases.append(slim(c, wav, adj, 'api'))
    except Exception as e:
        errors.append(dict(route='api', k=c['k'], exc='%s: %s' % (type(e).__name__, e), case=c))


def work(job):
    """job = (seed, worker index, wd, n beeper api, n ay api, n macro groups, n trace runs) -> (cases, errors)"""
    sd, wi, wd, nb, na, nm, nt = job
    rng = random.Random(sd * 1000003 + wi * 7919 + 17)
    cases, errors = [], []
    if wi == 0:
        probe = dict(HANG_PROBE, cfg=effective(0, HANG_PROBE['over']))
        api_case(probe, cases, errors, 4)
    for i in range(nb):
        api_case(gen_beeper(rng, i), cases, errors)
    for i in range(na):
        api_case(gen_ay(rng, i), cases, errors)
    for gi in range(nm):
        if gi % 3 == 2:
            # #AUDIO sim=1, ay=1 in a 128K snapshot
            group, exc = macro_ay_group(rng, wd, 'w%dm%d' % (wi, gi))
        else:
            first = gen_beeper(rng, gi)
            group = [first] + [regen_for(rng, first) for _ in range(rng.randint(2, 5))]
            wavs, exc = run_macro_group(wd, 'w%dm%d' % (wi, gi), group, rng)
            for c, wav in zip(group, wavs):
                if wav is None:
                    errors.append(dict(route='macro', k='b', exc='no file written: ' + exc, case=c))
                else:
                    cases.append(slim(c, wav, None, 'macro'))
            continue
        for c, wav in group:
            if wav is None:
                errors.append(dict(route='macro', k='a', exc='no file written: ' + exc, case=c))
            else:
                cases.append(slim(c, wav, None, 'macro'))
    for ti in range(nt):
        r = trace_case(rng, wd, 'w%dt%d' % (wi, ti), ti)
        if 'exc' in r:
            errors.append(r)
        else:
            cases.append(r)
    return cases, errors


def regen_for(rng, first):
    """a beeper case for the configuration of `first`"""
    for _ in range(200):
        c = gen_beeper(rng, 0)
        if c['is128'] == first['is128'] and True:
            # keep the inputs, re-derive against the group's configuration when the offset fits
            cfg = first['cfg']
            if c['opt']['off'] < cfg['fd'] and -(-cfg['cs'] // cfg['sr']) <= 300:
                tot = sum(c['delays'])
                if tot * cfg['sr'] / cfg['cs'] <= MAXS * 1.2:
                    c['over'], c['cfg'] = first['over'], cfg
                    return c
    c = dict(first)
    c['delays'] = list(first['delays'])
    return c


def static_regs(rng):
    """a few registers for a program: one sounding channel"""
    ch = rng.randrange(3)
    kind = rng.choice(['tone', 'dc', 'noise', 'env'])
    regs = []
    if kind == 'tone':
        tp = rng.randint(20, 600)
        regs += [(2 * ch, tp % 256), (2 * ch + 1, tp // 256), (7, 0x3F & ~(1 << ch)), (8 + ch, rng.randint(1, 15))]
    elif kind == 'dc':
        regs += [(7, 0x3F), (8 + ch, rng.randint(1, 15))]
    elif kind == 'noise':
        regs += [(6, rng.randint(1, 31)), (7, 0x3F & ~(8 << ch)), (8 + ch, rng.randint(1, 15))]
    else:
        ep = rng.randint(8, 40)
        regs += [(11, ep), (12, 0), (13, rng.randrange(16)), (7, 0x3F), (8 + ch, 16)]
    rng.shuffle(regs)
    return regs, kind


def macro_ay_group(rng, wd, tag):
    """one skool file, one #AUDIO1,...(ay=1) macro executing a generated program in a 128K snapshot"""
    regs, kind = static_regs(rng)
    loops = rng.randint(300, 1500)
    code, stop, outs, total = ay_program(rng, regs, loops)
    over = {}
    if rng.random() < .4:
        over['sr'] = rng.choice([48000, 32000])
    mode, res, vol = rng.choice([0, 1, 2]), rng.choice([622, 700, 1000]), rng.choice([100, 100, 60])
    log = [[t, r, v] for t, (r, v) in zip(outs, regs)] + [[total, 15, 0]]
    case = dict(k='a', is128=1, over=over, cfg=effective(1, over), opt=dict(vol=vol, res=res, bpr=0, mode=mode), log=log,
                cls=['sim:' + kind], kind=kind, prog=dict(code=code, org=32768))
    case['macro'] = rng.choice(['#AUDIO1,32768,%d,0,0,0,1,0,%d,%d,%d(FNAME)' % (stop, vol, mode, res),
                                '#AUDIO(1,32768,%d,offset=0,ay=1,vol=%d,aymode=%d,ayres=%d)(FNAME)' % (stop, vol, mode, res)])
    wavs, exc = run_macro_group(wd, tag, [case], rng)
    return [(case, wavs[0])], exc


def trace_case(rng, wd, tag, ti):
    kind = ('beeper', 'ay', 'ay+beeper')[ti % 3]
    m128 = rng.random() < .5
    base = ['-n', '-s', '32768']
    if kind == 'beeper':
        code, stop = beeper_program(rng)
        vol = rng.choice([100, 100, 40])
        args = base + ['-S', str(stop), '--audio', '--depth', str(rng.choice([0, 1, 2, 3]))] + (['--volume', str(vol)] if vol != 100 or rng.random() < .3 else [])
        wav, out, exc = run_trace(wd, tag, args, code, 32768, machine='128' if m128 else None)
        delays = parse_trace_delays(out)
        if wav is None or delays is None:
            return dict(route='trace', k='b', exc='no WAV file / no delays printed: %s %s' % (exc, out[-200:]), case=dict(args=args, code=code))
        case = dict(k='b', is128=int(m128), over={}, cfg=effective(int(m128), {}), opt=dict(vol=vol, cmio=0, ints=0, off=0), delays=delays,
                    cls=['trace:beeper'])
        return slim(case, wav, None, 'trace')
    regs, akind = static_regs(rng)
    loops = rng.randint(300, 1400)
    code, stop, outs, total = ay_program(rng, regs, loops, beeper=kind == 'ay+beeper')
    mode = rng.choice([0, 1, 2])
    res = rng.choice([622, 622, 800, 1200])
    vol = rng.choice([100, 100, 70])
    args = base + ['-S', str(stop), '--stats', '--ay'] + (['--ay-mode', ('MONO', 'ABC', 'ACB')[mode]] if mode or rng.random() < .3 else [])
    if res != 622 or rng.random() < .3:
        args += ['--ay-res', str(res)]
    if vol != 100:
        args += ['--volume', str(vol)]
    if kind == 'ay+beeper':
        args.append('--beeper')
    wav, out, exc = run_trace(wd, tag, args, code, 32768, machine='128' if m128 else None)
    tt = parse_trace_time(out)
    if wav is None or tt is None:
        return dict(route='trace', k='a', exc='no WAV file / no stats: %s %s' % (exc, out[-200:]), case=dict(args=args, code=code))
    log = [[t, r, v] for t, (r, v) in zip(outs, regs)]
    if kind == 'ay+beeper':
        nr = len(regs)
        log.append([nr * 55 + 7, 255, 0])                   # LD A,16 ; OUT (254),A
        log.append([tt - 11, 255, 0])                       # the last instruction executed
    log.append([tt, 15, 0])
    case = dict(k='a', is128=1, over={}, cfg=effective(1, {}), opt=dict(vol=vol, res=res, bpr=int(kind == 'ay+beeper'), mode=mode), log=log,
                cls=['trace:' + kind, 'trace:' + akind], kind=akind)
    return slim(case, wav, None, 'trace')
