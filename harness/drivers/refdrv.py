"""E03 driver: generators of ref files / skoolkit.ini files and observation of the real code.

Three kinds of cases (see spec/ref/RefCases.tla for the record layout):
  parse    files -> skoolkit.refparser.RefParser.parse (one call per file), public query methods
  site     game.skool + game*.ref + RefFiles + command line ref files + -c S/L (+ skoolkit.ini, -I) ->
           skoolkit.skool2html.main; an HtmlWriter subclass named with -W records, in init(), what the
           documented query methods of HtmlWriter return
  cfg      skoolkit.ini (+ -I) -> <tool>.main(['--show-config']), and the behaviour of skool2ctl / skool2asm
  reffile  skool2html.py -R / -r PREFIX
Text is handed to TLC as lists of code points.  Nothing here decides anything: the functions only generate,
run and project.
"""
import io
import json
import os
import random
import re
import shutil
import sys
import traceback

TOOLS = ['skool2asm', 'skool2bin', 'skool2ctl', 'skool2html', 'sna2ctl', 'sna2skool', 'snapinfo', 'tap2sna', 'trace', 'rzxplay']
# parameters (and values) that may be set when the command is really run
SAFE = {
    'skool2ctl': {'Hex': ['0', '1', '2'], 'KeepLines': ['0', '1'], 'PreserveBase': ['0', '1']},
    'skool2asm': {'Base': ['0', '10', '16'], 'Case': ['0', '1', '2'], 'Quiet': ['0', '1'], 'Warnings': ['0', '1'], 'CreateLabels': ['0', '1']},
    'skool2html': {'Base': ['0', '10', '16'], 'Case': ['0', '1', '2'], 'AsmLabels': ['0', '1'], 'CreateLabels': ['0', '1'], 'Quiet': ['0', '1'],
                   'RebuildImages': ['0', '1'], 'Time': ['0', '1']},
}
EFFKEYS = {'skool2ctl': ['Hex'], 'skool2asm': ['Base', 'Case'], 'skool2html': ['Base', 'Case']}


def enc(s):
    return [ord(ch) for ch in s]


def encl(lines):
    return [enc(x) for x in lines]


def pairs(d):
    return sorted([enc(str(k)), enc(v)] for k, v in d.items())


# ---------------------------------------------------------------------------------------------------------
# generators
# ---------------------------------------------------------------------------------------------------------
WORDS = ['w', 'xy', 'Text', 'a b', 'q1']
KEYS = ['k', 'K1', '1', '12', 'a b', 'Kk', '']
VALUES = ['', 'v', 'w x', 'v=w', ' v', '[v]', ';v', '1', 'a;b', 'v/w']
BASES = ['A', 'Bq', 'F:a', 'F:b', 'F:a:x', 'F:a:x:y', 'F:', 'F', 'FF:a', 'G:a', 'A:F', ' A', 'A B', 'a=b', ';n', 'A]', 'A][B', 'F:a+b', 'F::x']


def gen_names(rng, extra=()):
    pool = rng.sample(BASES, rng.randint(2, 5)) + list(extra)
    if rng.random() < 0.03:
        pool.append(rng.choice(['', '+']))
    return pool


def gen_header(rng, pool):
    n = rng.choice(pool)
    r = rng.random()
    if r < 0.3:
        n += '+'
    elif r < 0.34:
        n += '++'
    h = '[' + n + ']'
    if rng.random() < 0.04:
        h += rng.choice([' ', '\t', '  '])
    return h


def gen_line(rng, keys=KEYS, values=VALUES):
    r = rng.random()
    if r < 0.30:
        k, v = rng.choice(keys), rng.choice(values)
        s = k + '=' + v
        if rng.random() < 0.05:
            s = rng.choice([' ', '\t']) + s
    elif r < 0.42:
        s = rng.choice(WORDS)
    elif r < 0.48:
        s = rng.choice(['  ', ' ', '\t']) + rng.choice(WORDS)
    elif r < 0.60:
        s = ''
    elif r < 0.70:
        s = ';' + rng.choice(['', ' note', 'k=v', '[A]', ' [A]', ' ;x'])
    elif r < 0.78:
        s = ';;' + rng.choice(['', ' ' + rng.choice(WORDS), 'k=v', ';', '[A]'])
    elif r < 0.86:
        s = '[[' + rng.choice(['', 'A]', 'A', '[A]', 'k=v]', ']'])
    elif r < 0.92:
        s = rng.choice(['[x', 'x]', ' [A]', ' ;x', '[', ']', '=', '=v', 'k=', 'k==v', ' ; x', 'x;', 'x[A]'])
    elif r < 0.95:
        s = rng.choice(WORDS) + '\\'
    else:
        s = rng.choice(['   ', '\t', ' '])
    if s and rng.random() < 0.05:
        s += rng.choice([' ', '\t', '  '])
    return s


def gen_ref(rng, pool, keys=KEYS, values=VALUES, maxsec=4, maxlines=5, pre=0.15):
    lines = []
    if rng.random() < pre:
        for _ in range(rng.randint(1, 2)):
            lines.append(gen_line(rng, keys, values))
    for _ in range(rng.randint(0, maxsec)):
        lines.append(gen_header(rng, pool))
        for _ in range(rng.randint(0, maxlines)):
            lines.append(gen_line(rng, keys, values))
    return lines


def base_of(n):
    return n[:-1] if n.endswith('+') else n


def header_names(lines):
    """names written in headers by the generator (used only to choose what to ask for)"""
    out = []
    for l in lines:
        s = l.rstrip()
        if s.startswith('[') and s.endswith(']') and not s.startswith('[['):
            out.append(s[1:-1])
    return out


def query_names(rng, names):
    q = []
    for n in names:
        for x in (n, base_of(n), base_of(base_of(n))):
            if x not in q:
                q.append(x)
    q.append('Nope')
    return q


def query_prefixes(names):
    p = []
    for n in names + ['F:a', 'Nope']:
        parts = n.split(':')
        for i in range(1, len(parts)):
            x = ':'.join(parts[:i])
            if x not in p:
                p.append(x)
    return p[:8]


def write_lines(path, lines, rng=None):
    os.makedirs(os.path.dirname(path), exist_ok=True)
    text = '\n'.join(lines)
    if lines and (lines[-1] == '' or rng is None or rng.random() < 0.8):
        text += '\n'           # the terminator of the last line is optional unless that line is empty
    with open(path, 'w', encoding='utf-8') as f:
        f.write(text)


# ---------------------------------------------------------------------------------------------------------
# parse cases: RefParser
# ---------------------------------------------------------------------------------------------------------
def observe_parser(rp, qnames, prefixes):
    q = []
    for n in qnames:
        q.append(dict(n=enc(n), has=int(bool(rp.has_section(n))),
                      raw=encl(rp.get_section(n, lines=True, trim=False)),
                      trim=encl(rp.get_section(n, lines=True)),
                      paras=[encl(p) for p in rp.get_section(n, paragraphs=True, lines=True)],
                      dict=pairs(rp.get_dictionary(n))))
    fam = []
    for p in prefixes:
        secs = [dict(parts=encl(t[:-1]), lines=encl(t[-1])) for t in rp.get_sections(p, lines=True, trim=False)]
        dicts = [dict(suffix=enc(s), dict=pairs(d)) for s, d in rp.get_dictionaries(p)]
        fam.append(dict(p=enc(p), secs=secs, dicts=dicts))
    return q, fam


def parse_case(sv, wd):
    from skoolkit.refparser import RefParser
    rng = random.Random(sv)
    pool = gen_names(rng)
    nfiles = rng.choice([1, 1, 2, 2, 3])
    files = [gen_ref(rng, pool) for _ in range(nfiles)]
    names = [n for f in files for n in header_names(f)]
    qn = query_names(rng, names)
    pf = query_prefixes(names)
    rp = RefParser()
    for i, f in enumerate(files):
        p = os.path.join(wd, 'f%d.ref' % i)
        write_lines(p, f, rng)
        rp.parse(p)
    q, fam = observe_parser(rp, qn, pf)
    return dict(k='parse', key='p%d' % sv, files=[encl(f) for f in files], q=q, fam=fam, text=files)


# ---------------------------------------------------------------------------------------------------------
# configuration: --show-config, behaviour
# ---------------------------------------------------------------------------------------------------------
_MODS = {}


def tool_main(tool):
    if tool not in _MODS:
        _MODS[tool] = __import__('skoolkit.' + tool, fromlist=['main'])
    return _MODS[tool].main


def call(tool, argv, stdin=None):
    """Run <tool>.main(argv) in this process; returns (stdout, stderr, exit code or exception text)."""
    so, se, si = sys.stdout, sys.stderr, sys.stdin
    out, err = io.StringIO(), io.StringIO()
    sys.stdout, sys.stderr = out, err
    code = None
    try:
        tool_main(tool)(list(argv))
    except SystemExit as e:
        code = e.code
    except Exception as e:
        code = '%s: %s' % (type(e).__name__, e)
    finally:
        sys.stdout, sys.stderr, sys.stdin = so, se, si
    return out.getvalue(), err.getvalue(), code


def parse_shown(text, tool):
    lines = text.split('\n')
    if not lines or lines[0] != '[%s]' % tool:
        return None
    d = {}
    for l in lines[1:]:
        if l:
            k, sep, v = l.partition('=')
            d[k] = v
    return d


def show_config(tool, extra=()):
    out, err, code = call(tool, ['--show-config'] + list(extra))
    d = parse_shown(out, tool)
    if d is None or code not in (0, None):
        raise RuntimeError('%s --show-config: unexpected output %r %r %r' % (tool, out[:200], err[:200], code))
    return d


_BASE = {}


def baseline(tool, emptydir):
    """--show-config with no skoolkit.ini anywhere (cwd = empty directory, HOME = empty directory)"""
    if tool not in _BASE:
        cwd = os.getcwd()
        os.chdir(emptydir)
        try:
            _BASE[tool] = show_config(tool)
        finally:
            os.chdir(cwd)
    return _BASE[tool]


def is_int(s):
    return re.fullmatch(r'0|-?[1-9][0-9]*', s) is not None


def gen_value(rng, tool, key, base, safe):
    if safe and key in SAFE[tool]:
        return rng.choice(SAFE[tool][key])
    if key in base and is_int(base[key]):
        r = rng.random()
        if r < 0.06:
            return rng.choice(['x', '1x', 'two', ''])
        return rng.choice(['0', '1', '2', '3', '7', '10', '16', '100', '-1'])
    return rng.choice(['', 'v', 'w x', 'v=w', 'a,b', '{address}', '[v]', 'L;x', '0', '12'])


def gen_ini(rng, tool, base, safe):
    """lines of a skoolkit.ini: sections of this tool (plain, repeated, '+'), of other tools, stray lines, comments"""
    keys = list(SAFE[tool]) if safe else [k for k in base if not k.startswith('Set-') and k != 'Templates']
    others = [t for t in TOOLS if t != tool] + ['other']
    lines = []
    if rng.random() < 0.1:
        lines.append(rng.choice(keys) + '=' + gen_value(rng, tool, rng.choice(keys), base, safe))
    for _ in range(rng.randint(1, 4)):
        r = rng.random()
        name = tool if r < 0.55 else tool + '+' if r < 0.75 else rng.choice(others) if r < 0.95 else tool + ':x'
        h = '[' + name + ']'
        if rng.random() < 0.03:
            h += ' '
        lines.append(h)
        for _ in range(rng.randint(0, 4)):
            r = rng.random()
            k = rng.choice(keys)
            if r < 0.62:
                lines.append(k + '=' + gen_value(rng, tool, k, base, safe))
            elif r < 0.70:
                lines.append('; ' + k + '=' + gen_value(rng, tool, k, base, safe))
            elif r < 0.76:
                lines.append(';' + k + '=' + gen_value(rng, tool, k, base, safe))
            elif r < 0.84:
                lines.append('')
            elif r < 0.88 and not safe:
                lines.append('Zz=' + rng.choice(['1', 'v']))
            elif r < 0.92:
                lines.append(k)
            elif r < 0.96 and not safe:
                lines.append(' ' + k + '=' + gen_value(rng, tool, k, base, safe))
            else:
                lines.append(k + '=' + gen_value(rng, tool, k, base, safe) + rng.choice([' ', '\t']))
    return lines


def gen_cli(rng, tool, base, safe):
    keys = list(SAFE[tool]) if safe else [k for k in base if not k.startswith('Set-') and k != 'Templates']
    specs = []
    for _ in range(rng.choice([0, 1, 1, 2, 3])):
        r = rng.random()
        k = rng.choice(keys)
        if r < 0.85:
            specs.append(k + '=' + gen_value(rng, tool, k, base, safe))
        elif r < 0.93:
            specs.append('Zz=1')
        else:
            specs.append(k)
    return specs


SKOOL_CTL = '; Routine\nc43981 RET\n'
SKOOL_ASM = '@start\n; Routine\nc32768 LD A,$0a\n 32770 ld b,10\n 32772 RET\n'


def eff_skool2ctl(cli, wd):
    p = os.path.join(wd, 'e.skool')
    with open(p, 'w') as f:
        f.write(SKOOL_CTL)
    out, err, code = call('skool2ctl', [a for s in cli for a in ('-I', s)] + [p])
    first = out.split('\n')[0].split(' ')
    if code not in (0, None) or len(first) < 2 or first[0] != 'c':
        return None
    v = {'43981': '0', '$abcd': '1', '$ABCD': '2'}.get(first[1])
    return None if v is None else {'Hex': v}


def eff_skool2asm(cli, wd):
    p = os.path.join(wd, 'e.skool')
    with open(p, 'w') as f:
        f.write(SKOOL_ASM)
    out, err, code = call('skool2asm', [a for s in cli for a in ('-I', s)] + [p])
    ins = [l.strip() for l in out.split('\n') if l.startswith('  ') and l.strip()]
    if code not in (0, None) or len(ins) < 3:
        return None
    a, b = ins[0], ins[1]
    case = '1' if a.startswith('ld a') else '2' if b.startswith('LD B') else '0'
    ha, hb = '$' in a, '$' in b
    base = '16' if ha and hb else '10' if not ha and not hb else '0' if ha else None
    return None if base is None else {'Base': base, 'Case': case}


def cfg_record(tool, base, ini, cli, shown, shownc, eff):
    return dict(tool=enc(tool), **{'def': pairs(base)}, ints=[enc(k) for k in sorted(base) if is_int(base[k])],
                ini=encl(ini), cli=encl(cli), shown=pairs(shown), shownc=pairs(shownc),
                eff=pairs(eff or {}))


def cfg_case(sv, wd, emptydir):
    rng = random.Random(sv)
    tool = rng.choice(TOOLS)
    safe = tool in ('skool2ctl', 'skool2asm') and rng.random() < 0.75
    base = baseline(tool, emptydir)
    ini = gen_ini(rng, tool, base, safe) if rng.random() < 0.9 else None
    cli = gen_cli(rng, tool, base, safe)
    home = rng.random() < 0.2
    d = os.path.join(wd, 'c')
    shutil.rmtree(d, ignore_errors=True)
    os.makedirs(os.path.join(d, 'home', '.skoolkit'))
    os.makedirs(os.path.join(d, 'cwd'))
    if ini is not None:
        write_lines(os.path.join(d, 'home', '.skoolkit', 'skoolkit.ini') if home else os.path.join(d, 'cwd', 'skoolkit.ini'), ini, rng)
    cwd, oldhome = os.getcwd(), os.environ.get('HOME')
    os.environ['HOME'] = os.path.join(d, 'home')
    os.chdir(os.path.join(d, 'cwd'))
    try:
        shown = show_config(tool)
        iargs = [a for s in cli for a in ('-I', s)]
        shownc = show_config(tool, iargs)
        eff = None
        if safe:
            eff = (eff_skool2ctl if tool == 'skool2ctl' else eff_skool2asm)(cli, d)
            if eff is None:
                raise RuntimeError('%s: the probe run gave no recognisable output (ini %r, -I %r)' % (tool, ini, cli))
    finally:
        os.chdir(cwd)
        os.environ['HOME'] = oldhome
    rec = cfg_record(tool, base, ini or [], cli, shown, shownc, eff)
    return dict(k='cfg', key='c%d' % sv, cfg=[rec],
                meta=dict(tool=tool, safe=safe, home=home, ini=ini, cli=cli, eff=eff, unknown_shown=sorted(set(shown) - set(base))))


# ---------------------------------------------------------------------------------------------------------
# site cases: skool2html.main with an observing HtmlWriter subclass
# ---------------------------------------------------------------------------------------------------------
OBS_PY = '''import json, os
from skoolkit.skoolhtml import HtmlWriter

def enc(s):
    return [ord(ch) for ch in s]

def encl(lines):
    return [enc(x) for x in lines]

def pairs(d):
    return sorted([enc(str(k)), enc(v)] for k, v in d.items())

class ObsWriter(HtmlWriter):
    def init(self):
        with open(os.environ['E03_QUERIES']) as f:
            Q = json.load(f)
        uq = [dict(n=enc(n), has=int(bool(self.ref_parser.has_section(n))),
                   raw=encl(self.ref_parser.get_section(n, lines=True, trim=False))) for n in Q['user']]
        q = [dict(n=enc(n), text=t, raw=encl(self.get_section(n, lines=True, trim=False)), dict=pairs(self.get_dictionary(n)))
             for n, t in Q['names']]
        fam = []
        for p in Q['prefixes']:
            secs = [dict(parts=encl(t[:-1]), lines=encl(t[-1])) for t in self.get_sections(p, lines=True, trim=False)]
            dicts = [dict(suffix=enc(s), dict=pairs(d)) for s, d in self.get_dictionaries(p)]
            fam.append(dict(p=enc(p), secs=secs, dicts=dicts))
        with open(os.environ['E03_OUT'], 'w') as f:
            json.dump(dict(uq=uq, q=q, fam=fam, base=self.base, case=self.case), f)
'''

BUILTIN = ('Game', 'Titles', 'Page', 'Config', 'Template')
GAME_KEYS = ['Copyright', 'Release', 'Created', 'TitlePrefix', 'TitleSuffix', 'Kx']
PLAIN_VALUES = ['', 'v', 'w x', 'v=w', '1', 'a;b', 'v/w']
_DEFAULTS = {}


def default_sections(prefix):
    """what skool2html.py -r PREFIX prints"""
    if prefix not in _DEFAULTS:
        out, err, code = call('skool2html', ['-r', prefix])
        if code not in (0, None) or (out and not out.startswith('[')):
            raise RuntimeError('skool2html -r %s: %r %r' % (prefix, out[:100], code))
        lines = out.split('\n')
        if lines and lines[-1] == '':
            lines.pop()
        _DEFAULTS[prefix] = lines
    return _DEFAULTS[prefix]


def gen_builtin_lines(rng, name):
    if name.startswith('Template'):
        return [rng.choice(['<p>x</p>', 'w', '', '  <b>', 'k=v']) for _ in range(rng.randint(0, 3))]
    keys = GAME_KEYS if name.startswith('Game') else ['Kx', 'Ky', 'Bugs', 'Facts'] if name.startswith('Titles') else ['Kx', 'Ky']
    out = []
    for _ in range(rng.randint(0, 3)):
        r = rng.random()
        if r < 0.75:
            out.append(rng.choice(keys) + '=' + rng.choice(PLAIN_VALUES))
        elif r < 0.85:
            out.append('; ' + rng.choice(keys) + '=zz')
        else:
            out.append('')
    return out


def gen_site_ref(rng, pool, builtin):
    """a ref file mixing free sections (anything goes) and built-in ones (tame content)"""
    lines = gen_ref(rng, pool, maxsec=2, maxlines=4, pre=0.1)
    for _ in range(rng.randint(0, 2)):
        b = rng.choice(builtin)
        lines.append('[' + b + rng.choice(['', '', '+']) + ']')
        lines.extend(gen_builtin_lines(rng, b))
    if rng.random() < 0.5:
        lines.extend(gen_ref(rng, pool, maxsec=2, maxlines=3, pre=0))
    return lines


def site_case(sv, wd, emptydir):
    rng = random.Random(sv)
    d = os.path.join(wd, 's')
    shutil.rmtree(d, ignore_errors=True)
    src = os.path.join(d, 'src')
    os.makedirs(os.path.join(d, 'home', '.skoolkit'))
    os.makedirs(os.path.join(d, 'cwd'))
    os.makedirs(src)
    with open(os.path.join(src, 'game.skool'), 'w') as f:
        f.write('; Routine\nc32768 LD A,$0a\n 32770 ld b,10\n 32772 RET\n')
    with open(os.path.join(src, 'obs.py'), 'w') as f:
        f.write(OBS_PY)
    pool = gen_names(rng)
    pool = [n for n in pool if not n.startswith(BUILTIN)]
    builtin = ['Game', 'Titles', 'Page:Bugs', 'Page:Px', 'Page:Facts', 'Template:footer']
    extra_names = rng.sample(['x1.ref', 'x2.ref', 'y.ref', 'sub/z.ref'], rng.randint(0, 3))
    cmd_names = rng.sample(['c1.ref', 'c2.ref'], rng.choice([0, 0, 1, 2]))
    auto_names = [n for n in ['game.ref', 'game-a.ref', 'game2.ref', 'gamez.ref'] if rng.random() < (0.8 if n == 'game.ref' else 0.35)]
    files = {}
    for n in auto_names + extra_names + cmd_names:
        files[n] = gen_site_ref(rng, pool, builtin)
    # [Config]: in files read automatically (documented), now and then also elsewhere
    listed = list(extra_names)
    rng.shuffle(listed)
    for n in list(files):
        is_auto = n in auto_names
        if rng.random() < (0.7 if is_auto else 0.1):
            cl = ['[Config' + rng.choice(['', '', '+']) + ']']
            body = []
            if rng.random() < 0.7:
                val = ';'.join(listed[:rng.randint(0, len(listed))])
                if rng.random() < 0.2:
                    val = ';' + val + ';;'
                body.append('RefFiles=' + val)
            if rng.random() < 0.3:
                body.append('HtmlWriterClass=nosuch.Writer')
            if rng.random() < 0.3:
                body.append('GameDir=' + rng.choice(['g', 'game', 'x y']))
            if rng.random() < 0.2:
                body.append('; RefFiles=nosuch.ref')
            rng.shuffle(body)
            cl += body
            pos = rng.choice([0, len(files[n])])
            files[n][pos:pos] = cl
    cli = []
    for _ in range(rng.choice([0, 0, 1, 2, 3])):
        r = rng.random()
        if r < 0.5:
            sec = rng.choice([base_of(x) for x in pool if '/' not in x and base_of(x)] or ['A'])
            cli.append(sec + '/' + gen_line(rng))
        elif r < 0.8:
            b = rng.choice(builtin)
            cli.append(b + '/' + (rng.choice(GAME_KEYS if b == 'Game' else ['Kx', 'Ky']) + '=' + rng.choice(PLAIN_VALUES) if b != 'Template:footer' else '<i>c</i>'))
        elif listed and rng.random() < 0.6:
            cli.append('Config/RefFiles=' + ';'.join(rng.sample(listed, rng.randint(0, len(listed)))))
        else:
            cli.append('Config/GameDir=h')
    for n, lines in files.items():
        write_lines(os.path.join(src, n), lines, rng)
    # skoolkit.ini for skool2html
    base = baseline('skool2html', emptydir)
    ini = gen_ini(rng, 'skool2html', base, True) if rng.random() < 0.6 else None
    icli = gen_cli(rng, 'skool2html', base, True) if rng.random() < 0.6 else []
    if ini is not None:
        write_lines(os.path.join(d, 'cwd', 'skoolkit.ini'), ini, rng)
    # what to ask the writer
    names = [n for f in files.values() for n in header_names(f)] + [s.partition('/')[0] for s in cli]
    free = [n for n in query_names(rng, [x for x in names if not base_of(base_of(x)).startswith(BUILTIN)])]
    user = free + ['Game', 'Titles', 'Page:Bugs', 'Page:Px', 'Template:footer', 'Config']
    qn = [[n, 1] for n in free] + [['Game', 0], ['Titles', 0], ['Config', 0], ['Page:Bugs', 0], ['Page:Px', 0], ['Template:footer', 1]]
    pf = [p for p in query_prefixes([x for x in names if not x.startswith(BUILTIN)]) if p not in ('Page', 'Template')][:5] + ['Page']
    qfile, ofile = os.path.join(d, 'queries.json'), os.path.join(d, 'obs.json')
    with open(qfile, 'w') as f:
        json.dump(dict(user=user, names=qn, prefixes=pf), f)
    wspec = src + ':obs.ObsWriter'
    argv = []
    for s in cli:
        argv += ['-c', s]
    for s in icli:
        argv += ['-I', s]
    argv += ['-W', wspec, '-w', '', '-d', os.path.join(d, 'out'), os.path.join(src, 'game.skool')] + [os.path.join(src, n) for n in cmd_names]
    cwd, oldhome = os.getcwd(), os.environ.get('HOME')
    os.environ['HOME'] = os.path.join(d, 'home')
    os.environ['E03_QUERIES'], os.environ['E03_OUT'] = qfile, ofile
    os.chdir(os.path.join(d, 'cwd'))
    try:
        out, err, code = call('skool2html', argv)
        shown = show_config('skool2html')
        shownc = show_config('skool2html', [a for s in icli for a in ('-I', s)])
    finally:
        os.chdir(cwd)
        os.environ['HOME'] = oldhome
    meta = dict(files=files, cli=cli, cmd=cmd_names, auto=auto_names, ini=ini, icli=icli, argv=argv[:-1 - len(cmd_names)], exit=code)
    if not os.path.isfile(ofile):
        return dict(k='crash', key='s%d' % sv, meta=meta, err=(err or out)[-400:], exit=code)
    with open(ofile) as f:
        obs = json.load(f)
    outdir = os.path.join(d, 'out')
    made = sorted(os.listdir(outdir)) if os.path.isdir(outdir) else []
    if len(made) != 1:
        return dict(k='crash', key='s%d' % sv, meta=meta, err='entries of the output directory: %r' % made, exit='OutputDirectory: %d entries' % len(made))
    auto_order = sorted(n for n in auto_names if n != 'game.ref')
    if 'game.ref' in auto_names:
        auto_order.insert(0, 'game.ref')
    eff = {'Base': str(obs['base']), 'Case': str(obs['case'])}
    return dict(k='site', key='s%d' % sv, auto=[encl(files[n]) for n in auto_order],
                dir=[dict(name=enc(n), lines=encl(files[n])) for n in extra_names + cmd_names], cmd=[enc(n) for n in cmd_names],
                cli=encl(cli + ['Config/HtmlWriterClass=' + wspec]), gamedir=enc(made[0]), skool=enc('game'), uq=obs['uq'], q=obs['q'], fam=obs['fam'],
                cfg=[cfg_record('skool2html', base, ini or [], icli, shown, shownc, eff)], meta=meta)


def site_defaults():
    """the built-in ref file, as printed by skool2html.py -R"""
    out, err, code = call('skool2html', ['-R'])
    if code not in (0, None) or not out.startswith('['):
        raise RuntimeError('skool2html -R failed: %r' % (code,))
    full = out.split('\n')
    if full and full[-1] == '':
        full.pop()
    return full


def reffile_case():
    full = site_defaults()
    parts = []
    for p in ['Game', 'Page', 'Page:', 'Template:', 'Titles', 'MemoryMap:', 'Nope', 'Paths', 'Co', 'Index']:
        parts.append(dict(p=enc(p), out=encl(default_sections(p))))
    return dict(k='reffile', key='reffile', full=encl(full), parts=parts)


def worker(args):
    kind, seeds, wd = args
    wd = os.path.join(wd, 'w%d' % os.getpid())
    empty = os.path.join(wd, 'empty')
    os.makedirs(empty, exist_ok=True)
    os.environ['HOME'] = empty
    out = []
    for sv in seeds:
        try:
            if kind == 'parse':
                out.append(parse_case(sv, wd))
            elif kind == 'cfg':
                out.append(cfg_case(sv, wd, empty))
            else:
                out.append(site_case(sv, wd, empty))
        except Exception:
            out.append(dict(k='error', key='%s%d' % (kind[0], sv), err=traceback.format_exc()[-1500:]))
    shutil.rmtree(wd, ignore_errors=True)
    return out
