"""C09 driver: drives skoolkit's snapshot writer/reader, bin2sna and snapmod and projects what they
did into small abstract records for the TLA+ judges in spec/codec (DESIGN §4 C09).

  rle_tables()      pattern D tables: real Z80._make_z80_ram_block / Z80._decompress on every short string
  long_cases()      pattern B: structured banks (long runs) through the real file writer/reader
  file_cases()      pattern B: machine states written by write_snapshot / bin2sna / get_state in both formats
  op_traces()       sequential traces: random bin2sna / snapmod invocations, full state diff after each
"""
import contextlib
import io
import os
import random
import zlib

from ..lib import cbuild
from ..lib.common import MachineryError
from . import snapfile

ENC_ALPHA = (0xED, 0x00, 0x01)
DEC_ALPHA = (0xED, 0x00, 0x01, 0x02, 0x05)
ERR = [-1]


def _sk():
    cbuild.repo_only()
    import skoolkit.snapshot as snapshot
    from ..lib.common import REPO
    if not os.path.abspath(snapshot.__file__).startswith(os.path.abspath(REPO) + os.sep):
        raise MachineryError('skoolkit imported from %s, not %s' % (snapshot.__file__, REPO))
    return snapshot


def nth_string(alpha, n, idx):
    k = len(alpha)
    out = []
    for _ in range(n):
        out.append(alpha[idx % k])
        idx //= k
    return out


# ------------------------------------------------------------------------------------------------
# pattern D tables
# ------------------------------------------------------------------------------------------------
def rle_tables(encn, decn):
    snapshot = _sk()
    z = snapshot.Z80.__new__(snapshot.Z80)
    enc1, encp, dec, ind, indv1 = [], [], [], [], []
    for n in range(encn + 1):
        e1, ep = [], []
        for idx in range(len(ENC_ALPHA) ** n):
            s = nth_string(ENC_ALPHA, n, idx)
            try:
                e1.append(list(z._make_z80_ram_block(list(s))))
            except Exception:
                e1.append(ERR)
            try:
                ep.append(list(z._make_z80_ram_block(list(s), 3 + idx % 8)))
            except Exception:
                ep.append(ERR)
        enc1.append(e1)
        encp.append(ep)
    wellformed = 0
    for n in range(decn + 1):
        d, i0, i1 = [], [], []
        for idx in range(len(DEC_ALPHA) ** n):
            blk = nth_string(DEC_ALPHA, n, idx)
            try:
                d.append(list(z._decompress(list(blk))))
            except Exception:
                d.append(ERR)
            try:
                i0.append(list(snapfile.rle_decode(bytes(blk))))
                wellformed += 1
            except snapfile.FormatError:
                i0.append(ERR)
            try:
                data, used = snapfile.rle_decode_v1(bytes(blk) + b'\x00\xed\xed\x00')
                i1.append(list(data) if used == n + 4 else [-2])
            except snapfile.FormatError:
                i1.append(ERR)
        dec.append(d)
        ind.append(i0)
        indv1.append(i1)
    tab = dict(encn=encn, decn=decn, enc1=enc1, encp=encp, dec=dec, ind=ind, indv1=indv1)
    total = 2 * sum(len(ENC_ALPHA) ** n for n in range(encn + 1)) + sum(len(DEC_ALPHA) ** n for n in range(decn + 1))
    return tab, total, wellformed


# ------------------------------------------------------------------------------------------------
# running the real tools / reading files back
# ------------------------------------------------------------------------------------------------
FIELDS = ('a', 'f', 'bc', 'de', 'hl', 'a2', 'f2', 'bc2', 'de2', 'hl2', 'ix', 'iy', 'sp', 'pc', 'i', 'r',
          'iff1', 'iff2', 'im', 'border', 't', 'o7ffd', 'offfd', 'ay', 'fe', 'memptr', 'issue2', 'machine')


def quiet_main(mod, args):
    """Run a skoolkit command's main() in-process; returns '' or a one-line error description."""
    out, err = io.StringIO(), io.StringIO()
    try:
        with contextlib.redirect_stdout(out), contextlib.redirect_stderr(err):
            mod.main(list(args))
    except SystemExit as e:
        return 'exit:%s:%s' % (e.code, err.getvalue().strip()[-200:])
    except Exception as e:  # SkoolKitError and genuine crashes alike: the caller decides
        return '%s:%s' % (type(e).__name__, str(e)[:200])
    return ''


def crc2(b):
    c = zlib.crc32(bytes(b))
    return [c >> 16, c & 0xFFFF]


def firstdiff(a, b):
    if a == b:
        return -1
    n = min(len(a), len(b))
    for i in range(n):
        if a[i] != b[i]:
            return i
    return n


def ram_to_banks(ram):
    """snapshot.ram(-1) -> {bank: bytes}"""
    if ram is None:
        return {}
    if len(ram) == 0x20000:
        return {b: bytes(ram[b * 0x4000:(b + 1) * 0x4000]) for b in range(8)}
    if len(ram) == 0xC000:
        return {5: bytes(ram[:0x4000]), 2: bytes(ram[0x4000:0x8000]), 0: bytes(ram[0x8000:])}
    return {-1: bytes(ram)}


def read_real(path):
    """Project what skoolkit's own reader returns. -> (fields dict, {bank: bytes}, error string)"""
    snapshot = _sk()
    try:
        s = snapshot.Snapshot.get(path)
        ram = s.ram(-1)
        f = dict(a=s.a, f=s.f, bc=s.bc, de=s.de, hl=s.hl, a2=s.a2, f2=s.f2, bc2=s.bc2, de2=s.de2, hl2=s.hl2,
                 ix=s.ix, iy=s.iy, sp=s.sp, pc=s.pc, i=s.i, r=s.r, iff1=s.iff1, iff2=s.iff2, im=s.im,
                 border=s.border, t=s.tstates, o7ffd=s.out7ffd, offfd=s.outfffd, ay=list(s.ay), fe=s.outfe,
                 memptr=s.memptr, issue2=-1, machine=s.machine or '?')
        return f, ram_to_banks(ram), ''
    except Exception as e:
        return None, {}, '%s:%s' % (type(e).__name__, str(e)[:200])


def read_ind(path):
    """Project what the independent decoder returns. -> (fields, banks, raw, error)"""
    try:
        s = snapfile.read_snapshot(path)
    except (snapfile.FormatError, zlib.error, IndexError, ValueError, KeyError) as e:
        return None, {}, None, '%s:%s' % (type(e).__name__, str(e)[:200])
    f = {k: s[k] for k in ('a', 'f', 'bc', 'de', 'hl', 'a2', 'f2', 'bc2', 'de2', 'hl2', 'ix', 'iy', 'sp', 'pc', 'i', 'r',
                           'iff1', 'iff2', 'im', 'border', 'o7ffd', 'offfd', 'issue2', 'machine')}
    f['ay'] = list(s['ay'])
    f['t'] = -1 if s['tstates'] is None else s['tstates']
    f['fe'] = -1 if s['fe'] is None else s['fe']
    f['memptr'] = -1 if s['memptr'] is None else s['memptr']
    f['iff1'], f['iff2'] = s['iff1_raw'], s['iff2_raw']
    return f, dict(s['banks']), s['raw'], ''


NOFIELDS = dict(a=-1, f=-1, bc=-1, de=-1, hl=-1, a2=-1, f2=-1, bc2=-1, de2=-1, hl2=-1, ix=-1, iy=-1, sp=-1, pc=-1,
                i=-1, r=-1, iff1=-1, iff2=-1, im=-1, border=-1, t=-1, o7ffd=-1, offfd=-1, ay=[-1] * 16, fe=-1,
                memptr=-1, issue2=-1, machine='?')


def raw_record(path, raw):
    """The raw container pieces TLC decodes itself with SnapFields."""
    if raw is None:
        return dict(hdr=[], head=[], z80r=[], spcr=[], ay=[], keyb=[])
    if path.endswith('.z80'):
        return dict(hdr=list(raw['header']), head=[], z80r=[], spcr=[], ay=[], keyb=[])
    ch = raw['chunks']
    return dict(hdr=[], head=list(raw['header']), z80r=list(ch.get(b'Z80R', b'')), spcr=list(ch.get(b'SPCR', b'')),
                ay=list(ch.get(b'AY\x00\x00', b'')), keyb=list(ch.get(b'KEYB', b'')))


def observe(path, written):
    """Read `path` with both decoders and compare the RAM with `written` ({bank: bytes}).
    -> record for TLC (fields of both readers, raw header pieces, per-bank equality facts + digests)."""
    rf, rb, rerr = read_real(path)
    jf, jb, raw, jerr = read_ind(path)
    rec = dict(fmt=path[-3:], rerr=rerr, ierr=jerr, real=rf or NOFIELDS, ind=jf or NOFIELDS)
    rec.update(raw_record(path, raw))
    banks = []
    for b in sorted(written):
        w = written[b]
        r_, i_ = rb.get(b), jb.get(b)
        banks.append(dict(bank=b, w=crc2(w),
                          r=crc2(r_) if r_ is not None else [-1, -1], rdiff=firstdiff(w, r_) if r_ is not None else -2,
                          i=crc2(i_) if i_ is not None else [-1, -1], idiff=firstdiff(w, i_) if i_ is not None else -2))
    rec['banks'] = banks
    rec['rextra'] = sorted(set(rb) - set(written))
    rec['iextra'] = sorted(set(jb) - set(written))
    return rec, raw


def ram_arg(banks):
    """{bank: bytes} -> the `ram` argument of write_snapshot (8 lists for 128K, flat 48K list otherwise)"""
    if len(banks) == 8:
        return [list(banks[b]) for b in range(8)]
    return list(banks[5]) + list(banks[2]) + list(banks[0])


# ------------------------------------------------------------------------------------------------
# long run-length inputs (pattern B, RleLong.tla)
# ------------------------------------------------------------------------------------------------
RUN_LENS = (1, 2, 3, 4, 5, 254, 255, 256, 257, 258, 509, 510, 511, 512, 513)
BANK = 0x4000


def runs_bytes(runs):
    return b''.join(bytes([b]) * n for b, n in runs)


def norm_runs(runs):
    out = []
    for b, n in runs:
        if n == 0:
            continue
        if out and out[-1][0] == b:
            out[-1][1] += n
        else:
            out.append([b, n])
    return out


def fill(runs, size, filler):
    """Pad a run list to `size` bytes with a filler run (not equal to the last byte)."""
    used = sum(n for _, n in runs)
    if used > size:
        raise MachineryError('bank overflow: %d' % used)
    if used < size:
        f = filler
        while runs and f in (runs[-1][0], 0xED):
            f = (f + 1) % 256
        runs = runs + [[f, size - used]]
    return runs


def seps_for(v, k):
    """Separator byte strings placed between runs: plain byte, ED directly before/after the run, ED ED."""
    o = (v + 1) % 256 if (v + 1) % 256 != 0xED else 0xEF
    if v == 0xED:
        return ([[o, 1]], [[0, 1]], [[o, 2]], [[1, 1], [o, 1]])[k % 4]
    return ([[o, 1]], [[0xED, 1]], [[o, 1], [0xED, 1]], [[0xED, 1], [o, 1]], [[0xED, 2]], [[o, 1], [0xED, 3], [o, 1]])[k % 6]


def long_bank_specs(rng, nrandom):
    """-> list of (class key, runs) with sum of runs == 16384."""
    specs = []
    # A: runs of every byte value, lengths around 1..5, 254..258, 509..513, all separator contexts
    cur, used, k, names = [], 0, 0, []
    for v in range(256):
        need = sum(RUN_LENS) + 4 * len(RUN_LENS)
        if used + need > BANK - 8:
            specs.append(('A:%s' % '-'.join(names), fill(cur, BANK, 0x77)))
            cur, used, names = [], 0, []
        names.append('%02X' % v)
        order = list(RUN_LENS)
        rng.shuffle(order)
        for L in order:
            sep = seps_for(v, k)
            k += 1
            cur += [[v, L]] + [list(x) for x in sep]
            used += L + sum(n for _, n in sep)
    specs.append(('A:%s' % '-'.join(names), fill(cur, BANK, 0x77)))
    # B: runs of ED of every length 1..600
    cur, used, first = [], 0, 1
    seps = (0, 5, 255, 0xEC, 0xEE)
    for L in range(1, 601):
        if used + L + 1 > BANK - 8:
            specs.append(('B:ED%d-%d' % (first, L - 1), fill(cur, BANK, 0x33)))
            cur, used, first = [], 0, L
        cur += [[0xED, L], [seps[L % 5], 1 + (L % 3 == 0) * 5]]
        used += L + 1 + (L % 3 == 0) * 5
    specs.append(('B:ED%d-600' % first, fill(cur, BANK, 0x33)))
    # C: banks beginning / ENDING in 1..6 EDs, also directly after a run / a literal
    for n in range(1, 7):
        for pre in ([[0, 300]], [[1, 1], [2, 1], [3, 1]], [[0xED, 1], [9, 7]], [[4, 255]], [[4, 256]], [[0xED, 2], [8, 1]]):
            head = [[0xED, n], [7, 3]]
            tail = [list(x) for x in pre] + [[0xED, n]]
            mid = BANK - sum(m for _, m in head) - sum(m for _, m in tail)
            specs.append(('C:end%d' % n, head + [[0x55, mid]] + tail))
    # whole bank one byte (64 tokens of 255 + one of 64), whole bank ED, alternating ED x
    specs.append(('C:all00', [[0, BANK]]))
    specs.append(('C:allED', [[0xED, BANK]]))
    specs.append(('C:allFF', [[0xFF, BANK]]))
    alt = []
    for j in range(120):
        alt += [[0xED, 1], [j % 7, 1 + (j % 11 == 0) * 6]]
    specs.append(('C:altED', fill(alt, BANK, 0x21)))
    # D: random structured banks, ED-rich
    for j in range(nrandom):
        runs = []
        for _ in range(rng.randrange(20, 70)):
            b = rng.choice((0xED, 0xED, 0, 1, 0xFF, 0xEC, 0xEE, rng.randrange(256)))
            n = rng.choice((1, 1, 1, 2, 2, 3, 4, 5, 6, 7, rng.randrange(1, 40), 254, 255, 256, 257, 510, 511, 765, 766))
            if sum(m for _, m in runs) + n > BANK - 8:
                break
            runs.append([b, n])
        runs = norm_runs(runs)
        specs.append(('D:rnd%d' % j, fill(runs, BANK, rng.randrange(256))))
    out = []
    for key, runs in specs:
        runs = norm_runs(runs)
        if sum(n for _, n in runs) != BANK:
            raise MachineryError('bank spec %s has %d bytes' % (key, sum(n for _, n in runs)))
        out.append((key, runs))
    return out


BLK_LIMIT = 2600     # longest block handed to TLC byte by byte


def _block_case(key, form, runs, blen, chunk, page, wantpage, fact):
    big = len(chunk) > BLK_LIMIT
    return dict(key=key, form=form, runs=norm_runs(runs), total=sum(n for _, n in runs), lenfield=-1 if blen is None else blen,
                page=page, wantpage=wantpage, big=1 if big else 0, blklen=len(chunk), blk=[] if big else list(chunk), **fact)


def long_file_worker(job):
    """job = (workdir, name, kind, machine, [(key, runs)...]) -> list of RleLong cases.
    kind: 'ws' write_snapshot .z80 (v3) | 'v1' / 'v2' / 'raw' independent file passed through snapmod."""
    wd, name, kind, machine, specs = job
    snapshot = _sk()
    from skoolkit import snapmod
    nb = len(specs)
    order = list(range(8)) if nb == 8 else [5, 2, 0]
    written = {b: runs_bytes(specs[j][1]) for j, b in enumerate(order)}
    path = os.path.join(wd, name + '.z80')
    err = ''
    if kind == 'ws':
        try:
            snapshot.write_snapshot(path, ram_arg(written), ['pc=32768'], [], machine)
        except Exception as e:
            err = 'write_snapshot:%s:%s' % (type(e).__name__, str(e)[:200])
    else:
        src = os.path.join(wd, name + '-in.z80')
        st = dict(a=1, f=2, bc=3, de=4, hl=5, a2=6, f2=7, bc2=8, de2=9, hl2=10, ix=11, iy=12, sp=13, pc=32768, i=14, r=15,
                  iff1=1, iff2=1, im=1, border=3, issue2=0, tstates=100, machine=machine, o7ffd=0, offfd=0, ay=[0] * 16,
                  banks=written)
        ver = {'v1': 1, 'v2': 2, 'raw': 3, 'v1raw': 1}[kind]
        with open(src, 'wb') as f:
            f.write(snapfile.write_z80(st, ver, compress=kind in ('v1', 'v2')))
        err = quiet_main(snapmod, [src, path])
    cases = []
    if err:
        return [dict(key='%s:%s' % (kind, specs[0][0]), form='error', err=err, runs=[], total=0, lenfield=-1, page=-1, wantpage=-1,
                     big=1, blklen=0, blk=[], req=0, rdiff=-2, ieq=0, idiff=-2, w=[0, 0], r=[-1, -1], i=[-1, -1], ver=0)]
    rec, raw = observe(path, written)
    facts = {x['bank']: x for x in rec['banks']}
    if raw is None or rec['rerr'] or rec['ierr']:
        return [dict(key='%s:%s' % (kind, specs[0][0]), form='error', err=(rec['rerr'] or rec['ierr']), runs=[], total=0, lenfield=-1,
                     page=-1, wantpage=-1, big=1, blklen=0, blk=[], req=0, rdiff=-2, ieq=0, idiff=-2, w=[0, 0], r=[-1, -1],
                     i=[-1, -1], ver=0)]
    hdrlen = len(raw['header'])
    if kind in ('v1', 'v1raw'):
        blen, chunk = raw['blocks'].get(None, (None, b''))
        runs = [r for _, rs in specs for r in rs]
        fx = [facts[b] for b in order]
        rd = next((k * BANK + x['rdiff'] for k, x in enumerate(fx) if x['rdiff'] != -1), -1)
        jd = next((k * BANK + x['idiff'] for k, x in enumerate(fx) if x['idiff'] != -1), -1)
        w = crc2(b''.join(written[b] for b in order))
        fact = dict(req=int(rd == -1), rdiff=rd, ieq=int(jd == -1), idiff=jd, w=w, r=w if rd == -1 else [-1, -1],
                    i=w if jd == -1 else [-1, -1], err='', ver=1 if hdrlen == 30 else 0)
        cases.append(_block_case('%s:%s' % (kind, '+'.join(k for k, _ in specs)), 'v1', runs, blen, chunk, -1, -1, fact))
        return cases
    for j, b in enumerate(order):
        blen, chunk = raw['blocks'].get(b, (None, b''))
        x = facts[b]
        fact = dict(req=int(x['rdiff'] == -1), rdiff=x['rdiff'], ieq=int(x['idiff'] == -1), idiff=x['idiff'], w=x['w'], r=x['r'], i=x['i'],
                    err='', ver={30: 1, 55: 2, 86: 3, 87: 3}.get(hdrlen, 0))
        wantpage = b + 3 if nb == 8 else {5: 8, 2: 4, 0: 5}[b]
        # the page byte actually present in the file for this bank
        cases.append(_block_case('%s:%s' % (kind, specs[j][0]), 'paged', specs[j][1], blen, chunk, wantpage, wantpage, fact))
    return cases


def long_jobs(wd, rng, nrandom):
    specs = long_bank_specs(rng, nrandom)
    jobs = []
    n = 0
    # every bank spec goes through a 128K v3 file written by write_snapshot ...
    pad = list(specs)
    while len(pad) % 8:
        pad.append(('C:pad', [[len(pad) % 251, BANK]]))
    for k in range(0, len(pad), 8):
        jobs.append((wd, 'l%d' % n, 'ws', ('128K', '+2')[n % 2], pad[k:k + 8]))
        n += 1
    # ... and through the v1 whole-RAM form (independent v1 file -> snapmod -> real v1 writer), 3 banks per block
    pad = list(specs)
    while len(pad) % 3:
        pad.append(('C:pad', [[len(pad) % 251, BANK]]))
    for k in range(0, len(pad), 3):
        jobs.append((wd, 'l%d' % n, ('v1', 'v1raw')[n % 2], '48K', pad[k:k + 3]))
        n += 1
    # a sample through 48K v3 (pages 8,4,5), v2 files and uncompressed (0xFFFF) input blocks
    for k in range(0, len(specs) - 8, 24):
        jobs.append((wd, 'l%d' % n, 'ws', '48K', specs[k:k + 3]))
        n += 1
        jobs.append((wd, 'l%d' % n, 'v2', '128K', specs[k:k + 8]))
        n += 1
        jobs.append((wd, 'l%d' % n, 'raw', ('48K', '128K')[n % 2], specs[k:k + 8] if n % 2 else specs[k:k + 3]))
        n += 1
    return jobs


# ------------------------------------------------------------------------------------------------
# whole files (pattern B, SnapCases.tla)
# ------------------------------------------------------------------------------------------------
B8 = (0, 1, 2, 0x7F, 0x80, 0x81, 0xED, 0xFE, 0xFF)
W16 = (0, 1, 0xFF, 0x100, 0x3FFF, 0x4000, 0x5C3A, 0x7FFF, 0x8000, 0xC000, 0xEDED, 0xFFFE, 0xFFFF)
REG8 = ('a', 'f', 'a2', 'f2', 'i', 'r')
REG16 = ('bc', 'de', 'hl', 'bc2', 'de2', 'hl2', 'ix', 'iy', 'sp', 'pc')
FRAMES = {'48K': 69888, '128K': 70908, '+2': 70908}
T24 = 1 << 24


def pick8(rng):
    return rng.choice(B8) if rng.random() < 0.5 else rng.randrange(256)


def pick16(rng):
    return rng.choice(W16) if rng.random() < 0.5 else rng.randrange(65536)


def t_values(machine):
    fr = FRAMES[machine]
    q = fr // 4
    return [0, 1, q - 1, q, q + 1, 2 * q - 1, 2 * q, 3 * q - 1, 3 * q, 3 * q + 1, fr - 2, fr - 1, fr, fr + 1, 2 * fr - 1, 2 * fr,
            10 * fr + 5, 65535, 65536, 65537, T24 - 1]


def t_big_values(machine):
    fr = FRAMES[machine]
    return [T24, T24 + 5000, 2 * T24 + fr - 1, 100 * T24 + 12345, (1 << 31) - 1]


def gen_state(rng, machine, tclass='frame'):
    st = {k: pick8(rng) for k in REG8}
    st.update({k: pick16(rng) for k in REG16})
    st['r'] = rng.choice((0, 1, 0x7F, 0x80, 0x81, 0xFF, rng.randrange(128, 256), rng.randrange(256)))
    st['iff'] = rng.randrange(2)
    st['im'] = rng.randrange(3)
    st['border'] = rng.randrange(8)
    st['issue2'] = rng.randrange(2)
    fr = FRAMES[machine]
    if tclass == 'big':
        st['t'] = rng.choice(t_big_values(machine) + [rng.randrange(T24, 1 << 31)])
    else:
        st['t'] = rng.choice(t_values(machine) + [rng.randrange(fr)] * 12 + [rng.randrange(fr, T24)] * 4)
    if machine == '48K':
        st.update(o7ffd=0, offfd=0, ay=[0] * 16)
    else:
        st.update(o7ffd=rng.choice((0, 1, 7, 8, 0x10, 0x17, 0x1F, 0x20, 0x3F, 0xFF, rng.randrange(256))),
                  offfd=pick8(rng), ay=[pick8(rng) for _ in range(16)])
    st['fe'] = pick8(rng)
    st['memptr'] = pick16(rng)
    return st


def gen_bank(rng, kind=None):
    kind = kind or rng.choice(('rnd', 'runs', 'ed', 'ed', 'text', 'zero'))
    if kind == 'rnd':
        return rng.randbytes(BANK)
    if kind == 'zero':
        return bytes([rng.choice((0, 0xED, 0xFF))]) * BANK
    if kind == 'ed':
        al = bytes((0xED, 0xED, 0, 1, rng.randrange(256)))
        return bytes(rng.choices(al, k=BANK))
    if kind == 'text':
        # little variation: many short and long runs of a few values
        out = bytearray()
        while len(out) < BANK:
            out += bytes([rng.choice((0, 0x20, 0xED, 0xFF, rng.randrange(256)))]) * rng.choice((1, 1, 2, 3, 4, 5, 6, 17, 255, 256, 700))
        return bytes(out[:BANK])
    runs = []
    while sum(n for _, n in runs) < BANK:
        runs.append([rng.choice((0xED, 0, 1, 0xFF, rng.randrange(256))), rng.choice((1, 2, 3, 4, 5, 6, 40, 254, 255, 256, 257, 511, 1000))])
    return runs_bytes(runs)[:BANK]


def gen_banks(rng, machine):
    order = (5, 2, 0) if machine == '48K' else range(8)
    return {b: gen_bank(rng) for b in order}


def num(rng, v, allow0x=True):
    k = rng.randrange(4)
    if k == 0:
        return '$%X' % v
    if k == 1 and allow0x:
        return '0x%x' % v
    return str(v)


def optnum(rng, v):
    """number syntax of argparse options typed `integer` (--org, --stack, --start): decimal or 0x hex"""
    return '0x%X' % v if rng.random() < 0.4 else str(v)


def reg_specs(rng, st, upper=False):
    """One assignment per register: pairs or 8-bit halves, in random order."""
    specs = []
    for name, pfx in (('bc', ''), ('de', ''), ('hl', ''), ('bc2', '^'), ('de2', '^'), ('hl2', '^')):
        base = name[:2]
        v = st[name]
        if rng.random() < 0.5:
            specs.append('%s%s=%s' % (pfx, base, num(rng, v)))
        else:
            specs.append('%s%s=%s' % (pfx, base[0], num(rng, v >> 8)))
            specs.append('%s%s=%s' % (pfx, base[1], num(rng, v & 255)))
    for name in ('ix', 'iy', 'sp', 'pc', 'i', 'r', 'a', 'f'):
        specs.append('%s=%s' % (name, num(rng, st[name])))
    specs.append('^a=%s' % num(rng, st['a2']))
    specs.append('^f=%s' % num(rng, st['f2']))
    specs.append('memptr=%s' % num(rng, st['memptr']))
    rng.shuffle(specs)
    if upper:
        specs = [s.split('=')[0].upper() + '=' + s.split('=')[1] for s in specs]
    return specs


def state_specs(rng, st, machine, skip=()):
    specs = ['iff=%d' % st['iff'], 'im=%d' % st['im'], 'border=%d' % st['border'], 'issue2=%d' % st['issue2'],
             'tstates=%d' % st['t'], 'fe=%d' % st['fe']]
    if machine != '48K':
        specs += ['7ffd=%d' % st['o7ffd'], 'fffd=%d' % st['offfd']]
        specs += ['ay[%d]=%d' % (n, v) for n, v in enumerate(st['ay'])]
    specs = [s for s in specs if s.split('=')[0] not in skip]
    rng.shuffle(specs)
    return specs


class _Stub:
    pass


def stub_simulator(st, banks, machine):
    """An object with the attributes simutils.get_state() reads from a simulator."""
    from skoolkit import simutils as su
    from skoolkit.pagingtracer import Memory
    sim = _Stub()
    r = [0] * 30
    r[su.A], r[su.F] = st['a'], st['f']
    r[su.B], r[su.C] = st['bc'] >> 8, st['bc'] & 255
    r[su.D], r[su.E] = st['de'] >> 8, st['de'] & 255
    r[su.H], r[su.L] = st['hl'] >> 8, st['hl'] & 255
    r[su.IXh], r[su.IXl] = st['ix'] >> 8, st['ix'] & 255
    r[su.IYh], r[su.IYl] = st['iy'] >> 8, st['iy'] & 255
    r[su.SP], r[su.I], r[su.R] = st['sp'], st['i'], st['r']
    r[su.xA], r[su.xF] = st['a2'], st['f2']
    r[su.xB], r[su.xC] = st['bc2'] >> 8, st['bc2'] & 255
    r[su.xD], r[su.xE] = st['de2'] >> 8, st['de2'] & 255
    r[su.xH], r[su.xL] = st['hl2'] >> 8, st['hl2'] & 255
    r[su.PC], r[su.MEMPTR], r[su.T] = st['pc'], st['memptr'], st['t']
    r[su.IFF], r[su.IM] = st['iff'], st['im']
    sim.registers = r
    tr = _Stub()
    tr.border = st['border']
    tr.outfe = st['fe']
    tr.ay = list(st['ay'])
    tr.outfffd = st['offfd']
    sim.tracer = tr
    if machine == '48K':
        sim.memory = [0] * 16384 + list(banks[5]) + list(banks[2]) + list(banks[0])
    else:
        sim.memory = Memory([list(banks[b]) for b in range(8)], st['o7ffd'], machine)
    return sim


def write_route(rng, route, path, st, banks, machine, wd, tag):
    """Write `st` + `banks` to `path` through one of skoolkit's writers. -> error string"""
    snapshot = _sk()
    if route == 'ws':
        try:
            snapshot.write_snapshot(path, ram_arg(banks), reg_specs(rng, st, rng.random() < 0.3), state_specs(rng, st, machine), machine)
        except Exception as e:
            return '%s:%s' % (type(e).__name__, str(e)[:200])
        return ''
    if route == 'gs':
        from skoolkit import simutils
        try:
            snapshot.write_snapshot(path, *simutils.get_state(stub_simulator(st, banks, machine)))
        except Exception as e:
            return '%s:%s' % (type(e).__name__, str(e)[:200])
        return ''
    if route == 'b2s':
        from skoolkit import bin2sna
        args = []
        regs = reg_specs(rng, st)
        skip = set()
        if rng.random() < 0.5:
            regs = [r for r in regs if not r.startswith('sp=')]
            args += ['-p', optnum(rng, st['sp'])]
        if rng.random() < 0.5:
            regs = [r for r in regs if not r.startswith('pc=')]
            args += ['-s', optnum(rng, st['pc'])]
        if rng.random() < 0.5:
            skip.add('border')
            args += ['-b', str(st['border'])]
        binf = os.path.join(wd, tag + '.bin')
        if machine == '48K':
            ram = banks[5] + banks[2] + banks[0]
            cut = rng.choice((0, 0, 1, 16384, 40000))
            # a shorter file with an explicit or implicit origin: the part below the origin must be zero
            if cut:
                ram = bytes(cut) + ram[cut:]
                banks[5], banks[2], banks[0] = ram[:BANK], ram[BANK:2 * BANK], ram[2 * BANK:]
                data = ram[cut:]
                if rng.random() < 0.5:
                    args += ['-o', optnum(rng, 16384 + cut)]
            else:
                data = ram
            with open(binf, 'wb') as f:
                f.write(data)
        elif rng.random() < 0.5:
            with open(binf, 'wb') as f:
                f.write(b''.join(banks[b] for b in range(8)))
            if rng.random() < 0.5:
                # --page alone also sets 7ffd; the explicit --state 7ffd given later wins
                args += ['--page', str(rng.randrange(8))]
        else:
            page = rng.choice((0, 1, 3, 4, 6, 7, 5, 2))
            if page in (5, 2):
                banks[page] = banks[page]
                main = banks[5] + banks[2] + banks[page]
            else:
                main = banks[5] + banks[2] + banks[page]
            with open(binf, 'wb') as f:
                f.write(main)
            args += ['--page', str(page)]
            for b in range(8):
                if b not in (5, 2, page):
                    if rng.random() < 0.8:
                        bf = os.path.join(wd, '%s-b%d.bin' % (tag, b))
                        data = banks[b]
                        if rng.random() < 0.3:
                            # a short bank file is padded with zeros
                            n = rng.randrange(1, BANK)
                            data = data[:n]
                            banks[b] = data + bytes(BANK - n)
                        with open(bf, 'wb') as f:
                            f.write(data)
                        args += ['--bank', '%d,%s' % (b, bf)]
                    else:
                        banks[b] = bytes(BANK)
            if page in (5, 2):
                # the main file's third 16K is the same bank as its first/second: the last copy wins
                pass
        for r in regs:
            args += ['-r', r]
        for s in state_specs(rng, st, machine, skip):
            args += ['-S', s]
        rng_args = args + [binf, path]
        return quiet_main(bin2sna, rng_args)
    raise MachineryError('unknown route ' + route)


def want_record(st):
    return {k: st[k] for k in ('a', 'f', 'bc', 'de', 'hl', 'a2', 'f2', 'bc2', 'de2', 'hl2', 'ix', 'iy', 'sp', 'pc', 'i', 'r',
                               'iff', 'im', 'border', 'issue2', 't', 'o7ffd', 'offfd', 'ay', 'fe', 'memptr')}


def file_case_worker(job):
    wd, n, sd, route, machine, tclass = job
    rng = random.Random(sd)
    st = gen_state(rng, machine, tclass)
    banks = gen_banks(rng, machine)
    dontcare, crossdc, ver = [], [], 3
    if route == 'gs':
        st['issue2'] = 0                      # not named by get_state: documented default
    if route == 'b2s' and machine == '+2':
        machine = '128K'
    files = []
    if route in ('ws', 'gs', 'b2s'):
        bsrc = None
        for fmt in ('z80', 'szx'):
            path = os.path.join(wd, 'f%d.%s' % (n, fmt))
            b = dict(banks)
            err = write_route(random.Random(sd + 1), route, path, st, b, machine, wd, 'f%d%s' % (n, fmt))
            if err:
                files.append(dict(fmt=fmt, rerr='write:' + err, ierr='', real=NOFIELDS, ind=NOFIELDS, banks=[], rextra=[], iextra=[],
                                  **raw_record(path, None)))
                continue
            rec, _ = observe(path, b)
            files.append(rec)
    elif route.startswith('mod'):
        # an independently written file (v1/v2/v3, compressed or not; szx) passed through snapmod unchanged
        from skoolkit import snapmod
        kind = route[4:]
        if kind.startswith('v1') and st['pc'] == 0:
            st['pc'] = 0x8000             # a version 1 file cannot say PC=0 (that marks version 2/3)
        s = dict(st)
        s.update(iff1=st['iff'], iff2=st['iff'], tstates=st['t'] % FRAMES[machine], machine=machine, banks=banks)
        fmt = 'szx' if kind.startswith('szx') else 'z80'
        src = os.path.join(wd, 'f%d-in.%s' % (n, fmt))
        path = os.path.join(wd, 'f%d.%s' % (n, fmt))
        if fmt == 'szx':
            data = snapfile.write_szx(s, compress=kind == 'szx')
        else:
            ver = int(kind[1])
            data = snapfile.write_z80(s, ver, compress=not kind.endswith('raw'), hdr_len=55 if kind.endswith('x') else None)
            dontcare += ['fe', 'memptr']
        with open(src, 'wb') as f:
            f.write(data)
        err = quiet_main(snapmod, [src, path])
        if err:
            files.append(dict(fmt=fmt, rerr='snapmod:' + err, ierr='', real=NOFIELDS, ind=NOFIELDS, banks=[], rextra=[], iextra=[],
                              **raw_record(path, None)))
        else:
            rec, _ = observe(path, banks)
            files.append(rec)
    tkey = 't-ge-2^24' if st['t'] >= T24 else ('t-ge-frame' if st['t'] >= FRAMES[machine] else 't-in-frame')
    return dict(key='%s:%s:%s' % (route, machine, tkey), route=route, machine=machine, want=want_record(st), dontcare=dontcare,
                crossdontcare=crossdc, ver=ver, files=files, seed=sd, n=n)


def defaults_case(wd, n, route, machine):
    """Nothing named: the documented defaults must be written (iff=1, im=1, tstates=34943, border, issue2=0)."""
    snapshot = _sk()
    from skoolkit import bin2sna
    rng = random.Random(n)
    banks = gen_banks(rng, machine)
    st = gen_state(rng, machine)
    st.update(iff=1, im=1, t=34943, issue2=0, fe=0, memptr=0, o7ffd=0, offfd=0, ay=[0] * 16, border=0)
    dontcare = ['a', 'f', 'bc', 'de', 'hl', 'a2', 'f2', 'bc2', 'de2', 'hl2', 'ix', 'iy', 'i', 'r']
    files = []
    for fmt in ('z80', 'szx'):
        path = os.path.join(wd, 'd%d.%s' % (n, fmt))
        if route == 'ws':
            dc = dontcare + ['sp', 'pc']
            try:
                snapshot.write_snapshot(path, ram_arg(banks), [], [], machine)
            except Exception as e:
                files.append(dict(fmt=fmt, rerr='write:%s:%s' % (type(e).__name__, str(e)[:200]), ierr='', real=NOFIELDS, ind=NOFIELDS,
                                  banks=[], rextra=[], iextra=[], **raw_record(path, None)))
                continue
        else:
            # bin2sna: border default 7, stack and start default to the origin
            dc = dontcare
            binf = os.path.join(wd, 'd%d.bin' % n)
            if machine == '48K':
                ram = bytes(1000) + (banks[5] + banks[2] + banks[0])[1000:]
                banks[5], banks[2], banks[0] = ram[:BANK], ram[BANK:2 * BANK], ram[2 * BANK:]
                with open(binf, 'wb') as f:
                    f.write(ram[1000:])
                st.update(border=7, sp=17384, pc=17384)
            else:
                with open(binf, 'wb') as f:
                    f.write(b''.join(banks[b] for b in range(8)))
                st.update(border=7, sp=0, pc=0)
            err = quiet_main(bin2sna, [binf, path])
            if err:
                files.append(dict(fmt=fmt, rerr='write:' + err, ierr='', real=NOFIELDS, ind=NOFIELDS, banks=[], rextra=[], iextra=[],
                                  **raw_record(path, None)))
                continue
        rec, _ = observe(path, banks)
        files.append(rec)
    return dict(key='%s:%s:defaults' % (route, machine), route=route, machine=machine, want=want_record(st), dontcare=dc,
                crossdontcare=['i', 'iy'], ver=3, files=files, seed=n, n=n)


def file_jobs(wd, sd, per_combo, nbig):
    jobs = []
    n = 0
    for route in ('ws', 'gs', 'b2s'):
        for machine in ('48K', '128K', '+2'):
            if route == 'b2s' and machine == '+2':
                continue
            for k in range(per_combo):
                jobs.append((wd, n, sd * 1000003 + n, route, machine, 'frame'))
                n += 1
            for k in range(nbig):
                jobs.append((wd, n, sd * 1000003 + n, route, machine, 'big'))
                n += 1
    for route in ('mod:v1', 'mod:v1raw', 'mod:v2', 'mod:v2raw', 'mod:v3', 'mod:v3raw', 'mod:v3x', 'mod:szx', 'mod:szxraw'):
        for machine in ('48K', '128K', '+2'):
            if route.startswith('mod:v1') and machine != '48K':
                continue
            for k in range(max(1, per_combo // 4)):
                jobs.append((wd, n, sd * 1000003 + n, route, machine, 'frame'))
                n += 1
    return jobs


# ------------------------------------------------------------------------------------------------
# bin2sna / snapmod option traces (SnapOpsTrace.tla)
# ------------------------------------------------------------------------------------------------
def base_cell(c):
    return ((c * 7) + ((c // 256) * 13) + ((c // BANK) * 101) + 3) % 256       # SnapOps!Base


def base_bank(bank):
    return bytes(base_cell(bank * BANK + off) for off in range(BANK))


_BASE = {}


def base_banks(machine):
    order = (5, 2, 0) if machine == '48K' else range(8)
    for b in order:
        if b not in _BASE:
            _BASE[b] = base_bank(b)
    return {b: _BASE[b] for b in order}


MODEL_REGS = ('a', 'f', 'b', 'c', 'bc', 'd', 'e', 'de', 'h', 'l', 'hl', 'a2', 'f2', 'b2', 'c2', 'bc2', 'd2', 'e2', 'de2',
              'h2', 'l2', 'hl2', 'ix', 'iy', 'sp', 'pc', 'i', 'r', 'memptr')
MODEL_REG16 = ('bc', 'de', 'hl', 'bc2', 'de2', 'hl2', 'ix', 'iy', 'sp', 'pc', 'memptr')
EDGES = (0x3FF0, 0x4000, 0x7FF0, 0x8000, 0xBFF0, 0xC000, 0xFFD0)


def op(k, **kw):
    o = dict(k=k, name='', idx=0, v=0, page=-1, a=0, b=0, step=1, op='set', n=0, dpage=-1, dst=0, data=[])
    o.update(kw)
    return o


def opt_reg_name(name):
    return '^' + name[:-1] if name.endswith('2') else name


def gen_reg_op(rng, avoid_pc0=False):
    name = rng.choice(MODEL_REGS)
    v = pick16(rng) if name in MODEL_REG16 else pick8(rng)
    if name == 'pc' and avoid_pc0 and v == 0:
        v = 0x1234
    return op('reg', name=name, v=v)


def gen_state_op(rng, machine):
    names = ['iff', 'im', 'border', 'issue2', 'tstates', 'fe']
    if machine != '48K':
        names += ['7ffd', '7ffd', 'fffd', 'ay', 'ay']
    name = rng.choice(names)
    if name == 'iff' or name == 'issue2':
        v = rng.randrange(2)
    elif name == 'im':
        v = rng.randrange(3)
    elif name == 'border':
        v = rng.randrange(8)
    elif name == 'tstates':
        v = rng.choice(t_values(machine) + [rng.randrange(FRAMES[machine])] * 8)
    elif name == '7ffd':
        v = rng.choice((0, 1, 2, 3, 4, 5, 6, 7, 0x10, 0x15, 0x2F, 0xFF, rng.randrange(256)))
    else:
        v = pick8(rng)
    return op('state', name=name, idx=rng.randrange(16) if name == 'ay' else 0, v=v)


def gen_addr(rng, span):
    """An address such that [addr, addr+span) lies in 0..65535, biased to the 16K boundaries."""
    r0 = rng.random()
    if r0 < 0.12:
        return 0x10000 - max(span, 1)              # the range ends with the last byte of memory
    if r0 < 0.18:
        return 0x4000                              # ... or starts with the first byte of RAM
    if rng.random() < 0.6:
        e = rng.choice(EDGES)
        a = e + rng.randrange(-span, 17) if e in (0x4000, 0x8000, 0xC000) else e + rng.randrange(0, 16)
    else:
        a = rng.randrange(0x3F00, 0x10000)
    return max(0, min(a, 0x10000 - max(span, 1)))


def gen_poke_op(rng, machine):
    page = rng.randrange(8) if machine != '48K' and rng.random() < 0.45 else -1
    form = rng.randrange(3)
    step = 1
    cnt = 1
    if form >= 1:
        cnt = rng.choice((1, 2, 3, 5, 17, 40))
    if form == 2:
        step = rng.choice((1, 2, 3, 7, 255, 256, 0x4000, 0x8000))
    span = (cnt - 1) * step + 1
    if span > 0xC000:
        cnt = 2
        span = step + 1
    a = gen_addr(rng, span)
    if page >= 0 and rng.random() < 0.5:
        a %= BANK                                   # bank offsets instead of addresses
    b = a + (cnt - 1) * step + (rng.randrange(step) if step > 1 and a + (cnt - 1) * step + step - 1 <= 0xFFFF else 0)
    if form == 0:
        b, step = a, 1
    o = op('poke', page=page, a=a, b=b, step=step, op=rng.choice(('set', 'set', 'xor', 'add')), v=pick8(rng))
    o['form'] = form
    return o


def gen_move_op(rng, machine):
    n = rng.choice((0, 1, 2, 7, 16, 33, 48))
    if machine != '48K' and rng.random() < 0.45:
        sp = rng.randrange(8)
        dp = rng.choice((sp, rng.randrange(8), rng.randrange(8)))
        src = rng.choice((0, BANK - n, rng.randrange(0, BANK - n + 1)))
        dst = rng.choice((0, BANK - n, rng.randrange(0, BANK - n + 1), max(0, min(src + rng.randrange(-8, 9), BANK - n))))
        if rng.random() < 0.5:
            src += 0xC000
        if rng.random() < 0.5:
            dst += 0xC000
        return op('move', page=sp, a=src, n=n, dpage=dp, dst=dst)
    src = max(0x4000, gen_addr(rng, n))
    if rng.random() < 0.35:
        dst = max(0, min(src + rng.randrange(-n - 2, n + 3), 0x10000 - n))        # overlapping
    else:
        dst = gen_addr(rng, n)
    return op('move', a=src, n=n, dst=dst)


def gen_patch_op(rng, machine):
    data = [pick8(rng) for _ in range(rng.choice((1, 2, 5, 16, 40)))]
    if machine != '48K' and rng.random() < 0.45:
        page = rng.randrange(8)
        a = rng.choice((0, BANK - len(data), BANK - len(data) + rng.randrange(1, len(data) + 1) - 1, BANK - 1, rng.randrange(BANK)))
        if rng.random() < 0.5:
            a += 0xC000
        return op('patch', page=page, a=a, data=data)
    return op('patch', a=gen_addr(rng, len(data)), data=data)


def op_args(rng, o, tool, wd, tag):
    """Render one model option as command-line arguments of bin2sna ('b') or snapmod ('m')."""
    k = o['k']
    if k == 'reg':
        return ['-r', '%s=%s' % (opt_reg_name(o['name']), num(rng, o['v']))]
    if k == 'state':
        name = 'ay[%d]' % o['idx'] if o['name'] == 'ay' else o['name']
        return ['-S' if tool == 'b' else '-s', '%s=%d' % (name, o['v'])]
    pfx = '%d:' % o['page'] if o['page'] >= 0 else ''
    if k == 'poke':
        form = o.get('form', 2)
        if form == 0:
            rng_s = num(rng, o['a'])
        elif form == 1:
            rng_s = '%s-%s' % (num(rng, o['a']), num(rng, o['b']))
        else:
            rng_s = '%s-%s-%s' % (num(rng, o['a']), num(rng, o['b']), num(rng, o['step']))
        val = {'set': '', 'xor': '^', 'add': '+'}[o['op']] + num(rng, o['v'])
        return ['-P' if tool == 'b' else '-p', '%s%s,%s' % (pfx, rng_s, val)]
    if k in ('move', 'moveover'):
        dp = ''
        if o['page'] >= 0 and (o['dpage'] != o['page'] or o.get('explicit') or rng.random() < 0.5):
            dp = '%d:' % o['dpage']
        return ['-m', '%s%s,%s,%s%s' % (pfx, num(rng, o['a']), num(rng, o['n']), dp, num(rng, o['dst']))]
    if k == 'patch':
        pf = os.path.join(wd, tag + '.patch')
        with open(pf, 'wb') as f:
            f.write(bytes(o['data']))
        return ['--patch', '%s%s,%s' % (pfx, num(rng, o['a']), pf)]
    raise MachineryError('unknown op ' + k)


MAXDIFF = 1500


def bank_diff(prev, cur):
    """-> sorted [[cell, new value]...] over all banks present, toomany flag"""
    out = []
    for b in sorted(set(prev) | set(cur)):
        p, c = prev.get(b), cur.get(b)
        if p == c:
            continue
        if p is None or c is None or len(p) != len(c):
            return [], 1
        for off in range(BANK):
            if p[off] != c[off]:
                out.append([b * BANK + off, c[off]])
                if len(out) > MAXDIFF:
                    return out[:MAXDIFF], 1
    return out, 0


def obs_of(path, prev_banks, err):
    if err:
        return dict(err=err, ind=NOFIELDS, real=NOFIELDS, diff=[], toomany=0, same=0), prev_banks
    rf, rb, rerr = read_real(path)
    jf, jb, raw, jerr = read_ind(path)
    if rerr or jerr:
        return dict(err='read:' + (jerr or rerr), ind=NOFIELDS, real=NOFIELDS, diff=[], toomany=0, same=0), prev_banks
    diff, toomany = bank_diff(prev_banks, jb)
    for rec in (rf, jf):
        rec['a2'], rec['f2'] = rec['a2'], rec['f2']
    return dict(err='', ind=jf, real=rf, diff=diff, toomany=toomany, same=int(rb == jb)), jb


def all_named_ops(rng, machine, fmt, ver):
    """Options naming every register and attribute (used for the step that creates the snapshot)."""
    st = gen_state(rng, machine)
    if ver == 1 and st['pc'] == 0:
        st['pc'] = 0x6000
    if st['t'] >= T24:
        st['t'] %= FRAMES[machine]
    ops = [op('reg', name=n, v=st[n]) for n in ('a', 'f', 'bc', 'de', 'hl', 'a2', 'f2', 'bc2', 'de2', 'hl2', 'ix', 'iy', 'sp', 'pc',
                                                'i', 'r', 'memptr')]
    rng.shuffle(ops)
    sops = [op('state', name='iff', v=st['iff']), op('state', name='im', v=st['im']), op('state', name='border', v=st['border']),
            op('state', name='issue2', v=st['issue2']), op('state', name='tstates', v=st['t']), op('state', name='fe', v=st['fe'])]
    if machine != '48K':
        sops += [op('state', name='fffd', v=st['offfd'])] + [op('state', name='ay', idx=n, v=v) for n, v in enumerate(st['ay'])]
    rng.shuffle(sops)
    return ops, sops, st


def trace_worker(job):
    wd, n, sd, nsteps = job[:4]
    sweep = list(job[4]) if len(job) > 4 else None      # (source bank, destination bank) pairs: one explicit paged move each
    rng = random.Random(sd)
    snapshot = _sk()
    from skoolkit import bin2sna, snapmod
    machine = rng.choice(('48K', '128K', '128K', '+2'))
    create = rng.choice(('b2s', 'b2s', 'ws', 'v1', 'v2', 'ind3', 'indszx'))
    if sweep:
        machine = rng.choice(('128K', '+2'))
        create = rng.choice(('ws', 'ind3', 'indszx'))
        nsteps = len(sweep)
    if create == 'v1':
        machine = '48K'
    if create == 'b2s' and machine == '+2':
        machine = '128K'
    fmt = 'szx' if create == 'indszx' else ('z80' if create in ('v1', 'v2', 'ind3') else rng.choice(('z80', 'szx')))
    ver = {'v1': 1, 'v2': 2}.get(create, 3)
    banks = base_banks(machine)
    path = os.path.join(wd, 't%d.%s' % (n, fmt))
    steps = []
    regops, stateops, st = all_named_ops(rng, machine, fmt, ver)
    p7 = rng.randrange(8) if machine != '48K' else 0
    if create == 'b2s':
        binf = os.path.join(wd, 't%d.bin' % n)
        pokes = []
        args = []
        if machine == '48K':
            with open(binf, 'wb') as f:
                f.write(banks[5] + banks[2] + banks[0])
            first = []
        else:
            with open(binf, 'wb') as f:
                f.write(b''.join(banks[b] for b in range(8)))
            args += ['--page', str(p7)]
            first = [op('state', name='7ffd', v=p7)]
        for _ in range(rng.randrange(0, 4)):
            pokes.append(gen_poke_op(rng, machine))
        ops = first + pokes + regops + stateops
        for o in pokes + regops + stateops:
            args += op_args(rng, o, 'b', wd, 't%d' % n)
        err = quiet_main(bin2sna, args + [binf, path])
    elif create == 'ws':
        o7 = [op('state', name='7ffd', v=rng.randrange(256))] if machine != '48K' else []
        ops = regops + stateops + o7
        regs = [op_args(rng, o, 'b', wd, '')[1] for o in regops]
        state = [op_args(rng, o, 'b', wd, '')[1] for o in stateops + o7]
        try:
            snapshot.write_snapshot(path, ram_arg(banks), regs, state, machine)
            err = ''
        except Exception as e:
            err = '%s:%s' % (type(e).__name__, e)
    else:
        # an independently written blank file (registers 0, documented default attributes), then snapmod names everything
        s0 = dict(a=0, f=0, bc=0, de=0, hl=0, a2=0, f2=0, bc2=0, de2=0, hl2=0, ix=0, iy=0, sp=0, pc=1 if ver == 1 else 0, i=0, r=0,
                  iff1=1, iff2=1, im=1, border=0, issue2=0, tstates=34943, machine=machine, o7ffd=0, offfd=0, ay=[0] * 16, fe=0,
                  memptr=0, banks=banks)
        with open(path, 'wb') as f:
            f.write(snapfile.write_szx(s0) if fmt == 'szx' else snapfile.write_z80(s0, ver, compress=rng.random() < 0.7))
        o7 = [op('state', name='7ffd', v=rng.randrange(256))] if machine != '48K' else []
        ops = regops + stateops + o7
        args = []
        for o in ops:
            args += op_args(rng, o, 'm', wd, 't%d' % n)
        err = quiet_main(snapmod, args + [path])
    obs, cur = obs_of(path, banks, err)
    steps.append(dict(ops=ops, obs=obs, tool='bin2sna' if create == 'b2s' else create))
    k = 0
    while k < nsteps and not obs['err']:
        k += 1
        r = rng.random()
        cnt = 1 if r < 0.75 else rng.randrange(2, 5)
        cls = rng.choice(('reg', 'state', 'mem', 'mem', 'mem'))
        ops = []
        if sweep:
            # every (source bank, destination bank) pair with both prefixes written out
            sp, dp = sweep[k - 1]
            cnt, cls = 0, 'mem'
            mn = rng.choice((1, 2, 7, 16))
            o = op('move', page=sp, a=rng.randrange(0, BANK - mn + 1) + rng.choice((0, 0xC000)), n=mn, dpage=dp,
                   dst=rng.randrange(0, BANK - mn + 1) + rng.choice((0, 0xC000)))
            o['explicit'] = 1
            ops.append(o)
        for _ in range(cnt):
            if cls == 'reg':
                # (PC=0 on a version 1 file is allowed here: snapmod has to write a later version then, and everything it was
                #  not asked to change must still read back the same)
                o = gen_reg_op(rng, False)
                if ver == 1 and rng.random() < 0.25:
                    o = op('reg', name='pc', v=0)
                ops.append(o)
            elif cls == 'state':
                ops.append(gen_state_op(rng, machine))
            else:
                kind = rng.choice(('poke', 'poke', 'move', 'patch'))
                ops.append({'poke': gen_poke_op, 'move': gen_move_op, 'patch': gen_patch_op}[kind](rng, machine))
        if cls == 'mem' and cnt > 1:
            # snapmod applies patches, then moves, then pokes (options of one kind in command-line order)
            ops.sort(key=lambda o: ('patch', 'move', 'poke').index(o['k']))
        args = []
        for j, o in enumerate(ops):
            args += op_args(rng, o, 'm', wd, 't%d-%d-%d' % (n, k, j))
        out = path
        if rng.random() < 0.3:
            out = os.path.join(wd, 't%d-%d.%s' % (n, k, fmt))
            args += [path, out]
        else:
            args += [path]
        err = quiet_main(snapmod, args)
        obs, cur = obs_of(out, cur, err)
        steps.append(dict(ops=ops, obs=obs, tool='snapmod', args=[a for a in args if not a.startswith(wd)]))
        path = out
    return dict(fmt=fmt, ver=ver, machine=machine, create=create, steps=steps, seed=sd, n=n, nsteps=nsteps)


def over_trace_worker(job):
    """A bank-prefixed --move whose source or destination range does not fit inside the 16K bank (SnapOps!MoveOver:
    only the frame condition is specified). One creation step + one snapmod invocation."""
    wd, n, sd, variant = job
    rng = random.Random(sd)
    snapshot = _sk()
    from skoolkit import snapmod
    machine = ('128K', '+2')[n % 2]
    fmt = ('z80', 'szx')[(n // 2) % 2]
    banks = base_banks(machine)
    path = os.path.join(wd, 'o%d.%s' % (n, fmt))
    regops, stateops, st = all_named_ops(rng, machine, fmt, 3)
    o7 = [op('state', name='7ffd', v=rng.randrange(256))]
    ops = regops + stateops + o7
    regs = [op_args(rng, o, 'b', wd, '')[1] for o in regops]
    state = [op_args(rng, o, 'b', wd, '')[1] for o in stateops + o7]
    try:
        snapshot.write_snapshot(path, ram_arg(banks), regs, state, machine)
        err = ''
    except Exception as e:
        err = 'write_snapshot:%s:%s' % (type(e).__name__, str(e)[:200])
    obs, cur = obs_of(path, banks, err)
    steps = [dict(ops=ops, obs=obs, tool='ws')]
    if err:
        return dict(fmt=fmt, ver=3, machine=machine, create='ws', steps=steps, seed=sd, n=n, nsteps=1, over=variant)
    sp, dp = rng.randrange(8), rng.randrange(8)
    cnt = rng.choice((2, 10, 33))
    if variant == 'src':
        src, dst = BANK - rng.randrange(1, cnt), rng.randrange(0, BANK - cnt)
    elif variant == 'dst':
        src, dst = rng.randrange(0, BANK - cnt), BANK - rng.randrange(1, cnt)
    else:
        src, dst = BANK - rng.randrange(1, cnt), BANK - rng.randrange(1, cnt)
    if rng.random() < 0.5:
        src += 0xC000
        dst += 0xC000
    o = op('moveover', page=sp, a=src, n=cnt, dpage=dp, dst=dst)
    args = op_args(rng, o, 'm', wd, '') + [path]
    err = quiet_main(snapmod, args)
    obs, cur = obs_of(path, cur, err)
    steps.append(dict(ops=[o], obs=obs, tool='snapmod', args=[a for a in args if not a.startswith(wd)]))
    return dict(fmt=fmt, ver=3, machine=machine, create='ws', steps=steps, seed=sd, n=n, nsteps=1, over=variant)
