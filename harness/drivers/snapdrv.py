"""C09 driver: drives skoolkit's snapshot writer/reader, bin2sna and snapmod and projects what they
did into small abstract records for the TLA+ judges in spec/codec (DESIGN §4 C09).

  rle_tables()      pattern D tables: real Z80._make_z80_ram_block / Z80._decompress on every short string
  long_cases()      pattern B: structured banks (long runs) through the real file writer/reader
  file_cases()      pattern B: machine states written by write_snapshot / bin2sna / get_state in both formats
  op_traces()       sequential traces: random bin2sna / snapmod invocations, full state diff after each
"""
import contextlib
import io
import os
import random
import zlib

from ..lib import cbuild
from ..lib.common import MachineryError
from . import snapfile

ENC_ALPHA = (0xED, 0x00, 0x01)
DEC_ALPHA = (0xED, 0x00, 0x01, 0x02, 0x05)
ERR = [-1]


def _sk():
    cbuild.repo_only()
    import skoolkit.snapshot as snapshot
    from ..lib.common import REPO
    if not os.path.abspath(snapshot.__file__).startswith(os.path.abspath(REPO) + os.sep):
        raise MachineryError('skoolkit imported from %s, not %s' % (snapshot.__file__, REPO))
    return snapshot


def nth_string(alpha, n, idx):
    k = len(alpha)
    out = []
    for _ in range(n):
        out.append(alpha[idx % k])
        idx //= k
    return out


# ------------------------------------------------------------------------------------------------
# pattern D tables
# ------------------------------------------------------------------------------------------------
def rle_tables(encn, decn):
    snapshot = _sk()
    z = snapshot.Z80.__new__(snapshot.Z80)
    enc1, encp, dec, ind, indv1 = [], [], [], [], []
    for n in range(encn + 1):
        e1, ep = [], []
        for idx in range(len(ENC_ALPHA) ** n):
            s = nth_string(ENC_ALPHA, n, idx)
            try:
                e1.append(list(z._make_z80_ram_block(list(s))))
            except Exception:
                e1.append(ERR)
            try:
                ep.append(list(z._make_z80_ram_block(list(s), 3 + idx % 8)))
            except Exception:
                ep.append(ERR)
        enc1.append(e1)
        encp.append(ep)
    wellformed = 0
    for n in range(decn + 1):
        d, i0, i1 = [], [], []
        for idx in range(len(DEC_ALPHA) ** n):
            blk = nth_string(DEC_ALPHA, n, idx)
            try:
                d.append(list(z._decompress(list(blk))))
            except Exception:
                d.append(ERR)
            try:
                i0.append(list(snapfile.rle_decode(bytes(blk))))
                wellformed += 1
            except snapfile.FormatError:
                i0.append(ERR)
            try:
                data, used = snapfile.rle_decode_v1(bytes(blk) + b'\x00\xed\xed\x00')
                i1.append(list(data) if used == n + 4 else [-2])
            except snapfile.FormatError:
                i1.append(ERR)
        dec.append(d)
        ind.append(i0)
        indv1.append(i1)
    tab = dict(encn=encn, decn=decn, enc1=enc1, encp=encp, dec=dec, ind=ind, indv1=indv1)
    total = 2 * sum(len(ENC_ALPHA) ** n for n in range(encn + 1)) + sum(len(DEC_ALPHA) ** n for n in range(decn + 1))
    return tab, total, wellformed


# ------------------------------------------------------------------------------------------------
# running the real tools / reading files back
# ------------------------------------------------------------------------------------------------
FIELDS = ('a', 'f', 'bc', 'de', 'hl', 'a2', 'f2', 'bc2', 'de2', 'hl2', 'ix', 'iy', 'sp', 'pc', 'i', 'r',
          'iff1', 'iff2', 'im', 'border', 't', 'o7ffd', 'offfd', 'ay', 'fe', 'memptr', 'issue2', 'machine')


def quiet_main(mod, args):
    """Run a skoolkit command's main() in-process; returns '' or a one-line error description."""
    out, err = io.StringIO(), io.StringIO()
    try:
        with contextlib.redirect_stdout(out), contextlib.redirect_stderr(err):
            mod.main(list(args))
    except SystemExit as e:
        return 'exit:%s:%s' % (e.code, err.getvalue().strip()[-200:])
    except Exception as e:  # SkoolKitError and genuine crashes alike: the caller decides
        return '%s:%s' % (type(e).__name__, str(e)[:200])
    return ''


def crc2(b):
    c = zlib.crc32(bytes(b))
    return [c >> 16, c & 0xFFFF]


def firstdiff(a, b):
    if a == b:
        return -1
    n = min(len(a), len(b))
    for i in range(n):
        if a[i] != b[i]:
            return i
    return n


def ram_to_banks(ram):
    """snapshot.ram(-1) -> {bank: bytes}"""
    if ram is None:
        return {}
    if len(ram) == 0x20000:
        return {b: bytes(ram[b * 0x4000:(b + 1) * 0x4000]) for b in range(8)}
    if len(ram) == 0xC000:
        return {5: bytes(ram[:0x4000]), 2: bytes(ram[0x4000:0x8000]), 0: bytes(ram[0x8000:])}
    return {-1: bytes(ram)}


def read_real(path):
    """Project what skoolkit's own reader returns. -> (fields dict, {bank: bytes}, error string)"""
    snapshot = _sk()
    try:
        s = snapshot.Snapshot.get(path)
        ram = s.ram(-1)
        f = dict(a=s.a, f=s.f, bc=s.bc, de=s.de, hl=s.hl, a2=s.a2, f2=s.f2, bc2=s.bc2, de2=s.de2, hl2=s.hl2,
                 ix=s.ix, iy=s.iy, sp=s.sp, pc=s.pc, i=s.i, r=s.r, iff1=s.iff1, iff2=s.iff2, im=s.im,
                 border=s.border, t=s.tstates, o7ffd=s.out7ffd, offfd=s.outfffd, ay=list(s.ay), fe=s.outfe,
                 memptr=s.memptr, issue2=-1, machine=s.machine or '?')
        return f, ram_to_banks(ram), ''
    except Exception as e:
        return None, {}, '%s:%s' % (type(e).__name__, str(e)[:200])


def read_ind(path):
    """Project what the independent decoder returns. -> (fields, banks, raw, error)"""
    try:
        s = snapfile.read_snapshot(path)
    except (snapfile.FormatError, zlib.error, IndexError, ValueError, KeyError) as e:
        return None, {}, None, '%s:%s' % (type(e).__name__, str(e)[:200])
    f = {k: s[k] for k in ('a', 'f', 'bc', 'de', 'hl', 'a2', 'f2', 'bc2', 'de2', 'hl2', 'ix', 'iy', 'sp', 'pc', 'i', 'r',
                           'iff1', 'iff2', 'im', 'border', 'o7ffd', 'offfd', 'issue2', 'machine')}
    f['ay'] = list(s['ay'])
    f['t'] = -1 if s['tstates'] is None else s['tstates']
    f['fe'] = -1 if s['fe'] is None else s['fe']
    f['memptr'] = -1 if s['memptr'] is None else s['memptr']
    f['iff1'], f['iff2'] = s['iff1_raw'], s['iff2_raw']
    return f, dict(s['banks']), s['raw'], ''


NOFIELDS = dict(a=-1, f=-1, bc=-1, de=-1, hl=-1, a2=-1, f2=-1, bc2=-1, de2=-1, hl2=-1, ix=-1, iy=-1, sp=-1, pc=-1,
                i=-1, r=-1, iff1=-1, iff2=-1, im=-1, border=-1, t=-1, o7ffd=-1, offfd=-1, ay=[-1] * 16, fe=-1,
                memptr=-1, issue2=-1, machine='?')


def raw_record(path, raw):
    """The raw container pieces TLC decodes itself with SnapFields."""
    if raw is None:
        return dict(hdr=[], head=[], z80r=[], spcr=[], ay=[], keyb=[])
    if path.endswith('.z80'):
        return dict(hdr=list(raw['header']), head=[], z80r=[], spcr=[], ay=[], keyb=[])
    ch = raw['chunks']
    return dict(hdr=[], head=list(raw['header']), z80r=list(ch.get(b'Z80R', b'')), spcr=list(ch.get(b'SPCR', b'')),
                ay=list(ch.get(b'AY\x00\x00', b'')), keyb=list(ch.get(b'KEYB', b'')))


def observe(path, written):
    """Read `path` with both decoders and compare the RAM with `written` ({bank: bytes}).
    -> record for TLC (fields of both readers, raw header pieces, per-bank equality facts + digests)."""
    rf, rb, rerr = read_real(path)
    jf, jb, raw, jerr = read_ind(path)
    rec = dict(fmt=path[-3:], rerr=rerr, ierr=jerr, real=rf or NOFIELDS, ind=jf or NOFIELDS)
    rec.update(raw_record(path, raw))
    banks = []
    for b in sorted(written):
        w = written[b]
        r_, i_ = rb.get(b), jb.get(b)
        banks.append(dict(bank=b, w=crc2(w),
                          r=crc2(r_) if r_ is not None else [-1, -1], rdiff=firstdiff(w, r_) if r_ is not None else -2,
                          i=crc2(i_) if i_ is not None else [-1, -1], idiff=firstdiff(w, i_) if i_ is not None else -2))
    rec['banks'] = banks
    rec['rextra'] = sorted(set(rb) - set(written))
    rec['iextra'] = sorted(set(jb) - set(written))
    return rec, raw


def ram_arg(banks):
    """{bank: bytes} -> the `ram` argument of write_snapshot (8 lists for 128K, flat 48K list otherwise)"""
    if len(banks) == 8:
        return [list(banks[b]) for b in range(8)]
    return list(banks[5]) + list(banks[2]) + list(banks[0])


# ------------------------------------------------------------------------------------------------
# long run-length inputs (pattern B, RleLong.tla)
# ------------------------------------------------------------------------------------------------
RUN_LENS = (1, 2, 3, 4, 5, 254, 255, 256, 257, 258, 509, 510, 511, 512, 513)
BANK = 0x4000


def runs_bytes(runs):
    return b''.join(bytes([b]) * n for b, n in runs)


def norm_runs(runs):
    out = []
    for b, n in runs:
        if n == 0:
            continue
        if out and out[-1][0] == b:
            out[-1][1] += n
        else:
            out.append([b, n])
    return out


def fill(runs, size, filler):
    """Pad a run list to `size` bytes with a filler run (not equal to the last byte)."""
    used = sum(n for _, n in runs)
    if used > size:
        raise MachineryError('bank overflow: %d' % used)
    if used < size:
        f = filler
        while runs and f in (runs[-1][0], 0xED):
            f = (f + 1) % 256
        runs = runs + [[f, size - used]]
    return runs


def seps_for(v, k):
    """Separator byte strings placed between runs: plain byte, ED directly before/after the run, ED ED."""
    o = (v + 1) % 256 if (v + 1) % 256 != 0xED else 0xEF
    if v == 0xED:
        return ([[o, 1]], [[0, 1]], [[o, 2]], [[1, 1], [o, 1]])[k % 4]
    return ([[o, 1]], [[0xED, 1]], [[o, 1], [0xED, 1]], [[0xED, 1], [o, 1]], [[0xED, 2]], [[o, 1], [0xED, 3], [o, 1]])[k % 6]


def long_bank_specs(rng, nrandom):
    """-> list of (class key, runs) with sum of runs == 16384."""
    specs = []
    # A: runs of every byte value, lengths around 1..5, 254..258, 509..513, all separator contexts
    cur, used, k, names = [], 0, 0, []
    for v in range(256):
        need = sum(RUN_LENS) + 4 * len(RUN_LENS)
        if used + need > BANK - 8:
            specs.append(('A:%s' % '-'.join(names), fill(cur, BANK, 0x77)))
            cur, used, names = [], 0, []
        names.append('%02X' % v)
        order = list(RUN_LENS)
        rng.shuffle(order)
        for L in order:
            sep = seps_for(v, k)
            k += 1
            cur += [[v, L]] + [list(x) for x in sep]
            used += L + sum(n for _, n in sep)
    specs.append(('A:%s' % '-'.join(names), fill(cur, BANK, 0x77)))
    # B: runs of ED of every length 1..600
    cur, used, first = [], 0, 1
    seps = (0, 5, 255, 0xEC, 0xEE)
    for L in range(1, 601):
        if used + L + 1 > BANK - 8:
            specs.append(('B:ED%d-%d' % (first, L - 1), fill(cur, BANK, 0x33)))
            cur, used, first = [], 0, L
        cur += [[0xED, L], [seps[L % 5], 1 + (L % 3 == 0) * 5]]
        used += L + 1 + (L % 3 == 0) * 5
    specs.append(('B:ED%d-600' % first, fill(cur, BANK, 0x33)))
    # C: banks beginning / ENDING in 1..6 EDs, also directly after a run / a literal
    for n in range(1, 7):
        for pre in ([[0, 300]], [[1, 1], [2, 1], [3, 1]], [[0xED, 1], [9, 7]], [[4, 255]], [[4, 256]], [[0xED, 2], [8, 1]]):
            head = [[0xED, n], [7, 3]]
            tail = [list(x) for x in pre] + [[0xED, n]]
            mid = BANK - sum(m for _, m in head) - sum(m for _, m in tail)
            specs.append(('C:end%d' % n, head + [[0x55, mid]] + tail))
    # whole bank one byte (64 tokens of 255 + one of 64), whole bank ED, alternating ED x
    specs.append(('C:all00', [[0, BANK]]))
    specs.append(('C:allED', [[0xED, BANK]]))
    specs.append(('C:allFF', [[0xFF, BANK]]))
    alt = []
    for j in range(120):
        alt += [[0xED, 1], [j % 7, 1 + (j % 11 == 0) * 6]]
    specs.append(('C:altED', fill(alt, BANK, 0x21)))
    # D: random structured banks, ED-rich
    for j in range(nrandom):
        runs = []
        for _ in range(rng.randrange(20, 70)):
            b = rng.choice((0xED, 0xED, 0, 1, 0xFF, 0xEC, 0xEE, rng.randrange(256)))
            n = rng.choice((1, 1, 1, 2, 2, 3, 4, 5, 6, 7, rng.randrange(1, 40), 254, 255, 256, 257, 510, 511, 765, 766))
            runs.append([b, n])
        runs = norm_runs(runs)
        specs.append(('D:rnd%d' % j, fill(runs, BANK, rng.randrange(256))))
    out = []
    for key, runs in specs:
        runs = norm_runs(runs)
        if sum(n for _, n in runs) != BANK:
            raise MachineryError('bank spec %s has %d bytes' % (key, sum(n for _, n in runs)))
        out.append((key, runs))
    return out


BLK_LIMIT = 2600     # longest block handed to TLC byte by byte


def _block_case(key, form, runs, blen, chunk, page, wantpage, fact):
    big = len(chunk) > BLK_LIMIT
    return dict(key=key, form=form, runs=norm_runs(runs), total=sum(n for _, n in runs), lenfield=-1 if blen is None else blen,
                page=page, wantpage=wantpage, big=1 if big else 0, blklen=len(chunk), blk=[] if big else list(chunk), **fact)


def long_file_worker(job):
    """job = (workdir, name, kind, machine, [(key, runs)...]) -> list of RleLong cases.
    kind: 'ws' write_snapshot .z80 (v3) | 'v1' / 'v2' / 'raw' independent file passed through snapmod."""
    wd, name, kind, machine, specs = job
    snapshot = _sk()
    from skoolkit import snapmod
    nb = len(specs)
    order = list(range(8)) if nb == 8 else [5, 2, 0]
    written = {b: runs_bytes(specs[j][1]) for j, b in enumerate(order)}
    path = os.path.join(wd, name + '.z80')
    err = ''
    if kind == 'ws':
        snapshot.write_snapshot(path, ram_arg(written), ['pc=32768'], [], machine)
    else:
        src = os.path.join(wd, name + '-in.z80')
        st = dict(a=1, f=2, bc=3, de=4, hl=5, a2=6, f2=7, bc2=8, de2=9, hl2=10, ix=11, iy=12, sp=13, pc=32768, i=14, r=15,
                  iff1=1, iff2=1, im=1, border=3, issue2=0, tstates=100, machine=machine, o7ffd=0, offfd=0, ay=[0] * 16,
                  banks=written)
        ver = {'v1': 1, 'v2': 2, 'raw': 3, 'v1raw': 1}[kind]
        with open(src, 'wb') as f:
            f.write(snapfile.write_z80(st, ver, compress=kind in ('v1', 'v2')))
        err = quiet_main(snapmod, [src, path])
    cases = []
    if err:
        return [dict(key='%s:%s' % (kind, specs[0][0]), form='error', err=err, runs=[], total=0, lenfield=-1, page=-1, wantpage=-1,
                     big=1, blklen=0, blk=[], req=0, rdiff=-2, ieq=0, idiff=-2, w=[0, 0], r=[-1, -1], i=[-1, -1], ver=0)]
    rec, raw = observe(path, written)
    facts = {x['bank']: x for x in rec['banks']}
    if raw is None or rec['rerr'] or rec['ierr']:
        return [dict(key='%s:%s' % (kind, specs[0][0]), form='error', err=(rec['rerr'] or rec['ierr']), runs=[], total=0, lenfield=-1,
                     page=-1, wantpage=-1, big=1, blklen=0, blk=[], req=0, rdiff=-2, ieq=0, idiff=-2, w=[0, 0], r=[-1, -1],
                     i=[-1, -1], ver=0)]
    hdrlen = len(raw['header'])
    if kind in ('v1', 'v1raw'):
        blen, chunk = raw['blocks'].get(None, (None, b''))
        runs = [r for _, rs in specs for r in rs]
        fx = [facts[b] for b in order]
        rd = next((k * BANK + x['rdiff'] for k, x in enumerate(fx) if x['rdiff'] != -1), -1)
        jd = next((k * BANK + x['idiff'] for k, x in enumerate(fx) if x['idiff'] != -1), -1)
        w = crc2(b''.join(written[b] for b in order))
        fact = dict(req=int(rd == -1), rdiff=rd, ieq=int(jd == -1), idiff=jd, w=w, r=w if rd == -1 else [-1, -1],
                    i=w if jd == -1 else [-1, -1], err='', ver=1 if hdrlen == 30 else 0)
        cases.append(_block_case('%s:%s' % (kind, '+'.join(k for k, _ in specs)), 'v1', runs, blen, chunk, -1, -1, fact))
        return cases
    for j, b in enumerate(order):
        blen, chunk = raw['blocks'].get(b, (None, b''))
        x = facts[b]
        fact = dict(req=int(x['rdiff'] == -1), rdiff=x['rdiff'], ieq=int(x['idiff'] == -1), idiff=x['idiff'], w=x['w'], r=x['r'], i=x['i'],
                    err='', ver={30: 1, 55: 2, 86: 3, 87: 3}.get(hdrlen, 0))
        wantpage = b + 3 if nb == 8 else {5: 8, 2: 4, 0: 5}[b]
        # the page byte actually present in the file for this bank
        cases.append(_block_case('%s:%s' % (kind, specs[j][0]), 'paged', specs[j][1], blen, chunk, wantpage, wantpage, fact))
    return cases


def long_jobs(wd, rng, nrandom):
    specs = long_bank_specs(rng, nrandom)
    jobs = []
    n = 0
    # every bank spec goes through a 128K v3 file written by write_snapshot ...
    pad = list(specs)
    while len(pad) % 8:
        pad.append(('C:pad', [[len(pad) % 251, BANK]]))
    for k in range(0, len(pad), 8):
        jobs.append((wd, 'l%d' % n, 'ws', ('128K', '+2')[n % 2], pad[k:k + 8]))
        n += 1
    # ... and through the v1 whole-RAM form (independent v1 file -> snapmod -> real v1 writer), 3 banks per block
    pad = list(specs)
    while len(pad) % 3:
        pad.append(('C:pad', [[len(pad) % 251, BANK]]))
    for k in range(0, len(pad), 3):
        jobs.append((wd, 'l%d' % n, ('v1', 'v1raw')[n % 2], '48K', pad[k:k + 3]))
        n += 1
    # a sample through 48K v3 (pages 8,4,5), v2 files and uncompressed (0xFFFF) input blocks
    for k in range(0, len(specs) - 8, 24):
        jobs.append((wd, 'l%d' % n, 'ws', '48K', specs[k:k + 3]))
        n += 1
        jobs.append((wd, 'l%d' % n, 'v2', '128K', specs[k:k + 8]))
        n += 1
        jobs.append((wd, 'l%d' % n, 'raw', ('48K', '128K')[n % 2], specs[k:k + 8] if n % 2 else specs[k:k + 3]))
        n += 1
    return jobs
