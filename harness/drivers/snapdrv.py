"""C09 driver: drives skoolkit's snapshot writer/reader, bin2sna and snapmod and projects what they
did into small abstract records for the TLA+ judges in spec/codec (DESIGN §4 C09).

  rle_tables()      pattern D tables: real Z80._make_z80_ram_block / Z80._decompress on every short string
  long_cases()      pattern B: structured banks (long runs) through the real file writer/reader
  file_cases()      pattern B: machine states written by write_snapshot / bin2sna / get_state in both formats
  op_traces()       sequential traces: random bin2sna / snapmod invocations, full state diff after each
"""
import contextlib
import io
import os
import random
import zlib

from ..lib import cbuild
from ..lib.common import MachineryError
from . import snapfile

ENC_ALPHA = (0xED, 0x00, 0x01)
DEC_ALPHA = (0xED, 0x00, 0x01, 0x02, 0x05)
ERR = [-1]


def _sk():
    cbuild.repo_only()
    import skoolkit.snapshot as snapshot
    from ..lib.common import REPO
    if not os.path.abspath(snapshot.__file__).startswith(os.path.abspath(REPO) + os.sep):
        raise MachineryError('skoolkit imported from %s, not %s' % (snapshot.__file__, REPO))
    return snapshot


def nth_string(alpha, n, idx):
    k = len(alpha)
    out = []
    for _ in range(n):
        out.append(alpha[idx % k])
        idx //= k
    return out


# ------------------------------------------------------------------------------------------------
# pattern D tables
# ------------------------------------------------------------------------------------------------
def rle_tables(encn, decn):
    snapshot = _sk()
    z = snapshot.Z80.__new__(snapshot.Z80)
    enc1, encp, dec, ind, indv1 = [], [], [], [], []
    for n in range(encn + 1):
        e1, ep = [], []
        for idx in range(len(ENC_ALPHA) ** n):
            s = nth_string(ENC_ALPHA, n, idx)
            try:
                e1.append(list(z._make_z80_ram_block(list(s))))
            except Exception:
                e1.append(ERR)
            try:
                ep.append(list(z._make_z80_ram_block(list(s), 3 + idx % 8)))
            except Exception:
                ep.append(ERR)
        enc1.append(e1)
        encp.append(ep)
    wellformed = 0
    for n in range(decn + 1):
        d, i0, i1 = [], [], []
        for idx in range(len(DEC_ALPHA) ** n):
            blk = nth_string(DEC_ALPHA, n, idx)
            try:
                d.append(list(z._decompress(list(blk))))
            except Exception:
                d.append(ERR)
            try:
                i0.append(list(snapfile.rle_decode(bytes(blk))))
                wellformed += 1
            except snapfile.FormatError:
                i0.append(ERR)
            try:
                data, used = snapfile.rle_decode_v1(bytes(blk) + b'\x00\xed\xed\x00')
                i1.append(list(data) if used == n + 4 else [-2])
            except snapfile.FormatError:
                i1.append(ERR)
        dec.append(d)
        ind.append(i0)
        indv1.append(i1)
    tab = dict(encn=encn, decn=decn, enc1=enc1, encp=encp, dec=dec, ind=ind, indv1=indv1)
    total = 2 * sum(len(ENC_ALPHA) ** n for n in range(encn + 1)) + sum(len(DEC_ALPHA) ** n for n in range(decn + 1))
    return tab, total, wellformed
