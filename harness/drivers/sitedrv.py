"""C16 driver: abstract sites -> skool + ref files -> real skool2html.main -> recorded site.

gen_site(seed)      a random abstract site (entries of every type in a main and 0-2 other disassemblies,
                    operands / #R macros that do and do not address instructions, entry points, labels,
                    images, audio, pages, box pages, memory maps, path settings at different depths, options)
                    rendered to source files, plus the abstract record handed to spec/doc/Site.tla.
run_site(S, wd)     runs skool2html.main (in-process, imported from the repository under test) once or twice
                    into a fresh directory, logging FileInfo.open_file / resource copies from outside, and
                    tokenises the output tree with html.parser into per-file id lists and link lists.
Nothing here decides the property: the trace goes to SiteTrace.tla.
"""
import html.parser
import io
import os
import posixpath
import random
import shutil
import sys
import traceback
import urllib.parse

from ..lib.common import REPO, MachineryError

TYPES = 'bcgstuw'
ALLFLAGS = 'dimoP'

# ---------------------------------------------------------------------------------------------------------
# generation
# ---------------------------------------------------------------------------------------------------------
OPS = [  # (template, size, operand kind)
    ('CALL {}', 3, 'addr'), ('CALL NZ,{}', 3, 'addr'), ('JP {}', 3, 'addr'), ('JP Z,{}', 3, 'addr'),
    ('JR {}', 2, 'addr'), ('JR NC,{}', 2, 'addr'), ('DJNZ {}', 2, 'addr'), ('RST {}', 1, 'rst'),
    ('LD HL,{}', 3, 'addr'), ('LD BC,{}', 3, 'addr'), ('LD A,({})', 3, 'addr'), ('LD ({}),HL', 3, 'addr'),
    ('LD ({}),A', 3, 'addr'), ('RET', 1, None), ('XOR A', 1, None), ('LD A,7', 2, None), ('NOP', 1, None),
    ('JP (HL)', 1, None), ('LD B,10', 2, None),
]
ADDR_OPS = [o for o in OPS if o[2] == 'addr']
CODE_IDS = ['other', 'load', 'Aux2', 'start', 'Sprites']

ANCHOR_FORMATS = [  # (ref file text, abstract [pre, kind, suf])
    ('{address}', ('', 'd', '')), ('{address}', ('', 'd', '')), ('{address:04x}', ('', 'x', '')),
    ('{address:04X}', ('', 'X', '')), ('a{address:05d}', ('a', 'D', '')), ('L{address:04X}z', ('L', 'X', 'z')),
    ('{address#IF({mode[base]}==16)(:04X)}', ('', 'b', '')),
]
FILE_FORMATS = [
    ('{address}.html', ('', 'd', '.html')), ('{address}.html', ('', 'd', '.html')), ('{address:04x}.html', ('', 'x', '.html')),
    ('{address:04X}.htm', ('', 'X', '.htm')), ('e{address:05d}.html', ('e', 'D', '.html')),
    ('{address#IF({mode[base]}==16)(:04X)}.html', ('', 'b', '.html')),
]


def fmt_addr(fmt, base, a):
    """What the Python format string of an ANCHOR_FORMATS / FILE_FORMATS row makes of address a (the generator has
    to know it to write the anchors an author would write by hand; the verdict never uses it)."""
    pre, k, suf = fmt
    if k == 'd' or (k == 'b' and base != 16):
        body = str(a)
    elif k == 'x':
        body = '%04x' % a
    elif k in 'Xb':
        body = '%04X' % a
    else:
        body = '%05d' % a
    return pre + body + suf


def skool_addr(a, hexa):
    return '$%04X' % a if hexa else '%05d' % a


def opnd(rng, a, hexa):
    if hexa or rng.random() < 0.15:
        return ('$%04X' if rng.random() < 0.7 else '$%04x') % a
    return str(a)


class Gen:
    def __init__(self, seedval):
        self.rng = random.Random(seedval)
        self.seedval = seedval

    # ---- disassemblies -------------------------------------------------------------------------------
    def build_code(self, cidx, cid, base, nent, low):
        rng = self.rng
        entries = []
        a = base
        if low:
            # routines at the RST addresses
            for la, ops in ((0, [('DI', 1, None), ('JP {}', 3, 'addr')]), (8, [('RET', 1, None)]),
                            (16, [('LD A,7', 2, None), ('RET', 1, None)]), (56, [('RET', 1, None)])):
                if la == 0 or rng.random() < 0.7:
                    ins, x = [], la
                    for tpl, size, kind in ops:
                        ins.append(dict(a=x, tpl=tpl, size=size, kind=kind))
                        x += size
                    entries.append(dict(a=la, t='c', c=cidx, ins=ins))
        types = [rng.choice(TYPES) for _ in range(nent)]
        if cidx == 0 and nent >= 2:
            types[0] = 'c'
            if rng.random() < 0.8:
                types[1] = rng.choice('cb')
        if rng.random() < 0.3:
            types[rng.randrange(nent)] = 'i'
        if all(t == 'i' for t in types):
            types[0] = 'c'
        for t in types:
            ins = []
            if t == 'c':
                for k in range(rng.randint(1, 7)):
                    tpl, size, kind = rng.choice(OPS) if rng.random() < 0.5 else rng.choice(ADDR_OPS)
                    ins.append(dict(a=a, tpl=tpl, size=size, kind=kind))
                    a += size
                for i in ins[1:]:
                    if rng.random() < 0.3:
                        i['star'] = True
            elif t == 'i':
                if rng.random() < 0.5:
                    ins.append(dict(a=a, tpl='DEFS 4', size=4, kind=None))
                    a += 4
                else:
                    ins.append(dict(a=a, tpl='', size=1, kind=None))
                    a += 1
            else:
                for k in range(rng.randint(1, 4)):
                    if t == 'w' or (t in 'bg' and rng.random() < 0.5):
                        tpl, size, kind = 'DEFW {}', 2, 'addr'
                    elif t == 't':
                        tpl, size, kind = 'DEFM "hi"', 2, None
                    elif t == 's' or (t == 'u' and rng.random() < 0.5):
                        tpl, size, kind = 'DEFS 3', 3, None
                    else:
                        tpl, size, kind = 'DEFB %d' % rng.randrange(256), 1, None
                    ins.append(dict(a=a, tpl=tpl, size=size, kind=kind))
                    a += size
            entries.append(dict(a=ins[0]['a'], t=t, c=cidx, ins=ins))
            a += rng.choice([0, 0, 0, 1, 5, 100])
        return dict(id=cid, idx=cidx, entries=entries, hexa=rng.random() < 0.3, remotes={}, rdirs=[], late=[])

    def choose_remotes(self):
        rng = self.rng
        for X in self.codes:
            for Y in self.codes:
                if X is Y or rng.random() < 0.25:
                    continue
                cands = [e for e in Y['entries'] if e['t'] != 'i']
                for e in rng.sample(cands, min(len(cands), rng.randint(1, 2))):
                    rest = [i['a'] for i in e['ins'][1:]]
                    pts = sorted(rng.sample(rest, min(len(rest), rng.randint(0, 3))))
                    # asm.rst @remote: a skool file may declare one remote entry in several directives (say one next to
                    # each routine that refers to it, naming the entry points that routine needs): 1-3 directives whose
                    # entry-point lists are disjoint, overlapping or identical and together name all of pts
                    ndir = rng.choice([1, 1, 2, 2, 3]) if pts else rng.choice([1, 1, 1, 2])
                    lists = [set() for _ in range(ndir)]
                    for p in pts:
                        lists[rng.randrange(ndir)].add(p)
                        for l in lists:
                            if rng.random() < 0.25:
                                l.add(p)
                    for l in lists:
                        pl = sorted(l)
                        if rng.random() < 0.3:
                            rng.shuffle(pl)
                        X['rdirs'].append([Y['idx'], e['a'], pl])
            # where the directives stand in the file: at the top, before the title of an entry, or before one of its
            # instruction lines (entry index, instruction index or -1); X['rdirs'] is kept in file order
            places = []
            for _ in X['rdirs']:
                ei = rng.randrange(len(X['entries']))
                places.append((ei, rng.randrange(-1, len(X['entries'][ei]['ins']))) if rng.random() < 0.6 else (0, -1))
            places.sort()
            rng.shuffle(X['rdirs'])
            for d, pl in zip(X['rdirs'], places):
                d.append(pl)
            # entry points that only a repeated (2nd or 3rd) directive for their entry names
            named, late = {}, []
            for yidx, ea, pl, _ in X['rdirs']:
                X['remotes'].setdefault(yidx, []).append((ea, pl))
                if (yidx, ea) not in named:
                    named[(yidx, ea)] = set(pl)
                else:
                    late.extend([yidx, ea, p] for p in pl if p not in named[(yidx, ea)] and [yidx, ea, p] not in late)
            X['late'] = late

    def local_ins(self, code, real=True):
        return [(e, i) for e in code['entries'] if not (real and e['t'] == 'i') for i in e['ins']]

    def pick_operands(self):
        rng = self.rng
        for code in self.codes:
            allins = self.local_ins(code)
            occupied = set()
            for e in code['entries']:
                for i in e['ins']:
                    occupied.update(range(i['a'], i['a'] + i['size']))
            starts = {i['a'] for e in code['entries'] for i in e['ins']}
            remote_addrs = [a for decl in code['remotes'].values() for ea, pts in decl for a in [ea] + pts]
            ient = [e['a'] for e in code['entries'] if e['t'] == 'i']
            for e in code['entries']:
                for i in e['ins']:
                    if i['kind'] == 'rst':
                        i['target'] = rng.choice([0, 8, 16, 24, 32, 40, 48, 56])
                        i['op'] = i['tpl'].format(opnd(rng, i['target'], False) if rng.random() < 0.7 else '$%02X' % i['target'])
                    elif i['kind'] == 'addr':
                        cls = rng.choice(['entry', 'entry', 'mid', 'mid', 'own', 'remote', 'remote', 'none', 'ientry'])
                        t = None
                        if cls == 'entry':
                            t = rng.choice(code['entries'])['a']
                        elif cls == 'mid':
                            t = rng.choice(allins)[1]['a']
                        elif cls == 'own':
                            t = rng.choice(e['ins'])['a']
                        elif cls == 'remote' and remote_addrs:
                            t = rng.choice(remote_addrs)
                        elif cls == 'ientry' and ient:
                            t = rng.choice(ient)
                        if t is None:
                            inside = sorted(occupied - starts)
                            t = rng.choice(inside) if inside and rng.random() < 0.5 else rng.choice([23296, 65535, 16384, 1])
                        i['target'] = t
                        i['op'] = i['tpl'].format(opnd(rng, t, code['hexa']))
                    else:
                        i['op'] = i['tpl']

    # ---- text with macros ----------------------------------------------------------------------------
    def r_macro(self, ctx):
        """A #R macro valid in the disassembly with index ctx (ref file text is expanded by the main one)."""
        rng = self.rng
        code = self.codes[ctx]
        others = [c for c in self.codes if c is not code]
        suffix = ''
        if others and rng.random() < 0.45:
            Y = rng.choice(others)
            cands = [(e['a'], e) for e in Y['entries'] if e['t'] != 'i']
            for ea, pts in code['remotes'].get(Y['idx'], ()):
                ent = [e for e in Y['entries'] if e['a'] == ea][0]
                cands.extend((p, ent) for p in pts)
            a, ent = rng.choice(cands)
            suffix = '@' + ('main' if Y['idx'] == 0 else Y['id'])
        else:
            ent, ins = rng.choice(self.local_ins(code))
            a = ins['a']
        m = '#R' + (str(a) if rng.random() < 0.7 else '$%04X' % a) + suffix
        # explicit anchor (skool-macros.rst #R: "#name is the named anchor of an item on the disassembly page"; "an
        # anchor that matches the entry address is converted to the format specified by the AddressAnchor
        # parameter").  Only anchors the documentation promises to exist are written:
        #   entry   a number (decimal or $hex) equal to the address of the containing entry, whichever instruction or
        #           entry point of it the macro addresses
        #   self    a number equal to the addressed (non-first) instruction  } not converted by the documentation:
        #   other   a number equal to another instruction of the entry        } written as a number only when that is
        #                                                                       the id AddressAnchor produces
        #   fmt     the id AddressAnchor gives an instruction of the entry, written out by hand ('9c43', 'a40003')
        #   custom  an id the entry description attaches with #HTML
        r = rng.random()
        ea = ent['a']
        ins = [i['a'] for i in ent['ins']]
        kind = v = None
        if r < 0.2:
            kind, v = 'entry', ea
        elif r < 0.28:
            kind, v = 'self', a
        elif r < 0.35:
            kind, v = 'other', rng.choice(ins)
        elif r < 0.44:
            kind, v = 'fmt', rng.choice(ins + [a])
        elif r < 0.56 and ent.get('custom'):
            kind = 'custom'
        if kind in ('self', 'other'):
            if v == ea:
                kind = 'entry'
            elif fmt_addr(self.afmt, self.base, v) != str(v):
                kind = 'fmt'
        if kind == 'entry':
            x = rng.random()
            txt = str(v) if x < 0.6 else ('$%04X' % v if x < 0.85 else '$%04x' % v)
        elif kind in ('self', 'other'):
            txt = str(v)
        elif kind == 'fmt':
            txt = fmt_addr(self.afmt, self.base, v)
        elif kind == 'custom':
            txt = ent['custom']
        if kind:
            m += '#' + txt
            self.ranchors.append(dict(ctx=ctx, tc=ent['c'], a=a, ea=ea, kind=kind, v=v, txt=txt))
        if rng.random() < 0.3:
            m += '(link %d)' % a
        else:
            m += ' '          # keep following text from being read as part of the macro
        return m

    def image_name(self, n, ext_ok=True):
        """A file name for image number n in one of the forms the documentation allows for `fname` (a name without
        extension gets '.png' appended; an extension '.png' in any case is kept; the name may contain directories),
        and the class of that form (recorded in meta['assets'] under the base name of the file that is to be written;
        used for the vacuity counters only)."""
        rng = self.rng
        form = rng.randrange(8)
        if form == 0 or not ext_ok and form in (1, 2, 3):
            name, cls = 'img%d' % n, 'name without extension'
        elif form == 1:
            name, cls = 'img%d.png' % n, 'lower-case .png extension'
        elif form == 2:
            name, cls = 'Img%d.PNG' % n, 'non-lower-case .png extension'
        elif form == 3:
            name, cls = 'img%d.%s' % (n, rng.choice(['Png', 'pNG', 'PnG'])), 'non-lower-case .png extension'
        elif form == 4:
            name, cls = 'img%d.%s' % (n, rng.choice(['gif', 'v2', 'PNG.bak'])), 'other extension (.png is appended)'
        elif form == 5:
            name, cls = '%s/img%d' % (rng.choice(['sub', 'sub/deeper', 'Dir.v2']), n), 'name with sub-directory, no extension'
        elif form == 6:
            name, cls = '%s/Img%d.%s' % (rng.choice(['sub', 'pics/x']), n, rng.choice(['PNG', 'Png'])), 'name with sub-directory, non-lower-case .png extension'
        else:
            name, cls = 'img%d' % n, 'name without extension'
        base = name.rsplit('/', 1)[-1]
        if base.lower()[-4:] != '.png':
            base += '.png'
        self.assets[base] = 'image: ' + cls
        return name

    def image_macro(self):
        rng = self.rng
        if self.images and rng.random() < 0.6:
            return rng.choice(self.images)
        n = len(self.images)
        kind = rng.randrange(12)
        addr = 39000 + 8 * rng.randrange(4)
        if kind == 1:
            m = '#UDG%d,%d,%d' % (addr, 40 + n, rng.choice([2, 4]))        # default UDGFilename
            self.images.append(m)
            return m
        name = self.image_name(n)
        if kind == 0:
            m = '#UDG%d,%d(%s)' % (addr, rng.choice([6, 56, 7]), name)
        elif kind == 2:
            m = '#UDG%d(/%s/%s)' % (addr, rng.choice(['abs', 'abs/dir', 'x/y/z']), name)
            self.assets_abs.add(name.rsplit('/', 1)[-1])
        elif kind == 3:
            m = '#UDG%d({ImagePath}/sub/%s)' % (addr, name)
        elif kind == 4:
            m = '#SCR1,%d,%d,2,2(%s)' % (rng.randrange(30), rng.randrange(22), name)
        elif kind == 5:
            m = '#SCR1,0,0,2,1({ScreenshotImagePath}/deeper/%s)' % name
        elif kind == 6:
            m = '#FONT%d,2(%s)' % (addr, name)
        elif kind == 7:
            m = '#UDGARRAY2(%d;%d)(%s)' % (addr, addr + 8, name)
        elif kind == 8:
            m = '#UDG%d,5,3(%s)' % (addr, name)
        elif kind == 9:
            # frames: a frame is defined, drawn on, and the image is made of it by #FRAMES
            m = '#UDG%d,7,2(*fr%d)#PLOT%d,%d(fr%d)#FRAMES(fr%d)(%s)' % (addr, n, rng.randrange(8), rng.randrange(8), n, n, name)
        elif kind == 10:
            m = ('#UDGARRAY2(%d;%d)(*bg%d)#UDG%d(*fg%d)#OVER1,0(bg%d,fg%d)#COPY0,0,1,1(bg%d,cp%d)#FRAMES(bg%d;cp%d)(%s)'
                 % (addr, addr + 8, n, addr, n, n, n, n, n, n, n, name))
        else:
            m = '#FONT%d(ab)(/%s)' % (addr, name)
            self.assets_abs.add(name.rsplit('/', 1)[-1])
        self.images.append(m)
        return m

    def audio_macro(self):
        rng = self.rng
        if self.audio and rng.random() < 0.5:
            return rng.choice(self.audio)
        n = len(self.audio)
        kind = rng.randrange(13)
        delays = rng.choice(['(500,1000,500,800)', '(300,300)', '([200]*4,150)'])
        uext = rng.choice(['WAV', 'Wav', 'wAV', 'waV'])
        if kind == 0:
            name = 'snd%d.wav' % n
            self.resources[name] = ('audio-path', b'RIFFxxxx')
            m = '#AUDIO0(%s)' % name
            cls = 'existing file, lower-case .wav'
        elif kind == 1:
            name = 'gen%d.wav' % n
            m = '#AUDIO0(%s)%s' % (name, delays)
            cls = 'delays, lower-case .wav'
        elif kind == 2:
            name = 'gen%d.wav' % n
            m = '#AUDIO0(/%s/%s)%s' % (rng.choice(['abs', 'sounds/deep']), name, delays)
            cls = 'delays, leading /, lower-case .wav'
        elif kind == 3:
            # an alternative format of the named file exists: the macro must link to that one
            name = 'tune%d.%s' % (n, rng.choice(['flac', 'mp3', 'ogg']))
            self.resources[name] = ('audio-path', b'fLaC')
            m = '#AUDIO0(tune%d.wav)' % n
            cls = 'alternative format exists'
            self.assets['tune%d.wav' % n] = 'audio: ' + cls
        elif kind == 4:
            name = '%s%d.%s' % (rng.choice(['Gen', 'gen']), n, uext)
            m = '#AUDIO0(%s)%s' % (name, delays)
            cls = 'delays, non-lower-case .wav'
        elif kind == 5:
            name = 'Tune%d.%s' % (n, uext)
            m = '#AUDIO0(/%s/%s)%s' % (rng.choice(['abs', 'Sounds/deep']), name, delays)
            cls = 'delays, leading /, non-lower-case .wav'
        elif kind == 6:
            name = 'gen%d.%s' % (n, rng.choice(['wav', uext]))
            m = '#AUDIO0(%s/%s)%s' % (rng.choice(['sub', 'sub/fx.d']), name, delays)
            cls = 'delays, sub-directory' + ('' if name.endswith('.wav') else ', non-lower-case .wav')
        elif kind == 7:
            name = 'Snd%d.%s' % (n, uext)
            self.resources[name] = ('audio-path', b'RIFFxxxx')
            m = '#AUDIO0(%s)' % name
            cls = 'existing file, non-lower-case .wav'
        elif kind == 8:
            # no '.wav' extension: documented not to be written even with delays - the file is provided by [Resources]
            name = rng.choice(['raw%d', 'clip%d.mp3', 'clip%d.wav.bak']) % n
            self.resources[name] = ('audio-path', b'xxxx')
            m = '#AUDIO0(%s)%s' % (name, delays)
            cls = 'delays, no .wav extension, existing file'
        elif kind == 9:
            name = rng.choice(['raw%d', 'clip%d.OGG']) % n
            self.resources[name] = ('audio-path', b'xxxx')
            m = '#AUDIO0(%s)' % name
            cls = 'existing file, no .wav extension'
        elif kind == 10:
            name = 'Tune%d.%s' % (n, rng.choice(['flac', 'mp3', 'ogg']))
            self.resources[name] = ('audio-path', b'fLaC')
            m = '#AUDIO0(Tune%d.%s)%s' % (n, uext, rng.choice(['', delays]))
            cls = 'alternative format exists, non-lower-case .wav named'
            self.assets['Tune%d.%s' % (n, uext)] = 'audio: ' + cls       # (the class is counted whichever of the two is linked)
        elif kind == 11:
            name = 'Beep%d.%s' % (n, uext)
            m = '#AUDIO0,0,0,1(%s)%s' % (name, delays)                    # execint=1
            cls = 'delays, non-lower-case .wav'
        else:
            name = 'gen%d.wav' % n
            m = '#AUDIO0,0,0,0,1(%s)%s' % (name, delays)                  # cmio=1
            cls = 'delays, lower-case .wav'
        self.assets[name] = 'audio: ' + cls
        self.audio.append(m)
        return m

    def link_macro(self, ctx):
        rng = self.rng
        cands = []
        for pid in self.link_pages:
            cands.append('#LINK(%s)(to %s)' % (pid, pid))
        for pid, anchors in self.box_anchors.items():
            for an in anchors:
                # (blank link text for an anchor of a ListItems/BulletPoints page makes skoolhtml.expand_link raise
                # ValueError on the unchanged tree - not a C16 clause, reported separately, not generated)
                blank = '' if pid not in self.list_pages else 'item ' + an
                cands.append('#LINK(%s#%s)(%s)' % (pid, an, rng.choice([blank, 'see ' + an])))
        main = self.codes[0]
        # (#LINK converts a map row anchor to the AddressAnchor format only for entries of the disassembly that
        # expands it, so these are used in text expanded by the main disassembly)
        for e in main['entries'] if ctx == 0 else ():
            if e['t'] != 'i':
                cands.append('#LINK(MemoryMap#%d)(map row)' % e['a'])
                if e['t'] == 'c' and self.maps['RoutinesMap'][2] and rng.random() < 0.5:
                    cands.append('#LINK(RoutinesMap#%d)()' % e['a'])
        return rng.choice(cands)

    def text(self, ctx, images=True, links=True):
        rng = self.rng
        words = ['Lorem', 'ipsum', 'dolor', 'sit', 'amet']
        parts = [rng.choice(words)]
        for k in range(rng.choice([0, 1, 1, 2, 3])):
            r = rng.random()
            if r < 0.5:
                parts.append(self.r_macro(ctx))
            elif r < 0.7 and images:
                parts.append(self.image_macro())
            elif r < 0.82 and images:
                parts.append(self.audio_macro())
            elif r < 0.94 and links:
                parts.append(self.link_macro(ctx))
            else:
                parts.append('<a href="%s">ext</a>' % rng.choice(['https://skoolkit.ca/', 'http://example.com/a/b.html#x',
                                                                  'mailto:x@example.com', '//cdn.example.com/x.js',
                                                                  'javascript:void(0)']))
            parts.append(rng.choice(words))
        return ' '.join(parts).replace('  ', ' ')

    # ---- the whole site ------------------------------------------------------------------------------
    def site(self):
        rng = self.rng
        S = dict(seed=self.seedval)
        self.images, self.audio, self.resources = [], [], {}
        self.assets, self.assets_abs = {}, set()
        self.ranchors = []
        # options
        single_how = rng.choice(['', '', '', '-1', 'ref', 'ref'])
        single = single_how != ''
        base = rng.choice([None, None, '-D', '-H'])
        case = rng.choice([None, None, '-l', '-u'])
        opts = []
        if single_how == '-1':
            opts.append('-1')
        if rng.random() < 0.3:
            opts.append('-a')
        if rng.random() < 0.2:
            opts.append('-C')
        for o in (base, case):
            if o:
                opts.append(o)
        if rng.random() < 0.15:
            opts.append('-o')
        if rng.random() < 0.1:
            opts.append('-O')
        join_css = rng.random() < 0.1
        theme = rng.random() < 0.1
        r = rng.random()
        if r < 0.55:
            runs = [ALLFLAGS]
        elif r < 0.8:
            fl = list('dmoP')
            rng.shuffle(fl)
            k = rng.randint(1, 3)
            runs = [''.join(fl[:k]) + ('i' if rng.random() < 0.3 else ''), ''.join(fl[k:]) + 'i']
        else:
            k = rng.randint(1, 4)
            runs = [''.join(rng.sample(ALLFLAGS, k))]
        wflags = ''.join(f for f in ALLFLAGS if any(f in r_ for r_ in runs))

        # disassemblies
        nother = rng.choice([0, 1, 1, 1, 2, 2])
        ids = rng.sample(CODE_IDS, nother)
        low = rng.random() < 0.2
        self.codes = [self.build_code(0, 'main', rng.choice([24576, 32768, 40000, 60000]), rng.randint(2, 8), low)]
        for k, cid in enumerate(ids):
            b = rng.choice([49152, 52000, 57344]) + 1500 * k
            # an other-code disassembly may overlap the address range of the main one (a loader, say)
            if rng.random() < 0.25:
                b = self.codes[0]['entries'][-1]['a'] - rng.choice([0, 0, 7])
            self.codes.append(self.build_code(k + 1, cid, b, rng.randint(1, 4), False))
        self.choose_remotes()
        self.pick_operands()
        ncust = 0
        for code in self.codes:
            for e in code['entries']:
                if e['t'] != 'i' and rng.random() < 0.25:
                    e['custom'] = 'c%dx' % ncust
                    e['custom_html'] = rng.choice(['<span id="%s"></span>', '<a id="%s"></a>', '<a name="%s"></a>']) % e['custom']
                    ncust += 1

        # [Game]
        atext, afmt = rng.choice(ANCHOR_FORMATS)
        ftext, ffmt = rng.choice(FILE_FORMATS)
        self.afmt, self.base = afmt, 16 if base == '-H' else 10
        game = {}
        if atext != '{address}' or rng.random() < 0.2:
            game['AddressAnchor'] = atext
        if single_how == 'ref':
            game['AsmSinglePage'] = '1'
        lo = rng.choice([None, None, 'CALL,DEFW,DJNZ,JP,JR,LD,RST', 'CALL,JP', 'CALL,DEFW,DJNZ,JP,JR,LD', 'rst,ld,jr,djnz'])
        if lo:
            game['LinkOperands'] = lo
        if rng.random() < 0.4:
            game['LinkInternalOperands'] = '1'
            if rng.random() < 0.3:
                game['LinkInternalOperandsMinDistance'] = str(rng.choice([1, 4, 10]))
        if rng.random() < 0.2:
            game['Address'] = rng.choice(['${address:04X}', '{address:05d}'])
        if rng.random() < 0.2:
            game['Bytes'] = '02X'
        css = ['skoolkit.css']
        if rng.random() < 0.3:
            css.append('extra.css')
            self.resources['extra.css'] = ('src', b'body {}\n')
            game['StyleSheet'] = ';'.join(css)
        js = []
        if rng.random() < 0.4:
            js = ['a.js'] if rng.random() < 0.6 else ['a.js', 'lib/b.js']
            for j in js:
                self.resources[j] = ('src', b'//\n')
            game['JavaScript'] = ';'.join(js)
        font = None
        if rng.random() < 0.15:
            font = 'game.ttf'
            self.resources[font] = ('src', b'\0\1\0\0')
            game['Font'] = font
        game['Copyright'] = '&#169; <a href="https://example.com/">someone</a>'

        # [Paths]
        P = {}

        def choose(pid, default, alts, p=0.5):
            v = rng.choice(alts) if rng.random() < p else default
            if v != default:
                P[pid] = v
            return v
        paths = {}
        paths['GameIndex'] = choose('GameIndex', 'index.html', ['home/start.html', 'a/b/index.html'], 0.25)
        paths['MemoryMap'] = choose('MemoryMap', 'maps/all.html', ['everything.html', 'm/e/m/all.html'])
        paths['RoutinesMap'] = choose('RoutinesMap', 'maps/routines.html', ['routines.html', 'maps/r/index.html'])
        paths['DataMap'] = choose('DataMap', 'maps/data.html', ['maps/data/index.html', 'd.html'])
        paths['MessagesMap'] = choose('MessagesMap', 'maps/messages.html', ['maps/deep/er/messages.html'], 0.3)
        paths['UnusedMap'] = choose('UnusedMap', 'maps/unused.html', ['unused/index.html'], 0.3)
        paths['GameStatusBuffer'] = choose('GameStatusBuffer', 'buffers/gbuffer.html', ['gsb.html', 'buffers/g/s/b.html'], 0.4)
        paths['CodePath'] = choose('CodePath', 'asm', ['code/deep', '.', 'a/b/c/d'])
        paths['AsmSinglePage'] = choose('AsmSinglePage', 'asm.html', ['one/asm.html', 'asm/single/page.html'])
        if ftext != '{address}.html' or rng.random() < 0.2:
            P['CodeFiles'] = ftext
        imagepath = choose('ImagePath', 'images', ['gfx/i', '.', 'assets/img/deep'])
        udgpath = choose('UDGImagePath', '{ImagePath}/udgs', ['udgs', '{ImagePath}', 'u/d/g'], 0.3)
        choose('ScreenshotImagePath', '{ImagePath}/scr', ['shots', '{UDGImagePath}/scr'], 0.3)
        choose('FontImagePath', '{ImagePath}/font', ['{ImagePath}'], 0.2)
        audiopath = choose('AudioPath', 'audio', ['snd/fx', '.'], 0.4)
        # (-j with a StyleSheetPath that does not exist yet makes skool2html raise FileNotFoundError on the unchanged
        # tree - not a C16 clause, reported separately, not generated)
        csspath = choose('StyleSheetPath', '.', ['css', 'css/a'], 0.0 if join_css else 0.5)
        jspath = choose('JavaScriptPath', '.', ['js', 'static/js/v1'])
        fontpath = choose('FontPath', '.', ['fonts'], 0.4)
        for code in self.codes[1:]:
            cid = code['id']
            code['map'] = choose(cid + '-Index', '%s/%s.html' % (cid, cid), ['%s.html' % cid, 'oc/%s/index/map.html' % cid])
            code['dir'] = choose(cid + '-CodePath', cid, ['oc/x/%s' % cid, '%s/asm/deep' % cid])
            code['asm1'] = choose(cid + '-AsmSinglePage', '%s/asm.html' % cid, ['%s-asm.html' % cid, 'oc/%s/single/p.html' % cid])
        self.codes[0].update(map=paths['MemoryMap'], dir=paths['CodePath'], asm1=paths['AsmSinglePage'])

        # memory maps (main)
        maps = {  # id -> [types, includes, write, extra lines]
            'MemoryMap': ['bcgstuw', [], 1, []], 'RoutinesMap': ['c', [], 1, []], 'DataMap': ['bw', [], 1, []],
            'MessagesMap': ['t', [], 1, []], 'UnusedMap': ['su', [], 1, []], 'GameStatusBuffer': ['g', [], 1, []],
        }
        ref = []
        mainreal = [e for e in self.codes[0]['entries'] if e['t'] != 'i']
        index_extra = []
        if rng.random() < 0.5:
            mid = 'CustomMap'
            types = ''.join(sorted(rng.sample(TYPES, rng.randint(0, 3))))
            inc = sorted(e['a'] for e in rng.sample(mainreal, rng.randint(0, min(3, len(mainreal)))))
            maps[mid] = [types, inc, 1, []]
            paths[mid] = choose(mid, 'maps/%s.html' % mid, ['custom.html', 'maps/c/u/s/tom.html'])
            index_extra.append(mid)
        for mid in list(maps):
            if mid != 'MemoryMap' and rng.random() < 0.1:
                maps[mid][2] = 0
                maps[mid][3].append('Write=0')
            if mid != 'MemoryMap' and mid != 'CustomMap' and rng.random() < 0.15:
                inc = sorted(e['a'] for e in rng.sample(mainreal, 1))
                maps[mid][1] = inc
            if rng.random() < 0.35:
                maps[mid][3].append('EntryDescriptions=1')
            if rng.random() < 0.2:
                maps[mid][3].append('LabelColumn=1')
            if rng.random() < 0.2:
                maps[mid][3].append('LengthColumn=1')
        self.maps = maps

        # pages
        self.link_pages = ['MemoryMap', 'GameIndex']
        self.box_anchors = {}
        self.list_pages = set()
        pages = []     # (id, path)
        page_js = []
        npages = rng.choice([0, 1, 1, 2, 2, 3, 3, 4])
        page_secs = []
        for n in range(npages):
            pid = 'P%d' % (n + 1)
            # at the root, one level down, three levels down, next to the disassembly pages
            paths[pid] = choose(pid, pid + '.html', ['pages/p%d.html' % n, 'pages/sub/p%d.html' % n, 'x/y/z/%s.html' % pid.lower(),
                                                     'asm/p%d.html' % n, posixpath.join(paths['CodePath'], 'page%d.html' % n)], 0.6)
            pages.append(pid)
            self.link_pages.append(pid)
        boxes = []
        for pid, prefix, default in (('Bugs', 'Bug', 'reference/bugs.html'), ('Facts', 'Fact', 'reference/facts.html'),
                                     ('Pokes', 'Poke', 'reference/pokes.html'), ('Glossary', 'Glossary', 'reference/glossary.html'),
                                     ('GraphicGlitches', 'GraphicGlitch', 'graphics/glitches.html'),
                                     ('Changelog', 'Changelog', 'reference/changelog.html'), ('Bx', 'Sx', 'Bx.html')):
            if rng.random() < 0.3:
                paths[pid] = choose(pid, default, ['ref/%s.html' % pid.lower(), 'r/e/f/%s.html' % pid], 0.4)
                anchors = ['%s%d' % (prefix[0].lower(), k) for k in range(rng.randint(1, 3))]
                stype = 'ListItems' if pid == 'Changelog' else (rng.choice(['', 'ListItems', 'BulletPoints']) if pid == 'Bx' else '')
                boxes.append((pid, prefix, anchors, stype))
                pages.append(pid)
                self.link_pages.append(pid)
                self.box_anchors[pid] = anchors
                if stype:
                    self.list_pages.add(pid)
        for code in self.codes[1:]:
            self.link_pages.append(code['id'] + '-Index')
        # page-specific JavaScript (ref-files.rst [Page:*] JavaScript: used in addition to the [Game] files, copied to
        # JavaScriptPath, referenced relative to the page's own directory): a short list of values per site, so that
        # pages in different directories get identical lists, overlapping lists, a file the [Game] section names too, or none
        pool = ['notes.js', 'pg/extra.js'] + js[:1]
        for x in pool[:2]:
            self.resources[x] = ('src', b'//\n')
        values = []
        for _ in range(rng.choice([1, 2, 2, 3])):
            v = rng.sample(pool, rng.randint(1, len(pool)))
            values.append(';'.join(v))
        page_jsval = {}
        for pid in pages:
            if rng.random() < 0.65:
                page_jsval[pid] = rng.choice(values)
                page_js.extend(posixpath.basename(x) for x in page_jsval[pid].split(';'))
        page_js = sorted(set(page_js))

        # ---- render the ref file (texts last, when all link targets are known) ----
        for n in range(npages):
            pid = 'P%d' % (n + 1)
            sec = ['[Page:%s]' % pid]
            if pid in page_jsval:
                sec.append('JavaScript=' + page_jsval[pid])
            sec.append('PageContent=' + ' '.join(self.text(0) for _ in range(rng.randint(1, 3))))
            page_secs.append('\n'.join(sec))
        for pid, prefix, anchors, stype in boxes:
            if pid == 'Bx':
                sec = ['[Page:Bx]', 'SectionPrefix=Sx']
                if stype:
                    sec.append('SectionType=' + stype)
                if pid in page_jsval:
                    sec.append('JavaScript=' + page_jsval[pid])
                page_secs.append('\n'.join(sec))
            elif pid in page_jsval:
                # the predefined box page, declared again with its default parameters plus the scripts
                sec = ['[Page:%s]' % pid, 'SectionPrefix=' + prefix] + ['SectionType=ListItems'] * (pid == 'Changelog')
                page_secs.append('\n'.join(sec + ['JavaScript=' + page_jsval[pid]]))
            for k, an in enumerate(anchors):
                head = '[%s:%s:Title %d of %s]' % (prefix, an, k, pid)
                if stype in ('ListItems', 'BulletPoints'):
                    dash = '- ' if stype == 'BulletPoints' else ''
                    body = [self.text(0, images=False), '', dash + self.text(0), '  ' + dash + self.text(0, images=False), dash + 'plain']
                else:
                    body = [self.text(0), '', self.text(0)]
                page_secs.append(head + '\n' + '\n'.join(body))
        for mid, (types, inc, wr, extra) in maps.items():
            sec = ['[MemoryMap:%s]' % mid]
            if mid == 'CustomMap' or rng.random() < 0.0:
                sec.append('EntryTypes=' + types)
            if inc:
                sec.append('Includes=' + ','.join(str(a) for a in inc))
            sec.extend(extra)
            if rng.random() < 0.3:
                sec.append('Intro=' + self.text(0))
            if len(sec) > 1:
                ref.append('\n'.join(sec))
        for code in self.codes[1:]:
            sec = ['[OtherCode:%s]' % code['id']]
            code['source'] = code['id'] + '.skool'
            if rng.random() < 0.4:
                code['source'] = 'src-%s.skool' % code['id'].lower()
                sec.append('Source=' + code['source'])
            ref.append('\n'.join(sec))
            if rng.random() < 0.3:
                ref.append('[MemoryMap:%s-Index]\nEntryTypes=bcgstuw\nEntryDescriptions=1\nIntro=%s' % (code['id'], self.text(code['idx'], links=False)))
        ref.extend(page_secs)
        if rng.random() < 0.25:
            game['Logo'] = self.image_macro()
        elif rng.random() < 0.2:
            self.resources['logo.png'] = ('gfx', b'\x89PNG')
            game['LogoImage'] = 'gfx/logo.png'
        if pages or index_extra:
            ref.append('[Index]\nMemoryMaps\nGraphics\nDataTables\nOtherCode\nReference\nExtra')
            ref.append('[Index:Extra:Extra pages]\n' + '\n'.join(p for p in pages + index_extra if p[0] == 'P' or p in ('Bx', 'CustomMap')))

        # ---- render the skool files ----
        sources = {}
        for code in self.codes:
            sources[code.get('source', 'game.skool')] = self.render_skool(code)
        ref.insert(0, '[Game]\n' + '\n'.join('%s=%s' % kv for kv in game.items()))
        if P:
            ref.insert(1, '[Paths]\n' + '\n'.join('%s=%s' % kv for kv in P.items()))
        resdest = {'audio-path': audiopath, 'gfx': 'gfx'}
        reslines = ['%s=%s' % (n, resdest[k]) for n, (k, _) in self.resources.items() if k in resdest]
        if reslines:
            ref.append('[Resources]\n' + '\n'.join(reslines))
        sources['game.ref'] = '\n\n'.join(ref) + '\n'
        for n, (k, content) in self.resources.items():
            sources[n] = content

        # ---- expected resource copies (commands.rst / ref-files.rst) ----
        def j(*parts):
            return posixpath.normpath(posixpath.join(*[p for p in parts if p not in ('', '.')] or ['.']))
        res = []
        if join_css:
            res.append(j(csspath, 'all.css'))
        else:
            for c in css:
                res.append(j(csspath, c))
                if theme and c == 'skoolkit.css':
                    res.append(j(csspath, 'skoolkit-dark.css'))
        for x in js:
            res.append(j(jspath, posixpath.basename(x)))
        if 'P' in wflags:
            for x in page_js:
                if j(jspath, x) not in res:
                    res.append(j(jspath, x))
        if font:
            res.append(j(fontpath, font))
        for n, (k, _) in self.resources.items():
            if k in resdest:
                res.append(j(resdest[k], n))

        argv_common = ['-q'] + opts
        if join_css:
            argv_common += ['-j', 'all.css']
        if theme:
            argv_common += ['-T', 'dark']
        S['runs'] = [argv_common + ([] if r_ == ALLFLAGS else ['-w', r_]) for r_ in runs]
        S['sources'] = sources
        comps = lambda p: [c for c in posixpath.normpath(p).split('/') if c not in ('', '.')]
        tla = dict(
            single=int(single), base=16 if base == '-H' else 10,
            afmt=dict(pre=afmt[0], kind=afmt[1], suf=afmt[2]), ffmt=dict(pre=ffmt[0], kind=ffmt[1], suf=ffmt[2]),
            index=comps(paths['GameIndex']), res=[comps(x) for x in res],
            codes=[dict(dir=comps(c['dir']), map=comps(c['map']), asm1=comps(c['asm1'])) for c in self.codes],
            entries=[dict(a=e['a'], t=e['t'], c=e['c'] + 1, ins=[i['a'] for i in e['ins']],
                          bc=[i['a'] for i in e['ins'] if i.get('bc')]) for c in self.codes for e in c['entries']],
            maps=[dict(path=comps(paths[mid]), types=list(v[0]), inc=v[1], wr=v[2]) for mid, v in maps.items()],
            pages=[dict(path=comps(paths[p])) for p in pages],
            w=list(wflags),
        )
        S['tla'] = tla
        S['meta'] = dict(single=single, runs=runs, opts=opts, anchor=atext, codefiles=ftext, ncodes=len(self.codes),
                         paths=P, join_css=join_css, theme=theme, game=game, ranchors=self.ranchors,
                         assets=self.assets, assets_abs=sorted(self.assets_abs),
                         late_eps=[c['late'] for c in self.codes],
                         page_js={pid: [paths[pid], v] for pid, v in page_jsval.items()}, global_js=js, ndirectives=[len(c['rdirs']) for c in self.codes],
                         remotes=[sorted({a for decl in c['remotes'].values() for ea, pts in decl for a in [ea] + pts})
                                  for c in self.codes])
        # a generated site must not map two documents to one path (that would be an input error, not a finding)
        allp = [tuple(tla['index'])] + [tuple(m['path']) for m in tla['maps']] + [tuple(p['path']) for p in tla['pages']]
        for c in tla['codes'][1:]:
            allp.append(tuple(c['map']))
        allp += [tuple(c['asm1']) for c in tla['codes']]
        dirs = [tuple(c['dir']) for c in tla['codes']]
        if len(set(allp)) != len(allp) or len(set(dirs)) != len(dirs):
            return None
        return S

    def render_skool(self, code):
        rng = self.rng
        ctx = code['idx']
        out = []

        def remote_directives(ei, n):
            for yidx, ea, pl, place in code['rdirs']:
                if place == (ei, n):
                    num = (lambda a: '$%04X' % a) if rng.random() < 0.2 else str
                    out.append('@remote=%s:%s' % ('main' if yidx == 0 else self.codes[yidx]['id'], ','.join(num(a) for a in [ea] + pl)))
        nlabel = 0
        for ei, e in enumerate(code['entries']):
            hexa = code['hexa']
            remote_directives(ei, -1)
            if e['t'] == 'i' and not e['ins'][0]['tpl']:
                remote_directives(ei, 0)
                out.append('; Ignored')
                out.append('i' + skool_addr(e['a'], hexa))
                out.append('')
                continue
            title = 'Entry at %d' % e['a']
            if rng.random() < 0.15:
                title += ' ' + self.r_macro(ctx)
            out.append('; ' + title)
            desc = []
            for k in range(rng.choice([0, 1, 1, 2])):
                desc.append(self.text(ctx))
            if e.get('custom'):
                desc.append('Anchor here #HTML(%s) ok' % e['custom_html'])
            regs = rng.random() < 0.25
            start = rng.random() < 0.25 and e['t'] != 'i'
            if desc or regs or start:
                out.append(';')
                if desc:
                    out.append('\n; .\n'.join('; ' + d for d in desc))
                else:
                    out.append('; .')
            if regs or start:
                out.append(';')
                if regs:
                    out.append('; A Input ' + self.text(ctx, images=False))
                    out.append('; O:HL Output value')
                else:
                    out.append('; .')
            if start:
                out.append(';')
                out.append('; Start ' + self.text(ctx))
                e['ins'][0]['bc'] = True
            for n, i in enumerate(e['ins']):
                if n and rng.random() < 0.25 and e['t'] != 'i':
                    out.append('; Mid-block ' + self.text(ctx))
                    if rng.random() < 0.3:
                        out.append('; .')
                        out.append('; second paragraph')
                    i['bc'] = True
                if rng.random() < 0.2 and e['t'] != 'i':
                    out.append('@label=%s%d' % (rng.choice(['LOOP', 'START', 'data_']), nlabel))
                    nlabel += 1
                remote_directives(ei, n)
                ctl = e['t'] if n == 0 else ('*' if i.get('star') else ' ')
                line = ctl + skool_addr(i['a'], hexa if rng.random() < 0.9 else not hexa) + ' ' + i['op']
                if rng.random() < 0.4:
                    line += ' ; ' + self.text(ctx, images=rng.random() < 0.3)
                out.append(line)
            if rng.random() < 0.2 and e['t'] != 'i':
                out.append('; End ' + self.text(ctx))
            out.append('')
        return '\n'.join(out) + '\n'


def gen_site(seedval):
    for attempt in range(50):
        S = Gen(seedval * 64 + attempt).site()
        if S:
            S['seed'] = seedval
            S['attempt'] = attempt
            return S
    raise MachineryError('sitedrv: no collision-free site for seed %d' % seedval)


# ---------------------------------------------------------------------------------------------------------
# observation
# ---------------------------------------------------------------------------------------------------------
class Tok(html.parser.HTMLParser):
    def __init__(self):
        super().__init__(convert_charrefs=True)
        self.ids = []
        self.refs = []

    def handle_starttag(self, tag, attrs):
        for k, v in attrs:
            if v is None:
                continue
            if k == 'id' or (k == 'name' and tag == 'a'):
                self.ids.append(v)
            elif k in ('href', 'src'):
                self.refs.append(v)


def project_link(v):
    """href/src text -> (components, fragment) or None when it is not a relative reference."""
    u = urllib.parse.urlsplit(v)
    if u.scheme or u.netloc or v.startswith('/'):
        return None
    comps = [urllib.parse.unquote(c) for c in u.path.split('/') if c != '']
    return comps, urllib.parse.unquote(u.fragment)


def tokenise(path):
    with open(path, encoding='utf-8', errors='replace') as f:
        t = Tok()
        t.feed(f.read())
        t.close()
    links, seen, skipped = [], set(), 0
    for v in t.refs:
        pl = project_link(v)
        if pl is None:
            skipped += 1
            continue
        key = (tuple(pl[0]), pl[1])
        if key not in seen:
            seen.add(key)
            links.append([pl[0], pl[1]])
    return t.ids, links, skipped


_LOG = []
_installed = False


def install_hooks():
    """Wrap the choke points from outside (no repository edits): FileInfo.open_file, and the two ways
    skool2html.py itself puts files into the tree (shutil.copy2, open for the joined CSS file)."""
    global _installed
    if _installed:
        return
    if REPO not in sys.path:
        sys.path.insert(0, REPO)
    from skoolkit import skoolhtml, skool2html
    import skoolkit
    if not os.path.abspath(skoolkit.__file__).startswith(os.path.abspath(REPO) + os.sep):
        raise MachineryError('skoolkit imported from %s, not %s' % (skoolkit.__file__, REPO))
    orig_open_file = skoolhtml.FileInfo.open_file

    def open_file(self, *names, mode='w'):
        f = orig_open_file(self, *names, mode=mode)
        _LOG.append(('w', os.path.abspath(f.name)))
        return f
    skoolhtml.FileInfo.open_file = open_file

    class ShutilProxy:
        def __getattr__(self, name):
            return getattr(shutil, name)

        def copy2(self, src, dst, **kw):
            r = shutil.copy2(src, dst, **kw)
            _LOG.append(('c', os.path.abspath(dst)))
            return r
    skool2html.shutil = ShutilProxy()

    def logging_open(file, mode='r', *a, **kw):
        f = open(file, mode, *a, **kw)
        if 'w' in mode or 'a' in mode:
            _LOG.append(('c', os.path.abspath(file)))
        return f
    skool2html.open = logging_open
    _installed = True


def tree(root):
    out = set()
    for d, _, fs in os.walk(root):
        for f in fs:
            out.add(os.path.relpath(os.path.join(d, f), root).replace(os.sep, '/'))
    return out


def run_site(S, wd):
    """Returns the trace dict for TLC: key, site, ev (+ meta for the report)."""
    install_hooks()
    from skoolkit import skool2html
    src = os.path.join(wd, 'src')
    out = os.path.join(wd, 'out')
    shutil.rmtree(wd, ignore_errors=True)
    os.makedirs(src)
    for name, content in S['sources'].items():
        p = os.path.join(src, name)
        os.makedirs(os.path.dirname(p), exist_ok=True)
        with open(p, 'wb' if isinstance(content, bytes) else 'w') as f:
            f.write(content)
    odir = os.path.join(out, 'game')
    ev = []
    errors = []
    skipped = untracked = 0
    have = set()
    for rn, argv in enumerate(S['runs']):
        if rn:
            ev.append(['r'])
        del _LOG[:]
        so, se = sys.stdout, sys.stderr
        sys.stdout = sys.stderr = io.StringIO()
        try:
            skool2html.main(argv + ['-d', out, os.path.join(src, 'game.skool')])
        except SystemExit as e:
            errors.append('SystemExit(%s)' % (e.code,))
        except Exception as e:
            errors.append('%s: %s | %s' % (type(e).__name__, e, traceback.format_exc().strip().splitlines()[-3].strip()))
        finally:
            sys.stdout, sys.stderr = so, se
        now = tree(odir) if os.path.isdir(odir) else set()
        logged = set()
        for kind, ap in _LOG:
            rel = os.path.relpath(ap, odir).replace(os.sep, '/')
            comps = [c for c in posixpath.normpath(rel).split('/') if c not in ('', '.')]
            rel = '/'.join(comps)
            logged.add(rel)
            if kind == 'c' or not rel.lower().endswith(('.html', '.htm')):
                ev.append([kind, comps] if kind == 'c' else ['w', comps, [], []])
            else:
                fp = os.path.join(odir, rel)
                if os.path.isfile(fp):
                    ids, links, sk = tokenise(fp)
                    skipped += sk
                else:
                    ids, links = [], []
                ev.append(['w', comps, ids, links])
        for rel in sorted(logged - now):
            ev.append(['x', rel.split('/')])
        for rel in sorted(now - have - logged):
            # in the tree but never seen by a hook: recorded as a copy, and counted
            untracked += 1
            ev.append(['c', rel.split('/')])
        have = now
    ev.append(['e'])
    key = 's%d' % S['seed']
    return dict(key=key, site=S['tla'], ev=ev, meta=dict(S['meta'], errors=errors, skipped_links=skipped,
                                                           untracked=untracked, nfiles=len(have)))


def worker(args):
    seeds, wd = args
    out = []
    for sv in seeds:
        S = gen_site(sv)
        t = run_site(S, os.path.join(wd, 'w%d' % os.getpid()))
        out.append(t)
    shutil.rmtree(os.path.join(wd, 'w%d' % os.getpid()), ignore_errors=True)
    return out


# ---------------------------------------------------------------------------------------------------------
# abstract sites built by TLC (-simulate of Site.tla's constructor actions) rendered to source files
# ---------------------------------------------------------------------------------------------------------
def sim_sites(behaviours):
    """The abstract site of each behaviour (the last state before Finish), if both disassemblies show something."""
    out = []
    for tr in behaviours:
        site = None
        for act, args, st in tr:
            if st.get('todo') == [['#build']]:
                site = st['site']
        if not site:
            continue
        real = [e for e in site['entries'] if e['t'] != 'i']
        if {e['c'] for e in real} != {1, 2}:
            continue
        out.append(site)
    return out


def render_sim(site, n):
    """Minimal rendering: exactly the entries, instructions, mid-block comments, references (as #R macros) and
    the page of the abstract site, the three memory maps of EmptySite, nothing else that creates links."""
    P = lambda comps: '/'.join(comps) if comps else '.'
    ids = ['main', 'other']
    ref = ['[OtherCode:other]']
    game = []
    if site['single']:
        game.append('AsmSinglePage=1')
    k = site['afmt']['kind']
    if k != 'd':
        game.append('AddressAnchor=' + {'x': '{address:04x}', 'X': '{address:04X}'}[k])
    css = site['res'][0]
    paths = ['GameIndex=' + P(site['index']), 'StyleSheetPath=' + P(css[:-1]),
             'MemoryMap=' + P(site['maps'][0]['path']), 'RoutinesMap=' + P(site['maps'][1]['path']),
             'DataMap=' + P(site['maps'][2]['path']), 'P1=' + P(site['pages'][0]['path'])]
    for ci, cid in enumerate(ids):
        c = site['codes'][ci]
        pre = '' if ci == 0 else cid + '-'
        paths.append('%sCodePath=%s' % (pre, P(c['dir'])))
        paths.append('%sAsmSinglePage=%s' % (pre, P(c['asm1'])))
        if ci:
            paths.append('%sIndex=%s' % (pre, P(c['map'])))
    ref.append('[Paths]\n' + '\n'.join(paths))
    for mid in ('MessagesMap', 'UnusedMap', 'GameStatusBuffer'):
        ref.append('[MemoryMap:%s]\nWrite=0' % mid)
    ref.append('[Index]\nMemoryMaps\nOtherCode\nExtra\n\n[Index:Extra:Extra pages]\nP1')
    game.append('LinkInternalOperands=1')
    ref.append('[Game]\n' + '\n'.join(game))
    by_code = {1: [], 2: []}
    for e in site['entries']:
        by_code[e['c']].append(e)

    def container(c, a):
        for e in site['entries']:
            if e['c'] == c and a in e['ins']:
                return e

    ranchors = []

    def rmacro(fromc, r, remotes):
        m = '#R%d' % r['a']
        te = container(r['c'], r['a'])
        if r['c'] != fromc:
            m += '@' + ids[r['c'] - 1]
            # Site.tla Directives: one @remote per reference that leaves the disassembly, next to the referring routine
            remotes.append('@remote=%s:%s' % (ids[r['c'] - 1], ','.join(str(a) for a in [te['a']] + [r['a']] * (r['a'] != te['a']))))
        if r.get('anc') and not r['op']:
            # the explicit anchor of Site.tla's references: a number that evaluates to the containing entry's address
            txt = ('$%04X' if (n + r['a']) % 3 == 0 else '%d') % te['a']
            m += '#' + txt
            ranchors.append(dict(ctx=fromc - 1, tc=r['c'] - 1, a=r['a'], ea=te['a'], kind='entry', v=te['a'], txt=txt))
        return m + '(ref)'
    OPS = {'c': 'XOR A', 't': 'DEFM "a"', 's': 'DEFS 1', 'w': 'DEFW 0'}
    sources = {}
    page = site['pages'][0]
    remotes_main = []
    content = ' '.join(['#HTML(<span id="%s"></span><a href="#%s">here</a>)' % (i, i) for i in page['ids']]
                       + [rmacro(1, r, remotes_main) for r in page['refs']])
    ref.append('[Page:P1]\nPageContent=' + content)
    for c in (1, 2):
        body = list(remotes_main) if c == 1 else []
        for e in sorted(by_code[c], key=lambda e: e['a']):
            remotes = []
            macros = [rmacro(c, r, remotes) for r in e.get('refs', ()) if not r['op']]
            operands = [r for r in e.get('refs', ()) if r['op']]
            for r in operands:
                rmacro(c, r, remotes)      # declares the @remote entry an operand needs as well
            body.extend(remotes)
            body.append('; Entry %d' % e['a'])
            if macros:
                body.append(';')
                body.append('; ' + ' '.join(macros))
            for i, a in enumerate(e['ins']):
                if a in e['bc']:
                    body.append('; mid-block comment')
                op = OPS.get(e['t'], 'DEFB 0')
                if operands and i == len(e['ins']) - 1:
                    op = 'DEFW %d' % operands[0]['a']
                body.append('%s%05d %s' % (e['t'] if i == 0 else ' ', a, op))
            body.append('')
        sources['game.skool' if c == 1 else 'other.skool'] = '\n'.join(body) + '\n'
    sources['game.ref'] = '\n\n'.join(ref) + '\n'
    tla = dict(site, doc=1)
    return dict(seed=n, sim=True, sources=sources, runs=[['-q']], tla=tla,
                meta=dict(single=bool(site['single']), runs=[ALLFLAGS], opts=[], anchor=k, codefiles='{address}.html', ncodes=2,
                          paths={}, join_css=False, theme=False, game={}, remotes=[[], []], sim=True, ranchors=ranchors))


def sim_worker(args):
    sites, start, wd = args
    out = []
    for n, site in enumerate(sites):
        S = render_sim(site, start + n)
        t = run_site(S, os.path.join(wd, 'w%d' % os.getpid()))
        t['key'] = 'sim%d' % (start + n)
        t['sources'] = S['sources']
        out.append(t)
    shutil.rmtree(os.path.join(wd, 'w%d' % os.getpid()), ignore_errors=True)
    return out
