"""C06 driver: run generated programs in lock-step on implementation pairs through the real
trace.py loop (Tracer.run with max_operations=1, i.e. the Python loop for the Python simulators and
CSimulator.trace for the C ones) and record one observation per instruction boundary."""
import contextlib
import io
import random

from ..lib import cbuild
from . import simdrv
from .simdrv import A, F, B, C, D, E, H, L, SP, I, R, PC, T, IFF, IM, HALT, MEMPTR, BASE, BASE_BYTES

PAIRS = (('py', 'c'), ('pycm', 'ccm'))
FRAME48, IA48 = 69888, 32


def _classes():
    import skoolkit
    from skoolkit.simulator import Simulator
    from skoolkit.cmiosimulator import CMIOSimulator
    return {'py': Simulator, 'c': skoolkit.CSimulator, 'pycm': CMIOSimulator, 'ccm': skoolkit.CCMIOSimulator}


class Runner:
    """One implementation, 48K memory, real trace.Tracer driving it."""

    def __init__(self, impl, regs, ov, inv, ints):
        from skoolkit import simutils
        from skoolkit.trace import Tracer
        cls = _classes()[impl]
        use_bytes = impl in ('c', 'ccm')
        mem = bytearray(BASE_BYTES) if use_bytes else list(BASE)
        for a, v in ov:
            mem[a] = v
        self.sim = simutils.from_memory(cls, mem)
        self.mem = self.sim.memory
        for i, v in enumerate(regs):
            self.sim.registers[i] = v
        self.ref = bytes(self.mem) if use_bytes else list(self.mem)
        self.use_bytes = use_bytes
        outer = self

        class T(Tracer):
            def read_port(self, registers, port):
                outer.io.append(['i', port, 0])
                return inv

            def write_port(self, registers, port, value, offset=0):
                outer.io.append(['o', port, value])

        self.tracer = T(self.sim, 0, 0, 0, [0] * 16, 0, False)
        self.tracer.write_port = self.tracer.__class__.write_port.__get__(self.tracer)
        self.sim.set_tracer(self.tracer)
        self.io = []
        self.ints = ints
        self.sink = io.StringIO()

    def step(self, n=1):
        self.io = []
        exc = ''
        try:
            with contextlib.redirect_stdout(self.sink):
                self.tracer.run(self.sim.registers[PC], None, n, 0, self.ints, None, None, None, None, '$', '02X', '04X')
            self.sink.seek(0)
            self.sink.truncate()
        except Exception as e:
            exc = '%s: %s' % (type(e).__name__, e)
        mem, ref = self.mem, self.ref
        wr = []
        if self.use_bytes:
            cur = bytes(mem)
            if cur != ref:
                wr = [[a, cur[a]] for a in range(65536) if cur[a] != ref[a]]
                self.ref = cur
        else:
            if mem != ref:
                wr = [[a, mem[a]] for a in range(65536) if mem[a] != ref[a]]
                for a, v in wr:
                    ref[a] = v
        return {'r': [int(v) for v in self.sim.registers], 'wr': wr, 'io': self.io, 'exc': exc}


# ---------------------------------------------------------------- program generation
PREFIXY = (0xDD, 0xFD, 0xED, 0xCB, 0xFB, 0xF3, 0x76, 0x00, 0xDD, 0xFD)


def gen_program(rnd, kind):
    """-> (start pc, ov list, regs list) ; code may straddle 0xFFFF/0x0000."""
    regs = [0] * 30
    for i in (A, F, B, C, D, E, H, L, 8, 9, 10, 11, I, R, 16, 17, 18, 19, 20, 21, 22, 23):
        regs[i] = simdrv.r8(rnd)
    regs[SP] = rnd.choice((0xFF00, 0x8000, 0x6000, 0x4002, 0x0001, 0xFFFF, rnd.randrange(0x4000, 0x10000)))
    regs[IM] = rnd.choice((0, 1, 2, 2))
    regs[IFF] = rnd.randrange(2)
    regs[MEMPTR] = rnd.randrange(65536)
    start = rnd.choice((0x8000, 0x8000, 0xC000, 0x6000, 0xFFF0, 0xFFFA, 0xFFFE, 0x4000, 0x0000, 0x3FF8))
    n = rnd.choice((32, 64, 200))
    code = []
    if kind == 'edge':
        # an interesting opcode exactly at 0xFFFF (wrapping into 0x0000) with the INT window opening around it
        k = rnd.randrange(4)
        start = 0xFFFF - k
        x = rnd.choice(([0xDD, 0x00], [0xFD, 0x00], [0xDD, 0x21, 1, 2], [0xFD, 0xDD, 0x00], [0xFB, 0x00], [0x76],
                        [0xED, 0x5E], [0xED, 0x57], [0xCB, 0x07], [0x18, 0xFE], [0xDD, 0xFB], [0xDD, 0x76],
                        [0xC3, 0xFF, 0xFF], [0xED, 0xB0], [0x10, 0xFE], [0xDD, 0xCB, 1, 6]))
        code = [0x00] * k + x + [0x00] * 6 + [0x18, 0xFE]
        regs[IFF] = 1 if rnd.random() < 0.9 else 0
    elif kind == 'soup':
        code = [rnd.randrange(256) for _ in range(n)]
    elif kind == 'prefix':
        code = [rnd.choice(PREFIXY) if rnd.random() < 0.45 else rnd.randrange(256) for _ in range(n)]
    else:  # structured: EI/HALT/IM2, loops, calls, block ops, self-modifying stores
        frag = [
            [0xFB, 0x76],                                  # EI ; HALT
            [0xFB, 0x00, 0x00],                            # EI ; NOP ; NOP
            [0xED, 0x5E, 0xFB],                            # IM 2 ; EI
            [0xED, 0x56],                                  # IM 1
            [0x06, rnd.randrange(1, 5), 0x10, 0xFE],       # LD B,n ; DJNZ $
            [0x01, rnd.randrange(1, 6), 0x00, 0xED, 0xB0],  # LD BC,n ; LDIR
            [0x01, rnd.randrange(1, 6), 0x00, 0xED, 0xB8],  # LD BC,n ; LDDR
            [0x01, 3, 0x00, 0xED, 0xB1],                   # CPIR
            [0x06, 3, 0xED, 0xB2],                         # INIR
            [0x06, 3, 0xED, 0xB3],                         # OTIR
            [0xCD, (start + n + 4) & 255, ((start + n + 4) >> 8) & 255],   # CALL subroutine placed after the code
            [0xF5, 0xC5, 0xE1, 0xD1],                      # PUSH AF ; PUSH BC ; POP HL ; POP DE
            [0x32, (start + len(code) + 3) & 255, ((start + len(code) + 3) >> 8) & 255, 0x00],  # LD (next),A - self-modifying
            [0xDD, 0xDD, 0xFD, 0x00],                      # prefix chain
            [0xDD, 0xFB, 0x76],                            # prefix ; EI ; HALT
            [0xED, 0x57], [0xED, 0x5F],                    # LD A,I / LD A,R
            [0x3E, rnd.randrange(256), 0xD3, 0xFE],        # OUT (254),A
            [0xDB, 0xFE],                                  # IN A,(254)
            [0xED, 0x78],                                  # IN A,(C)
            [0x21, rnd.randrange(256), rnd.randrange(256)],
            [0x31, rnd.randrange(256), rnd.choice((0x40, 0x80, 0xFF, 0x3F))],
            [0x18, 0x00], [0x00], [0x3C], [0x27], [0xE3], [0xDD, 0xE3], [0xD9], [0x08],
        ]
        while len(code) < n:
            code += rnd.choice(frag)
        code += [0xC3, start & 255, start >> 8]            # JP start
        code += [0x3C, 0xC9]                               # subroutine: INC A ; RET
    ov = [[(start + i) % 65536, b] for i, b in enumerate(code)]
    # interrupt handlers: IM1 at 0x38 (in "ROM": placed directly into the memory image), IM2 vector table
    ov += [[0x38, 0xFB], [0x39, 0xC9]]                      # EI ; RET
    if rnd.random() < 0.7:
        vt = regs[I] * 256 + 255
        ov += [[vt, 0x00], [(vt + 1) % 65536, 0x90], [0x9000, 0xF5], [0x9001, 0xF1], [0x9002, 0xFB], [0x9003, 0xED], [0x9004, 0x4D]]
    regs[PC] = start
    if kind == 'edge':
        regs[T] = FRAME48 - 4 * k - rnd.randrange(-2, 9) + FRAME48 * rnd.randrange(2)
        dedup = {}
        for a, v in ov:
            dedup[a] = v
        return start, [[a, v] for a, v in dedup.items()], regs
    regs[T] = rnd.choice((0, 31, 32, 100, FRAME48 - 60, FRAME48 - 20, FRAME48 - 5, FRAME48 - 1, FRAME48 + 10,
                          rnd.randrange(FRAME48 * 2), FRAME48 * 3 - 30))
    dedup = {}
    for a, v in ov:
        dedup[a] = v
    return start, [[a, v] for a, v in dedup.items()], regs


def lockstep(args):
    """(seed, nprogs, steps) -> list of trace records for MachineTrace."""
    seed, nprogs, steps = args
    cbuild.preload()
    rnd = random.Random(seed)
    out = []
    for k in range(nprogs):
        kind = ('soup', 'prefix', 'struct', 'struct', 'edge', 'edge')[k % 6]
        start, ov, regs = gen_program(rnd, kind)
        ints = rnd.random() < 0.75
        inv = simdrv.r8(rnd)
        for pair in PAIRS:
            a = Runner(pair[0], regs, ov, inv, ints)
            b = Runner(pair[1], regs, ov, inv, ints)
            obs = []
            stuck = 0
            for _ in range(steps if kind != 'edge' else 12):
                oa, ob = a.step(), b.step()
                oa['r2'] = ob['r']
                oa['same2'] = 1 if (oa['wr'] == ob['wr'] and oa['io'] == ob['io'] and oa['exc'] == ob['exc']) else 0
                obs.append(oa)
                if oa['exc'] or oa['r'] != ob['r'] or not oa['same2']:
                    break
                # a HALT that can never end (IFF=0 or no interrupts) only repeats itself: 3 boundaries are enough
                stuck = stuck + 1 if (oa['r'][HALT] and (not oa['r'][IFF] or not ints)) else 0
                if stuck >= 3:
                    break
            # the same run as ONE call of the loop must end in the same state (loop bookkeeping, next_int tracking)
            whole = Runner(pair[0], regs, ov, inv, ints).step(len(obs)) if obs and not obs[-1]['exc'] else None
            whole2 = Runner(pair[1], regs, ov, inv, ints).step(len(obs)) if whole else None
            loop_ok = 1
            if whole and (whole['r'] != obs[-1]['r'] or whole2['r'] != obs[-1]['r2']):
                loop_ok = 0
            out.append({'pair': '+'.join(pair), 'kind': kind, 'ints': 1 if ints else 0, 'frame': FRAME48, 'ia': IA48,
                        'inv': inv, 'sem': 1, 'tsem': 1 if pair[0] == 'py' else 0, 'r0': regs, 'ov0': ov, 'obs': obs,
                        'loop_ok': loop_ok,
                        'whole': None if loop_ok else {'single_call': whole['r'], 'single_call_partner': whole2['r']}})
    return out
