"""C06 driver: run generated programs in lock-step on implementation pairs through the real
trace.py loop (Tracer.run with max_operations=1, i.e. the Python loop for the Python simulators and
CSimulator.trace for the C ones) and record one observation per instruction boundary."""
import contextlib
import io
import random

from ..lib import cbuild
from . import simdrv
from .simdrv import A, F, B, C, D, E, H, L, SP, I, R, PC, T, IFF, IM, HALT, MEMPTR, BASE, BASE_BYTES

PAIRS = (('py', 'c'), ('pycm', 'ccm'))
FRAME48, IA48 = 69888, 32


def _classes():
    import skoolkit
    from skoolkit.simulator import Simulator
    from skoolkit.cmiosimulator import CMIOSimulator
    return {'py': Simulator, 'c': skoolkit.CSimulator, 'pycm': CMIOSimulator, 'ccm': skoolkit.CCMIOSimulator}


def tbases(frame):
    """Clock offsets (multiples of the frame length, so frame positions are unchanged) that put the T-state counter just
    below 2^32 (it crosses 2^32 during the run), just above it and far above it.  The implementations run with regs[T] +
    offset; the records given to TLC carry T - offset (TLC integers are 32-bit)."""
    return ((2 ** 32 // frame) * frame, (2 ** 32 // frame + 1) * frame, (2 ** 33 // frame + 7) * frame, (2 ** 41 // frame) * frame)


def proj_regs(registers, tbase):
    r = [int(v) for v in registers]
    if tbase:
        t = r[T] - tbase
        r[T] = t if -2 ** 30 < t < 2 ** 30 else -1      # a clock that lost its high bits: impossible value, fails 't'
    return r


class Runner:
    """One implementation, 48K memory, real trace.Tracer driving it."""

    def __init__(self, impl, regs, ov, inv, ints, tbase=0):
        from skoolkit import simutils
        from skoolkit.trace import Tracer
        self.tbase = tbase
        cls = _classes()[impl]
        use_bytes = impl in ('c', 'ccm')
        mem = bytearray(BASE_BYTES) if use_bytes else list(BASE)
        for a, v in ov:
            mem[a] = v
        self.sim = simutils.from_memory(cls, mem)
        self.mem = self.sim.memory
        for i, v in enumerate(regs):
            self.sim.registers[i] = v
        self.sim.registers[25] = regs[25] + tbase      # T-states (the name T is the local tracer class here)
        self.ref = bytes(self.mem) if use_bytes else list(self.mem)
        self.use_bytes = use_bytes
        outer = self

        class T(Tracer):
            def read_port(self, registers, port):
                outer.io.append(['i', port, 0])
                return inv

            def write_port(self, registers, port, value, offset=0):
                outer.io.append(['o', port, value])

        self.tracer = T(self.sim, 0, 0, 0, [0] * 16, 0, False)
        self.tracer.write_port = self.tracer.__class__.write_port.__get__(self.tracer)
        self.sim.set_tracer(self.tracer)
        self.io = []
        self.ints = ints
        self.sink = io.StringIO()

    def step(self, n=1):
        self.io = []
        exc = ''
        try:
            with contextlib.redirect_stdout(self.sink):
                self.tracer.run(self.sim.registers[PC], None, n, 0, self.ints, None, None, None, None, '$', '02X', '04X')
            self.sink.seek(0)
            self.sink.truncate()
        except Exception as e:
            exc = '%s: %s' % (type(e).__name__, e)
        mem, ref = self.mem, self.ref
        wr = []
        if self.use_bytes:
            cur = bytes(mem)
            if cur != ref:
                wr = [[a, cur[a]] for a in range(65536) if cur[a] != ref[a]]
                self.ref = cur
        else:
            if mem != ref:
                wr = [[a, mem[a]] for a in range(65536) if mem[a] != ref[a]]
                for a, v in wr:
                    ref[a] = v
        return {'r': proj_regs(self.sim.registers, self.tbase), 'wr': wr, 'io': self.io, 'exc': exc}


# ---------------------------------------------------------------- program generation
PREFIXY = (0xDD, 0xFD, 0xED, 0xCB, 0xFB, 0xF3, 0x76, 0x00, 0xDD, 0xFD)


def gen_program(rnd, kind):
    """-> (start pc, ov list, regs list) ; code may straddle 0xFFFF/0x0000."""
    regs = [0] * 30
    for i in (A, F, B, C, D, E, H, L, 8, 9, 10, 11, I, R, 16, 17, 18, 19, 20, 21, 22, 23):
        regs[i] = simdrv.r8(rnd)
    regs[SP] = rnd.choice((0xFF00, 0x8000, 0x6000, 0x4002, 0x0001, 0xFFFF, rnd.randrange(0x4000, 0x10000)))
    regs[IM] = rnd.choice((0, 1, 2, 2))
    regs[IFF] = rnd.randrange(2)
    regs[MEMPTR] = rnd.randrange(65536)
    start = rnd.choice((0x8000, 0x8000, 0xC000, 0x6000, 0xFFF0, 0xFFFA, 0xFFFE, 0x4000, 0x0000, 0x3FF8))
    n = rnd.choice((32, 64, 200))
    code = []
    if kind == 'edge':
        # an interesting opcode exactly at 0xFFFF (wrapping into 0x0000) with the INT window opening around it
        k = rnd.randrange(4)
        start = 0xFFFF - k
        x = rnd.choice(([0xDD, 0x00], [0xFD, 0x00], [0xDD, 0x21, 1, 2], [0xFD, 0xDD, 0x00], [0xFB, 0x00], [0x76],
                        [0xED, 0x5E], [0xED, 0x57], [0xCB, 0x07], [0x18, 0xFE], [0xDD, 0xFB], [0xDD, 0x76],
                        [0xC3, 0xFF, 0xFF], [0xED, 0xB0], [0x10, 0xFE], [0xDD, 0xCB, 1, 6]))
        code = [0x00] * k + x + [0x00] * 6 + [0x18, 0xFE]
        regs[IFF] = 1 if rnd.random() < 0.9 else 0
    elif kind == 'soup':
        code = [rnd.randrange(256) for _ in range(n)]
    elif kind == 'prefix':
        code = [rnd.choice(PREFIXY) if rnd.random() < 0.45 else rnd.randrange(256) for _ in range(n)]
    else:  # structured: EI/HALT/IM2, loops, calls, block ops, self-modifying stores
        frag = [
            [0xFB, 0x76],                                  # EI ; HALT
            [0xFB, 0x00, 0x00],                            # EI ; NOP ; NOP
            [0xED, 0x5E, 0xFB],                            # IM 2 ; EI
            [0xED, 0x56],                                  # IM 1
            [0x06, rnd.randrange(1, 5), 0x10, 0xFE],       # LD B,n ; DJNZ $
            [0x01, rnd.randrange(1, 6), 0x00, 0xED, 0xB0],  # LD BC,n ; LDIR
            [0x01, rnd.randrange(1, 6), 0x00, 0xED, 0xB8],  # LD BC,n ; LDDR
            [0x01, 3, 0x00, 0xED, 0xB1],                   # CPIR
            [0x06, 3, 0xED, 0xB2],                         # INIR
            [0x06, 3, 0xED, 0xB3],                         # OTIR
            [0xCD, (start + n + 4) & 255, ((start + n + 4) >> 8) & 255],   # CALL subroutine placed after the code
            [0xF5, 0xC5, 0xE1, 0xD1],                      # PUSH AF ; PUSH BC ; POP HL ; POP DE
            [0x32, (start + len(code) + 3) & 255, ((start + len(code) + 3) >> 8) & 255, 0x00],  # LD (next),A - self-modifying
            [0xDD, 0xDD, 0xFD, 0x00],                      # prefix chain
            [0xDD, 0xFB, 0x76],                            # prefix ; EI ; HALT
            [0xED, 0x57], [0xED, 0x5F],                    # LD A,I / LD A,R
            [0x3E, rnd.randrange(256), 0xD3, 0xFE],        # OUT (254),A
            [0xDB, 0xFE],                                  # IN A,(254)
            [0xED, 0x78],                                  # IN A,(C)
            [0x21, rnd.randrange(256), rnd.randrange(256)],
            [0x31, rnd.randrange(256), rnd.choice((0x40, 0x80, 0xFF, 0x3F))],
            [0x18, 0x00], [0x00], [0x3C], [0x27], [0xE3], [0xDD, 0xE3], [0xD9], [0x08],
            # 16-bit stores whose second byte falls on ROM (0xFFFF -> 0x0000, 0x3FFF -> 0x4000) and a read-back of the ROM
            # cell into RAM: a ROM that took the byte would show (and would not survive a snapshot)
            [0xED, 0x73, 0xFF, 0xFF, 0x3A, 0x00, 0x00, 0x32, 0x10, 0x91],      # LD (0xFFFF),SP ; LD A,(0) ; LD (0x9110),A
            [0x22, 0xFF, 0xFF, 0x3A, 0x00, 0x00, 0x32, 0x11, 0x91],            # LD (0xFFFF),HL ; ...
            [0xED, 0x43, 0xFE, 0x3F, 0x2A, 0xFE, 0x3F, 0x22, 0x12, 0x91],      # LD (0x3FFE),BC ; LD HL,(0x3FFE) ; LD (0x9112),HL
            [0xDD, 0x22, 0xFF, 0x3F, 0x3A, 0xFF, 0x3F, 0x32, 0x14, 0x91],      # LD (0x3FFF),IX ; LD A,(0x3FFF) ; LD (0x9114),A
        ]
        while len(code) < n:
            code += rnd.choice(frag)
        code += [0xC3, start & 255, start >> 8]            # JP start
        code += [0x3C, 0xC9]                               # subroutine: INC A ; RET
    ov = [[(start + i) % 65536, b] for i, b in enumerate(code)]
    # interrupt handlers: IM1 at 0x38 (in "ROM": placed directly into the memory image), IM2 vector table
    ov += [[0x38, 0xFB], [0x39, 0xC9]]                      # EI ; RET
    if rnd.random() < 0.7:
        vt = regs[I] * 256 + 255
        ov += [[vt, 0x00], [(vt + 1) % 65536, 0x90], [0x9000, 0xF5], [0x9001, 0xF1], [0x9002, 0xFB], [0x9003, 0xED], [0x9004, 0x4D]]
    regs[PC] = start
    if kind == 'edge':
        regs[T] = FRAME48 - 4 * k - rnd.randrange(-2, 9) + FRAME48 * rnd.randrange(2)
        dedup = {}
        for a, v in ov:
            dedup[a] = v
        return start, [[a, v] for a, v in dedup.items()], regs
    regs[T] = rnd.choice((0, 31, 32, 100, FRAME48 - 60, FRAME48 - 20, FRAME48 - 5, FRAME48 - 1, FRAME48 + 10,
                          rnd.randrange(FRAME48 * 2), FRAME48 * 3 - 30))
    dedup = {}
    for a, v in ov:
        dedup[a] = v
    return start, [[a, v] for a, v in dedup.items()], regs


# control flow that would leave a straight-line program (relative jumps are kept: their displacement is made 0)
_FLOW_MAIN = {0xC3, 0xCD, 0xC9, 0xE9, 0x76} | {0xC2 + 8 * k for k in range(8)} | {0xC4 + 8 * k for k in range(8)} \
    | {0xC0 + 8 * k for k in range(8)} | {0xC7 + 8 * k for k in range(8)}
_FLOW_ED = {0x45 + 8 * k for k in range(8)}


def gen_sweep(rnd, idxs):
    """A straight-line program made of one instruction from each of the given opcode slots (every slot of the instruction
    set is covered once per run over the 16 workers), with pointers, I and A near the ROM / contended / uncontended edges
    and the clock inside the display area: what single-step checks see slot by slot is seen here by the program-level
    pair comparison, with the state one instruction leaves feeding the next."""
    from . import z80len
    sl = simdrv.slots()
    regs = [0] * 30
    for i in (F, C, E, L, 9, 11, R, 16, 17, 18, 19, 20, 21, 22, 23):
        regs[i] = simdrv.r8(rnd)
    edge = (0x3FFF, 0x4000, 0x4001, 0x5AFF, 0x7FFE, 0x7FFF, 0x8000, 0x8001, 0xBFFF, 0xC000, 0xFFFE, 0xFFFF, 0x0000)
    for hi in (B, D, H, 8, 10):
        v = rnd.choice(edge) if rnd.random() < 0.7 else rnd.randrange(65536)
        regs[hi], regs[hi + 1] = v >> 8, v & 255
    regs[A] = rnd.choice((0x3F, 0x40, 0x7F, 0x80, 0xBF, 0xC0, 0xFE, 0xFF, rnd.randrange(256)))
    regs[I] = rnd.choice((0x3F, 0x40, 0x7F, 0x80, 0xBF, 0xC0, 0xFE, 0xFF, rnd.randrange(256)))
    if rnd.random() < 0.6:
        # 8-bit wrap of C +/- 1 (block I/O flags) and of B (counters): the byte edges, whatever BC is as a pointer
        regs[C] = rnd.choice((0x00, 0xFF, 0x01, 0xFE))
    if rnd.random() < 0.3:
        regs[B] = rnd.choice((0x00, 0x01, 0xFF, 0x80))
    regs[SP] = rnd.choice((0x4002, 0x8000, 0x7FFF, 0xFF00, 0x4001))
    regs[IM] = rnd.choice((1, 2))
    regs[IFF] = 0
    regs[MEMPTR] = rnd.randrange(65536)
    start = rnd.choice((0x8000, 0x6000, 0x7FF0, 0xC000))
    code = []
    for i in idxs:
        lead = sl[i][0]
        if (len(lead) == 1 and lead[0] in _FLOW_MAIN) or (lead[0] == 0xED and len(lead) > 1 and lead[1] in _FLOW_ED) \
                or (lead[0] in (0xDD, 0xFD) and len(lead) > 1 and lead[1] in (0xE9, 0x76)):
            continue
        ins = [rnd.choice((0x40, 0x7F, 0x80, 0xFF, 0x00, rnd.randrange(256))) if b is None else b for b in lead]
        while len(ins) < 4:
            ins.append(rnd.choice((0x40, 0x7F, 0x80, 0xFF, 0x00, 0x01, rnd.randrange(256))))
        n = z80len.length(ins + [0, 0], 0)
        ins = ins[:n]
        if len(lead) == 1 and lead[0] in (0x10, 0x18, 0x20, 0x28, 0x30, 0x38):
            ins[1] = 0                                # falls through whether taken or not
        code += ins
    code += [0x18, 0xFE]
    ov = [[(start + k) % 65536, b] for k, b in enumerate(code)] + [[0x38, 0xFB], [0x39, 0xC9]]
    regs[PC] = start
    regs[T] = 14335 + 224 * rnd.randrange(0, 192) + rnd.randrange(0, 128) + FRAME48 * rnd.randrange(2)
    d = {}
    for a, v in ov:
        d[a] = v
    return start, [[a, v] for a, v in d.items()], regs


def lockstep(args):
    """(seed, nprogs, steps) -> list of trace records for MachineTrace."""
    seed, nprogs, steps = args
    cbuild.preload()
    rnd = random.Random(seed)
    out = []
    for k in range(nprogs):
        kind = ('soup', 'prefix', 'struct', 'struct', 'edge', 'edge')[k % 6]
        start, ov, regs = gen_program(rnd, kind)
        ints = rnd.random() < 0.75
        inv = simdrv.r8(rnd)
        tbase = rnd.choice(tbases(FRAME48)) if rnd.random() < 0.25 else 0
        for pair in PAIRS:
            out.append(run_pair(pair, kind, regs, ov, inv, ints, steps if kind != 'edge' else 12, tbase))
    # every opcode slot once per run: worker w of 16 takes slots w, w+16, ... in programs of 16 instructions
    w = seed % 16
    mine = list(range(w, 1792, 16))
    for k in range(0, len(mine), 16):
        for rep in range(4):
            start, ov, regs = gen_sweep(rnd, mine[k:k + 16])
            inv = simdrv.r8(rnd)
            # the contended pair four times (its timing depends on where I, A and the pointers lie), the plain pair twice
            for pair in (PAIRS if rep < 2 else PAIRS[1:]):
                out.append(run_pair(pair, 'sweep', regs, ov, inv, False, 40))
    return out


def run_pair(pair, kind, regs, ov, inv, ints, steps, tbase=0):
    """One program on one implementation pair, one instruction at a time for at most `steps` boundaries, then once more as a
    single call of the loop -> trace record for MachineTrace (r0, ov0, inv, ints and steps are the whole input: --replay)."""
    a = Runner(pair[0], regs, ov, inv, ints, tbase)
    b = Runner(pair[1], regs, ov, inv, ints, tbase)
    obs = []
    stuck = 0
    for _ in range(steps):
        oa, ob = a.step(), b.step()
        oa['r2'] = ob['r']
        oa['same2'] = 1 if (oa['wr'] == ob['wr'] and oa['io'] == ob['io'] and oa['exc'] == ob['exc']) else 0
        obs.append(oa)
        if oa['exc'] or oa['r'] != ob['r'] or not oa['same2']:
            break
        # a HALT that can never end (IFF=0 or no interrupts) only repeats itself: 3 boundaries are enough
        stuck = stuck + 1 if (oa['r'][HALT] and (not oa['r'][IFF] or not ints)) else 0
        if stuck >= 3:
            break
    # the same run as ONE call of the loop must end in the same state (loop bookkeeping, next_int tracking)
    whole = Runner(pair[0], regs, ov, inv, ints, tbase).step(len(obs)) if obs and not obs[-1]['exc'] else None
    whole2 = Runner(pair[1], regs, ov, inv, ints, tbase).step(len(obs)) if whole else None
    loop_ok = 1
    if whole and (whole['r'] != obs[-1]['r'] or whole2['r'] != obs[-1]['r2']):
        loop_ok = 0
    return {'pair': '+'.join(pair), 'kind': kind, 'ints': 1 if ints else 0, 'frame': FRAME48, 'ia': IA48,
            'inv': inv, 'sem': 1, 'tsem': 1 if pair[0] == 'py' else 0, 'r0': regs, 'ov0': ov, 'obs': obs,
            'loop_ok': loop_ok, 'steps': steps, 'tbase': str(tbase),
            'whole': None if loop_ok else {'single_call': whole['r'], 'single_call_partner': whole2['r']}}


# ================================================================== 128K lock-step (Machine128.tla)
FRAME128, IA128 = 70908, 36
_BANKBASE = {5: 0x4000, 2: 0x8000}


def bank_base(p):
    """Base pattern of physical page p (0..7 RAM banks, 8/9 ROMs) - identical to Machine128!BaseP."""
    if p >= 8:
        return BASE[:0x4000]
    b = _BANKBASE.get(p, 0xC000)
    return BASE[b:b + 0x4000]


_BANK_BASES = None


def _bases():
    global _BANK_BASES
    if _BANK_BASES is None:
        _BANK_BASES = [bytes(bank_base(p)) for p in range(10)]
    return _BANK_BASES


class Runner128:
    """One implementation on 128K memory with the real trace.Tracer (which pages for the Python simulators; the C
    simulators page internally and the tracer mirrors it)."""

    def __init__(self, impl, regs, pov, o7, inv, ints, tbase=0):
        from skoolkit import simutils
        self.tbase = tbase
        from skoolkit.pagingtracer import Memory, PagingTracer
        from skoolkit.trace import Tracer
        cls = _classes()[impl]
        bases = _bases()
        banks = [list(bases[p]) for p in range(8)]
        for p in range(8):
            for x, v in pov[p]:
                banks[p][x] = v
        mem = Memory(banks, o7)
        for i, rom in enumerate(mem.roms):
            rom[:] = list(bases[8 + i])
            for x, v in pov[8 + i]:
                rom[x] = v
        self.sim = simutils.from_memory(cls, mem)
        self.mem = self.sim.memory
        for i, v in enumerate(regs):
            self.sim.registers[i] = v
        self.sim.registers[25] = regs[25] + tbase      # T-states (the name T is the local tracer class here)
        self.ref = [bytes(b) for b in self.mem.banks] + [bytes(x) for x in self.mem.roms]
        outer = self

        class T(Tracer):
            def read_port(self, registers, port):
                outer.io.append(['i', port, 0])
                return inv

            def write_port(self, registers, port, value, offset=0):
                outer.io.append(['o', port, value])
                PagingTracer.write_port(self, registers, port, value, offset)

        self.tracer = T(self.sim, 0, o7, 0, [0] * 16, 0, False)
        self.sim.set_tracer(self.tracer)
        self.io = []
        self.ints = ints
        self.sink = io.StringIO()

    def step(self, n=1):
        self.io = []
        exc = ''
        try:
            with contextlib.redirect_stdout(self.sink):
                self.tracer.run(self.sim.registers[PC], None, n, 0, self.ints, None, None, None, None, '$', '02X', '04X')
            self.sink.seek(0)
            self.sink.truncate()
        except Exception as e:
            exc = '%s: %s' % (type(e).__name__, e)
        mem = self.mem
        pw = []
        pages = list(mem.banks) + list(mem.roms)
        for p in range(10):
            cur = bytes(pages[p])
            ref = self.ref[p]
            if cur != ref:
                pw += [[p, x, cur[x]] for x in range(0x4000) if cur[x] != ref[x]]
                self.ref[p] = cur
        vis3 = [i for i in range(8) if mem.memory[3] is mem.banks[i]]
        vis0 = [8 + i for i in range(2) if mem.memory[0] is mem.roms[i]]
        return {'r': proj_regs(self.sim.registers, self.tbase), 'pw': pw, 'io': self.io, 'exc': exc,
                'o7': int(mem.o7ffd), 'tr': int(self.tracer.out7ffd),
                'vis3': vis3[0] if len(vis3) == 1 else -1, 'vis0': vis0[0] if len(vis0) == 1 else -1}


SAFE_BANKS = (0, 1, 3, 4, 6, 7)


def gen_program128(rnd, alias):
    """-> (regs, pov (10 lists of [x, v]), o7).  alias: banks 2/5 may be paged in at 0xC000 (sem = 0 traces)."""
    regs = [0] * 30
    for i in (A, F, B, C, D, E, H, L, 8, 9, 10, 11, I, R, 16, 17, 18, 19, 20, 21, 22, 23):
        regs[i] = simdrv.r8(rnd)
    banks = tuple(range(8)) if alias else SAFE_BANKS

    def pv(lock=False):
        return rnd.choice(banks) | (0x10 if rnd.random() < 0.5 else 0) | (0x20 if lock else 0) | rnd.choice((0, 0, 0x40, 0x80, 0xC8 & 0xC0))

    o7 = pv()
    regs[SP] = rnd.choice((0xC010, 0xFFFE, 0x0000, 0xC001, 0xC000, 0x8000, 0x7FFF, 0xBFFF, 0x4002, rnd.randrange(0xC002, 0x10000)))
    regs[IM] = rnd.choice((0, 1, 2, 2))
    regs[IFF] = 1 if rnd.random() < 0.7 else 0
    regs[MEMPTR] = rnd.randrange(65536)
    start = rnd.choice((0x8000, 0x8000, 0x6000, 0xC000, 0xC100, 0xBFF0, 0xFFF0))
    n = rnd.choice((24, 48, 96))
    code = []
    cell = lambda: rnd.choice((0xC000, 0xC001, 0xFFFF, 0xC123, 0xE000, 0x7FFF, 0xBFFF, 0x4000, 0x3FFF, 0x0010))
    while len(code) < n:
        k = rnd.randrange(16)
        v = pv(lock=rnd.random() < 0.06)
        if k == 0:
            code += [0x01, 0xFD, 0x7F, 0x3E, v, 0xED, 0x79]                 # LD BC,7FFD ; LD A,v ; OUT (C),A
        elif k == 1:
            code += [0x3E, v & 0x7F, 0xD3, 0xFD]                            # LD A,v ; OUT (FD),A  (port v<<8|FD)
        elif k == 2:
            port = rnd.choice((0x7FFD, 0x3FFD, 0x7FFF, 0xFFFD, 0xBFFD, 0x00FD, 0x7FFC, 0x1234 & 0x7FFD, 0x00FE))
            code += [0x01, port & 255, port >> 8, 0x16, v, 0xED, 0x51]      # LD BC,port ; LD D,v ; OUT (C),D
        elif k == 3:
            a = cell()
            code += [0x3E, rnd.randrange(256), 0x32, a & 255, a >> 8]        # LD A,n ; LD (a),A
        elif k == 4:
            a = cell()
            code += [0x3A, a & 255, a >> 8]                                  # LD A,(a)
        elif k == 5:
            a = cell()
            code += [0x21, rnd.randrange(256), rnd.randrange(256), 0x22, a & 255, a >> 8]   # LD HL,nn ; LD (a),HL
        elif k == 6:
            code += [0xF5, 0xC5, 0xE1, 0xD1]                                 # PUSH AF ; PUSH BC ; POP HL ; POP DE
        elif k == 7:
            sp = rnd.choice((0xC002, 0xC001, 0x0001, 0xFFFF, 0x8001, 0xC010))
            code += [0x31, sp & 255, sp >> 8]                                # LD SP,nn
        elif k == 8:
            code += [0xFB, 0x76] if rnd.random() < 0.12 else [0xFB, 0x3C]        # EI ; HALT (rare: a HALT wait is up to 17k boundaries)
        elif k == 9:
            code += [0xFB, 0x00]
        elif k == 10:
            # OUTI to 0x7FFD: B is decremented before the port is formed
            a = cell() | 0x8000
            code += [0x21, a & 255, a >> 8, 0x36, v, 0x01, 0xFD, 0x80, 0xED, 0xA3]   # LD HL,a ; LD (HL),v ; LD BC,80FD ; OUTI
        elif k == 11:
            code += [0x11, 0x00, 0xC0, 0x21, 0x00, 0x80, 0x01, 3, 0, 0xED, 0xB0]     # LDIR 0x8000 -> 0xC000, 3 bytes
        elif k == 12:
            t = rnd.choice((0xC000, 0xC100))
            code += [0xCD, t & 255, t >> 8]                                  # CALL into the paged area
        elif k == 13:
            code += [0xED, 0x5E] if rnd.random() < 0.5 else [0xED, 0x56]
        elif k == 14:
            code += [0xDB, 0xFE] if rnd.random() < 0.5 else [0xED, 0x78]
        else:
            code += [rnd.choice((0x00, 0x3C, 0x27, 0xE3, 0xD9, 0x08, 0x34, 0x35, 0x77, 0x7E))]
    code += [0xC3, start & 255, start >> 8]
    pov = [[] for _ in range(10)]

    def put(a, v, page3):
        if a < 0x4000:
            pov[8].append([a, v])
            pov[9].append([a, v])
        elif a < 0x8000:
            pov[5].append([a - 0x4000, v])
        elif a < 0xC000:
            pov[2].append([a - 0x8000, v])
        else:
            pov[page3].append([a - 0xC000, v])

    page0 = o7 % 8
    for i, b in enumerate(code):
        put((start + i) % 65536, b, page0)
    # something executable in every bank at 0xC000 / 0xC100 (routines that return), so that calls into a freshly paged
    # bank find bank-specific code
    for p in (banks if alias else SAFE_BANKS):
        if p in (2, 5) and not alias:
            continue
        sub = [0x3E, 0x10 + p, 0x32, 0x05, 0xC0, 0xC9]                      # LD A,id ; LD (C005),A ; RET
        for off in (0x0000, 0x0100):
            if start >= 0xC000 and p == page0:
                continue
            for i, b in enumerate(sub):
                pov[p].append([off + i + (8 if off == 0 else 0), b]) if off == 0 else pov[p].append([off + i, b])
        if not (start >= 0xC000 and p == page0):
            pov[p].append([0, 0x18])
            pov[p].append([1, 0x06])                                         # JR +6 over the gap to 0xC008
    put(0x38, 0xFB, page0)
    put(0x39, 0xC9, page0)
    if rnd.random() < 0.7:
        vt = regs[I] * 256 + 255
        if 0x4000 <= vt < 0xBFFF:
            put(vt, 0x00, page0)
            put(vt + 1, 0x90, page0)
            for i, b in enumerate((0xF5, 0xF1, 0xFB, 0xED, 0x4D)):
                put(0x9000 + i, b, page0)
    regs[PC] = start
    regs[T] = rnd.choice((0, 35, 36, 100, FRAME128 - 60, FRAME128 - 20, FRAME128 - 5, FRAME128 - 1, FRAME128 + 10,
                          rnd.randrange(FRAME128 * 2), FRAME128 * 3 - 30))
    # last value per (page, offset)
    for p in range(10):
        d = {}
        for x, v in pov[p]:
            d[x] = v
        pov[p] = [[x, v] for x, v in d.items()]
    return regs, pov, o7


def lockstep128(args):
    """(seed, nprogs, steps) -> trace records for Machine128."""
    seed, nprogs, steps = args
    cbuild.preload()
    rnd = random.Random(seed)
    out = []
    for k in range(nprogs):
        alias = (k % 4 == 3)
        regs, pov, o7 = gen_program128(rnd, alias)
        ints = rnd.random() < 0.8
        inv = simdrv.r8(rnd)
        tbase = rnd.choice(tbases(FRAME128)) if rnd.random() < 0.25 else 0
        for pair in PAIRS:
            out.append(run_pair128(pair, alias, regs, pov, o7, inv, ints, steps, tbase))
    return out


def run_pair128(pair, alias, regs, pov, o7, inv, ints, steps, tbase=0):
    """The 128K counterpart of run_pair -> trace record for Machine128 (r0, pov0, o70, inv, ints, steps are the whole input)."""
    a = Runner128(pair[0], regs, pov, o7, inv, ints, tbase)
    b = Runner128(pair[1], regs, pov, o7, inv, ints, tbase)
    obs = []
    stuck = 0
    for _ in range(steps):
        oa, ob = a.step(), b.step()
        oa['r2'] = ob['r']
        oa['same2'] = 1 if all(oa[f] == ob[f] for f in ('pw', 'io', 'exc', 'o7', 'tr', 'vis3', 'vis0')) else 0
        if not oa['same2']:
            oa['partner'] = {f: ob[f] for f in ('pw', 'io', 'exc', 'o7', 'tr', 'vis3', 'vis0')}
        obs.append(oa)
        if oa['exc'] or oa['r'] != ob['r'] or not oa['same2']:
            break
        stuck = stuck + 1 if (oa['r'][HALT] and (not oa['r'][IFF] or not ints)) else 0
        if stuck >= 3:
            break
    whole = Runner128(pair[0], regs, pov, o7, inv, ints, tbase).step(len(obs)) if obs and not obs[-1]['exc'] else None
    whole2 = Runner128(pair[1], regs, pov, o7, inv, ints, tbase).step(len(obs)) if whole else None
    loop_ok = 1
    if whole and (whole['r'] != obs[-1]['r'] or whole2['r'] != obs[-1]['r2'] or whole['o7'] != obs[-1]['o7']
                  or whole2['o7'] != obs[-1]['o7']):
        loop_ok = 0
    return {'pair': '+'.join(pair), 'kind': '128k-alias' if alias else '128k', 'ints': 1 if ints else 0,
            'frame': FRAME128, 'ia': IA128, 'inv': inv, 'sem': 0 if alias else 1,
            'tsem': 1 if pair[0] == 'py' else 0, 'r0': regs, 'pov0': pov, 'o70': o7, 'obs': obs,
            'loop_ok': loop_ok, 'steps': steps, 'tbase': str(tbase),
            'whole': None if loop_ok else {'single_call': whole['r'], 'single_call_partner': whole2['r']}}


# ================================================================== one instruction + frame interrupt (C08)
SP_EDGE = (0x0000, 0x0001, 0x0002, 0x0003, 0x3FFF, 0x4000, 0x4001, 0x4002, 0x8000, 0xFFFF, 0xFFFE)


def int_cases(args):
    """(seed, slot indexes) -> MachineTrace records of ONE boundary each: an instruction that ends inside the INT window
    with IFF=1, so that the real trace loop accepts the frame interrupt and pushes PC - with SP at every edge of the ROM /
    RAM / 64K boundaries.  Judged for the C08 state invariants only (field c08 = 1)."""
    seed, idxs = args
    cbuild.preload()
    rnd = random.Random(seed)
    sl = simdrv.slots()
    out = []
    for n, i in enumerate(idxs):
        c = simdrv.make_case(sl[i], rnd, 1)
        regs = c['r']
        pc = rnd.choice((0x8000, 0x6000, 0xC123))
        ins = [b for _, b in c['ov']]
        ov = [[(pc + k) % 65536, b] for k, b in enumerate(ins)]
        regs[PC] = pc
        regs[IFF] = 1
        regs[HALT] = 0
        regs[IM] = rnd.choice((0, 1, 2, 2))
        regs[I] = rnd.choice((0x80, 0x9F, 0xFE))
        regs[SP] = SP_EDGE[(n + seed) % len(SP_EDGE)]
        regs[T] = FRAME48 * rnd.randrange(1, 3) - rnd.randrange(1, 5)
        vt = regs[I] * 256 + 255
        ov += [[vt, 0x00], [(vt + 1) % 65536, 0x90], [0x9000, 0xFB], [0x9001, 0xC9], [0x38, 0xFB], [0x39, 0xC9]]
        d = {}
        for a, v in ov:
            d.setdefault(a, v)          # the instruction's own bytes win
        ov = [[a, v] for a, v in d.items()]
        inv = simdrv.r8(rnd)
        for pair in PAIRS:
            out.append(int_push(pair, regs, ov, inv, sl[i][1]))
    return out


def int_push(pair, regs, ov, inv, slot):
    """One boundary (instruction + accepted frame interrupt) on one implementation pair (regs, ov, inv are the whole input)."""
    a = Runner(pair[0], regs, ov, inv, True)
    b = Runner(pair[1], regs, ov, inv, True)
    oa, ob = a.step(), b.step()
    oa['r2'] = ob['r']
    oa['same2'] = 1 if (oa['wr'] == ob['wr'] and oa['io'] == ob['io'] and oa['exc'] == ob['exc']) else 0
    return {'pair': '+'.join(pair), 'kind': 'int-push', 'ints': 1, 'frame': FRAME48, 'ia': IA48, 'inv': inv, 'sem': 0,
            'tsem': 1 if pair[0] == 'py' else 0, 'c08': 1, 'r0': list(regs), 'ov0': ov, 'obs': [oa], 'loop_ok': 1,
            'whole': None, 'slot': slot, 'sp': regs[SP],
            'accepted': 1 if (oa['r'][IFF] == 0 and oa['r'][SP] == (regs[SP] - 2) % 65536) else 0}


# ================================================================== run(start, stop) with the closed-form loops (FastRun.tla)
FAST = {'fast_djnz': True, 'fast_ldir': True}
FAST_IMPLS = (('pyfast', 'py', FAST), ('py', 'py', None), ('c', 'c', None))
TAME = (0x00, 0x00, 0xA0, 0xA8, 0xB0, 0xB8, 0xED, 0x3C, 0x10, 0xFE, 0x04, 0x0B, 0x23, 0x13, 0x1B, 0xA1, 0x44, 0x2F, 0x05, 0x3D)
FAST_MAX = 320


def gen_fast(rnd):
    """One program whose body is a block copy and/or a DJNZ loop -> (kind, regs, ov, stop).  The copy may reach the
    instruction's own two bytes from either side, start on them, or replace them by another instruction."""
    regs = [0] * 30
    for i in (A, F, B, C, D, E, H, L, 8, 9, 10, 11, I, R, 16, 17, 18, 19, 20, 21, 22, 23):
        regs[i] = simdrv.r8(rnd)
    regs[SP] = 0xFF00
    regs[IM] = rnd.randrange(3)
    regs[IFF] = 0 if rnd.random() < 0.85 else 1
    regs[MEMPTR] = rnd.randrange(65536)
    regs[T] = rnd.choice((0, 1000, FRAME48 - 30, rnd.randrange(FRAME48 * 2)))
    kind = rnd.choice(('ldir', 'ldir', 'ldir', 'djnz', 'mixed'))
    pc = rnd.choice((0x8000, 0x8000, 0x6000, 0x4000, 0x4001, 0xC123, 0xFFF0, 0xFFFC, 0xFFFD, 0xFFFE, 0xFFFF, 0x3FFE, 0x3FFF))
    ov = {}
    code = []
    pre = rnd.choice((0, 0, 1, 2))
    code += [0x00] * pre
    at = (pc + pre) % 65536          # address of the loop instruction
    if kind in ('ldir', 'mixed'):
        inc = rnd.choice((1, -1))
        code += [0xED, 0xB0 if inc > 0 else 0xB8]
        bc = rnd.choice((1, 1, 2, 2, 3, 4, 5, 8, 17, 40))
        how = rnd.random()
        if how < 0.45:               # the copy starts on, just before or just after the instruction's own bytes
            de = (at + rnd.randrange(-6, 8)) % 65536
        elif how < 0.6:              # ... or arrives there with its last bytes
            de = (at + rnd.randrange(0, 2) - inc * (bc - rnd.choice((0, 1, 1, 2)))) % 65536
        elif how < 0.8:              # ... or crosses a ROM/RAM/64K edge on its way (upwards over 0xFFFF -> 0x0000, downwards into the ROM)
            edge = rnd.choice((0x10000, 0x10000, 0x4000, 0x4000, 0x0000))
            de = (edge - inc * rnd.randrange(0, bc + 1) - (1 if inc < 0 else 0) + rnd.choice((0, 0, 1, -1))) % 65536
        else:
            de = rnd.choice((0x9000, 0x5000, 0xFFFE, 0x3FFE, 0x0000, 0xF000))
        src = rnd.random()
        if src < 0.5:
            hl = 0xA000 + rnd.randrange(64)
        elif src < 0.7:              # the classic fill: source one behind the destination
            hl = (de - inc) % 65536
        elif src < 0.85:             # copies its own code
            hl = (at + rnd.randrange(-3, 5)) % 65536
        else:
            hl = rnd.choice((0xFFFF, 0x0000, 0x3FFF, 0x4000))
        for i in range(-2, 44):
            ov[(hl + inc * i) % 65536] = rnd.choice(TAME)
        regs[B], regs[C] = bc >> 8, bc & 255
        regs[D], regs[E] = de >> 8, de & 255
        regs[H], regs[L] = hl >> 8, hl & 255
    if kind in ('djnz', 'mixed'):
        if kind == 'mixed':
            code += [0x06, rnd.choice((1, 2, 3, 9))]
        else:
            regs[B] = rnd.choice((0, 1, 1, 2, 3, 5, 20, 100, 255))
            if regs[B] == 0 and rnd.random() < 0.5:
                regs[B] = 2
        back = rnd.choice((0xFE, 0xFE, 0xFE, 0xFE, 0xFD, 0x00, 0xFC, 0x01)) if kind == 'djnz' else 0xFE
        if back in (0xFD, 0xFC) and pre + len(code) < 256 - back:
            back = 0xFE
        code += [0x10, back]
    code += [rnd.choice((0x00, 0x3C, 0x04, 0x23)) for _ in range(rnd.choice((1, 1, 2, 4)))]
    stop = (pc + len(code)) % 65536
    for i, b in enumerate(code):
        ov[(pc + i) % 65536] = b     # the code wins over the source area where they overlap
    regs[PC] = pc
    ints = 0
    if rnd.random() < 0.3 and 0x4000 <= pc < 0xFF00:
        # run(start, stop, interrupts=True): the frame interrupt arrives while the loop runs (or ends a HALT); the closed
        # forms must step aside (IFF=1) and run()'s own interrupt bookkeeping must agree with the machine
        ints = 1
        regs[IFF] = 1 if rnd.random() < 0.9 else 0
        regs[IM] = rnd.choice((1, 1, 2, 0))
        regs[T] = FRAME48 * rnd.randrange(1, 4) - rnd.choice((0, 1, 4, 13, 21, 40, 100, 250, 400)) + rnd.choice((0, 0, 31, 32))
        regs[I] = 0x7E
        for a, v in ((0x38, 0xFB), (0x39, 0xC9), (0x7EFF, 0x00), (0x7F00, 0x91),
                     (0x9100, 0xF5), (0x9101, 0xF1), (0x9102, 0xFB), (0x9103, 0xED), (0x9104, 0x4D)):
            ov[a] = v
        if rnd.random() < 0.3 and regs[IFF]:
            # HALT first: only the interrupt lets the program go on
            ov[stop] = ov[(stop - 1) % 65536]
            for i in range(len(code), 0, -1):
                ov[(pc + i) % 65536] = ov[(pc + i - 1) % 65536]
            ov[pc] = 0x76
            stop = (stop + 1) % 65536
            if at >= 0:
                at = (at + 1) % 65536
            if kind != 'djnz':
                de = regs[E] + 256 * regs[D]
                regs[T] = FRAME48 * rnd.randrange(1, 4) - rnd.choice((1, 4, 5, 8, 40))
    return kind, regs, [[a, v] for a, v in ov.items()], stop, (at if kind != 'djnz' else -1), ints


def ov_byte(ov, a):
    for x, v in ov:
        if x == a:
            return v
    return BASE[a]


def _mk(impl, cfg, regs, ov):
    from skoolkit import simutils
    cls = _classes()[impl]
    mem = bytearray(BASE_BYTES) if impl == 'c' else list(BASE)
    for a, v in ov:
        mem[a] = v
    sim = simutils.from_memory(cls, mem, None, None, cfg)
    for i, v in enumerate(regs):
        sim.registers[i] = v
    return sim, bytes(mem)


def fast_case(kind, regs, ov, stop, at=-1, ints=0, mark=None):
    """Without interrupts plain stepping decides whether the program reaches `stop` within FAST_MAX instructions (if not, no
    case); then every implementation/configuration runs it as ONE run(start, stop, interrupts) call."""
    import signal
    steps = -1
    if not ints:
        sim, ref = _mk('py', None, regs, ov)
        steps = 0
        while steps < FAST_MAX:
            sim.run()
            steps += 1
            if sim.registers[PC] == stop:
                break
        else:
            return None
    obs = []
    for name, impl, cfg in FAST_IMPLS:
        sim, ref = _mk(impl, cfg, regs, ov)
        exc = ''
        if mark:
            with open(mark, 'w') as f:
                f.write(repr((name, kind, regs, ov, stop, ints)))

        limit = 0.5 if ints else 5            # CPU seconds of this process (not wall time: the machine may be busy)

        def over(*a):
            raise TimeoutError('run(start, stop) still running after %s s of CPU time' % limit)
        old = signal.signal(signal.SIGVTALRM, over)
        signal.setitimer(signal.ITIMER_VIRTUAL, limit)
        try:
            sim.run(regs[PC], stop, bool(ints))
        except Exception as e:
            exc = '%s: %s' % (type(e).__name__, e)
        finally:
            signal.setitimer(signal.ITIMER_VIRTUAL, 0)
            signal.signal(signal.SIGVTALRM, old)
        cur = bytes(sim.memory)
        wr = [[a, cur[a]] for a in range(65536) if cur[a] != ref[a]] if cur != ref else []
        obs.append({'impl': name, 'r': [int(v) for v in sim.registers], 'wr': wr, 'exc': exc})
    if all(o['exc'].startswith('TimeoutError') for o in obs):
        return None                       # a program that never reaches its stop address on any implementation
    own = 1 if at >= 0 and any(a in (at, (at + 1) % 65536) for a, v in obs[1]['wr']) else 0
    return {'kind': kind, 'r0': regs, 'ov0': ov, 'stop': stop, 'max': FAST_MAX, 'steps': steps, 'frame': FRAME48, 'ia': IA48,
            'inv': 255, 'obs': obs, 'at': at, 'own': own, 'ints': ints,
            # addresses the (first) block copy targets, as far as BC says (for vacuity guards)
            'dest': ([] if at < 0 else
                     [(regs[E] + 256 * regs[D] + k * (1 if ov_byte(ov, (at + 1) % 65536) == 0xB0 else -1)) % 65536
                      for k in range(min(regs[C] + 256 * regs[B] or 65536, 64))])}


def fast_cases(args):
    """(seed, n, mark file) -> FastRun cases."""
    seed, n, mark = args
    import os
    cbuild.preload()
    rnd = random.Random(seed)
    out = []
    tries = 0
    while len(out) < n and tries < n * 4:
        tries += 1
        c = fast_case(*gen_fast(rnd), mark=mark)
        if c:
            out.append(c)
    if mark and os.path.exists(mark):
        os.remove(mark)
    return out
