"""C18 driver: generate annotated documents out of unique word tokens, push them through the real
skool2asm.main / skool2html.main / sna2skool.main and project what the tools wrote into the abstract
line records that spec/doc/WrapCases.tla judges (DESIGN section 4, C18).

One abstract document (entries: title, description paragraphs, registers, start / mid-block / end comments,
instruction groups of 1..6 instructions with one comment each, #LIST / #TABLE blocks) is rendered twice:
  * as a skool file  -> skool2asm (stdout + stderr warnings) and skool2html (asm/<address>.html pages)
  * as a control file + binary -> sna2skool (stdout)
The skool file written here is itself projected with the skool-syntax projection and judged as tool "gen",
so that the generator's use of the skool format (brace rules!) is not trusted either.

#LIST / #TABLE blocks stand in every place the documentation allows them (skool-macros.rst): description, start,
mid-block and end comment paragraphs, register descriptions and instruction-level comments. Behind a register
name and in a comment field less than a description line is available; there the blocks are designed around
that width (tables exactly a-3..a+3 wide, in the band up to line width - 2 and beyond it, with and without a :w
column; list items and the text around a block ending at / just short of it) - see WCLS, placed_block.

Nothing in this file decides a verdict: words are interned to integers (token text <-> id is injective per
document), lines are measured, html is tokenised with html.parser; TLC compares.
"""
import contextlib
import io
import os
import random
import re
import shutil
from html.parser import HTMLParser

from ..lib import cbuild

UNKNOWN = 999999
PUNCT_SUFFIX = ['.', ',', ';', ':', '!', '?', ')', '&', '>', "'s", '...']
PUNCT_PREFIX = ['(', '<', '&']
# characters that some line-level syntax of skool / control files uses as a marker (register continuation and
# paragraph separator '.', control file continuation '.' / ':', header '>', list bullet '*', ...) at the beginning
# of a *word*: there they are text. Only the one marker and the blanks behind it are syntax, so '; .  ...and so on'
# continues a register description with the words '...and', 'so', 'on' (skool-files.rst, register sections)
LEAD_PREFIX = ['.', '.', '..', '..', '...', '...', '*', '-', ':', '>']
LETTERS = 'abcdefghijklmnopqrstuvxyz'     # no 'w': filler words can never look like a numbered token


# ----------------------------------------------------------------------------------------------
# interning of tokens
# ----------------------------------------------------------------------------------------------
class Interner:
    def __init__(self):
        self.ids = {'': 0}

    def intern(self, core):
        if core not in self.ids:
            self.ids[core] = len(self.ids)
        return self.ids[core]

    @staticmethod
    def split(tok):
        lb = 0
        while lb < len(tok) and tok[lb] == '{' and lb < 9:
            lb += 1
        rest = tok[lb:]
        rb = 0
        while rb < len(rest) and rest[len(rest) - 1 - rb] == '}' and rb < 9:
            rb += 1
        return lb, rest[:len(rest) - rb], rb

    def code(self, tok, add=False):
        lb, core, rb = self.split(tok)
        i = self.intern(core) if add else self.ids.get(core, UNKNOWN)
        return i * 100 + lb * 10 + rb

    def codes(self, toks, add=False):
        return [self.code(t, add) for t in toks]


# ----------------------------------------------------------------------------------------------
# abstract document generator
# ----------------------------------------------------------------------------------------------
def greedy(lengths, avail):
    """reference wrap (used only to *design* inputs): list of lines, each a list of word indexes"""
    lines = []
    cur = -1
    for i, n in enumerate(lengths):
        if lines and cur + 1 + n <= avail:
            lines[-1].append(i)
            cur += 1 + n
        else:
            lines.append([i])
            cur = n
    return lines


def fill(rng, total, first=None, maxw=12):
    """word lengths whose text (single blanks) is exactly `total` long; first word length optionally fixed"""
    out = []
    rem = total
    if first is not None:
        if first > total or (total - first) == 1:
            return None
        out.append(first)
        rem -= first
        if rem:
            rem -= 1
    while rem > 0:
        hi = min(maxw, rem)
        cands = [n for n in range(1, hi + 1) if rem - n == 0 or rem - n >= 2]
        n = rng.choice(cands)
        out.append(n)
        rem -= n
        if rem:
            rem -= 1
    return out


def tight_lengths(rng, avail, nlines, lastlen, first_extra=0, maxw=12):
    """Word lengths that wrap greedily at `avail` into nlines lines such that (a) every line but the last
    ends s columns short of avail and the next line starts with a word of exactly s characters (one column
    too many to be pulled up) and (b) the last line is exactly lastlen long. The first word is first_extra
    characters longer in the output than here (a glued opening brace)."""
    for _ in range(60):
        lens = []
        first = None
        ok = True
        for j in range(nlines):
            if j == nlines - 1:
                target = lastlen
                s = None
            else:
                s = rng.choice([1, 1, 2, 2, 3, 4, 5, 6])
                if j == nlines - 2:
                    s = min(s, lastlen)
                target = avail - s
            if j == 0:
                target -= first_extra
            if target < 1 or (first is not None and first > target):
                ok = False
                break
            part = fill(rng, target, first, maxw=maxw)
            if part is None:
                ok = False
                break
            lens.extend(part)
            first = s
        if not ok:
            continue
        chk = list(lens)
        chk[0] += first_extra
        g = greedy(chk, avail)
        if len(g) == nlines and sum(chk[i] for i in g[-1]) + len(g[-1]) - 1 == lastlen:
            return lens
    return None


# width classes of a designed table: a = the width available at its place (line width - what stands in front of
# the text on that line), t = line width - 2 (the width of a description line, to which skool2asm fits tables)
WCLS = ['a-3', 'a-2', 'a-1', 'a+0', 'a+1', 'a+2', 'a+3', 'mid', 't-1', 't+0', 't+1', 't+2']
POSITIONS = ['first', 'after', 'before', 'between']      # block alone / after text / before text / between texts


def table_target(cls, avail, top):
    if cls == 'mid':
        return (avail + top + 1) // 2
    return (avail if cls[0] == 'a' else top) + int(cls[1:])


# register prefixes (skool-files.rst, register sections: "colon-terminated prefixes (such as 'Input:' and 'Output:',
# or simply 'I:' and 'O:')"; "If a register's prefix begins with the letter 'O', it is regarded as an output value;
# if it begins with any other letter, it is regarded as an input value. If a register has no prefix, it will be
# placed in the same table as the previous register; if there is no previous register, [...] input values")
IN_FORMS = ['Input', 'In', 'I', 'Inp', 'IN', 'Ix', 'Inputs', 'i', 'in', 'input']
OUT_FORMS = ['Output', 'Out', 'O', 'OUT', 'Ox', 'Outputs', 'o', 'out', 'output']
OTHER_FIRST = [c for c in 'ABCDEFGHIJKLMNOPQRSTUVWXYZabcdefghijklmnopqrstuvwxyz' if c not in 'IiOo']
OTHER_WORDS = ['Entry', 'Exit', 'Foo', 'Arg', 'Returns', 'Uses', 'nO', 'no', 'Zo', 'xO', 'A', 'z', 'Preserved', 'entry']
PREFIX_TAIL = 'abcdefghijklmnopqrstuvwxyzABCDEFGHIJKLMNOPQRSTUVWXYZ0123456789'
# families a free style draws its prefixes from (i: I*, o: O*, x: any other first letter)
FREE_STYLES = {'other': 'x', 'other-out': 'xxo', 'any': 'iox', 'io-forms': 'io'}
REG_STYLES = ['none', 'long', 'short', 'mixed', 'other', 'other-out', 'any', 'io-forms']


PREFIX_CLASSES = ['non-io', 'non-io-upper', 'non-io-lower', 'non-io-one-letter', 'unprefixed-after-non-io',
                  'non-io-after-output', 'io-other-form', 'io-lower', 'unprefixed-first', 'back-to-input',
                  'prefix-change', 'family-change']


def html_order(regs, lower_o_is_output=True):
    """the documented order of the registers on an entry page: the input values, then the output values"""
    out = False
    tagged = []
    for reg in regs:
        p = reg['prefix']
        if p:
            out = p[0] == 'O' or (lower_o_is_output and p[0] == 'o')
        tagged.append((out, reg))
    return [r for o, r in tagged if not o] + [r for o, r in tagged if o]


def prefix_classes(regs):
    """what a register section exercises of the prefix rules (for the vacuity counters)"""
    cls = set()
    fam = [('' if not r['prefix'] else 'i' if r['prefix'][0] in 'Ii' else 'o' if r['prefix'][0] in 'Oo' else 'x')
           for r in regs]
    out = False
    seen_out = False
    for i, (r, f) in enumerate(zip(regs, fam)):
        p = r['prefix']
        if p:
            out = f == 'o'
        seen_out = seen_out or out
        if f == 'x':
            cls.add('non-io')
            cls.add('non-io-upper' if p[0].isupper() else 'non-io-lower')
            if len(p) == 1:
                cls.add('non-io-one-letter')
            if i + 1 < len(regs) and not fam[i + 1]:
                cls.add('unprefixed-after-non-io')
            if seen_out:
                cls.add('non-io-after-output')
        elif f:
            if p not in ('Input', 'In', 'I', 'Output', 'O'):
                cls.add('io-other-form')
            if p[0].islower():
                cls.add('io-lower')
        elif i == 0 and any(fam):
            cls.add('unprefixed-first')
        if seen_out and not out:
            cls.add('back-to-input')
    if len(set(r['prefix'] for r in regs if r['prefix'])) > 1:
        cls.add('prefix-change')
    if len(set(fam) - {''}) > 1:
        cls.add('family-change')
    return sorted(cls)


def reg_avails(conf, regs):
    """columns left for the description behind each register name: (skool2asm, sna2skool). Used only to design
    inputs; the judgement measures the lines that come out."""
    plen = max([len(r['prefix']) + 1 for r in regs if r['prefix']] + [0])
    heads = [reg_head(r) for r in regs]
    mi = max([h.find(':') for h in heads] + [-1])
    out = []
    for r, h in zip(regs, heads):
        ind = max(len(h), mi + len(h) - h.find(':'))
        out.append((conf['W'] - 3 - plen - len(' '.join(r['name'])), max(max(conf['W'] - 2, 10) - ind - 1, 10)))
    return out


class DocGen:
    """Builds one abstract document. All random choices come from self.rng."""

    def __init__(self, rng, docid, conf):
        self.rng = rng
        self.docid = docid
        self.conf = conf
        self.nword = 0
        self.nreg = 0
        # blanks behind '{' and '|' in the control file rendering of list items / table cells (their own stream of
        # random numbers: white space never changes which words a document has)
        self.prng = random.Random(docid * 7919 + conf['W'] * 31 + 17)

    # -- words ---------------------------------------------------------------------------------
    def word(self, n, plain=False):
        """a token of exactly n characters; unique (numbered) whenever n leaves room for the number"""
        rng = self.rng
        self.nword += 1
        base = 'w%d' % self.nword
        if n < len(base):
            return ''.join(rng.choice(LETTERS) for _ in range(n))
        room = n - len(base)
        pre = suf = ''
        if not plain and room > 0 and rng.random() < 0.3:
            r = rng.random()
            if r < 0.25:
                pre = rng.choice([p for p in PUNCT_PREFIX if len(p) <= room])
            elif r < 0.5:
                pre = rng.choice([p for p in LEAD_PREFIX if len(p) <= room])
            else:
                c = [s for s in PUNCT_SUFFIX if len(s) <= room]
                suf = rng.choice(c)
            room -= len(pre) + len(suf)
        pad = ''
        if room > 0:
            pad = ''.join(rng.choice(LETTERS) for _ in range(room))
            if not plain and room >= 3 and rng.random() < 0.15:
                k = rng.randrange(1, room - 1)
                pad = pad[:k] + '-' + pad[k + 1:]
        return pre + base + pad + suf

    def words(self, lens, plain=False):
        return [self.word(n, plain) for n in lens]

    def rand_lens(self, lo, hi):
        rng = self.rng
        n = rng.randint(lo, hi)
        return [rng.choice([1, 2, 3, 4, 5, 5, 6, 7, 8, 9, 11, 14]) for _ in range(n)]

    # -- paragraphs ----------------------------------------------------------------------------
    def text_para(self, avail, tight=None, long_word=False):
        rng = self.rng
        if tight is not None:
            lens = tight_lengths(rng, avail, rng.randint(1, 3), max(1, avail - tight))
            if lens:
                return [('t', self.words(lens))]
        lens = self.rand_lens(1, 25)
        if long_word:
            lens.insert(rng.randrange(len(lens) + 1), avail + rng.choice([1, 1, 2, 5, 20]))
        ws = self.words(lens)
        if rng.random() < 0.15:          # braces are ordinary characters outside instruction comments
            i = rng.randrange(len(ws))
            ws[i] = rng.choice(['{' + ws[i], ws[i] + '}', '{' + ws[i] + '}'])
        return [('t', ws)]

    def list_chunk(self):
        rng = self.rng
        items = [self.words(self.rand_lens(1, 12), plain=True) for _ in range(rng.randint(1, 3))]
        if rng.random() < 0.3:
            items[rng.randrange(len(items))].append(self.word(rng.choice([30, 45, 60]), plain=True))
        if rng.random() < 0.25:          # an item whose text begins with dots / a bullet lookalike
            item = rng.choice(items)
            item[0] = rng.choice(LEAD_PREFIX) + item[0]
        return ('l', rng.choice(['', '', 'nowrap', 'wrapalign']), items, self.pads(len(items)))

    def pad(self):
        return self.prng.choice([1, 1, 1, 2, 3, 4])

    def pads(self, n):
        return [self.pad() for _ in range(n)]

    def layout(self, nrows, ncols, header, spans):
        """cells of a table in source order: rows of dicts(col, cs = colspan, rs = rowspan, h = header cell,
        t = transparent cell, w = words, filled in by the caller). A row lists only the cells that begin in it;
        with spans every row still has a cell of its own, every column a cell of colspan 1 (it shows where the
        column is), no span leaves the grid. Transparent cells: never in the first column, never beside another
        one (skool2asm draws no border between / left of / right of the table for them)."""
        rng = self.rng
        for attempt in range(30):
            occ = [[None] * ncols for _ in range(nrows)]
            rows = []
            # half of the wider layouts: a cell that spans rows and columns with cells to its right in every row it spans
            both = spans and ncols >= 3 and nrows >= 2 and rng.random() < 0.5
            for r in range(nrows):
                row = []
                c = 0
                while c < ncols:
                    if occ[r][c] is not None:
                        c += 1
                        continue
                    free = 1
                    while c + free < ncols and occ[r][c + free] is None:
                        free += 1
                    cs = min(free, rng.choice([1, 1, 1, 2, 2, 3])) if spans else 1
                    rs = min(nrows - r, rng.choice([1, 1, 1, 2, 2, 3])) if spans else 1
                    if both and r < nrows - 1 and free >= 2 and c + 2 < ncols:
                        cs, rs, both = 2, min(nrows - r, rng.choice([2, 2, 3])), False
                    cell = dict(r=r, col=c, cs=cs, rs=rs, h=bool(header and r == 0) or (spans and rng.random() < 0.06), t=False, w=None,
                                pad=self.pad())
                    for i in range(rs):
                        for j in range(cs):
                            occ[r + i][c + j] = cell
                    row.append(cell)
                    c += cs
                rows.append(row)
            cells = [cell for row in rows for cell in row]
            if not spans:
                return rows
            if (all(rows) and all(any(x['cs'] == 1 and x['col'] == c for x in cells) for c in range(ncols))
                    and any(x['cs'] > 1 or x['rs'] > 1 for x in cells)):
                for r, row in enumerate(rows):
                    for x in row:
                        beside = [occ[r + i][k] for i in range(x['rs']) for k in (x['col'] - 1, x['col'] + x['cs']) if 0 <= k < ncols]
                        if x['col'] > 0 and rng.random() < 0.12 and not any(y['t'] for y in beside):
                            x['t'] = True
                return rows
        return self.layout(nrows, ncols, header, False)

    def table_chunk(self):
        rng = self.rng
        spans = rng.random() < 0.4
        ncols = rng.randint(2, 4) if spans else rng.randint(1, 3)
        wrapcol = rng.choice([None] + list(range(ncols)))
        header = rng.random() < 0.5
        rows = self.layout(rng.randint(2 if spans else 1, 3) + int(header), ncols, header, spans)
        cells = [x for row in rows for x in row]
        for x in cells:
            if x['cs'] == 1:
                x['w'] = self.words(self.rand_lens(1, 22 if x['col'] == wrapcol and not (header and x['r'] == 0) else 2), plain=True)
        natural = [max(len(' '.join(x['w'])) for x in cells if x['cs'] == 1 and x['col'] == c) for c in range(ncols)]
        for x in cells:
            if x['cs'] > 1:       # fits into the columns it spans: they are as wide as their own cells need
                x['w'] = self.cell(rng.randint(1, sum(natural[x['col']:x['col'] + x['cs']]) + 3 * (x['cs'] - 1)))
        return ('b', rng.choice(['', '', 'nowrap', 'wrapalign']), wrapcol, header, rows, self.prng.random() < 0.3)

    def block_para(self):
        rng = self.rng
        chunks = []
        if rng.random() < 0.6:
            chunks.append(('t', self.words(self.rand_lens(1, 8), plain=True)))
        chunks.append(self.list_chunk() if rng.random() < 0.5 else self.table_chunk())
        if rng.random() < 0.6:
            chunks.append(('t', self.words(self.rand_lens(1, 8), plain=True)))
        return chunks

    def paras(self, lo, hi, avail, blocks=True):
        rng = self.rng
        out = []
        for _ in range(rng.randint(lo, hi)):
            r = rng.random()
            if blocks and r < 0.2:
                out.append(self.block_para() if r < 0.12 else self.aligned_block_para(avail + 2))
            elif r < 0.45:
                out.append(self.text_para(avail, tight=rng.choice([0, 0, 1, 2])))
            else:
                out.append(self.text_para(avail, long_word=rng.random() < 0.08))
        return out

    # -- blocks designed around a given width -----------------------------------------------------
    def cell(self, width):
        """words whose text (single blanks) is exactly `width` characters long (wide cells: longer words, so that
        the number of words to judge stays small)"""
        return self.words(fill(self.rng, width, maxw=max(14, width // 3)), plain=True)

    def table_design(self, T, wrap=False):
        """#TABLE whose unwrapped rendering in ASM mode is exactly T characters wide (columns + 3 per column + 1);
        wrap: one column is marked :w and holds most of the width"""
        rng = self.rng
        ncols = rng.randint(1, 3)
        while ncols > 1 and T - 3 * ncols - 1 < 3 * ncols:
            ncols -= 1
        S = max(ncols, T - 3 * ncols - 1)
        wrapcol = rng.randrange(ncols) if wrap else None
        if wrap:
            widths = [rng.randint(1, max(1, min(8, (S - 1) // ncols))) for _ in range(ncols)]
            widths[wrapcol] = S - sum(w for c, w in enumerate(widths) if c != wrapcol)
        else:
            cuts = sorted(rng.sample(range(1, S), ncols - 1)) if ncols > 1 else []
            widths = [b - a for a, b in zip([0] + cuts, cuts + [S])]
        header = rng.random() < 0.5
        spans = rng.random() < 0.5
        rows = self.layout(rng.randint(2 if spans else 1, 3) + int(header), ncols, header, spans)
        cells = [x for row in rows for x in row]
        for c in range(ncols):
            # one cell of colspan 1 makes the column as wide as planned, the others are not wider; a cell that spans
            # columns fits into them
            own = [x for x in cells if x['cs'] == 1 and x['col'] == c]
            full = rng.choice(own)
            for x in own:
                x['w'] = self.cell(widths[c] if x is full else rng.randint(1, widths[c]))
        for x in cells:
            if x['cs'] > 1:
                x['w'] = self.cell(rng.randint(1, sum(widths[x['col']:x['col'] + x['cs']]) + 3 * (x['cs'] - 1)))
        return ('b', rng.choice(['', '', 'nowrap', 'wrapalign']), wrapcol, header, rows, self.prng.random() < 0.3)

    def list_design(self, avail, delta):
        """#LIST whose items (bullet + blank + text in ASM mode) wrap tightly at avail, last line delta short of it"""
        rng = self.rng
        items = []
        for _ in range(rng.randint(1, 3)):
            lens = (tight_lengths(rng, avail - 2, rng.randint(1, 2), max(1, avail - 2 - delta), maxw=max(12, avail // 5))
                    or self.rand_lens(1, 12))
            items.append(self.words(lens, plain=True))
        return ('l', rng.choice(['', '', 'nowrap', 'wrapalign']), items, self.pads(len(items)))

    def aligned_block_para(self, W, s=None):
        """a paragraph with a #LIST / #TABLE / #UDGTABLE block (<wrapalign> in 3 of 5, <nowrap>, no flag) whose items /
        rows are long enough for sna2skool to wrap them at line width W. The text of an item, or of one cell of a
        row (any column), begins 1-4 blanks behind its '{' / '|' and is designed (tight_lengths) to wrap tightly at
        the width left of a line that begins in that column - where <wrapalign> puts the continuation lines: every
        line but the last ends a few columns short of the line width and the next word is one character too long
        to be pulled up. s: the rotation of a sweep document (None: random choices)"""
        rng = self.rng
        if s is None:
            s = rng.randrange(60)
        kind = ('list', 'table', 'udg')[s % 3]
        flag = ('wrapalign', 'wrapalign', 'nowrap', 'wrapalign', '')[s % 5]
        lpad = 1 + s % 4
        top = W - 2

        def long_text(col):
            avail = top - col
            lens = None
            if avail >= 12:
                lens = tight_lengths(rng, avail, rng.choice([2, 3, 3, 4]), max(1, avail - 2 - rng.randrange(4)),
                                     maxw=max(12, avail // 5))
            return self.words(lens or self.rand_lens(8, 30), plain=True)
        if kind == 'list':
            items = [long_text(1 + lpad)]
            pads = [lpad]
            if rng.random() < 0.5:
                k = rng.randrange(2)
                items.insert(k, self.words(self.rand_lens(1, 12), plain=True))
                pads.insert(k, self.pad())
            block = ('l', flag, items, pads)
        else:
            ncols = rng.randint(1, 3)
            lc = rng.randrange(ncols)
            rows = self.layout(rng.randint(1, 2), ncols, False, False)
            for row in rows:
                row[lc]['pad'] = lpad
                col = 0
                for c, x in enumerate(row):
                    col += (1 if c == 0 else 2) + x['pad']      # '{' or ' |' and the blanks behind it
                    if c == lc:
                        break
                    x['w'] = self.words([rng.randint(1, 4)], plain=True)
                    col += len(x['w'][0])
                row[lc]['w'] = long_text(col)
                for x in row[lc + 1:]:
                    x['w'] = self.words([rng.randint(1, 4)], plain=True)
            block = ('b', flag, lc, False, rows, kind == 'udg')
        return self.around(block, top, rng.choice(POSITIONS))

    def around(self, block, avail, pos, delta=0):
        """paragraph = [text] block [text]; the text wraps tightly at avail (text behind a block keeps one
        leading blank in ASM mode)"""
        rng = self.rng
        chunks = []
        if pos in ('after', 'between'):
            lens = tight_lengths(rng, avail, rng.randint(1, 2), max(1, avail - delta), maxw=max(12, avail // 5)) or self.rand_lens(1, 8)
            chunks.append(('t', self.words(lens, plain=True)))
        chunks.append(block)
        if pos in ('before', 'between'):
            lens = (tight_lengths(rng, avail, rng.randint(1, 2), max(2, avail - delta), first_extra=1, maxw=max(12, avail // 5))
                    or self.rand_lens(1, 8))
            chunks.append(('t', self.words(lens, plain=True)))
        return chunks

    def placed_block(self, cls, avail, top, wrap, pos, delta=0):
        """a paragraph with a block for a place where `avail` columns are left of a line; top = line width - 2 = the
        widest skool2asm renders a table. cls: width class of a table (WCLS) or 'list'"""
        if cls == 'list':
            return self.around(self.list_design(avail, delta), avail, pos, delta)
        return self.around(self.table_design(table_target(cls, avail, top), wrap), avail, pos, delta)

    # -- registers -----------------------------------------------------------------------------
    def free_prefix(self, families):
        """a register prefix (without its colon) of one of the families: 'i' / 'o' = any word that begins with
        I / O (either case), 'x' = a word that begins with any other letter (skool-files.rst: any colon-terminated
        prefix; first letter O -> output value, any other letter -> input value)"""
        rng = self.rng
        fam = rng.choice(families)
        if fam == 'i':
            return rng.choice(IN_FORMS)
        if fam == 'o':
            return rng.choice(OUT_FORMS)
        if rng.random() < 0.3:
            return rng.choice(OTHER_WORDS)
        n = rng.choice([1, 1, 2, 3, 4, 5, 6])
        return rng.choice(OTHER_FIRST) + ''.join(rng.choice(PREFIX_TAIL) for _ in range(n - 1))

    def reg_heads(self, n, style):
        rng = self.rng
        regs = []
        mode_out = False
        for i in range(n):
            prefix = ''
            if style in ('long', 'short', 'mixed'):
                # the documented pairs; inputs first, then outputs
                if i == 0 or rng.random() < 0.4:
                    if not mode_out and i > 0 and rng.random() < 0.7:
                        mode_out = True
                    names = {'long': ('Input', 'Output'), 'short': ('I', 'O'), 'mixed': ('In', 'O')}[style]
                    prefix = names[1] if mode_out else names[0]
            elif style != 'none':
                # free prefixes: the first register with or without one, unprefixed registers behind prefixed
                # ones, the prefix (and with it the table) changing in mid list - also back from output to input
                families = FREE_STYLES[style]
                if rng.random() < (0.75 if i == 0 else 0.5):
                    prefix = self.free_prefix(families)
            self.nreg += 1
            delim = None
            if rng.random() < 0.3:
                delim = rng.choice([('(', ')'), ('[', ']'), ('/', '/'), ('|', '|')])
                name = ['r%d%s' % (self.nreg, rng.choice(['', 'h', 'xy'])), 'q%d' % self.nreg][:rng.randint(1, 2)]
            else:
                name = ['r%d%s' % (self.nreg, rng.choice(['', 'h', 'xy']))]
            regs.append(dict(prefix=prefix, delim=delim, name=name, para=None, cls='plain'))
        # the documentation speaks of "the letter 'O'": whether a lower-case 'o' makes an output value is not
        # stated. Such a prefix stays only where both readings give the same page (same order of the registers)
        if html_order(regs, True) != html_order(regs, False):
            for reg in regs:
                if reg['prefix'][:1] == 'o':
                    reg['prefix'] = 'O' + reg['prefix'][1:]
        return regs

    def registers(self):
        """random register section: plain descriptions, descriptions that end at / near the width left behind the
        register name, descriptions with #TABLE / #LIST blocks of widths around that width"""
        rng = self.rng
        regs = self.reg_heads(rng.choice([0, 0, 1, 2, 3, 4, 5]), rng.choice(REG_STYLES))
        for reg, (aa, sa) in zip(regs, reg_avails(self.conf, regs)):
            r = rng.random()
            if r < 0.3:
                cls = rng.choice(WCLS + ['list', 'list', 'list'])
                wrap = rng.random() < 0.35
                reg['para'] = self.placed_block(cls, aa, self.conf['W'] - 2, wrap, rng.choice(POSITIONS), rng.randrange(3))
                reg['cls'] = 'list' if cls == 'list' else 'tab:%s:%s' % (cls, 'wrap' if wrap else 'exact')
            elif r < 0.5:
                tool, av = rng.choice([('asm', aa), ('skool', sa)])
                lens = tight_lengths(rng, av, rng.randint(1, 3), max(1, av - rng.randrange(3)))
                if lens:
                    reg['para'] = [('t', self.words(lens))]
                    reg['cls'] = 'tight-' + tool
            if reg['para'] is None:
                reg['para'] = [('t', self.words(self.rand_lens(1, 30)))]
        return regs

    def sweep_registers(self, s):
        """register section of a sweep document (s = its seed): two tables whose widths are 2 of the 12 classes
        WCLS around the width left behind the register name (s, s+6: every 6 consecutive widths/seeds see all 12;
        every pair has a class in the band (available, line width - 2]), in 2 of 3 documents one of them with a :w
        column; and a list or a plain description that ends at / just short of that width"""
        rng = self.rng
        regs = self.reg_heads(3, REG_STYLES[s % 8])
        top = self.conf['W'] - 2
        for i, (reg, (aa, sa)) in enumerate(zip(regs, reg_avails(self.conf, regs))):
            pos = POSITIONS[(s + i) % 4]
            if i < 2:
                cls = WCLS[(s + 6 * i) % 12]
                wrap = (s // 3) % 3 == i
                reg['para'] = self.placed_block(cls, aa, top, wrap, pos, (s + i) % 3)
                reg['cls'] = 'tab:%s:%s' % (cls, 'wrap' if wrap else 'exact')
            elif (s // 2) % 2:
                reg['para'] = self.placed_block('list', aa, top, False, pos, s % 3)
                reg['cls'] = 'list'
            else:
                tool, av = [('asm', aa), ('skool', sa)][s % 2]
                lens = tight_lengths(rng, av, rng.randint(1, 3), max(1, av - (s // 4) % 3)) or self.rand_lens(1, 30)
                reg['para'] = [('t', self.words(lens))]
                reg['cls'] = 'tight-' + tool
        return regs

    # -- instructions and groups ----------------------------------------------------------------
    def make_op(self, ordinal, oplen):
        """DEFB statement of (about) oplen characters whose first value is the ordinal -> (text, bytes)"""
        head = 'DEFB %d' % ordinal
        r = max(0, oplen - len(head))
        if r == 1:
            r = 2
        vals = []
        while r > 0:
            x = self.rng.choice([x for x in (2, 3, 4) if r - x == 0 or r - x >= 2])
            vals.append({2: 1, 3: 10, 4: 100}[x])
            r -= x
        data = [ordinal] + vals
        return 'DEFB ' + ','.join(str(b) for b in data), data

    def brace_variant(self, ws, k):
        """put braces on the words of an instruction comment in one of the positions the format allows"""
        rng = self.rng
        if not ws:
            return ws, 'plain'
        v = rng.choice(['plain'] * 6 + ['open-first', 'close-last', 'both', 'nested', 'more-open', 'more-close',
                                        'mid-pair', 'close-then-open', 'lone'])
        ws = list(ws)
        n = len(ws)
        if v == 'open-first':
            ws[0] = '{' + ws[0]
        elif v == 'close-last':
            ws[-1] = ws[-1] + '}'
        elif v == 'both':
            ws[0] = '{' + ws[0]
            ws[-1] = ws[-1] + '}'
        elif v == 'nested':
            ws[0] = '{{' + ws[0]
            ws[-1] = ws[-1] + '}}'
        elif v == 'more-open':
            ws[0] = '{' + ws[0]
            ws[rng.randrange(n)] = '{' + ws[rng.randrange(n)].lstrip('{')
        elif v == 'more-close':
            ws[-1] = ws[-1] + '}'
            i = rng.randrange(n)
            ws[i] = ws[i].rstrip('}') + '}'
        elif v == 'mid-pair' and n >= 3:
            i = rng.randrange(1, n - 1)
            ws[i] = '{' + ws[i] + '}'
        elif v == 'close-then-open' and n >= 2:
            i = rng.randrange(0, n - 1)
            j = rng.randrange(i + 1, n)
            ws[i] = ws[i] + '}'
            ws[j] = '{' + ws[j]
        elif v == 'lone' and n >= 2:
            ws.insert(rng.randrange(1, n), rng.choice(['{', '}']))
        else:
            v = 'plain'
        return ws, v

    def group(self, ordinal0, addr0, k, oplens, comment_lens, braces=True, tag='random'):
        ins = []
        addr = addr0
        for j in range(k):
            text, data = self.make_op(ordinal0 + j, oplens[j])
            ins.append(dict(addr=addr, op=text, data=data))
            addr += len(data)
        ws = self.words(comment_lens)
        variant = 'plain'
        if braces:
            ws, variant = self.brace_variant(ws, k)
        return dict(ins=ins, words=ws, mid=[], tag=tag, variant=variant, para=None, cls=''), addr


def asm_avail(conf, ops):
    iw = max([len(o) for o in ops] + [conf['iw']])
    return max(conf['W'] - 3 - iw - conf['indw'], conf['cwmin'])


def skool_avail(conf, opw):
    return max(conf['W'] - 10 - opw, conf['scwmin'])


def make_conf(rng, W, kind):
    conf = dict(W=W)
    if kind == 'sweep':
        conf.update(iw=rng.choice([23, 23, 10, 16]), ind=2, tab=0, crlf=0, cwmin=10, siw=13, scwmin=10)
    else:
        conf.update(iw=rng.choice([23, 5, 10, 17, 30, max(5, W - 25), W]), ind=rng.choice([2, 2, 0, 1, 5, 8]),
                    tab=rng.choice([0, 0, 0, 1]), crlf=rng.choice([0, 0, 1]), cwmin=rng.choice([10, 10, 5, 20, 33]),
                    siw=rng.choice([13, 13, 5, 20, 30, max(5, W - 20)]), scwmin=rng.choice([10, 10, 5, 20, 33]))
    conf['indw'] = 8 if conf['tab'] else conf['ind']
    conf['how'] = rng.choice(['set', 'P', 'I'])          # how the ASM writer properties are passed
    return conf


def gen_doc(seed, docid, W, kind):
    """kind 'sweep': one entry whose paragraphs and instruction comments end exactly at / just short of the
    available width, for skool2asm's and for sna2skool's width arithmetic; 'random': everything random."""
    rng = random.Random(seed)
    conf = make_conf(rng, W, kind)
    g = DocGen(rng, docid, conf)
    entries = []
    addr = rng.choice([30000, 32768, 40000, 65000 - rng.randint(0, 2000)])
    ordinal = 1
    nentries = 1 if kind == 'sweep' else rng.choice([1, 1, 2])
    for e in range(nentries):
        ent = dict(ctl=rng.choice('bbbcgu'), addr=addr)
        pav = W - 2
        if kind == 'sweep':
            # every 8th sweep document: a title with one word that cannot fit (the width exception + its warning)
            ent['title'] = g.text_para(pav, tight=docid % 3) if docid % 8 else g.text_para(pav, long_word=True)
            ent['desc'] = [g.text_para(pav, tight=d) for d in (0, 1, 2)]
            ent['regs'] = g.sweep_registers(seed)
            ent['start'] = [g.text_para(pav, tight=(docid + 1) % 3)]
            ent['end'] = [g.text_para(pav, tight=(docid + 2) % 3)]
            # a block whose items / rows sna2skool has to wrap, cell texts beginning 1-4 blanks behind '{' / '|': in the
            # description, the start comment, a mid-block comment (below), the end comment in turn
            aligned = g.aligned_block_para(W, seed)
            place = ('desc', 'start', 'mid', 'end')[(seed // 5) % 4]
            if place != 'mid':
                ent[place].append(aligned)
        else:
            ent['title'] = g.text_para(pav, tight=rng.choice([None, None, 0, 1]), long_word=rng.random() < 0.08)
            ent['desc'] = g.paras(0, 3, pav)
            ent['regs'] = g.registers()
            ent['start'] = g.paras(0, 2, pav) if rng.random() < 0.5 else []
            ent['end'] = g.paras(0, 2, pav) if rng.random() < 0.5 else []
        # plan the groups: sizes and operation lengths first (the widths depend on them), comments after
        plans = []
        if kind == 'sweep':
            for i in range(8):
                # asm: any group size; skool: at least 2 instructions (so that sna2skool adds braces) and at least as
                # many comment lines as instructions (so that the closing brace meets the end of the last line)
                k = 1 + (docid + i) % 6 if i < 4 else 2 + (docid + i) % 5
                # sna2skool's closing brace is '}' (1 column) or, after a comment that itself ends with '}', ' }'
                # (2 columns): last line short by 0 / 1 columns of what the closing needs, in both flavours
                slots = ([(0, False), (1, False), (1, True), (2, True)] if ((docid - 1) // 161) % 2 == 0
                         else [(2, False), (3, True), (0, True), (1, False)])
                plans.append(dict(k=k, oplens=[rng.choice([6, 8, 10, 13]) for _ in range(k)], sweep=True,
                                  target=('asm', i % 4, False) if i < 4 else ('skool',) + slots[i - 4]))
            if docid % 8 == 1:
                # every 8th sweep document: a two-instruction comment with '}' on its first and '{' on its last line
                plans.append(dict(k=2, oplens=[8, 8], target=None, special='close-then-open'))
            # an instruction-level comment with a block: a table whose width is at / around the width of the comment
            # field (a-3..a+3 over the seeds and widths), or a list whose items end at / near it
            plans.append(dict(k=1 + seed % 3, oplens=[rng.choice([6, 8, 10, 13]) for _ in range(1 + seed % 3)], target=None,
                              block=WCLS[(seed // 2) % 7] if seed % 2 else 'list', wrap=False, pos=POSITIONS[(seed // 2) % 4]))
        else:
            for i in range(rng.randint(1, 6)):
                k = rng.choice([1, 1, 1, 2, 2, 3, 4, 5, 6])
                longop = rng.random() < 0.15
                oplens = [rng.choice([6, 8, 10, 13, 19, 23, 24, 30]) if not (longop and rng.random() < 0.5)
                          else rng.choice([40, W - 12, W - 4, W + 3]) for _ in range(k)]
                oplens = [max(6, min(n, 118)) for n in oplens]
                t = rng.random()
                plans.append(dict(k=k, oplens=oplens,
                                  target=('asm', rng.randrange(4), False) if t < 0.25
                                  else ('skool', rng.randrange(4), rng.random() < 0.4) if t < 0.5 else None))
                if t >= 0.88:
                    plans[-1].update(block=rng.choice(WCLS + ['list'] * 6), wrap=rng.random() < 0.3, pos=rng.choice(POSITIONS))
        # operation texts are needed to know the real widths
        groups = []
        a = addr
        o = ordinal
        pre = []
        for p in plans:
            ops = [g.make_op(o + j, p['oplens'][j])[0] for j in range(p['k'])]
            pre.append(ops)
            o += p['k']
        opw = max([conf['siw']] + [len(t) for ops in pre for t in ops])
        for p, ops in zip(plans, pre):
            k = p['k']
            lens = None
            tag = 'random'
            braces = True
            closeend = False
            if p['target']:
                tool, delta, closeend = p['target']
                for attempt in range(4):
                    nl = rng.choice([1, 2, 2, 3, 4, k, k + 1])
                    if p.get('sweep') and tool == 'skool':
                        nl = k + rng.choice([0, 1])
                    if tool == 'asm':
                        av = asm_avail(conf, ops)
                        lens = tight_lengths(rng, av, nl, max(1, av - delta))
                        braces = rng.random() < 0.3
                    else:
                        av = skool_avail(conf, opw)
                        # sna2skool glues '{' to the first word of a multi-instruction comment
                        lens = tight_lengths(rng, av, nl, max(1, av - delta), first_extra=1 if k > 1 else 0)
                        braces = False
                    if lens:
                        tag = 'tight-%s-%d' % (tool, delta)
                        break
            if lens is None:
                lo = 1 if k > 1 else 0
                lens = g.rand_lens(lo, rng.choice([3, 8, 20, 40]))
                if rng.random() < 0.07:
                    lens.insert(rng.randrange(len(lens) + 1), rng.choice([60, 100, W]))
            if p.get('special') == 'close-then-open':
                lens = [5] * (3 + 3 * skool_avail(conf, opw) // 6)
                braces = False
            para = None
            if p.get('block'):
                para = g.placed_block(p['block'], asm_avail(conf, ops), W - 2, p['wrap'], p['pos'], seed % 3)
                lens, braces, tag = [], False, 'block'
            grp, a = g.group(ordinal, a, k, p['oplens'], lens, braces=braces, tag=tag)
            if para:
                # in skool / control file syntax the comment is the token sequence of the paragraph
                grp.update(para=para, words=flat(para), variant='block-list' if p['block'] == 'list' else 'block-table',
                           cls='list' if p['block'] == 'list' else 'tab:%s:%s' % (p['block'], 'wrap' if p['wrap'] else 'exact'))
            if p.get('special') == 'close-then-open':
                grp['words'][1] += '}'
                grp['words'][-1] = '{' + grp['words'][-1]
                grp['variant'] = 'close-then-open'
            if tag.startswith('tight-skool') and closeend and len(grp['words'][-1]) > 1:
                # the comment ends with '}' -> the closing brace sna2skool adds needs a blank before it
                grp['words'][-1] = grp['words'][-1][:-1] + '}'
                grp['variant'] = 'close-last'
            ordinal += k
            if groups and rng.random() < (0.5 if kind == 'random' else 0.3):
                grp['mid'] = g.paras(1, 2, pav, blocks=kind == 'random')
            if kind == 'sweep' and place == 'mid' and len(groups) == 1:
                grp['mid'] = grp['mid'] + [aligned]
            groups.append(grp)
        ent['groups'] = groups
        entries.append(ent)
        addr = a
    return dict(docid=docid, kind=kind, conf=conf, entries=entries, end=addr, seed=seed)


# ----------------------------------------------------------------------------------------------
# renderings of the abstract document (inputs of the tools)
# ----------------------------------------------------------------------------------------------
def table_marker(chunk, ctl=False):
    """ctl: the control file may call the table #UDGTABLE (same syntax; sna2skool treats both alike, skool2asm
    leaves a #UDGTABLE out - the skool file for skool2asm / skool2html always says #TABLE)"""
    _, flag, wrapcol, header, rows, udg = chunk
    classes = ['default'] + [''] * (wrapcol or 0)
    if wrapcol is not None:
        classes.append(':w')
    return '#%sTABLE(%s)%s' % ('UDG' if ctl and udg else '', ','.join(classes), '<%s>' % flag if flag else '')


def cell_indicators(cell):
    """'=h', '=c2', '=r2,c2', '=t,h' ...: the indicators of a table cell, separated by commas, in an order that
    depends on the cell's words only (every order is allowed)"""
    ind = []
    if cell['h']:
        ind.append('h')
    if cell['cs'] > 1:
        ind.append('c%d' % cell['cs'])
    if cell['rs'] > 1:
        ind.append('r%d' % cell['rs'])
    if cell['t']:
        ind.append('t')
    k = len(' '.join(cell['w'])) % max(1, len(ind))
    ind = ind[k:] + ind[:k]
    return '=' + ','.join(ind) if ind else ''


def skool_tokens(para, ctl=False):
    """tokens of a paragraph in skool / control file syntax (ctl: as the control file has them, i.e. with
    #UDGTABLE markers), with the chunk structure: list of (tokens, kind, gaps) where kind in 'text', 'marker',
    'row:<flag>', 'end' and gaps = number of blanks behind each token in the control file (more than one
    only behind the '{' of an item / row and the '|' in front of a cell)"""
    out = []
    for ch in para:
        if ch[0] == 't':
            out.append((list(ch[1]), 'text', [1] * len(ch[1])))
        elif ch[0] == 'l':
            out.append((['#LIST' + ('<%s>' % ch[1] if ch[1] else '')], 'marker', [1]))
            for item, pad in zip(ch[2], ch[3]):
                out.append((['{'] + list(item) + ['}'], 'row:' + ch[1], [pad] + [1] * (len(item) + 1)))
            out.append((['LIST#'], 'end', [1]))
        else:
            _, flag, wrapcol, header, rows, udg = ch
            out.append(([table_marker(ch, ctl)], 'marker', [1]))
            for r, row in enumerate(rows):
                toks = []
                gaps = []
                for c, cell in enumerate(row):
                    toks.append('|' if c else '{')
                    gaps.append(cell['pad'])
                    ind = cell_indicators(cell)
                    if ind:
                        toks.append(ind)
                    toks.extend(cell['w'])
                    gaps.extend([1] * (len(toks) - len(gaps)))
                toks.append('}')
                gaps.append(1)
                out.append((toks, 'row:' + flag, gaps))
            out.append((['UDGTABLE#' if ctl and udg else 'TABLE#'], 'end', [1]))
    return out


def flat(para, ctl=False):
    return [t for toks, _, _ in skool_tokens(para, ctl) for t in toks]


def ctl_text(para):
    """the paragraph as one control file comment: tokens separated by one blank, items / cells beginning 1-4
    blanks behind their '{' / '|'"""
    return ''.join(t + ' ' * g for toks, _, gaps in skool_tokens(para, True) for t, g in zip(toks, gaps)).rstrip()


def split_lines(rng, toks, sizes=(1, 2, 3, 5, 8, 12, 20)):
    """break a token list into input lines at random places; in 2 of 3 cases also in front of a word that begins
    with a character some line-level syntax uses as a marker (so that such words begin continuation lines)"""
    lines = []
    i = 0
    while i < len(toks):
        n = rng.choice(sizes)
        for j in range(i + 1, min(i + n, len(toks))):
            if toks[j][0] in '.*-:>' and rng.random() < 0.67:
                n = j - i
                break
        lines.append(' '.join(toks[i:i + n]))
        i += n
    return lines


def reg_head(reg):
    name = ' '.join(reg['name'])
    if reg['prefix']:
        name = reg['prefix'] + ':' + name
    if reg['delim']:
        name = reg['delim'][0] + name + reg['delim'][1]
    return name


def encode_group(rng, grp):
    """rows of an instruction group in skool syntax: [(instruction index or None, comment text)].
    Independent of sna2skool: chooses its own line breaks, number of braces and where they go."""
    k = len(grp['ins'])
    ws = list(grp['words'])
    if k == 1 and (not ws or not ws[0].startswith('{')):
        # an ordinary comment; may still continue over extra lines
        rows = [[0, []]]
        for w in ws:
            if rng.random() < 0.15 and rows[-1][1]:
                rows.append([None, []])
            rows[-1][1].append(w)
        return [(i, ' '.join(t)) for i, t in rows]
    # rows: one per instruction, continuation rows after any of them
    rows = []
    for j in range(k):
        rows.append([j, []])
        while rng.random() < 0.2:
            rows.append([None, []])
    # distribute the words over the rows in order
    cuts = sorted(rng.randrange(len(ws) + 1) for _ in range(len(rows) - 1))
    bounds = [0] + cuts + [len(ws)]
    for r in range(len(rows)):
        rows[r][1] = ws[bounds[r]:bounds[r + 1]]
    # continuation rows must not be empty (an empty continuation line is harmless but pointless): merge
    rows = [r for r in rows if r[0] is not None or r[1]]
    # braces needed so that the comment neither ends early nor late
    opens = [sum(t.count('{') for t in r[1]) for r in rows]
    closes = [sum(t.count('}') for t in r[1]) for r in rows]
    worst = 0
    bal = 0
    for r in range(len(rows) - 1):
        bal += closes[r] - opens[r]
        worst = max(worst, bal)
    a = 1 + worst
    if rng.random() < 0.2:
        a += 1
    b = max(1, a + sum(opens) - sum(closes))
    # opening: on the first row; glued to the first word unless that starts with '{' or is on a later row
    first = rows[0][1]
    if first and not first[0].startswith('{') and rng.random() < 0.7:
        first[0] = '{' * a + first[0]
    else:
        first.insert(0, '{' * a)
    last = rows[-1][1]
    if last and not last[-1].endswith(('}', '{')) and rng.random() < 0.7:
        last[-1] = last[-1] + '}' * b
    else:
        last.append('}' * b)
    return [(i, ' '.join(t)) for i, t in rows]


def render_skool(doc, rng):
    conf = doc['conf']
    L = ['@start']
    if conf['how'] == 'set':
        L += ['@set-%s=%s' % kv for kv in asm_props(conf)]
    for ent in doc['entries']:
        if len(L) > 1 and L[-1] != '':
            L.append('')
        for line in split_lines(rng, flat(ent['title'])):
            L.append('; ' + line)
        sections = []
        if ent['desc']:
            sec = []
            for i, p in enumerate(ent['desc']):
                if i:
                    sec.append('.')
                sec.extend(split_lines(rng, flat(p)))
            sections.append(sec)
        else:
            sections.append(None)
        if ent['regs']:
            sec = []
            for reg in ent['regs']:
                toks = flat(reg['para'])
                lines = split_lines(rng, toks, (1, 2, 3, 5, 8, 12, 20) if len(toks) <= 30 else (3, 8, 12, 20, 30))
                sec.append(reg_head(reg) + ' ' + lines[0])
                for line in lines[1:]:
                    sec.append('.' + ' ' * rng.choice([1, 1, 3]) + line)
                    if line[0] == '.':
                        ent['regdot'] = ent.get('regdot', 0) + 1
            sections.append(sec)
        else:
            sections.append(None)
        if ent['start']:
            sec = []
            for i, p in enumerate(ent['start']):
                if i:
                    sec.append('.')
                sec.extend(split_lines(rng, flat(p)))
            sections.append(sec)
        else:
            sections.append(None)
        while sections and sections[-1] is None:
            sections.pop()
        for sec in sections:
            L.append(';')
            for line in (sec if sec is not None else ['.']):
                L.append('; ' + line)
        first = True
        for grp in ent['groups']:
            for i, p in enumerate(grp['mid']):
                if i:
                    L.append('; .')
                for line in split_lines(rng, flat(p)):
                    L.append('; ' + line)
            for idx, text in encode_group(rng, grp):
                if idx is None:
                    L.append('%s; %s' % (' ' * rng.choice([1, 7, 20]), text))
                else:
                    ins = grp['ins'][idx]
                    ctl = ent['ctl'] if first else ' '
                    first = False
                    pad = ' ' * rng.choice([0, 1, 4])
                    if text or rng.random() < 0.5:
                        L.append(('%s%05d %s%s ; %s' % (ctl, ins['addr'], ins['op'], pad, text)).rstrip())
                    else:
                        L.append('%s%05d %s' % (ctl, ins['addr'], ins['op']))
        for i, p in enumerate(ent['end']):
            if i:
                L.append('; .')
            for line in split_lines(rng, flat(p)):
                L.append('; ' + line)
    return '\n'.join(L) + '\n'


def asm_props(conf):
    props = [('line-width', conf['W']), ('instruction-width', conf['iw']), ('comment-width-min', conf['cwmin']),
             ('crlf', conf['crlf'])]
    if conf['tab']:
        props.append(('tab', 1))
        props.append(('indent', conf['ind']))     # must be ignored when tab=1
    else:
        props.append(('indent', conf['ind']))
    return props


def render_ctl(doc, rng):
    """control file + memory image for sna2skool"""
    L = []
    mem = {}
    for ent in doc['entries']:
        a0 = ent['addr']
        L.append('%s %d %s' % (ent['ctl'], a0, ctl_text(ent['title'])))
        for p in ent['desc']:
            L.append('D %d %s' % (a0, ctl_text(p)))
        for reg in ent['regs']:
            L.append('R %d %s %s' % (a0, reg_head(reg), ctl_text(reg['para'])))
        for p in ent['start']:
            L.append('N %d %s' % (a0, ctl_text(p)))
        for grp in ent['groups']:
            ins = grp['ins']
            for p in grp['mid']:
                L.append('N %d %s' % (ins[0]['addr'], ctl_text(p)))
            text = ctl_text(grp['para']) if grp['para'] else ' '.join(grp['words'])
            total = sum(len(i['data']) for i in ins)
            if len(ins) == 1:
                L.append(('B %d,%d,%d %s' % (ins[0]['addr'], total, total, text)).rstrip())
            elif rng.random() < 0.5:
                L.append('M %d,%d %s' % (ins[0]['addr'], total, text))
                for i in ins:
                    L.append('B %d,%d,%d' % (i['addr'], len(i['data']), len(i['data'])))
            else:
                L.append('B %d,%d,%s %s' % (ins[0]['addr'], total, ','.join(str(len(i['data'])) for i in ins), text))
            for i in ins:
                for n, b in enumerate(i['data']):
                    mem[i['addr'] + n] = b
        for p in ent['end']:
            L.append('E %d %s' % (a0, ctl_text(p)))
    L.append('i %d' % doc['end'])
    org = doc['entries'][0]['addr']
    data = bytes(mem.get(a, 0) for a in range(org, doc['end']))
    return '\n'.join(L) + '\n', org, data


# ----------------------------------------------------------------------------------------------
# expected items per tool
# ----------------------------------------------------------------------------------------------
TABLE_TOKEN = '\x00TABLE'       # placeholder "word" standing for a whole rendered table


def table_cols(chunk):
    """The words of the cells of a table as they are compared: one group per horizontal extent (first column,
    colspan) that occurs, the groups ordered by (first column, colspan), within a group the cells top to bottom
    (source order). Without spans: the words of each column top to bottom."""
    groups = {}
    for row in chunk[4]:
        for cell in row:
            groups.setdefault((cell['col'], cell['cs']), []).extend(cell['w'])
    return [groups[k] for k in sorted(groups)]


def table_features(chunk):
    cells = [x for row in chunk[4] for x in row]
    f = set()
    ncols = max(x['col'] + x['cs'] for x in cells)
    for x in cells:
        if x['cs'] > 1 and x['rs'] > 1:
            f.add('span-both')
            if x['col'] + x['cs'] < ncols:
                f.add('span-both-cells-to-the-right')      # later rows have cells behind the spanned area
        elif x['cs'] > 1:
            f.add('span-col')
        elif x['rs'] > 1:
            f.add('span-row')
        if x['t']:
            f.add('transparent')
    if any(x['h'] for row in chunk[4][1:] for x in row):
        f.add('header-below-first-row')
    return sorted(f)


def table_minw(chunk, wcmin=10):
    """narrowest rendering of the table in ASM mode: a column marked :w may shrink to wrap-column-width-min
    (or its longest word, or its natural width if that is less). Cells that span columns are generated so that
    they fit into the unshrunk columns; if one lies over the :w column the narrowest width is not known (0)."""
    _, flag, wrapcol, header, rows = chunk[:5]
    cells = [x for row in rows for x in row]
    ncols = max(x['col'] + x['cs'] for x in cells)
    if wrapcol is not None and any(x['cs'] > 1 and x['col'] <= wrapcol < x['col'] + x['cs'] for x in cells):
        return 0
    widths = []
    for c in range(ncols):
        own = [x['w'] for x in cells if x['cs'] == 1 and x['col'] == c]
        natural = max(len(' '.join(w)) for w in own)
        if c == wrapcol:
            longest = max(len(t) for w in own for t in w)
            widths.append(max(longest, min(natural, wcmin)))
        else:
            widths.append(natural)
    return sum(widths) + 3 * ncols + 1


def rendered(it, para, tool, words, st, tabs, head=None):
    """Append what a reader of the ASM output / the HTML page sees of a paragraph to words: the words of its
    texts, list items (behind a bullet in ASM mode) and one placeholder per table (its cells go to tabs).
    st collects the words that must begin a line in ASM mode, [index, fixed words in front (bullet), 0].
    head: number of words already standing on the first line (register name), None if the paragraph begins a line."""
    first = True
    for ch in para:
        if ch[0] == 't':
            if not first:
                st.append([len(words) + 1, 0, 0])
            words.extend(ch[1])
        elif ch[0] == 'l':
            for item in ch[2]:
                if tool == 'asm':
                    if first and head is not None:
                        st[-1][1] = head + 1          # the bullet stands behind the register name
                    else:
                        st.append([len(words) + 1, 1, 0])
                    words.append('*')
                words.extend(item)
                first = False
        else:
            if tool == 'asm' and not (first and head is not None):
                st.append([len(words) + 1, 0, 0])
            words.append(TABLE_TOKEN)
            tabs.append(dict(cols=[it.codes(c, True) for c in table_cols(ch)], minw=table_minw(ch) if tool == 'asm' else 0,
                             features=table_features(ch)))
        first = False


def exp_para(it, para, tool, sec):
    """expected P item of one paragraph for one tool"""
    words = []
    st = []
    tabs = []
    if tool in ('skool', 'gen'):
        st.append([1, 0, 0])
        chunks = skool_tokens(para, ctl=tool == 'skool')
        for toks, kind, _ in chunks:
            if tool == 'skool' and len(chunks) > 1:
                st.append([len(words) + 1, 0, 1 if kind == 'row:nowrap' else 0])
            words.extend(toks)
    else:
        rendered(it, para, tool, words, st, tabs)
        st.append([1, 0, 0])
        if tool == 'html':
            st = [[1, 0, 0]]
    best = {}
    for x in st:              # one entry per line start (with the larger number of fixed words)
        if x[0] not in best or x[1] > best[x[0]][1]:
            best[x[0]] = x
    st = [best[k] for k in sorted(best)]
    return dict(t='P', sec=sec, w=it.codes(words, True), st=st, dotc=0, tabs=tabs, k=0, ins=[], name='', cls=[])


def exp_regs(it, regs, tool):
    words = []
    st = []
    tabs = []
    pcls = prefix_classes(regs)
    if tool == 'html':
        # the page lists the input values, then the output values (a lower-case 'o' prefix is generated only
        # where it makes no difference to this order: reg_heads)
        regs = html_order(regs)
    for reg in regs:
        if tool == 'asm':
            head = list(reg['name'])
            if reg['prefix']:
                head[0] = reg['prefix'] + ':' + head[0]
        elif tool == 'html':
            head = list(reg['name'])
        else:
            head = reg_head(reg).split()
        st.append([len(words) + 1, len(head), 0])
        words.extend(head)
        if tool in ('asm', 'html'):
            sub = []
            rendered(it, reg['para'], tool, words, sub if tool == 'html' else st, tabs, head=len(head))
        else:
            # sna2skool wraps a register description as plain text: the tokens of the blocks, in order
            words.extend(flat(reg['para'], ctl=tool == 'skool'))
    return dict(t='P', sec=3, w=it.codes(words, True), st=st, dotc=1 if tool in ('skool', 'gen') else 0, tabs=tabs,
                k=0, ins=[], name='regs', cls=['reg:' + r['cls'] for r in regs], pcls=pcls)


def expected(it, ent, tool):
    items = []

    def add(para, sec, name):
        p = exp_para(it, para, tool, sec)
        p['name'] = name
        items.append(p)
    add(ent['title'], 1, 'title')
    for p in ent['desc']:
        add(p, 2, 'desc')
    if ent['regs']:
        items.append(exp_regs(it, ent['regs'], tool))
    for p in ent['start']:
        add(p, 4, 'start')
    for grp in ent['groups']:
        for p in grp['mid']:
            add(p, 5, 'mid')
        words, st, tabs = grp['words'], [], []
        if grp['para'] and tool == 'skool':
            words = flat(grp['para'], ctl=True)
        if grp['para'] and tool in ('asm', 'html'):
            words = []
            rendered(it, grp['para'], tool, words, st, tabs)
            if tool == 'html':
                st = []
        items.append(dict(t='G', sec=0, w=it.codes(words, True), st=st, dotc=0, tabs=tabs, k=len(grp['ins']),
                          ins=[[i['addr'], it.intern('OP ' + i['op']), len(i['op'])] for i in grp['ins']],
                          name='group:%s:%s:k%d' % (grp['tag'], grp['variant'], len(grp['ins'])),
                          cls=['ins:' + grp['cls']] if grp['cls'] else []))
    for p in ent['end']:
        add(p, 6, 'end')
    return items


# ----------------------------------------------------------------------------------------------
# projections of what the tools wrote
# ----------------------------------------------------------------------------------------------
def line_rec(kind, w=(), n=0, wl=0, cl=0, fl=0, op=0, addr=0, rs=0, warn=0, tab=0, cols=(), lf=0):
    return dict(kind=kind, w=list(w), n=n, wl=wl, cl=cl, fl=fl, op=op, addr=addr, rs=rs, warn=warn, tab=tab,
                cols=[list(c) for c in cols], lf=lf)


def opcode(it, text):
    return it.ids.get('OP ' + text, UNKNOWN)


def chunks_of(lines):
    out = [[]]
    for line in lines:
        if line == '':
            if out[-1]:
                out.append([])
        else:
            out[-1].append(line)
    if not out[-1]:
        out.pop()
    return out


def parse_warnings(err):
    lines = err.split('\n')
    long_lines = set()
    tables = set()
    other = 0
    i = 0
    while i < len(lines):
        m = re.match(r'WARNING: Line is (\d+) characters long:$', lines[i])
        if m and i + 1 < len(lines):
            long_lines.add((int(m.group(1)), lines[i + 1]))
            i += 2
            continue
        m = re.match(r'WARNING: Table in entry at (\d+) is (\d+) characters wide$', lines[i])
        if m:
            tables.add((int(m.group(1)), int(m.group(2))))
        elif lines[i].startswith('WARNING:'):
            other += 1
        i += 1
    return long_lines, tables, other


BORDER = re.compile(r'^\+[-+]*\+$')       # (a piece of) a horizontal border of a table rendered by skool2asm
TEXT = re.compile(r'[^- ]')


def table_groups(it, tab):
    """The cells of a rendered table. tab['lines'] = its lines from the column of its left edge on. '|' and '+'
    delimit the cells; what stands between two of them and is not a piece of border is one line of a cell whose
    horizontal extent is (position of the left delimiter, position of the right one - the right edge of the table
    if a transparent cell leaves it open). Lines of one extent belong to the cells of that extent top to bottom
    (rows are not separated by borders, cells that span rows go on over the lines of those rows, borders that are
    crossed by such a cell carry a line of it): one group of words per extent, ordered by extent - the order and
    grouping of table_cols()."""
    groups = {}
    edge = max(len(l) for l in tab['lines']) - 1
    for l in tab['lines']:
        pos = [i for i, ch in enumerate(l) if ch in '|+']
        if not pos or l[:pos[0]].strip():
            groups.setdefault((-1, -1), []).append(UNKNOWN)       # text left of the table's left edge
            continue
        for x, y in zip(pos, pos[1:] + [None]):
            body = l[x + 1:y]
            if TEXT.search(body):
                groups.setdefault((x, edge if y is None else y), []).extend(it.codes(body.split()))
    return [groups[k] for k in sorted(groups)]


def table_line(it, tab, line, lead):
    """one more line of the table: from the column where the table began; anything but blanks between the comment
    marker (column lead-1) and that column is kept (on the first line the words in front of the table stand there)"""
    pre, body = line[lead:tab['pos']], line[tab['pos']:]
    if tab['lines'] and pre.strip():
        body = pre.strip() + ' ' + body
    tab['lines'].append(body)
    tab['rec']['cols'] = table_groups(it, tab)


def proj_asm(it, out, err, doc):
    """stdout + stderr of skool2asm -> per entry list of line records"""
    conf = doc['conf']
    term = '\r\n' if conf['crlf'] else '\n'
    long_lines, table_warn, _ = parse_warnings(err)
    entries = []
    # lines are what the configured terminator delimits; a bare LF inside such a line (CRLF mode) is kept as
    # an observation (lf=1 on the pieces) and the pieces are judged as lines of their own
    phys = []
    for line in out.split(term):
        pieces = line.split('\n')
        phys.extend((p, int(len(pieces) > 1)) for p in pieces)
    bare_lf = set(p for p, f in phys if f)
    for ei, chunk in enumerate(chunks_of([p for p, f in phys])):
        addr0 = doc['entries'][ei]['addr'] if ei < len(doc['entries']) else -1
        recs = []
        tab = itab = None
        for line in chunk:
            if line.startswith(';'):
                itab = None
                text = line[1:].strip()
                if not text:
                    tab = None
                    recs.append(line_rec('s', n=len(line), wl=len(line)))
                    continue
                toks = text.split()
                bi = [i for i, t in enumerate(toks) if BORDER.match(t)]
                if bi and (text[0] not in '+|' or (tab is None and bi[0] == 0)):
                    # the top border of a table, possibly behind other words (a register name): the table's line, the
                    # words in front of it are its fixed part
                    pos = len(line) - len(line.lstrip(';').lstrip()) if bi[0] == 0 else line.index(' ' + toks[bi[0]]) + 1
                    tab = dict(rec=line_rec('c', w=it.codes(toks[:bi[0]]) + [it.code(TABLE_TOKEN)], tab=1, fl=len(toks[0])),
                               pos=pos, lines=[])
                    recs.append(tab['rec'])
                if tab is not None and text[0] in '+|' or tab is not None and not tab['lines']:
                    r = tab['rec']
                    table_line(it, tab, line, 1)
                    r['n'] = r['wl'] = max(r['n'], len(line))
                    r['cl'] = max(r['cl'], len(line) - tab['pos'])
                    if r['w'][0] == it.code(TABLE_TOKEN):
                        r['fl'] = r['cl']
                    r['warn'] = int((addr0, r['cl']) in table_warn)
                    continue
                tab = None
                recs.append(line_rec('c', w=it.codes(toks), n=len(line), wl=len(line), cl=len(text), fl=len(toks[0]),
                                     warn=int((len(line), line) in long_lines), lf=int(line in bare_lf)))
            else:
                left, sep, right = line.partition(';')
                op = left.strip()
                text = right.strip()
                toks = text.split()
                rec = line_rec('i', w=it.codes(toks), n=len(line) + 7 * line.count('\t'), wl=len(line),
                               cl=len(text), fl=len(toks[0]) if toks else 0,
                               op=opcode(it, op) if op else 0, warn=int((len(line), line) in long_lines),
                               lf=int(line in bare_lf))
                recs.append(rec)
                if text[:1] in ('+', '|') and (itab is not None or BORDER.match(toks[0])):
                    # a table in the comment field: every row stays a row of its own (tab=1 the first, which stands
                    # for the table and carries its cells; tab=2 the others), measured and warned about per row.
                    # A complete border directly below a complete border is the top of the next table (the comment of
                    # the next instruction begins with a table).
                    border = not TEXT.search(text.replace('+', '').replace('|', ''))
                    if itab is None or (border and itab['border'] and '|' not in text):
                        itab = dict(rec=rec, pos=len(left) + 1 + len(right) - len(right.lstrip()), lines=[])
                        rec.update(w=[it.code(TABLE_TOKEN)], tab=1)
                    else:
                        rec.update(w=[], tab=2)
                    itab['border'] = border and '|' not in text
                    table_line(it, itab, line, len(left) + 1)
                else:
                    itab = None
                tab = None
        entries.append(recs)
    return entries


def proj_skool(it, text):
    """a skool file (sna2skool's stdout, or the harness' own input file) -> per entry list of line records"""
    entries = []
    for chunk in chunks_of(text.split('\n')):
        recs = []
        ignored = False
        for line in chunk:
            if line.startswith('@'):
                continue
            if line.startswith(';'):
                body = line[1:].strip()
                if body == '':
                    recs.append(line_rec('s', n=len(line), wl=len(line)))
                elif body == '.':
                    recs.append(line_rec('d', n=len(line), wl=len(line)))
                else:
                    toks = body.split()
                    content = body
                    ftok = toks[0]
                    if toks[0] == '.' and len(toks) > 1:
                        content = body[1:].lstrip()
                        ftok = toks[1]
                    recs.append(line_rec('c', w=it.codes(toks), n=len(line), wl=len(line), cl=len(content), fl=len(ftok)))
            elif line.lstrip().startswith(';'):
                body = line.lstrip()[1:].strip()
                toks = body.split()
                recs.append(line_rec('i', w=it.codes(toks), n=len(line), wl=len(line), cl=len(body),
                                     fl=len(toks[0]) if toks else 0))
            else:
                if line[0] == 'i':
                    ignored = True
                left, sep, right = line[6:].partition(';')
                body = right.strip()
                toks = body.split()
                try:
                    addr = int(line[1:6])
                except ValueError:
                    addr = -1
                recs.append(line_rec('i' if line[0] in 'bcgistuw *' else 'x', w=it.codes(toks), n=len(line), wl=len(line),
                                     cl=len(body), fl=len(toks[0]) if toks else 0, op=opcode(it, left.strip()), addr=addr))
        if not ignored and recs:
            entries.append(recs)
    return entries


VOID = {'meta', 'link', 'br', 'img', 'hr', 'input'}


class Node:
    def __init__(self, tag, attrs, parent):
        self.tag = tag
        self.attrs = dict(attrs)
        self.parent = parent
        self.kids = []        # Node or str

    @property
    def cls(self):
        return self.attrs.get('class') or ''

    def find(self, tag=None, cls=None, prefix=None):
        for k in self.kids:
            if isinstance(k, Node):
                if (tag is None or k.tag == tag) and (cls is None or k.cls == cls) and (prefix is None or k.cls.startswith(prefix)):
                    yield k
                else:
                    yield from k.find(tag, cls, prefix)

    def text(self):
        return ''.join(k if isinstance(k, str) else k.text() for k in self.kids)


class Dom(HTMLParser):
    def __init__(self):
        super().__init__(convert_charrefs=True)
        self.root = Node('root', (), None)
        self.cur = self.root

    def handle_starttag(self, tag, attrs):
        n = Node(tag, attrs, self.cur)
        self.cur.kids.append(n)
        if tag not in VOID:
            self.cur = n

    def handle_startendtag(self, tag, attrs):
        self.cur.kids.append(Node(tag, attrs, self.cur))

    def handle_endtag(self, tag):
        n = self.cur
        while n is not None and n.tag != tag:
            n = n.parent
        if n is not None and n.parent is not None:
            self.cur = n.parent

    def handle_data(self, data):
        self.cur.kids.append(data)


def html_para(it, node):
    """words of a paragraph div in document order; nested <table>s become placeholders + columns"""
    words = []
    tabs = []

    def walk(n):
        for k in n.kids:
            if isinstance(k, str):
                words.extend(it.codes(k.split()))
            elif k.tag == 'table':
                # a cell begins in the first column of its row that no cell of this or an earlier row covers (HTML table
                # model); the words are grouped by (first column, colspan) as in table_cols()
                rows = [[c for c in tr.kids if isinstance(c, Node) and c.tag in ('td', 'th')] for tr in k.find('tr')]
                covered = set()
                groups = {}
                for r, row in enumerate(rows):
                    c = 0
                    for cell in row:
                        while (r, c) in covered:
                            c += 1
                        try:
                            cs, rs = int(cell.attrs.get('colspan') or 1), int(cell.attrs.get('rowspan') or 1)
                        except ValueError:
                            cs, rs = 1, 1
                            groups.setdefault((-1, -1), []).append(UNKNOWN)
                        covered.update((r + i, c + j) for i in range(rs) for j in range(cs))
                        groups.setdefault((c, cs), []).extend(it.codes(cell.text().split()))
                        c += cs
                words.append(it.code(TABLE_TOKEN))
                tabs.append([groups[g] for g in sorted(groups)])
            else:
                walk(k)
    walk(node)
    return words, tabs


def html_para_lines(it, node, head=()):
    words, tabs = html_para(it, node)
    if not tabs:
        return [line_rec('c', w=list(head) + words)]
    # one pseudo line per run of words and one per table, so that every table line has its columns
    recs = []
    run = list(head)
    t = 0
    for w in words:
        if w == it.code(TABLE_TOKEN):
            if run:
                recs.append(line_rec('c', w=run))
                run = []
            recs.append(line_rec('c', w=[w], tab=1, cols=tabs[t]))
            t += 1
        else:
            run.append(w)
    if run:
        recs.append(line_rec('c', w=run))
    return recs


def proj_html(it, page):
    d = Dom()
    d.feed(page)
    d.close()
    recs = []
    desc = list(d.root.find('div', 'description'))
    if desc:
        toks = desc[0].text().split()
        if toks and re.match(r'^\d+:$', toks[0]):
            toks = toks[1:]
        recs.append(line_rec('c', w=it.codes(toks)))
        recs.append(line_rec('s'))
    dis = list(d.root.find('table', 'disassembly'))
    if not dis:
        return recs
    for tr in [k for k in dis[0].kids if isinstance(k, Node) and k.tag == 'tr']:
        tds = [k for k in tr.kids if isinstance(k, Node) and k.tag == 'td']
        if tds and tds[0].cls == 'routine-comment':
            td = tds[0]
            for div in [k for k in td.kids if isinstance(k, Node)]:
                if div.tag == 'div' and div.cls in ('details', 'comments'):
                    for para in [k for k in div.kids if isinstance(k, Node) and k.tag == 'div' and k.cls == 'paragraph']:
                        recs.extend(html_para_lines(it, para))
                        recs.append(line_rec('s'))
                elif div.tag == 'table' and div.cls in ('input', 'output'):
                    for row in div.find('tr'):
                        name = list(row.find('td', 'register'))
                        rdesc = list(row.find('td', 'register-desc'))
                        if name and rdesc:
                            recs.extend(html_para_lines(it, rdesc[0], it.codes(name[0].text().split())))
            recs.append(line_rec('s'))
        else:
            addr = [t for t in tds if t.cls.startswith('address-')]
            ins = [t for t in tds if t.cls == 'instruction']
            com = [t for t in tds if t.cls.startswith('comment-')]
            if not addr or not ins:
                recs.append(line_rec('x'))
                continue
            try:
                a = int(addr[0].text().strip())
            except ValueError:
                a = -1
            rs = 0
            words = []
            tabs = []
            if com:
                try:
                    rs = int(com[0].attrs.get('rowspan', '0'))
                except ValueError:
                    rs = -1
                words, tabs = html_para(it, com[0])
            # tables in the comment cell: placeholders among the words, the cells of the (first) table in cols
            cols = (tabs[0] + [[UNKNOWN]] * (len(tabs) - 1)) if com and tabs else ()
            recs.append(line_rec('i', w=words, op=opcode(it, ' '.join(ins[0].text().split())), addr=a, rs=rs,
                                 tab=int(bool(cols)), cols=cols))
    return recs


# ----------------------------------------------------------------------------------------------
# running the real tools
# ----------------------------------------------------------------------------------------------
def _capture(fn, args):
    out, err = io.StringIO(newline=''), io.StringIO(newline='')
    exc = ''
    with contextlib.redirect_stdout(out), contextlib.redirect_stderr(err):
        try:
            fn(args)
        except SystemExit as e:
            if e.code not in (None, 0):
                exc = 'exit %s' % (e.code,)
        except Exception as e:            # noqa: BLE001 - any failure of the tool is an observation
            exc = '%s: %s' % (type(e).__name__, e)
    return out.getvalue(), err.getvalue(), exc


REG_CONT_DOT = re.compile(r'^; \. +\.')       # sna2skool: continuation of a register description, text begins with a dot


BLOCK_BEGIN = re.compile(r'^#(LIST|TABLE|UDGTABLE)(\([^)]*\))?<wrapalign>$')


def wrapalign_stats(text, W):
    """(coverage only, no verdict) the items / rows of <wrapalign> blocks in the paragraphs sna2skool wrote:
    wrapped = written on more than one line; multi = wrapped and the continuation lines are aligned with a text
    that begins two or more blanks behind its '{' / '|'; near = multi and some continuation line breaks where the
    next word would have fitted had the line been allowed as many columns more as there are extra blanks"""
    n = {}

    def count(key):
        n[key] = n.get(key, 0) + 1
    kind = None
    row = None
    for line in text.split('\n'):
        line = line.rstrip('\r')
        body = line[2:] if line.startswith('; ') else None
        if body is None:
            kind = row = None
            continue
        m = BLOCK_BEGIN.match(body)
        if m:
            kind = m.group(1).lower()
            row = None
        elif kind and body.endswith(('LIST#', 'TABLE#')):
            kind = row = None
        elif kind:
            if body.startswith('{'):
                row = []
            if row is not None:
                row.append(body)
                if body.endswith(' }') or body == '}':
                    if len(row) > 1:
                        count('wrapped')
                        first = row[0]
                        ind = len(row[1]) - len(row[1].lstrip())
                        extra = 0
                        while ind - 2 - extra >= 0 and first[ind - 2 - extra] == ' ':
                            extra += 1
                        if extra and len(first) > ind and first[ind - 1] == ' ' and first[ind] != ' ':
                            count('multi')
                            count('multi:' + kind)
                            count('multi:extra%d' % extra)
                            if any(len(a) + 3 + len(b.split()[0]) <= W + extra for a, b in zip(row[1:], row[2:])):
                                count('near')
                                count('near:' + kind)
                    row = None
    return n


def run_doc(doc, wd):
    """-> list of cases (one per tool and entry)"""
    from skoolkit import skool2asm, skool2html, sna2skool
    rng = random.Random(doc['seed'] * 7 + 1)
    conf = doc['conf']
    name = 'd%d' % doc['docid']
    d = os.path.join(wd, name)
    os.makedirs(d, exist_ok=True)
    skool = render_skool(doc, rng)
    ctl, org, data = render_ctl(doc, rng)
    sf = os.path.join(d, name + '.skool')
    with open(sf, 'w') as f:
        f.write(skool)
    with open(os.path.join(d, name + '.ctl'), 'w') as f:
        f.write(ctl)
    with open(os.path.join(d, name + '.bin'), 'wb') as f:
        f.write(data)
    it = Interner()
    it.intern('.')
    it.intern(TABLE_TOKEN)
    it.intern('*')
    exp = {tool: [expected(it, ent, tool) for ent in doc['entries']] for tool in ('asm', 'html', 'skool', 'gen')}
    outs = {}
    excs = {}
    # skool2asm
    args = ['-q']
    if conf['how'] == 'P':
        for k, v in asm_props(conf):
            args += ['-P', '%s=%s' % (k, v)]
    elif conf['how'] == 'I':
        for k, v in asm_props(conf):
            args += ['-I', 'Set-%s=%s' % (k, v)]
    out, err, exc = _capture(skool2asm.main, args + [sf])
    excs['asm'] = exc
    outs['asm'] = proj_asm(it, out, err, doc) if not exc else []
    # skool2html
    hd = os.path.join(d, 'html')
    out, err, exc = _capture(skool2html.main, ['-q', '-d', hd, '-w', 'd', sf])
    excs['html'] = exc
    pages = []
    if not exc:
        for ent in doc['entries']:
            p = os.path.join(hd, name, 'asm', '%d.html' % ent['addr'])
            if os.path.isfile(p):
                with open(p, encoding='utf-8') as f:
                    pages.append(proj_html(it, f.read()))
            else:
                pages.append([])
    outs['html'] = pages
    # sna2skool
    args = ['-o', str(org), '-c', os.path.join(d, name + '.ctl'), '-w', str(conf['W']),
            '-I', 'InstructionWidth=%d' % conf['siw'], '-I', 'CommentWidthMin=%d' % conf['scwmin'],
            os.path.join(d, name + '.bin')]
    out, err, exc = _capture(sna2skool.main, args)
    excs['skool'] = exc
    outs['skool'] = proj_skool(it, out) if not exc else []
    wastats = wrapalign_stats(out, conf['W']) if not exc else {}
    skool_regdot = sum(1 for line in out.split('\n') if REG_CONT_DOT.match(line)) if not exc else 0
    outs['gen'] = proj_skool(it, skool)
    excs['gen'] = ''
    shutil.rmtree(d, ignore_errors=True)
    cases = []
    for tool in ('gen', 'asm', 'html', 'skool'):
        for ei, ent in enumerate(doc['entries']):
            o = outs[tool][ei] if ei < len(outs[tool]) else []
            cases.append(dict(
                key='%s:%s:W%d:d%d:e%d' % (tool, doc['kind'], conf['W'], doc['docid'], ei),
                tool=tool, W=conf['W'] if tool in ('asm', 'skool') else 0,
                cwmin=conf['cwmin'] if tool == 'asm' else conf['scwmin'] if tool == 'skool' else 0,
                ind=conf['indw'], iw=conf['iw'] if tool == 'asm' else conf['siw'],
                eop=max(len(i['op']) for g in ent['groups'] for i in g['ins']),
                dot=it.code('.'), bul=it.code('*'), exc=excs[tool], exp=exp[tool][ei], out=o,
                extra=len(outs[tool]) - len(doc['entries']),
                wa=wastats if tool == 'skool' and ei == 0 else {},
                # register continuation lines ('; .  text') whose text begins with a dot: in the skool file read by
                # skool2asm / skool2html (and judged as 'gen'), in the skool file sna2skool wrote
                regdot=(skool_regdot if ei == 0 else 0) if tool == 'skool' else ent.get('regdot', 0),
                doc=dict(seed=doc['seed'], docid=doc['docid'], kind=doc['kind'], W=conf['W'], conf=conf)))
    return cases


def worker(args):
    """args = (workdir, [(seed, docid, W, kind), ...]) -> list of cases"""
    wd, specs = args
    cbuild.repo_only()
    os.makedirs(wd, exist_ok=True)
    os.chdir(wd)
    cases = []
    for seed, docid, W, kind in specs:
        doc = gen_doc(seed, docid, W, kind)
        cases.extend(run_doc(doc, wd))
    return cases


def reproduce(seed, docid, W, kind, wd):
    """the concrete inputs of one document (for replay files / reports)"""
    doc = gen_doc(seed, docid, W, kind)
    rng = random.Random(doc['seed'] * 7 + 1)
    skool = render_skool(doc, rng)
    ctl, org, data = render_ctl(doc, rng)
    return dict(conf=doc['conf'], skool=skool, ctl=ctl, org=org, bin_hex=data.hex())
