"""C19 driver: single steps at chosen frame positions with PC / pointer / port / IR placements in
contended and uncontended memory, on the plain Python simulator and both contended simulators."""
import random

from ..lib import cbuild
from . import simdrv
from .simdrv import A, F, B, C, D, E, H, L, IXh, IYh, SP, I, R, PC, T, IFF, IM, HALT, MEMPTR

FIRST48, T1_48, FRAME48 = 14335, 57245, 69888
# machine layouts: first contended T, first T after the contended part, T per line, frame, INT length
L48 = dict(first=14335, t1=57245, line=224, frame=69888, ia=32, m128=0, odd=0, page=0, rom=0)
L128_ODD = dict(first=14361, t1=58035, line=228, frame=70908, ia=36, m128=1, odd=1, page=1, rom=0)
L128_ODD3 = dict(first=14361, t1=58035, line=228, frame=70908, ia=36, m128=1, odd=1, page=3, rom=1)
L128_EVEN = dict(first=14361, t1=58035, line=228, frame=70908, ia=36, m128=1, odd=0, page=4, rom=1)
L128_EVEN0 = dict(first=14361, t1=58035, line=228, frame=70908, ia=36, m128=1, odd=0, page=0, rom=0)
LAYOUTS128 = (L128_ODD, L128_EVEN, L128_ODD3, L128_EVEN0)


def place(rnd):
    k = rnd.random()
    if k < 0.5:
        return rnd.choice((0x4000, 0x4001, 0x5AFF, 0x7FFE, 0x7FFF, rnd.randrange(0x4000, 0x8000)))
    if k < 0.85:
        return rnd.choice((0x8000, 0x8001, 0xBFFF, 0xC000, 0xFFFF, rnd.randrange(0x8000, 0x10000)))
    return rnd.choice((0x0000, 0x3FFF, 0x3FFE, rnd.randrange(0x4000)))


def place128(rnd):
    """128K: the bank at 0xC000 matters (contended when odd), so put more there."""
    k = rnd.random()
    if k < 0.35:
        return rnd.choice((0x4000, 0x4001, 0x5AFF, 0x7FFE, 0x7FFF, rnd.randrange(0x4000, 0x8000)))
    if k < 0.7:
        return rnd.choice((0xC000, 0xC001, 0xFFFE, 0xFFFF, 0xBFFF, 0xBFFE, rnd.randrange(0xC000, 0x10000)))
    if k < 0.85:
        return rnd.choice((0x8000, 0x8001, rnd.randrange(0x8000, 0xC000)))
    return rnd.choice((0x0000, 0x3FFF, 0x3FFE, rnd.randrange(0x4000)))


def frame_pos(rnd, first=FIRST48, t1=T1_48, line=224, frame=FRAME48):
    k = rnd.random()
    if k < 0.25:
        t = first + rnd.randrange(-32, 24)
    elif k < 0.5:
        t = first + line * rnd.choice((0, 1, 2, 95, 190, 191)) + rnd.randrange(-10, 140)
    elif k < 0.65:
        t = t1 + rnd.randrange(-45, 8)
    elif k < 0.9:
        t = rnd.randrange(first, t1)
    else:
        t = rnd.choice((0, 100, first - 200, t1 + 300, frame - 10))
    return t + frame * rnd.randrange(3)


BOUNDARY_T = (FIRST48 - 24, FIRST48 - 23, FIRST48 - 22, FIRST48 - 21, T1_48 - 2, T1_48 - 1, T1_48, T1_48 + 1)


def cplace(rnd):
    return rnd.choice((0x4000, 0x5ABC, 0x7FFC, rnd.randrange(0x4000, 0x7FF0)))


def boundary_t(lay):
    f, t1 = lay['first'], lay['t1']
    return (f - 24, f - 23, f - 22, f - 21, t1 - 2, t1 - 1, t1, t1 + 1)


def cplace128odd(rnd):
    return rnd.choice((0x4000, 0x7FFC, 0xC000, 0xFFFC, 0xFFFF, 0xBFFF, rnd.randrange(0xC000, 0xFFF0), rnd.randrange(0x4000, 0x7FF0)))


def make_case(slot, rnd, variant, boundary=None, lay=L48, wrap=False):
    """boundary = index into BOUNDARY_T: everything the instruction touches is placed in contended
    memory and it starts right at the edge of the window in which contention is computed.
    wrap: the instruction straddles 0xFFFF -> 0x0000 (its later bytes come from ROM) inside the contended part of a line."""
    lead, name = slot
    if lay['m128']:
        place_ = (cplace128odd if lay['odd'] else cplace) if boundary is not None else place128
    else:
        place_ = cplace if boundary is not None else place
    pc = place_(rnd)
    ins = [simdrv.r8(rnd) if b is None else b for b in lead]
    while len(ins) < 4:
        ins.append(rnd.choice((0x40, 0x5A, 0x7F, 0x80, 0x3F, 0xFF, 0x00)) if rnd.random() < 0.5 else rnd.randrange(256))
    regs = [0] * 30
    for i in (A, F, C, E, L, 9, 11, R, 16, 17, 18, 19, 20, 21, 22, 23):
        regs[i] = simdrv.r8(rnd)
    for hi in (B, D, H, IXh, IYh):
        v = place_(rnd)
        regs[hi], regs[hi + 1] = v >> 8, v & 255
    regs[A] = rnd.choice((0x40, 0x7F, 0x3F, 0x80, 0xFE, rnd.randrange(256)))
    regs[I] = rnd.choice((0x3F, 0x40, 0x7F, 0x80, rnd.randrange(256)))
    regs[SP] = place_(rnd)
    regs[PC] = pc
    regs[T] = frame_pos(rnd, lay['first'], lay['t1'], lay['line'], lay['frame'])
    if lay['m128']:
        regs[A] = rnd.choice((0x40, 0x7F, 0x3F, 0x80, 0xC0, 0xFF, 0xBF, rnd.randrange(256)))
        regs[I] = rnd.choice((0x3F, 0x40, 0x7F, 0x80, 0xBF, 0xC0, 0xFF, rnd.randrange(256)))
    if boundary is not None:
        regs[A] = rnd.choice((0x40, 0x7F, 0xC0, 0xFF) if lay['odd'] else (0x40, 0x7F))
        regs[I] = rnd.choice((0x40, 0x7F, 0xC0, 0xFF) if lay['odd'] else (0x40, 0x7F))
        regs[T] = boundary_t(lay)[boundary] + lay['frame'] * rnd.randrange(2)
        if ins[1:] and lead[-1] is not None:
            for k in range(len(lead), 4):
                ins[k] = rnd.choice((0x40, 0x50, 0x7F)) if k == len(lead) + 1 else rnd.choice((0x01, 0x02, 0x7E))
    if lead[0] in (0xDD, 0xFD) and not wrap and rnd.random() < 0.35:
        # index register and indexed address on different sides of a contended / uncontended / ROM edge: the cycles that
        # access (IX+d) are contended by IX+d, not by IX
        edge = rnd.choice((0x4000, 0x8000, 0xC000, 0x10000) if lay['m128'] else (0x4000, 0x8000, 0x4000, 0x8000, 0x10000))
        k = rnd.choice((1, 1, 2, 5, 32, 100, 127))
        if rnd.random() < 0.5:
            xy, d = (edge + k - 1) % 65536, -k          # IX at or above the edge, IX+d just below it
        else:
            xy, d = (edge - k) % 65536, k if k < 127 else 126       # IX below the edge, IX+d at or above it
        hi = IXh if lead[0] == 0xDD else IYh
        regs[hi], regs[hi + 1] = xy >> 8, xy & 255
        ins[2] = d & 255
    regs[IFF] = rnd.randrange(2)
    regs[IM] = rnd.randrange(3)
    regs[HALT] = 1 if (lead[0] == 0x76 and rnd.random() < 0.5) else 0
    regs[MEMPTR] = rnd.randrange(65536)
    if len(lead) > 1 and lead[0] == 0xED and lead[1] >= 0xA0:
        # the counter in fixed variants: 0 (65536 more iterations: repeats), 1 (last iteration), 2; B = 1 / 0 for block I/O
        bc = {0: 0, 1: 1, 2: 2, 3: 0x0100, 4: 0x0001, 5: 0x00FF}.get(variant % 8) if boundary is None else (0, 1, 2, 0)[boundary % 4]
        if bc is None and rnd.random() < 0.6:
            bc = rnd.choice((0, 1, 2, 0x100, 0x101, 0x4001, 0x4100, 0x7F00, 0x0140, 0xC001, 0xC100, 0xFFFE, 0x01C0))
        if bc is not None:
            regs[B], regs[C] = bc >> 8, bc & 255
    if lead[0] == 0x10 and rnd.random() < 0.5:
        regs[B] = rnd.choice((0, 1, 2))
    if wrap:
        from . import z80len
        ln = z80len.length(ins + [0, 0], 0)
        pc = (0x10000 - rnd.randrange(1, max(2, ln))) % 65536
        regs[PC] = pc
        regs[T] = lay['first'] + lay['line'] * rnd.randrange(0, 192) + rnd.randrange(0, 128) + lay['frame'] * rnd.randrange(2)
    ov = [[(pc + i) % 65536, b] for i, b in enumerate(ins)]
    inv = rnd.choice((-1, simdrv.r8(rnd)))
    return {'key': '%s/%d' % (name, variant), 'r': regs, 'ov': ov, 'inv': inv, 'frame': lay['frame'], 'ia': lay['ia'],
            'm128': lay['m128'], 'odd': lay['odd'], 'page': lay['page'], 'rom': lay['rom']}


def gen_and_run(args):
    seed, idxs, variants = args
    rnd = random.Random(seed)
    sl = simdrv.slots()
    ims = [im for im in simdrv.impls() if im.name in ('py', 'pycm', 'ccm')]
    order = {'py': 0, 'pycm': 1, 'ccm': 2}
    ims.sort(key=lambda im: order[im.name])
    cases = []
    for i in idxs:
        for v in range(variants):
            c = make_case(sl[i], rnd, v)
            c['obs'] = [im.run_case(c) for im in ims]
            cases.append(c)
        for bi in range(len(BOUNDARY_T)):
            c = make_case(sl[i], rnd, 1000 + bi, boundary=bi)
            c['obs'] = [im.run_case(c) for im in ims]
            cases.append(c)
        c = make_case(sl[i], rnd, 1900, wrap=True)
        c['obs'] = [im.run_case(c) for im in ims]
        cases.append(c)
    return cases


def gen_and_run128(args):
    """128K machine (frame 70908, first contended T 14361, 228 T per line) with an odd (contended) or even bank
    paged at 0xC000; paging is locked so that the memory map is constant during the step."""
    seed, idxs, variants, nlay = args
    rnd = random.Random(seed)
    sl = simdrv.slots()
    order = {'py': 0, 'pycm': 1, 'ccm': 2}
    cases = []
    for li, lay in enumerate(LAYOUTS128[:nlay]):
        ims = [im for im in simdrv.impls128(lay['page'], lay['rom']) if im.name in order]
        ims.sort(key=lambda im: order[im.name])
        for i in idxs:
            # odd layouts get the larger share: that is where the 128K-specific rule lives
            nv = variants if lay['odd'] else max(1, variants // 3)
            for v in range(nv):
                c = make_case(sl[i], rnd, 2000 + 100 * li + v, lay=lay)
                c['obs'] = [im.run_case(c) for im in ims]
                cases.append(c)
            if lay['odd']:
                for w in range(2 if li == 0 else 1):
                    c = make_case(sl[i], rnd, 3900 + 10 * li + w, lay=lay, wrap=True)
                    c['obs'] = [im.run_case(c) for im in ims]
                    cases.append(c)
            if li < 2:
                for bi in (range(8) if lay['odd'] else (1, 5)):
                    c = make_case(sl[i], rnd, 3000 + 100 * li + bi, boundary=bi, lay=lay)
                    c['obs'] = [im.run_case(c) for im in ims]
                    cases.append(c)
    return cases


def delay_tables():
    """Pattern D table: the wait-state tables of the Python module and the delays observed on the C module (a NOP at a
    contended PC at every frame position)."""
    cbuild.preload()
    from skoolkit import cmiosimulator
    out = {'py48': list(cmiosimulator.DELAYS_48K), 'py128': list(cmiosimulator.DELAYS_128K)}
    out['c48'] = delay_table('ccm', 69888, 0x4000)
    out['pycm48'] = delay_table('pycm', 69888, 0x4000)
    for name, pc in (('c128', 0x4000), ('c128odd', 0xC000)):
        im = [x for x in simdrv.impls128(1, 0) if x.name == 'ccm'][0]
        out[name] = _observe(im, 70908, pc)
    im = [x for x in simdrv.impls128(4, 1) if x.name == 'ccm'][0]
    out['c128even'] = _observe(im, 70908, 0xC000)
    im = [x for x in simdrv.impls128(1, 0) if x.name == 'pycm'][0]
    out['pycm128odd'] = _observe(im, 70908, 0xC000)
    return out


def _observe(im, frame, pc):
    regs, mem, run = im.sim.registers, im.mem, im.sim.run
    old = mem[pc]
    mem[pc] = 0
    out = []
    for t in range(frame):
        regs[T] = t
        run(pc)
        out.append(int(regs[T]) - t - 4)
    mem[pc] = old
    return out


def delay_table(impl_name, frame, contended_pc):
    """Observe the wait-state table through the implementation: run a NOP at a contended PC at every t."""
    im = [x for x in simdrv.impls() if x.name == impl_name][0]
    return _observe(im, frame, contended_pc)


def rerun(rp):
    """A recorded case (opcode bytes, registers, port value, machine layout) stepped again on py / pycm / ccm of the current tree."""
    cbuild.preload()
    c = {k: rp[k] for k in ('key', 'r', 'ov', 'inv', 'frame', 'ia', 'm128', 'odd')}
    order = {'py': 0, 'pycm': 1, 'ccm': 2}
    if c['m128']:
        if 'page' in rp:
            page, rom = rp['page'], rp['rom']
        else:
            # older files: the layout index is part of the variant number in the key (2000 + 100 * layout + v, 3000 + ...)
            lay = LAYOUTS128[(int(rp['key'].split('/')[1]) % 1000) // 100]
            page, rom = lay['page'], lay['rom']
        c['page'], c['rom'] = page, rom
        ims = [im for im in simdrv.impls128(page, rom) if im.name in order]
    else:
        c['page'], c['rom'] = rp.get('page', 0), rp.get('rom', 0)
        ims = [im for im in simdrv.impls() if im.name in order]
    ims.sort(key=lambda im: order[im.name])
    c['obs'] = [im.run_case(c) for im in ims]
    return c
