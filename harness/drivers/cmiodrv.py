"""C19 driver: single steps at chosen frame positions with PC / pointer / port / IR placements in
contended and uncontended memory, on the plain Python simulator and both contended simulators."""
import random

from ..lib import cbuild
from . import simdrv
from .simdrv import A, F, B, C, D, E, H, L, IXh, IYh, SP, I, R, PC, T, IFF, IM, HALT, MEMPTR

FIRST48, T1_48, FRAME48 = 14335, 57245, 69888


def place(rnd):
    k = rnd.random()
    if k < 0.5:
        return rnd.choice((0x4000, 0x4001, 0x5AFF, 0x7FFE, 0x7FFF, rnd.randrange(0x4000, 0x8000)))
    if k < 0.85:
        return rnd.choice((0x8000, 0x8001, 0xBFFF, 0xC000, 0xFFFF, rnd.randrange(0x8000, 0x10000)))
    return rnd.choice((0x0000, 0x3FFF, 0x3FFE, rnd.randrange(0x4000)))


def frame_pos(rnd, first=FIRST48, t1=T1_48, line=224, frame=FRAME48):
    k = rnd.random()
    if k < 0.25:
        t = first + rnd.randrange(-32, 24)
    elif k < 0.5:
        t = first + line * rnd.choice((0, 1, 2, 95, 190, 191)) + rnd.randrange(-10, 140)
    elif k < 0.65:
        t = t1 + rnd.randrange(-45, 8)
    elif k < 0.9:
        t = rnd.randrange(first, t1)
    else:
        t = rnd.choice((0, 100, first - 200, t1 + 300, frame - 10))
    return t + frame * rnd.randrange(3)


BOUNDARY_T = (FIRST48 - 24, FIRST48 - 23, FIRST48 - 22, FIRST48 - 21, T1_48 - 2, T1_48 - 1, T1_48, T1_48 + 1)


def cplace(rnd):
    return rnd.choice((0x4000, 0x5ABC, 0x7FFC, rnd.randrange(0x4000, 0x7FF0)))


def make_case(slot, rnd, variant, boundary=None):
    """boundary = index into BOUNDARY_T: everything the instruction touches is placed in contended
    memory and it starts right at the edge of the window in which contention is computed."""
    lead, name = slot
    place_ = cplace if boundary is not None else place
    pc = place_(rnd)
    ins = [simdrv.r8(rnd) if b is None else b for b in lead]
    while len(ins) < 4:
        ins.append(rnd.choice((0x40, 0x5A, 0x7F, 0x80, 0x3F, 0xFF, 0x00)) if rnd.random() < 0.5 else rnd.randrange(256))
    regs = [0] * 30
    for i in (A, F, C, E, L, 9, 11, R, 16, 17, 18, 19, 20, 21, 22, 23):
        regs[i] = simdrv.r8(rnd)
    for hi in (B, D, H, IXh, IYh):
        v = place_(rnd)
        regs[hi], regs[hi + 1] = v >> 8, v & 255
    regs[A] = rnd.choice((0x40, 0x7F, 0x3F, 0x80, 0xFE, rnd.randrange(256)))
    regs[I] = rnd.choice((0x3F, 0x40, 0x7F, 0x80, rnd.randrange(256)))
    regs[SP] = place_(rnd)
    regs[PC] = pc
    regs[T] = frame_pos(rnd)
    if boundary is not None:
        regs[A] = rnd.choice((0x40, 0x7F))
        regs[I] = rnd.choice((0x40, 0x7F))
        regs[T] = BOUNDARY_T[boundary] + FRAME48 * rnd.randrange(2)
        if ins[1:] and lead[-1] is not None:
            for k in range(len(lead), 4):
                ins[k] = rnd.choice((0x40, 0x50, 0x7F)) if k == len(lead) + 1 else rnd.choice((0x01, 0x02, 0x7E))
    regs[IFF] = rnd.randrange(2)
    regs[IM] = rnd.randrange(3)
    regs[HALT] = 1 if (lead[0] == 0x76 and rnd.random() < 0.5) else 0
    regs[MEMPTR] = rnd.randrange(65536)
    if len(lead) > 1 and lead[0] == 0xED and lead[1] >= 0xA0 and rnd.random() < 0.6:
        bc = rnd.choice((0, 1, 2, 0x100, 0x101, 0x4001, 0x4100, 0x7F00, 0x0140))
        regs[B], regs[C] = bc >> 8, bc & 255
    if lead[0] == 0x10 and rnd.random() < 0.5:
        regs[B] = rnd.choice((0, 1, 2))
    ov = [[(pc + i) % 65536, b] for i, b in enumerate(ins)]
    inv = rnd.choice((-1, simdrv.r8(rnd)))
    return {'key': '%s/%d' % (name, variant), 'r': regs, 'ov': ov, 'inv': inv, 'frame': FRAME48, 'ia': 32, 'm128': 0, 'odd': 0}


def gen_and_run(args):
    seed, idxs, variants = args
    rnd = random.Random(seed)
    sl = simdrv.slots()
    ims = [im for im in simdrv.impls() if im.name in ('py', 'pycm', 'ccm')]
    order = {'py': 0, 'pycm': 1, 'ccm': 2}
    ims.sort(key=lambda im: order[im.name])
    cases = []
    for i in idxs:
        for v in range(variants):
            c = make_case(sl[i], rnd, v)
            c['obs'] = [im.run_case(c) for im in ims]
            cases.append(c)
        for bi in range(len(BOUNDARY_T)):
            c = make_case(sl[i], rnd, 1000 + bi, boundary=bi)
            c['obs'] = [im.run_case(c) for im in ims]
            cases.append(c)
    return cases


def delay_table(impl_name, frame, first, contended_pc):
    """Observe the wait-state table through the implementation: run a NOP at a contended PC at every t."""
    im = [x for x in simdrv.impls() if x.name == impl_name][0]
    regs, mem, run = im.sim.registers, im.mem, im.sim.run
    mem[contended_pc] = 0
    out = []
    for t in range(frame):
        regs[T] = t
        run(contended_pc)
        out.append(int(regs[T]) - t - 4)
    mem[contended_pc] = simdrv.BASE[contended_pc]
    return out
