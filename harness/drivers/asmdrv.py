"""C02 driver: disassemble -> assemble and assemble -> disassemble -> assemble on the real
Disassembler / Assembler, with the text tokenised into template + numeric literals."""
import random
import re

from . import simdrv
from .instrdrv import OPTSETS

ALL_OPTS = OPTSETS[-1]
SPECIAL = (0x22, 0x5C, 0x5E, 0x60, 0x20, 0x7E, 0x7F, 0xA2, 0xDC, 0xDE, 0xE0, 0x00, 0x01, 0x80, 0xFF, 0xFE, 0x41, 0xC1,
           0xCA, 0xAB, 0x1F, 0x0A)
BASES1 = ('n', 'b', 'c', 'd', 'h', 'm')
ADDRS = (0, 1, 0x7F, 0x80, 0x8000, 0xFF7E, 0xFF80, 0xFFFB, 0xFFFC, 0xFFFD, 0xFFFE, 0xFFFF)

UNSIGNED_ONLY = frozenset(['MD3', 'MDB'] + ['M%02X' % o for o in range(0xC7, 0x100, 8)])

NUM = r'(?:\$[0-9A-Fa-f]+|%[01]+|\d+)'
QUOTED = r'"(?:\\.|[^"\\])"(?:\+' + NUM + ')?'
LIT = re.compile(r'-?' + NUM + '|' + QUOTED)
SIGNED = re.compile(r'[+-](?:-?' + NUM + '|' + QUOTED + ')')


def tokenise(text):
    """'ld (ix+$05),"a"' -> ('LD (IX#),#', ['+$05', '"a"'])  (template upper-cased; literals verbatim)."""
    up = text.upper()
    mnem = up.split(' ', 1)[0]
    fixed_first = mnem in ('BIT', 'RES', 'SET', 'IM')
    if up == 'OUT (C),0':
        return up, []
    out, lits = [], []
    i, n = 0, len(text)
    first_num_done = False
    while i < n:
        ch = text[i]
        prev = text[i - 1] if i else ''
        if ch in '+-' and i >= 2 and up[i - 2:i] in ('IX', 'IY'):
            m = SIGNED.match(text, i)
            if m:
                lits.append(m.group(0))
                out.append('#')
                i = m.end()
                continue
        if (ch == '"' or ch in '$%-' or ch.isdigit()) and prev in (' ', ',', '('):
            m = LIT.match(text, i)
            if m and m.end() > i and (ch != '-' or len(m.group(0)) > 1):
                if fixed_first and not first_num_done:
                    first_num_done = True
                    out.append(m.group(0).upper())
                else:
                    lits.append(m.group(0))
                    out.append('#')
                i = m.end()
                continue
        out.append(ch.upper())
        i += 1
    t = ''.join(out)
    for a, b in (('IXH', 'IXh'), ('IXL', 'IXl'), ('IYH', 'IYh'), ('IYL', 'IYl')):
        t = t.replace(a, b)
    return t, lits


def codes(s):
    return [ord(c) & 255 for c in s]


def _cfg(hexa, lower, opts, wrap=True, defb=8, defm=66, defw=1):
    from skoolkit.snaskool import DisassemblerConfig, Instruction
    return DisassemblerConfig(hexa, lower, defb, defm, defw, False, Instruction, ','.join(opts), wrap)


def dis_case(mem, name, pc, ov, base, hexa, lower, opts, asm):
    from skoolkit.disassembler import Disassembler
    c = {'kind': 'dis', 'key': name, 'pc': pc, 'ov': ov, 'base': base, 'hex': int(hexa), 'lower': int(lower),
         'opts': list(opts), 'text': '', 'template': '', 'lits': [], 'ibytes': [], 'reasm': [], 'variant': 0, 'exc': ''}
    try:
        ins = Disassembler(mem, _cfg(hexa, lower, opts)).disassemble(pc, pc + 1, base)[0]
        c['text'] = ins.operation
        c['ibytes'] = [int(b) for b in ins.bytes]
        c['variant'] = 1 if ins.variant else 0
        t, lits = tokenise(ins.operation)
        c['template'], c['lits'] = t, [codes(l) for l in lits]
        if ins.variant:
            # the disassembler flags the byte list to be used for a variant opcode sequence (@bytes)
            c['reasm'] = c['ibytes']
            c['reasm_text'] = [int(b) for b in (asm.assemble(ins.operation, pc) or ())]
        else:
            c['reasm'] = [int(b) for b in (asm.assemble(ins.operation, pc) or ())]
    except Exception as e:
        c['exc'] = '%s: %s' % (type(e).__name__, e)
    return c


def gen_dis(args):
    seed, idxs, variants = args
    from ..lib import cbuild
    cbuild.repo_only()
    from skoolkit.z80 import Assembler
    asm = Assembler()
    rnd = random.Random(seed)
    sl = simdrv.slots()
    mem = list(simdrv.BASE)
    cases = []
    for i in idxs:
        lead, name = sl[i]
        for v in range(variants):
            ins = [rnd.choice(SPECIAL) if (b is None and rnd.random() < 0.6) else (rnd.randrange(256) if b is None else b) for b in lead]
            while len(ins) < 4:
                ins.append(rnd.choice(SPECIAL) if rnd.random() < 0.6 else rnd.randrange(256))
            pc = 0x8000 if v == 0 else rnd.choice(ADDRS)
            ov = [[(pc + k) % 65536, b] for k, b in enumerate(ins)]
            for a, b in ov:
                mem[a] = b
            b1 = BASES1[v % 6]
            if b1 == 'm' and name in UNSIGNED_ONLY:
                b1 = 'n'      # a negative port number / restart address is not a meaningful signed operand
            base = b1 if rnd.random() < 0.7 else b1 + rnd.choice(BASES1)
            hexa, lower = rnd.random() < 0.5, rnd.random() < 0.5
            opts = rnd.choice((ALL_OPTS, ALL_OPTS, [], rnd.choice(OPTSETS)))
            cases.append(dis_case(mem, name, pc, ov, base, hexa, lower, opts, asm))
            for a, _ in ov:
                mem[a] = simdrv.BASE[a]
    return cases


def gen_def(args):
    """DEFB/DEFM/DEFS/DEFW statements over data with awkward bytes, every base, both cases, both default bases."""
    seed, n = args
    from ..lib import cbuild
    cbuild.repo_only()
    from skoolkit.z80 import Assembler
    from skoolkit.disassembler import Disassembler
    asm = Assembler()
    rnd = random.Random(seed)
    cases = []
    mem = [0] * 65536
    for k in range(n):
        size = rnd.choice((1, 2, 3, 4, 5, 8, 9))
        start = rnd.choice((0x8000, 0xFFF0, 65536 - size, 0, 0x4000))
        kind = ('defb', 'defm', 'defw', 'defs')[k % 4]
        if kind == 'defs':
            data = [rnd.choice(SPECIAL + (0, 0))] * size
        elif rnd.random() < 0.5:
            data = [rnd.choice(SPECIAL) for _ in range(size)]
        else:
            data = [rnd.choice((rnd.randrange(32, 127), rnd.randrange(256), rnd.randrange(160, 255))) for _ in range(size)]
        hexa, lower = rnd.random() < 0.5, rnd.random() < 0.5
        sizes = [rnd.choice((1, 3, 8)), rnd.choice((1, 4, 66)), rnd.choice((1, 2))]
        subl = []
        if rnd.random() < 0.35:
            subl = [(0, rnd.choice(BASES1))]
        else:
            left = size
            while left > 0:
                s = rnd.randrange(1, left + 1)
                if kind == 'defw' and s % 2 and left > 1:
                    s += 1
                s = min(s, left)
                subl.append((s, rnd.choice(BASES1)))
                left -= s
        if kind == 'defs':
            # a negative *size* is not a meaningful signed operand: base m is used for the fill value only
            subl = [(rnd.choice((0, size)), rnd.choice(BASES1[:5]))] + ([(0, rnd.choice(BASES1))] if rnd.random() < 0.5 else [])
        cases.append(def_case(asm, mem, kind, start, data, hexa, lower, subl, sizes))
    return cases


def def_case(asm, mem, kind, start, data, hexa, lower, subl, sizes):
    """One DEFB/DEFM/DEFW/DEFS range: `data` at `start` rendered with the sublengths `subl` by a Disassembler configured with
    sizes = [DefbSize, DefmSize, DefwSize], every statement assembled again.  `input` is what --replay needs."""
    from skoolkit.disassembler import Disassembler
    size = len(data)
    mem[start:start + size] = data
    d = Disassembler(mem, _cfg(hexa, lower, [], True, *sizes))
    c = {'kind': 'def', 'key': kind, 'stmt': kind, 'start': start, 'data': data, 'hex': int(hexa), 'lower': int(lower),
         'sublengths': [list(s) for s in subl], 'texts': [], 'reasm': [], 'covers': 1, 'exc': '',
         'input': {'data': list(data), 'sizes': list(sizes)}}
    try:
        f = {'defb': d.defb_range, 'defm': d.defm_range, 'defw': d.defw_range, 'defs': d.defs_range}[kind]
        out, carried = [], []
        for ins in f(start, start + size, tuple(tuple(s) for s in subl)):
            c['texts'].append(ins.operation)
            carried += [int(b) for b in ins.bytes]
            got = asm.assemble(ins.operation, ins.address)
            out += [int(b) for b in (got or ())]
        c['reasm'] = out
        # the statements carry their own byte lists (an odd-length DEFW range is extended by one byte)
        c['covers'] = 1 if carried[:size] == data else 0
        c['data'] = carried
    except Exception as e:
        c['exc'] = '%s: %s' % (type(e).__name__, e)
    mem[start:start + size] = [0] * size
    return c


# ------------------------------------------------------------------ direction 2: spellings
MNEMS_B = ('LD A,{}', 'LD B,{}', 'ADD A,{}', 'CP {}', 'XOR {}', 'OUT ({}),A', 'IN A,({})', 'LD (HL),{}', 'LD IXh,{}', 'SUB {}')
MNEMS_W = ('LD HL,{}', 'LD BC,{}', 'LD ({}),HL', 'LD A,({})', 'JP {}', 'CALL {}', 'JP NZ,{}', 'LD IX,{}', 'LD SP,{}',
           'LD ({}),DE', 'LD DE,({})')
MNEMS_D = ('LD A,(IX{})', 'LD (IY{}),B', 'INC (IX{})', 'BIT 3,(IY{})', 'SET 7,(IX{}),C', 'RLC (IX{})', 'ADD A,(IY{})',
           'SRL (IY{}),A', 'CP (IX{})', 'DEC (IY{})')
MNEMS_DB = ('LD (IX{}),{}', 'LD (IY{}),{}')
MNEMS_J = ('JR {}', 'DJNZ {}', 'JR NZ,{}', 'JR C,{}')
DEFS = ('DEFB {}', 'DEFM {}', 'DEFW {}', 'DEFB {},{}', 'DEFW {},{}', 'DEFS {n},{}', 'DEFS {n}')


def spell(rnd, v):
    """A spelling of integer v in the assembler's operand grammar."""
    k = rnd.randrange(9)
    neg = v < 0
    a = abs(v)
    pad = '0' * rnd.randrange(3)
    if k == 0:
        s = pad + str(a)
    elif k == 1:
        s = '$' + pad + ('%X' if rnd.random() < 0.5 else '%x') % a
    elif k == 2:
        s = '%' + pad + bin(a)[2:]
    elif k == 3 and 32 <= a < 127:
        ch = chr(a)
        s = '"\\%s"' % ch if ch in '"\\' else '"%s"' % ch
    elif k == 4 and 160 <= a < 255 and chr(a - 128) not in '"\\':
        s = '"%s"+%s' % (chr(a - 128), rnd.choice(('128', '$80', '%10000000')))
    elif k == 5 and a > 3:
        x = rnd.randrange(1, a)
        s = '%d+%s' % (x, spell(rnd, a - x))
    elif k == 6 and a > 0:
        x = rnd.randrange(a + 1, a + 200)
        s = '%d-%d' % (x, x - a)
    elif k == 7 and a % 3 == 0 and a:
        s = '%d*3' % (a // 3)
    else:
        s = '$%04X' % a if rnd.random() < 0.3 else str(a)
    if neg:
        s = '-' + s if not any(c in s for c in '+-*') else '0-' + str(a)
    return s


def ws(rnd, text):
    """Odd but admissible white space / case."""
    k = rnd.randrange(5)
    if k == 0:
        text = text.replace(',', ', ')
    elif k == 1:
        text = text.replace(' ', '  ', 1)
    elif k == 2:
        text = text.replace(' ', '\t', 1)
    elif k == 3:
        text = ' ' + text + ' '
    if rnd.random() < 0.3:
        # lower-case everything outside quotes
        parts = re.split(r'("(?:\\.|[^"\\])")', text)
        text = ''.join(p if p.startswith('"') else p.lower() for p in parts)
    return text


def gen_asm(args):
    seed, n = args
    from ..lib import cbuild
    cbuild.repo_only()
    from skoolkit.z80 import Assembler
    from skoolkit.disassembler import Disassembler
    asm = Assembler()
    rnd = random.Random(seed)
    mem = [0] * 65536
    cases = []
    B = (0, 1, 0x22, 0x5C, 0x7F, 0x80, 0xA2, 0xDC, 0xFE, 0xFF, -1, -128, -129, -255, -256, 256, 255)
    W = (0, 1, 0xFF, 0x100, 0x7FFF, 0x8000, 0xFFFF, -1, -32768, -65535, 65536, 0xFFFE)
    D = (0, 1, 2, 126, 127, 128, 129, 255, 256)
    for k in range(n):
        addr = rnd.choice(ADDRS)
        grp = k % 6
        if grp == 0:
            text = rnd.choice(MNEMS_B).format(spell(rnd, rnd.choice(B) if rnd.random() < 0.6 else rnd.randrange(-255, 256)))
        elif grp == 1:
            text = rnd.choice(MNEMS_W).format(spell(rnd, rnd.choice(W) if rnd.random() < 0.6 else rnd.randrange(-65535, 65536)))
        elif grp == 2:
            d = rnd.choice(D) if rnd.random() < 0.7 else rnd.randrange(256)
            text = rnd.choice(MNEMS_D).format(rnd.choice('+-') + spell(rnd, d))
        elif grp == 3:
            d = rnd.choice(D)
            text = rnd.choice(MNEMS_DB).format(rnd.choice('+-') + spell(rnd, d), spell(rnd, rnd.choice(B)))
        elif grp == 4:
            off = rnd.choice((-128, -127, -126, -1, 0, 1, 2, 127, 128, 129, 130, 131, -129, -130))
            text = rnd.choice(MNEMS_J).format(spell(rnd, (addr + off) % 65536 if rnd.random() < 0.8 else addr + off))
        else:
            t = rnd.choice(DEFS)
            vals = [spell(rnd, rnd.choice(B + W)) for _ in range(t.count('{}'))]
            t = t.replace('{n}', spell(rnd, rnd.randrange(1, 20)))
            if vals and rnd.random() < 0.3 and not t.startswith('DEFS'):
                vals[0] = '"%s"' % ''.join(rnd.choice('ab "\\,;:') for _ in range(rnd.randrange(1, 5))).replace('\\', '\\\\').replace('"', '\\"')
            text = t.format(*vals)
        text = ws(rnd, text)
        cases.append(asm_case(asm, mem, text, addr, lambda: (rnd.random() < 0.5, rnd.random() < 0.5)))
    return cases


def asm_case(asm, mem, text, addr, pick):
    """One spelling: assemble, disassemble what was assembled (hex / lower case of the disassembler chosen by pick(), called only
    when there is something to disassemble, and recorded as `dis_cfg` for --replay), assemble that again."""
    from skoolkit.disassembler import Disassembler
    c = {'kind': 'asm', 'key': text.split()[0].upper() if text.split() else '', 'text': text, 'addr': addr,
         'accepted': 0, 'bytes1': [], 'text2': [], 'bytes2': [], 'exc': ''}
    try:
        b1 = asm.assemble(text, addr)
        if b1:
            c['accepted'] = 1
            c['bytes1'] = [int(b) for b in b1]
            if all(0 <= b < 256 for b in b1):
                for i, b in enumerate(b1):
                    mem[(addr + i) % 65536] = b
                end = addr + len(b1)
                hexa, lower = pick()
                c['dis_cfg'] = [int(hexa), int(lower)]
                d = Disassembler(mem, _cfg(hexa, lower, ALL_OPTS))
                out = []
                a = addr
                guard = 0
                while a < end and guard < 64:
                    ins = d.disassemble(a % 65536, a % 65536 + 1, 'n')[0]
                    c['text2'].append(ins.operation)
                    got = ins.bytes if ins.variant else asm.assemble(ins.operation, ins.address)
                    out += [int(b) for b in (got or ())]
                    a += len(ins.bytes)
                    guard += 1
                c['bytes2'] = out[:len(b1)] if a > end else out
                for i in range(len(b1)):
                    mem[(addr + i) % 65536] = 0
    except Exception as e:
        c['exc'] = '%s: %s' % (type(e).__name__, e)
    return c
