"""C12/C13 driver: real bin2tap.main -> real tap2sna.main and projection of the resulting snapshot."""
import os
import random

from . import pipedrv, replaylib


def parse_tap(path):
    """Blocks of a TAP file: list of (flag, data-without-flag-and-checksum)."""
    data = open(path, 'rb').read()
    out = []
    i = 0
    while i + 2 <= len(data):
        n = data[i] + 256 * data[i + 1]
        blk = data[i + 2:i + 2 + n]
        out.append((blk[0], list(blk[1:-1])))
        i += 2 + n
    return out


def parse_pzx_blocks(path):
    """DATA blocks of a PZX file written by bin2tap: list of (flag, payload)."""
    data = open(path, 'rb').read()
    out = []
    i = 0
    while i + 8 <= len(data):
        tag = data[i:i + 4]
        n = int.from_bytes(data[i + 4:i + 8], 'little')
        body = data[i + 8:i + 8 + n]
        if tag == b'DATA':
            bits = int.from_bytes(body[0:4], 'little') & 0x7FFFFFFF
            p0, p1 = body[6], body[7]
            payload = body[8 + 2 * (p0 + p1):]
            payload = payload[:(bits + 7) // 8]
            out.append((payload[0], list(payload[1:-1])))
        i += 8 + n
    return out


def snapshot_state(path):
    from skoolkit.snapshot import Snapshot
    s = Snapshot.get(path)
    ram = s.ram(-1)
    return s, list(ram)


def visible(ram, o7ffd, a):
    if len(ram) == 49152:
        return ram[a - 0x4000]
    bank = {1: 5, 2: 2, 3: o7ffd % 8}[a // 0x4000]
    return ram[bank * 0x4000 + a % 0x4000]


RELS = (-300, -20, -14, -5, -4, -3, -2, -1, 0, 1, 2, 3, 4, 5, 's-2', 's-1', 's', 's+1', 's+2', 's+3', 's+4', 's+5', 's+20', 's/2')


def gen_case(rnd, idx=None):
    m128 = rnd.random() < 0.3 if idx is None else idx % 4 == 3
    size = rnd.choice((1, 2, 3, 5, 8, 20, 64, 200, 300)) if rnd.random() < 0.85 else rnd.choice((1000, 6912, 20000, 41000))
    org = rnd.choice((32768, 40000, 24576, 49152, 65536 - size, 30000, 25000))
    low = (not m128) and rnd.random() < 0.12
    if low:
        # a program in the display file / right at the start of RAM (START may be exactly 0x4000)
        org = rnd.choice((16384, 16384, 16385, 22528, 23296 - size if size < 700 else 16384))
        size = min(size, 23296 - org)           # stay below the printer buffer (the loader's home) and the system variables
    if m128:
        org = rnd.choice((32768, 33000, 40000, 24576))
        size = min(size, 49152 - org)
    org = min(org, 65536 - size)
    data = [rnd.randrange(256) for _ in range(size)]
    if rnd.random() < 0.2:
        # run-length sensitive contents (the snapshot tap2sna writes is compressed): 0xED-rich, runs, 0xED runs at the very end
        data = [rnd.choice((0xED, 0xED, 0x00, 0xFF, rnd.randrange(256))) for _ in range(size)]
        k = rnd.randrange(1, 6)
        data[-k:] = [0xED] * min(k, size)
    start = org + rnd.randrange(size) if rnd.random() < 0.6 else rnd.choice((org, 32768, 50000))
    if low:
        start = org if rnd.random() < 0.7 else org + rnd.randrange(size)
    opts = []
    clear = -1
    stack = org
    k = rnd.random()
    scr = rnd.random() < 0.2
    want7ffd = 0
    banks = []
    if m128:
        # 128K tapes need --7ffd, --clear and --begin; the bank loader (38 bytes + table) sits at CLEAR+1 or --loader
        clear = org - 64 - rnd.randrange(0, 100)
        opts += ['-c', str(clear)]
        want7ffd = rnd.choice((0, 1, 3, 4, 6, 7, 16, 17, 23, 8, 32, 48, 55, 59, 39))        # incl. bit 5 (paging lock) and bit 3 (screen)
        opts += ['--7ffd', str(want7ffd)]
        if rnd.random() < 0.6:
            banks = rnd.sample((0, 1, 3, 4, 6, 7), rnd.randrange(1, 5))        # in any order on the command line
            opts += ['--banks', ','.join(map(str, banks))]
        else:
            banks = [0, 1, 3, 4, 6, 7]
        if rnd.random() < 0.4:
            opts += ['--loader', str(rnd.choice((24000, 23900, clear + 5)))]
    elif low or (k < 0.3 if idx is None else idx % 4 == 2):
        clear = org - 1 - rnd.randrange(0, 200)
        clear = max(clear, 24000)
        opts += ['-c', str(clear)]
    elif k < 0.8 or idx is not None:
        # stack relative to the data: below, overlapping each of the four pre-filled bytes, inside, above
        rel = rnd.choice(RELS) if idx is None else RELS[(idx // 4) % len(RELS)]
        if isinstance(rel, str):
            rel = {'s-2': size - 2, 's-1': size - 1, 's': size, 's+1': size + 1, 's+2': size + 2, 's+3': size + 3, 's+4': size + 4,
                   's+5': size + 5, 's+20': size + 20, 's/2': size // 2}[rel]
        stack = org + rel
        if stack < 24100:
            stack = org
        if stack > 65535:
            stack = 65535
        opts += ['-p', str(stack)]
    if start != org or rnd.random() < 0.5:
        opts += ['-s', str(start)]
    fmt = rnd.choice(('tap', 'tap', 'pzx'))
    return dict(m128=int(m128), size=size, org=org, data=data, start=start, stack=stack, clear=clear, scr=int(scr), want7ffd=want7ffd,
                banks=banks, opts=opts, fmt=fmt, nostart=int(not m128 and rnd.random() < 0.35))


def run_case(wd, idx, g, rnd, sim_opts=(), keep_tape=False):
    from skoolkit import bin2tap, tap2sna
    from skoolkit.snapshot import write_snapshot
    c = {'key': '%s/%s/%s%s%s' % ('128' if g['m128'] else '48', g['fmt'], 'clear' if g['clear'] >= 0 else 'stack', '/scr' if g['scr'] else '',
                                   '/big' if g['size'] > 300 else ''),
         'err': '', 'loaderr': '', 'org': g['org'], 'len': g['size'], 'start': g['start'], 'stack': g['stack'], 'clear': g['clear'],
         'm128': g['m128'], 'want7ffd': g['want7ffd'] & 0x3F, 'bin': g['data'] if g['size'] <= 300 else [], 'tapedata': [], 'lcode': [],
         'laddr': 0, 'pc': -1, 'sp': -1, 'o7ffd': -1, 'snapmem': [], 'bigdiff': -1, 'bankok': [], 'opts': g['opts'], 'fmt': g['fmt'],
         'rel': g['stack'] - g['org']}
    tape = os.path.join(wd, 'p%d.%s' % (idx, g['fmt']))
    args = list(g['opts'])
    bankdata = {}
    if g['m128']:
        # a 128K snapshot as the input file
        banks = [[rnd.randrange(256) for _ in range(0x4000)] if b in g['banks'] else [0] * 0x4000 for b in range(8)]
        img = [0] * 0x10000
        img[g['org']:g['org'] + g['size']] = g['data']
        banks[5] = img[0x4000:0x8000]
        banks[2] = img[0x8000:0xC000]
        snap = os.path.join(wd, 'p%d.z80' % idx)
        write_snapshot(snap, banks, [], [], '128K')
        bankdata = {b: banks[b] for b in g['banks']}
        args += ['-b', str(g['org']), '-e', str(g['org'] + g['size'])]
        src = snap
    else:
        src = os.path.join(wd, 'p%d.bin' % idx)
        open(src, 'wb').write(bytes(g['data']))
        args += ['-o', str(g['org'])]
    if g['scr']:
        scrf = os.path.join(wd, 'p%d.scr' % idx)
        open(scrf, 'wb').write(bytes(rnd.randrange(256) for _ in range(6912)))
        args += ['-S', scrf]
    _, e, rc = pipedrv.run_tool(bin2tap.main, args + [src, tape])
    if rc or not os.path.isfile(tape):
        c['err'] = 'bin2tap rc=%s %s' % (rc, e[-300:])
        return c
    blocks = parse_tap(tape) if g['fmt'] == 'tap' else parse_pzx_blocks(tape)
    c['nblocks'] = len(blocks)
    if g['clear'] < 0:
        # header, basic, header(code loader), loader(+scr), data
        lblk = blocks[3][1]
        code = lblk[6912:] if g['scr'] else lblk
        c['lcode'], c['laddr'] = code, 23296
        if g['size'] <= 300:
            c['tapedata'] = blocks[4][1]
    snapf = os.path.join(wd, 'p%d_out.z80' % idx)
    targs = []
    for o in sim_opts:
        targs += ['-c', o]
    # with the default (fast-load) configuration the end-of-tape stop rule must find the program's entry point by itself
    if g.get('nostart') and not sim_opts:
        targs += [tape, snapf]
        c['key'] += '/nostart'
    else:
        targs += ['--start', str(g['start']), tape, snapf]
    if g['m128']:
        targs = ['-c', 'machine=128'] + targs
    out, e, rc = pipedrv.run_tool(tap2sna.main, targs)
    if rc or not os.path.isfile(snapf):
        c['loaderr'] = 'tap2sna rc=%s %s %s' % (rc, e[-300:], out[-200:])
        return c
    try:
        s, ram = snapshot_state(snapf)
    except Exception as e:          # a snapshot that cannot be read back is an observation, not a harness failure
        c['loaderr'] = 'snapshot written by tap2sna cannot be read: %s: %s' % (type(e).__name__, e)
        return c
    c['pc'], c['sp'], c['o7ffd'] = int(s.pc), int(s.sp), int(s.out7ffd) & 0x3F
    c['regs'] = [int(x) for x in (s.a, s.f, s.bc, s.de, s.hl, s.ix, s.iy, s.i, s.r, s.a2, s.f2, s.bc2, s.de2, s.hl2, s.iff1, s.im, s.border)]
    c['tstates'] = int(s.tstates)
    mem = [visible(ram, s.out7ffd, a) for a in range(g['org'], g['org'] + g['size'])]
    if g['size'] <= 300:
        c['snapmem'] = mem
    else:
        for k, (x, y) in enumerate(zip(mem, g['data'])):
            a = g['org'] + k
            if x != y and not (g['clear'] < 0 and g['stack'] - 14 <= a < g['stack']):
                c['bigdiff'] = a
                break
    if g['m128']:
        c['bankok'] = [1 if list(ram[b * 0x4000:(b + 1) * 0x4000]) == list(bankdata[b]) else 0 for b in g['banks']]
    c['ramfull'] = ram
    if not keep_tape:
        for f in (tape, snapf):
            try:
                os.remove(f)
            except OSError:
                pass
    else:
        c['tape'] = tape
    return c


def worker(args):
    seed, n, wd = args[:3]
    systematic = len(args) > 3 and args[3]
    from ..lib import cbuild
    cbuild.preload()
    rnd = random.Random(seed)
    sub = os.path.join(wd, 'l%d' % seed)
    os.makedirs(sub, exist_ok=True)
    out = []
    for k in range(n):
        idx = seed * 1000 + k if systematic else None
        st = replaylib.rnd_state(rnd)
        g = gen_case(rnd, idx)
        c = run_case(sub, k, g, rnd)
        c.pop('ramfull', None)
        # the generator's state before this case: program bytes of any size, screen and bank contents follow from it (--replay)
        c['gen'] = dict(st, idx=idx, k=k)          # k: the scratch file names carry it, and bin2tap puts the file name on the tape
        out.append(c)
    return out


def regen(gen):
    """-> (g, rnd) exactly as they were when the recorded case was generated."""
    rnd = replaylib.rnd_restore(gen)
    return gen_case(rnd, gen['idx']), rnd


def g_from_record(c):
    """The generator's dict rebuilt from the fields of a recorded case (only possible when the program bytes were recorded:
    <= 300 bytes); screen / bank contents are arbitrary filler and come from a fixed seed."""
    if len(c['bin']) != c['len']:
        return None, None
    opts = list(c['opts'])
    banks = []
    if c['m128']:
        banks = [int(x) for x in opts[opts.index('--banks') + 1].split(',')] if '--banks' in opts else [0, 1, 3, 4, 6, 7]
    parts = c['key'].split('/')
    g = dict(m128=c['m128'], size=c['len'], org=c['org'], data=list(c['bin']), start=c['start'], stack=c['stack'], clear=c['clear'],
             scr=int('scr' in parts), want7ffd=c['want7ffd'], banks=banks, opts=opts, fmt=c['fmt'], nostart=int('nostart' in parts))
    return g, random.Random(0)
