"""C14 driver: real sna2ctl.main on generated images / ranges / code maps, then sna2skool + skool2bin on
its output (out_cases: image classes; rst_cases: programs with inline RST arguments, sna2ctl -r); and direct calls of
snactl._find_terminal_instruction on images built from abstract instruction lengths for comparison with CtlGen!FindTerminal."""
import os
import random
import re
import signal

from . import ctlgen, pipedrv, z80len

# Open finding out:overlap-warning:unexecuted-entry-overlaps-executed, smallest form: XOR A / JR Z,+4 (taken) / JP 32778 and a NOP
# (never executed) / JP 32779 / byte 01 (never executed) / LD HL,16384 / JR $.  The executed block is extended over the unexecuted
# JP, whose target 32778 becomes an entry point although the instruction decoded there (01 21 00) runs into the executed one.
PROBE_UNEXECUTED_ENTRY = {'mem': [0xAF, 0x28, 0x04, 0xC3, 0x0A, 0x80, 0x00, 0xC3, 0x0B, 0x80, 0x01, 0x21, 0x00, 0x40, 0x18, 0xFE],
                          'org': 32768, 'map': [32768, 32769, 32775, 32779, 32782]}

# Open finding out:terminator:U-directive-beyond-end, smallest form: XOR A / JP NZ,32774 (never taken) / JR $ and, never executed, at
# 32774 a JP whose operand runs over the end address 32776: 'U 32777' is written after 'i 32776'.
PROBE_U_BEYOND_END = {'mem': [0xAF, 0xC2, 0x06, 0x80, 0x18, 0xFE, 0xC3, 0xC9], 'org': 32768, 'map': [32768, 32769, 32772]}
# Open finding out:overlap-warning:rst-argument-walk:directive-inside-jump, smallest form: RST 8 / DEFB 24 / JP 32770 with -r
# (RSTHandlerConfig 8:B): the code map block ends after the RST opcode, the search for the end of the routine starts AT the argument,
# reads it as JR and puts 'c 32771' inside the JP.
PROBE_RST_ARG_WALK = {'mem': [0xCF, 0x18, 0xC3, 0x02, 0x80], 'org': 32768, 'map': [32768, 32770], 'args': ['-r'], 'prog': {8: 1},
                      'sites': [(0, [0x18])]}

# Candidate out:overlap-warning:text-in-code-splits-instruction (no code map): XOR A / 15 text characters of which the last, '>', is the
# opcode of LD A,n / its operand C3 / RET / XOR A / RET.  The text found in the code block ends after the opcode 3E, the rest of the
# block is made a code block that starts at the operand: 'c 30016' (JP 45001 = C3 C9 AF) runs into 'c 30018'.
PROBE_TEXT_SPLITS_INSTRUCTION = {'mem': [0xAF] + list(b'<=-,+<=-,+<=-,>') + [0xC3, 0xC9, 0xAF, 0xC9], 'org': 30000, 'map': []}

OPC = {(1, 0): [0x00], (1, 1): [0xC9], (2, 0): [0x3E, 0x01], (2, 1): [0x18, 0x00], (3, 0): [0x21, 0x34, 0x12], (3, 1): [0xC3, 0x00, 0x00]}


# ---------------------------------------------------------------- _find_terminal_instruction
def ft_cases(args):
    seed, n_cases = args
    from ..lib import cbuild
    cbuild.repo_only()
    from skoolkit import snactl
    import inspect
    rnd = random.Random(seed)
    out = []
    base = 40000
    for _ in range(n_cases):
        n = rnd.randrange(3, 9)
        lens = [rnd.randrange(1, 4) for _ in range(n + 3)]
        ends = [1 if rnd.random() < 0.3 else 0 for _ in range(n + 3)]
        mem = [0] * 65536
        # lay instructions out so that the one decoded AT address a has length lens[a] (overlapping images are
        # impossible in general, so build memory from a walk and use the decoded lengths as the abstract input)
        a = 0
        while a < n + 3:
            code = OPC[(lens[a], ends[a])]
            for k, b in enumerate(code):
                if a + k < n + 6:
                    mem[base + a + k] = b
            a += lens[a]
        # the abstract image is what the decoder sees at EVERY address
        lens_seen, ends_seen = [], []
        for x in range(n + 3):
            ln = z80len.length(mem, base + x)
            lens_seen.append(ln)
            ends_seen.append(1 if mem[base + x] in (0xC9, 0x18, 0xC3) else 0)
        addrs = sorted(rnd.sample(range(1, n), rnd.randrange(0, min(4, n - 1) + 1))) if n > 1 else []
        pre = [[0, rnd.choice('Uc')]] + [[x, rnd.choice('Ucc')] for x in addrs] + [[n, 'i']]
        ctl = rnd.choice(('none', 'none', 'c', 'U'))
        frm = rnd.choice([p[0] for p in pre[:-1]])
        limit = n if ctl == 'none' else rnd.choice([p[0] for p in pre if p[0] > frm])
        out.append(ft_call(mem, base, lens_seen, ends_seen, pre, frm, limit, ctl))
    return out


def ft_call(mem, base, lens_seen, ends_seen, pre, frm, limit, ctl):
    """One call of the real _find_terminal_instruction on the image in mem[base:] (recorded as `image` for --replay)."""
    from skoolkit import snactl
    n = len(lens_seen) - 3
    ctls = {base + x: t for x, t in pre}
    c = {'kind': 'ft', 'len': lens_seen, 'isend': ends_seen, 'pre': pre, 'from': frm, 'limit': limit, 'ctl': ctl,
         'n': 65536 - base, 'clip': 1, 'post': [], 'ret': -1, 'exc': '', 'image': mem[base:base + n + 6]}
    try:
        ret = snactl._find_terminal_instruction(mem, ctls, base + frm, base + limit, None, None if ctl == 'none' else ctl)
        c['ret'] = ret - base
        c['post'] = [[a_ - base, t] for a_, t in sorted(ctls.items())]
    except Exception as e:
        c['exc'] = '%s: %s' % (type(e).__name__, e)
    return c


def ft_replay(rp):
    """The recorded abstract image as bytes again (from `image`, or for older files by laying the recorded lengths out along a
    walk from 0, which gives the same bytes), decoded again, through _find_terminal_instruction of the current tree."""
    base = 40000
    n = len(rp['len']) - 3
    mem = [0] * 65536
    if 'image' in rp:
        mem[base:base + len(rp['image'])] = rp['image']
    else:
        a = 0
        while a < n + 3:
            for k, b in enumerate(OPC[(rp['len'][a], rp['isend'][a])]):
                if a + k < n + 6:
                    mem[base + a + k] = b
            a += rp['len'][a]
    lens_seen = [z80len.length(mem, base + x) for x in range(n + 3)]
    ends_seen = [1 if mem[base + x] in (0xC9, 0x18, 0xC3) else 0 for x in range(n + 3)]
    return ft_call(mem, base, lens_seen, ends_seen, [list(p) for p in rp['pre']], rp['from'], rp['limit'], rp['ctl'])


# ---------------------------------------------------------------- whole tool
class Timeout(Exception):
    pass


TIMEOUTS = [0]


def _alarm(signum, frame):
    raise Timeout()


SAFE = ([0x3C], [0x04], [0x0C], [0x3E, 7], [0x06, 3], [0x21, 0x34, 0x12], [0x11, 0, 0x40], [0xC6, 5], [0x87], [0x78], [0x41],
        [0xDD, 0x7E, 1], [0xCB, 0x27], [0xED, 0x44], [0x00], [0xB7], [0xE6, 0x0F], [0x23], [0x2B])


def gen_structured(rnd, org):
    """A program made of routines: main calls some, calls others conditionally with the condition false, jumps
    indirectly (JP (HL), PUSH+RET dispatch); some routines are never executed and fall through into executed ones;
    some executed routines continue after their RET with code reached only indirectly. -> (bytes, entry offset)"""
    nr = rnd.randrange(3, 7)
    parts = []                # (name, bytes with placeholders for addresses resolved below)
    body = lambda k: [b for _ in range(k) for b in rnd.choice(SAFE)]
    routines = []
    for i in range(nr):
        r = {'pre': body(rnd.randrange(1, 4)), 'ret': rnd.random() < 0.8, 'tail': body(rnd.randrange(1, 4)) if rnd.random() < 0.6 else [],
             'executed': rnd.random() < 0.7}
        routines.append(r)
    # layout: main first or last
    main_first = rnd.random() < 0.5
    # first pass with dummy addresses to get sizes
    def build(addr_of, tail_of):
        main = []
        for i, r in enumerate(routines):
            if r['executed']:
                main += [0xCD, addr_of[i] & 255, addr_of[i] >> 8]
                if r['tail'] and r['ret']:
                    k = rnd_choices[i]
                    if k == 0:
                        main += [0x21, tail_of[i] & 255, tail_of[i] >> 8, 0x01, 0, 0]       # LD HL,tail ; LD BC,0 ... then JP (HL) later
                        main += [0xCD, disp & 255, disp >> 8]                                # CALL dispatcher (JP (HL))
                    elif k == 1:
                        main += [0x21, tail_of[i] & 255, tail_of[i] >> 8, 0xCD, disp2 & 255, disp2 >> 8]   # dispatcher 2: PUSH HL ; RET
            else:
                main += [0xAF, 0xC4, addr_of[i] & 255, addr_of[i] >> 8] if rnd_choices[i] < 2 else [0xAF, 0xC2, addr_of[i] & 255, addr_of[i] >> 8]
        main += [0x18, 0xFE]
        return main
    rnd_choices = [rnd.randrange(3) for _ in routines]
    disp = disp2 = 0
    addr_of = [0] * nr
    tail_of = [0] * nr
    for _ in range(2):
        main = build(addr_of, tail_of)
        code = []
        pos = org
        if main_first:
            pos += len(main)
        for i, r in enumerate(routines):
            addr_of[i] = pos
            pos += len(r['pre'])
            if r['ret']:
                pos += 1
            tail_of[i] = pos
            pos += len(r['tail'])
            if r['tail']:
                pos += 1          # tail ends with RET
        disp = pos
        disp2 = pos + 1
        pos += 3
    main = build(addr_of, tail_of)
    code = []
    for r in routines:
        code += r['pre'] + ([0xC9] if r['ret'] else []) + (r['tail'] + [0xC9] if r['tail'] else [])
    code += [0xE9, 0xE5, 0xC9]           # JP (HL) ; PUSH HL ; RET
    if main_first:
        return main + code, 0
    return code + main, len(code)


def exec_trace(mem64, start, end, rnd, steps=300, entry=None):
    """Addresses executed by the real (Python) simulator started somewhere in the range."""
    from skoolkit.simulator import Simulator
    m = list(mem64)
    sim = Simulator(m, {'SP': 0xFF00, 'PC': start})
    pcs = set()
    pc = rnd.randrange(start, end) if entry is None else entry
    for _ in range(steps):
        if not start <= pc < end:
            break
        pcs.add(pc)
        try:
            sim.run(pc)
        except Exception:
            break
        pc = sim.registers[24]
    return sorted(pcs)


MAP_FORMATS = ('z80', 'specemu', 'rzxplay', 'fuse', 'spud', 'specemu-log', 'zero-dec', 'zero-hex')
TEXT_FORMATS = MAP_FORMATS[2:]
SPECEMU_REGS = ("PC: 0x8492\tSP: 0x5E83", "IX: 0x304E\tIY: 0x5C3A", "HL: 0x3918\tHL': 0x2758", "DE: 0x1023\tDE': 0x369B",
                "BC: 0xA3EA\tBC': 0x1521", "AF: 0x0022\tAF': 0x000A")


def write_map(path, fmt, addrs):
    """A code map file with the addresses addrs (any addresses: a reader keeps those in [START, END)).  The binary formats are
    sets; the logs list the addresses in an order that is not sorted (fixed by the addresses themselves, so that --replay writes
    the same file), some of them twice."""
    if fmt == 'z80':
        data = bytearray(8192)
        for a in addrs:
            data[a // 8] |= 1 << (a % 8)
        open(path, 'wb').write(data)
        return
    if fmt == 'specemu':
        data = bytearray(65536)
        for a in addrs:
            data[a] = 1
        open(path, 'wb').write(data)
        return
    addrs = list(addrs)
    if len(addrs) > 2 and sum(addrs) % 4:
        r2 = random.Random(sum(addrs) * 65537 + len(addrs))
        addrs += r2.sample(addrs, min(3, len(addrs)))
        r2.shuffle(addrs)
    if fmt == 'rzxplay':
        lines = ['$%04X' % a for a in addrs]
    elif fmt == 'fuse':
        lines = ['0x%04x,%d' % (a, 1 + a % 7) for a in addrs]
    elif fmt == 'specemu-log':
        lines = list(SPECEMU_REGS) + [''] + ['%04X  %5d\tNOP' % (a, (56789 + 4 * i) % 69888) for i, a in enumerate(addrs)] + [''] + list(SPECEMU_REGS)
    elif fmt in ('zero-dec', 'zero-hex'):
        lines = ['All numbers are in %sdecimal' % ('' if fmt == 'zero-dec' else 'hexa'), '']
        lines += [('%d' if fmt == 'zero-dec' else '%x') % a + '\t%-5d\tNOP' % ((47 + 4 * i) % 69888) for i, a in enumerate(addrs)]
    else:
        lines = ['PC = %04X  HL = 0000  tstate = %05d  NOP' % (a, (12345 + 4 * i) % 70908) for i, a in enumerate(addrs)]
    open(path, 'w').write('\n'.join(lines) + '\n')


def map_file_choice(rnd2, fmt, start, end, share=0.4):
    """(format, addresses outside [start, end) that the map file lists too).  A trace is of the whole program: it has addresses
    below START and from END on (END itself when the routine that begins there is called); a reader must drop them.
    rnd2: a generator of its own, the case generators' streams stay what they were."""
    if rnd2.random() < 0.4:
        fmt = rnd2.choice(TEXT_FORMATS)
    outside = set()
    if rnd2.random() < share:
        k = rnd2.randrange(2, 400)
        for a in (end, start - 1, start - k, end + 1, end + k, 65535):
            if 0 <= a < 65536 and not start <= a < end and (a == end or rnd2.random() < 0.7):
                outside.add(a)
    return fmt, sorted(outside)


DIR = re.compile(r'^([a-zA-Z]) (\$[0-9A-Fa-f]{4}|\d+)')


def out_cases(args):
    seed, n_cases, wd = args[:3]
    sweeps = list(args[3]) if len(args) > 3 else []       # lists of opcode-slot indexes, one image each
    fixed = list(args[4]) if len(args) > 4 else []        # hand-written inputs (open findings reproduced deterministically)
    from ..lib import cbuild
    cbuild.repo_only()
    from skoolkit import sna2ctl, sna2skool, skool2bin
    from . import simdrv
    slots = simdrv.slots()
    rnd = random.Random(seed)
    sub = os.path.join(wd, 'o%d' % seed)
    os.makedirs(sub, exist_ok=True)
    signal.signal(signal.SIGVTALRM, _alarm)
    out = []
    for k in range(n_cases + len(sweeps) + len(fixed)):
        kind = ('code', 'struct', 'random', 'prefix', 'struct', 'text', 'zeros', 'struct')[k % 8]
        if k >= n_cases + len(sweeps):
            kind = 'probe'
            fx = fixed[k - n_cases - len(sweeps)]
        elif k >= n_cases:
            kind = 'sweep'
        size = rnd.choice((16, 30, 60, 120, 250))
        org = rnd.choice((0x8000, 40000, 0x4000, 65536 - size, 65536 - size - 7))
        entry = None
        if kind == 'probe':
            mem, org, size = list(fx['mem']), fx['org'], len(fx['mem'])
        elif kind == 'sweep':
            # every opcode slot once, as straight-line code: a decoder of sna2ctl that sizes one slot differently from
            # the disassembler puts the following directives (-C) off the instruction boundaries
            mem, sweep_starts = [], []
            for si in sweeps[k - n_cases]:
                ins = [rnd.randrange(256) if b is None else b for b in slots[si][0]] + [rnd.randrange(256) for _ in range(3)]
                sweep_starts.append(len(mem))
                mem += ins[:z80len.length(ins + [0, 0], 0)]
            sweep_starts += [len(mem), len(mem) + 2]
            mem += [0x3E, 0x07, 0xC9]
            size = len(mem)
            org = rnd.choice((0x8000, 40000))
        elif kind == 'struct':
            org = rnd.choice((0x8000, 40000, 0x6000))
            mem, eoff = gen_structured(rnd, org)
            size = len(mem)
            entry = org + eoff
        else:
            mem = ctlgen.gen_image(rnd, size, kind)
        if kind == 'code' and rnd.random() < 0.7:
            # sprinkle real control flow: calls/jumps into the image, returns
            for _ in range(size // 10):
                p = rnd.randrange(0, size - 3)
                tgt = org + rnd.randrange(size)
                mem[p:p + 3] = rnd.choice(([0xCD, tgt & 255, tgt >> 8], [0xC3, tgt & 255, tgt >> 8], [0xC9, 0x3C, 0xC9],
                                           [0x18, rnd.randrange(0, 10), 0x00], [0xE9, 0x00, 0x00], [0xC4, tgt & 255, tgt >> 8]))
        full = [0] * 65536
        full[org:org + size] = mem
        start = org + rnd.choice((0, 0, rnd.randrange(0, size // 4)))
        end = org + size - rnd.choice((0, 0, 0, 1, 2, rnd.randrange(0, size // 4)))
        if kind in ('struct', 'sweep', 'probe'):
            start, end = org, org + size
        binf = os.path.join(sub, 'i%d.bin' % k)
        open(binf, 'wb').write(bytes(mem))
        args_ = ['-o', str(org), '-s', str(start), '-e', str(end)]
        mapaddrs = []
        mk = rnd.random()
        strict = 1
        if kind == 'probe':
            mapaddrs = list(fx['map'])
        elif kind == 'sweep':
            # the code map of a straight-line run through the image (as a profiler that ignores jumps would record it)
            mapaddrs = [org + x for x in sweep_starts]
        elif kind == 'struct':
            mapaddrs = exec_trace(full, start, end, rnd, 2000, entry)
        elif mk < 0.6:
            mapaddrs = exec_trace(full, start, end, rnd)
            if rnd.random() < 0.5:
                mapaddrs = sorted(set(mapaddrs) | set(exec_trace(full, start, end, rnd)))
        elif mk < 0.8:
            # an arbitrary address set is not an execution trace (addresses inside other instructions): only
            # termination, tiling and map-in-code are judged for it
            strict = 0
            mapaddrs = sorted(rnd.sample(range(start, end), rnd.randrange(1, max(2, (end - start) // 3))))
        fmt, outside = '', []
        if mapaddrs:
            fmt = rnd.choice(('z80', 'specemu', 'rzxplay', 'fuse', 'spud'))
            if kind not in ('probe', 'sweep'):
                fmt, outside = map_file_choice(random.Random(seed * 1000003 + k), fmt, start, end)
            mapf = os.path.join(sub, 'm%d.map' % k)
            write_map(mapf, fmt, mapaddrs + outside)
            args_ += ['-m', mapf]
        if kind == 'probe':
            args_ += fx.get('args', [])
        else:
            if rnd.random() < 0.3:
                args_.append('-h' if rnd.random() < 0.6 else '-l')
            if rnd.random() < 0.3 or kind == 'sweep':
                args_.append('-C')
            if rnd.random() < 0.3 and kind != 'sweep':
                args_.append('-r')
            for name, vals in (('TextChars', ('abcdefghijklmnopqrstuvwxyz ', 'ABC xyz.,')), ('TextMinLengthCode', (3, 8, 12)),
                               ('TextMinLengthData', (2, 3, 5))):
                if rnd.random() < 0.3:
                    args_ += ['-I', '%s=%s' % (name, rnd.choice(vals))]
        out.append(drive_out(sub, k, binf, args_, strict, start, end, mapaddrs, fmt, full, kind, org, mem))
        out[-1]['map_outside'] = outside
        if kind == 'probe' and 'sites' in fx:
            rst_stats(out[-1], fx['sites'], fx['prog'])
    return out


# ---------------------------------------------------------------- RST n with inline arguments (sna2ctl -r)
# sna2ctl -r / --handle-rst: "Handle RST instruction arguments".  Which RST takes what is the RSTHandlerConfig parameter of the
# [skoolkit] section of skoolkit.ini (components.rst): a comma-separated list of addr:B (one byte follows the RST) or addr:W (one
# word follows), addr in 0, 8 .. 56; default 8:B.  The arguments are written as B/W sub-blocks of the code block.
#
# Bytes that are an opcode of a jump/return (or the first half of one) when read as an instruction: an argument with such a
# value looks like the end of a routine to any step that does not skip the arguments.
ENDLIKE = (0x18, 0xC3, 0xC9, 0xE9, 0xDD, 0xFD, 0xED)
OPLIKE = ENDLIKE + (0x45, 0x4D, 0x10, 0x20, 0x28, 0x30, 0x38, 0xC2, 0xCA, 0xCD, 0xC4, 0xCB, 0x21, 0x01, 0x3E, 0x36, 0xCF, 0xC7, 0xFF, 0x76)
# 2-4 byte instructions that neither write memory nor change the flow (None: an operand byte)
MULTI = ([0x3E, None], [0x06, None], [0x0E, None], [0xC6, None], [0xE6, None], [0xFE, None], [0xCB, 0x27], [0xED, 0x44], [0xCB, 0x47],
         [0x21, None, None], [0x11, None, None], [0x01, None, None], [0x3A, None, None], [0x2A, None, None], [0xDD, 0x7E, None],
         [0xFD, 0x46, None], [0xDD, 0x21, None, None], [0xFD, 0x21, None, None], [0xED, 0x4B, None, None], [0xED, 0x5B, None, None],
         [0xDD, 0xCB, None, 0x46], [0xDD, 0x2A, None, None], [0xFD, 0xCB, None, 0x7E])


def rst_config_text(cfg):
    """{RST address: argument bytes (1|2)} -> value of RSTHandlerConfig"""
    return ','.join('%d:%s' % (n, 'BW'[k - 1]) for n, k in sorted(cfg.items()))


def rst_config_of(text):
    """RSTHandlerConfig as documented: addr:B / addr:W, anything else is ignored"""
    cfg = {}
    for spec in text.split(','):
        a, sep, p = spec.partition(':')
        if sep and a.strip().isdigit() and int(a) in range(0, 64, 8) and p in ('B', 'W'):
            cfg[int(a)] = 1 + 'BW'.index(p)
    return cfg


def gen_rst_program(rnd, org, prog):
    """A program whose RST routines (prog: {RST address: number of inline argument bytes}) step over the bytes that follow
    the RST instruction.  The argument values come mostly from ENDLIKE/OPLIKE and are followed mostly by a 2-4 byte
    instruction (operands again often opcode-like), so that a walk that does not skip the arguments is out of step with the
    executed instructions.  Routines called from main (some only conditionally, never in fact), main ends with JR $.
    -> (bytes, entry offset, [(offset of an RST instruction, its argument bytes)])"""
    sites = []

    def operand():
        return rnd.choice(OPLIKE) if rnd.random() < 0.5 else rnd.randrange(256)

    def multi():
        return [operand() if b is None else b for b in rnd.choice(MULTI)]

    def rst_item(code):
        n = rnd.choice(sorted(prog))
        k = prog[n]
        r = rnd.random()
        if k == 1:
            args = [rnd.choice(ENDLIKE) if r < 0.8 else rnd.choice(OPLIKE) if r < 0.9 else rnd.randrange(256)]
        elif r < 0.3:
            args = list(rnd.choice(((0xDD, 0xE9), (0xFD, 0xE9), (0xED, 0x45), (0xED, 0x4D))))
        elif r < 0.55:
            args = [rnd.choice((0x18, 0xC3)), rnd.choice(OPLIKE)]
        elif r < 0.85:
            args = [rnd.choice(OPLIKE), rnd.choice(ENDLIKE)]
        else:
            args = [rnd.randrange(256), rnd.randrange(256)]
        sites.append((code, len(code), args))
        code += [0xC7 + n] + args
        if args[-1] == 0xED and rnd.random() < 0.7:
            code += [rnd.choice((0x45, 0x4D))]          # LD B,L / LD C,L: RETN / RETI after an ED that was not skipped
        if rnd.random() < 0.85:
            code += multi()
        # (else whatever comes next: a one-byte instruction, another RST, the RET)

    def body(code, k):
        for _ in range(k):
            r = rnd.random()
            if r < 0.55:
                rst_item(code)
            elif r < 0.65 and len(prog) < 8:
                sites.append((code, len(code), []))
                code += [0xC7 + rnd.choice([n for n in range(0, 64, 8) if n not in prog])]       # an RST without arguments
            elif r < 0.8:
                code += multi()
            else:
                code += rnd.choice(SAFE)

    routines = []
    for i in range(rnd.randrange(2, 6)):
        code = []
        body(code, rnd.randrange(1, 5))
        routines.append({'code': code, 'ret': rnd.random() < 0.9, 'executed': rnd.random() < 0.75, 'gap': []})
        if rnd.random() < 0.3:
            routines[-1]['gap'] = [rnd.choice(OPLIKE + (0, 0, 65, 66)) for _ in range(rnd.randrange(1, 5))]
    routines[-1]['ret'] = True
    main_first = rnd.random() < 0.5
    calls = []           # position of the address in main, routine
    main = []
    for i, r in enumerate(routines):
        if rnd.random() < 0.5:
            body(main, rnd.randrange(1, 3))
        if rnd.random() < 0.2:
            skip = [rnd.choice(OPLIKE) for _ in range(rnd.randrange(1, 5))]
            main += [0xAF, 0x28, len(skip)] + skip          # XOR A ; JR Z over bytes that are never executed
        if r['executed']:
            main += [0xCD, 0, 0]
        else:
            main += [0xAF, rnd.choice((0xC4, 0xC2)), 0, 0]  # XOR A ; CALL NZ / JP NZ: never taken
        calls.append((len(main) - 2, i))
    if rnd.random() < 0.5:
        body(main, rnd.randrange(1, 3))
    main += [0x18, 0xFE]
    pos = org + (len(main) if main_first else 0)
    code = []
    for r in routines:
        r['addr'] = pos + len(code)
        for lst, off, args in sites:
            if lst is r['code']:
                r.setdefault('sites', []).append((len(code) + off, args))
        code += r['code'] + ([0xC9] if r['ret'] else []) + r['gap']
    for p, i in calls:
        main[p:p + 2] = [routines[i]['addr'] & 255, routines[i]['addr'] >> 8]
    moff, coff = (0, len(main)) if main_first else (len(code), 0)
    out_sites = [(moff + off, args) for lst, off, args in sites if lst is main]
    for r in routines:
        out_sites += [(coff + off, args) for off, args in r.get('sites', ())]
    return (main + code, 0, out_sites) if main_first else (code + main, len(code), out_sites)


def exec_trace_rst(full, start, end, entry, prog, steps=3000):
    """Addresses in [start, end) executed by the real (Python) simulator from entry, with the RST routines of the program
    (EX (SP),HL ; INC HL x argument bytes ; EX (SP),HL ; RET - outside the image, below 64) in the simulator's memory."""
    from skoolkit.simulator import Simulator
    m = list(full)
    for n in range(0, 64, 8):
        m[n:n + 8] = ([0xE3] + [0x23] * prog[n] + [0xE3, 0xC9] + [0] * 8)[:8] if n in prog else [0xC9] + [0] * 7
    sim = Simulator(m, {'SP': 0xFF00, 'PC': entry})
    pcs = set()
    pc = entry
    for _ in range(steps):
        if start <= pc < end:
            pcs.add(pc)
        elif pc >= 64:
            break
        try:
            sim.run(pc)
        except Exception:
            break
        if sim.registers[24] == pc:
            break            # JR $
        pc = sim.registers[24]
    return sorted(pcs)


def is_end_at(mem, p):
    """(is a jump/return, length) of the instruction a decoder sees at offset p of mem"""
    b = (list(mem[p:p + 2]) + [0, 0])[:2]
    if b[0] in (0x18, 0xC3, 0xC9, 0xE9):
        return True, {0x18: 2, 0xC3: 3}.get(b[0], 1)
    if (b[0] in (0xDD, 0xFD) and b[1] == 0xE9) or (b[0] == 0xED and b[1] in (0x45, 0x4D)):
        return True, 2
    return False, 0


def rst_cases(args):
    """sna2ctl runs on RST-argument programs: with / without -m (every map format), with / without -r, RSTHandlerConfig equal
    to what the program does (from skoolkit.ini in the working directory, or the default 8:B), or something else."""
    seed, n_cases, wd = args
    from ..lib import cbuild
    cbuild.repo_only()
    rnd = random.Random(seed)
    sub = os.path.join(wd, 'r%d' % seed)
    os.makedirs(sub, exist_ok=True)
    signal.signal(signal.SIGVTALRM, _alarm)
    out = []
    for k in range(n_cases):
        org = rnd.choice((0x8000, 40000, 0x6000, 0xC000))
        if rnd.random() < 0.4:
            prog = {8: 1}
        else:
            prog = {n: rnd.choice((1, 2)) for n in rnd.sample(range(0, 64, 8), rnd.randrange(1, 4))}
        mem, eoff, sites = gen_rst_program(rnd, org, prog)
        size = len(mem)
        full = [0] * 65536
        full[org:org + size] = mem
        start, end = org, org + size
        binf = os.path.join(sub, 'i%d.bin' % k)
        open(binf, 'wb').write(bytes(mem))
        args_ = ['-o', str(org), '-s', str(start), '-e', str(end)]
        mapaddrs, fmt, outside = [], '', []
        if rnd.random() < 0.85:
            mapaddrs = exec_trace_rst(full, start, end, org + eoff, prog)
            fmt = rnd.choice(('z80', 'specemu', 'rzxplay', 'fuse', 'spud'))
            fmt, outside = map_file_choice(random.Random(seed * 1000003 + k), fmt, start, end, 0.25)
            mapf = os.path.join(sub, 'm%d.map' % k)
            write_map(mapf, fmt, mapaddrs + outside)
            args_ += ['-m', mapf]
        rstcfg = ''             # no skoolkit.ini: RSTHandlerConfig=8:B
        if rnd.random() < 0.75:
            args_.append(rnd.choice(('-r', '-r', '--handle-rst')))
            r = rnd.random()
            if r < 0.8:
                if prog != {8: 1} or rnd.random() < 0.5:
                    rstcfg = rst_config_text(prog)
            elif r < 0.9:
                rstcfg = rst_config_text({n: rnd.choice((1, 2)) for n in rnd.sample(range(0, 64, 8), rnd.randrange(1, 4))})
        elif rnd.random() < 0.3:
            rstcfg = rst_config_text(prog)     # configured but not switched on
        if rnd.random() < 0.2:
            args_.append('-h' if rnd.random() < 0.6 else '-l')
        if rnd.random() < 0.25:
            args_.append('-C')
        c = drive_out(sub, k, binf, args_, 1, start, end, mapaddrs, fmt, full, 'rst', org, mem, rstcfg)
        c['map_outside'] = outside
        rst_stats(c, sites, prog)
        out.append(c)
    return out


def beyond_cases(args):
    """A sub-range [START, END) of a program whose trace is of the WHOLE program: END is an executed instruction (the target of a
    CALL/JP when there is one) with the rest of the image behind it, START the beginning of the image or an executed instruction;
    the map file (every format in turn) lists the whole trace and a few more addresses below START / above END."""
    seed, n_cases, wd = args
    from ..lib import cbuild
    cbuild.repo_only()
    rnd = random.Random(seed)
    sub = os.path.join(wd, 'b%d' % seed)
    os.makedirs(sub, exist_ok=True)
    signal.signal(signal.SIGVTALRM, _alarm)
    out = []
    for k in range(n_cases):
        org = rnd.choice((0x8000, 40000, 0x6000, 0xC000))
        prog, sites = {}, []
        if rnd.random() < 0.6:
            mem, eoff = gen_structured(rnd, org)
        else:
            prog = {8: 1} if rnd.random() < 0.5 else {n: rnd.choice((1, 2)) for n in rnd.sample(range(0, 64, 8), rnd.randrange(1, 3))}
            mem, eoff, sites = gen_rst_program(rnd, org, prog)
        size = len(mem)
        full = [0] * 65536
        full[org:org + size] = mem
        trace = exec_trace_rst(full, org, org + size, org + eoff, prog)
        # END: an executed instruction that another executed instruction calls / jumps to, else any executed instruction
        ts = set(trace)
        targets = sorted(set(t for a in trace if full[a] in (0xCD, 0xC3, 0xC4, 0xC2, 0xCC, 0xCA)
                             for t in [full[a + 1] + 256 * full[a + 2]] if t in ts and t > org + 2))
        later = [a for a in trace if a > org + 2]
        if not later:
            continue
        end = rnd.choice(targets) if targets and rnd.random() < 0.8 else rnd.choice(later)
        start = org
        if rnd.random() < 0.35:
            start = rnd.choice([a for a in trace if a < end - 1] or [org])
        mapaddrs = [a for a in trace if start <= a < end]
        outside = set(a for a in trace if not start <= a < end)
        kk = rnd.randrange(2, 400)
        outside |= set(a for a in (start - 1, start - kk, end + 1, end + kk, 65535) if 0 <= a < 65536 and rnd.random() < 0.5)
        outside = sorted(a for a in outside if not start <= a < end)
        binf = os.path.join(sub, 'i%d.bin' % k)
        open(binf, 'wb').write(bytes(mem))
        fmt = MAP_FORMATS[(seed + k) % len(MAP_FORMATS)]
        mapf = os.path.join(sub, 'm%d.map' % k)
        write_map(mapf, fmt, mapaddrs + outside)
        args_ = ['-o', str(org), '-s', str(start), '-e', str(end), '-m', mapf]
        rstcfg = ''
        if prog and rnd.random() < 0.7:
            args_.append('-r')
            rstcfg = '' if prog == {8: 1} else rst_config_text(prog)
        if rnd.random() < 0.2:
            args_.append('-h' if rnd.random() < 0.6 else '-l')
        if rnd.random() < 0.2:
            args_.append('-C')
        c = drive_out(sub, k, binf, args_, 1, start, end, mapaddrs, fmt, full, 'beyond', org, mem, rstcfg)
        c['map_outside'] = outside
        c['end_is_target'] = 1 if end in targets else 0
        if prog:
            rst_stats(c, sites, prog)       # (RST arguments that sna2ctl is not told about: an input class with a key of its own)
        out.append(c)
    return out


# Text characters (all in the default TextChars) that are opcodes of 2/3-byte instructions, none of them a jump/return that
# ends a routine: '!' LD HL,nn  '"' LD (nn),HL  '*' LD HL,(nn)  '1' LD SP,nn  '2' LD (nn),A  ':' LD A,(nn)  '&' '.' '6' '>' LD r,n
# and the relative jumps ' ' '(' '0' '8'; and some one-byte ones
TEXT_MULTI = b'!"*12:&.6> (08'
TEXT_ONE = b'ABCDEHLMOX[]abcdeghlmox?<=-,+%$#'
ARG_MULTI = (0x21, 0x01, 0x11, 0x31, 0x32, 0x3A, 0x2A, 0x22, 0xC2, 0xCD, 0xCA, 0xDD, 0xFD, 0xED, 0xCB, 0x3E, 0x06, 0x36, 0xC3, 0x18)


def rsttext_image(rnd, prog, minlen):
    """-> (bytes, [(offset of RST, arguments)], text start, text end)"""
    mem = [rnd.choice((0xAF, 0x3C, 0x04, 0x23, 0xB7)) for _ in range(rnd.randrange(0, 4))]
    sites = []
    for _ in range(rnd.randrange(1, 3)):
        if rnd.random() < 0.5:
            mem += rnd.choice(SAFE)
        n = rnd.choice(sorted(prog))
        sargs = [rnd.choice(ARG_MULTI) if rnd.random() < 0.85 else rnd.randrange(256) for _ in range(prog[n])]
        sites.append((len(mem), sargs))
        mem += [0xC7 + n] + sargs
        if rnd.random() < 0.4:
            mem += rnd.choice(SAFE)
    tlen = rnd.randrange(minlen, 31)
    t_start = len(mem)
    # all characters 3-byte opcodes / all 2-byte opcodes: two decodings that are out of step at the beginning stay so; or any mixture
    chars = rnd.choice((TEXT_MULTI[:6], TEXT_MULTI[:6], TEXT_MULTI[6:], TEXT_MULTI, TEXT_MULTI + TEXT_ONE))
    mem += [rnd.choice(chars) for _ in range(tlen)]
    t_end = len(mem)
    mem += [rnd.choice((0x06, 0x3E, 0x21, 0x01, 0x11, 0xDD, 0xFD, 0xED, 0xCB, 0x87, 0xAF, 0x00)) for _ in range(rnd.randrange(1, 5))]
    mem += rnd.choice(([0xC9], [0xC9], [0xC3, 0x00, 0x80], [0x18, 0xFE]))
    if rnd.random() < 0.7:
        mem += [b for _ in range(rnd.randrange(1, 4)) for b in rnd.choice(SAFE)] + [0xC9]
    return mem, sites, t_start, t_end


def rsttext_props(mem, sites, t_start, t_end, handled):
    """What the input is: the instructions of the block the text is in as sna2ctl is told they are (handled: RST n + arguments is one
    instruction) and as a decoder that forgets the arguments sees them from the start of that block; where the first instruction
    at or after the end of the text begins in either."""
    size = len(mem)
    memx = mem + [0] * 4

    def bounds(frm, hd):
        b, p, blk = set(), frm, frm
        while p < size:
            b.add(p)
            e = is_end_at(memx, p)[0]
            p += z80len.length(memx, p) + (hd.get(memx[p] - 0xC7, 0) if memx[p] & 0xC7 == 0xC7 else 0)
            if e and p <= t_start:
                b, blk = set(), p            # a new block begins (before the text)
        b.add(max(p, size))
        return b, blk
    bh, blk = bounds(0, handled)
    bp = bounds(blk, {})[0] if blk < size else bh
    rh, rp = (min((a for a in b if a >= t_end), default=size) for b in (bh, bp))
    # where the block ends (after its first jump/return behind the text); does a decoding from the other resume address step over that?
    p, blk_end = rh, size
    while p < size:
        e = is_end_at(memx, p)[0]
        p += z80len.length(memx, p) + (handled.get(memx[p] - 0xC7, 0) if memx[p] & 0xC7 == 0xC7 else 0)
        if e:
            blk_end = min(p, size)
            break
    p = rp
    while p < blk_end:
        p += z80len.length(memx, p) + (handled.get(memx[p] - 0xC7, 0) if memx[p] & 0xC7 == 0xC7 else 0)
    return {'rt_handled_site': 1 if any(handled.get(mem[o] - 0xC7, 0) == len(a) and blk <= o < t_start for o, a in sites) else 0,
            'rt_text_after_code': 1 if blk < t_start else 0,
            'rt_resume_differs': 1 if rh != rp else 0,
            'rt_resume_inside': 1 if rp not in bh else 0,         # the other resume address is inside an instruction
            'rt_overrun': 1 if rp not in bh and p > blk_end and blk_end < size else 0}     # .. and from there the next block is run into


def rsttext_cases(args):
    """No code map: [0-3 one-byte instructions] [code with an RST n + inline arguments, values mostly first bytes of multi-byte
    instructions] [a run of text characters that are opcodes, TextMinLengthCode..30 long] [a short tail of opcode-valued bytes ending
    in RET/JP] [sometimes another routine]; with / without -r and RSTHandlerConfig as the image means it, default, or another.
    Three quarters of the images are drawn until the two decodings (see rsttext_props) differ where the code resumes."""
    seed, n_cases, wd = args
    from ..lib import cbuild
    cbuild.repo_only()
    rnd = random.Random(seed)
    sub = os.path.join(wd, 'x%d' % seed)
    os.makedirs(sub, exist_ok=True)
    signal.signal(signal.SIGVTALRM, _alarm)
    out = []
    for k in range(n_cases):
        org = rnd.choice((0x8000, 40000, 30000, 0xC000))
        prog = {8: 1} if rnd.random() < 0.45 else {n: rnd.choice((1, 2)) for n in rnd.sample(range(0, 64, 8), rnd.randrange(1, 3))}
        minlen = rnd.choice((12, 12, 8, 5))
        opts, rstcfg = [], ''
        if minlen != 12:
            opts += ['-I', 'TextMinLengthCode=%d' % minlen]
        if rnd.random() < 0.8:
            opts.append(rnd.choice(('-r', '--handle-rst')))
            r = rnd.random()
            if r < 0.8:
                if prog != {8: 1} or rnd.random() < 0.5:
                    rstcfg = rst_config_text(prog)
            elif r < 0.9:
                rstcfg = rst_config_text({n: rnd.choice((1, 2)) for n in rnd.sample(range(0, 64, 8), rnd.randrange(1, 4))})
        if rnd.random() < 0.15:
            opts.append('-h' if rnd.random() < 0.6 else '-l')
        if rnd.random() < 0.2:
            opts.append('-C')
        handled = rst_config_of(rstcfg or '8:B') if ('-r' in opts or '--handle-rst' in opts) else {}
        want = rnd.random() < 0.75
        for _ in range(60):
            mem, sites, t_start, t_end = rsttext_image(rnd, prog, minlen)
            props = rsttext_props(mem, sites, t_start, t_end, handled)
            if not want or not handled or (props['rt_handled_site'] and props['rt_resume_differs'] and props['rt_resume_inside']
                                           and (props['rt_overrun'] or _ % 3 == 2)):
                break
        size = len(mem)
        full = [0] * 65536
        full[org:org + size] = mem
        start, end = org, org + size
        binf = os.path.join(sub, 'i%d.bin' % k)
        open(binf, 'wb').write(bytes(mem))
        args_ = ['-o', str(org), '-s', str(start), '-e', str(end)] + opts
        c = drive_out(sub, k, binf, args_, 1, start, end, [], '', full, 'rsttext', org, mem, rstcfg)
        c['map_outside'] = []
        c.update(props)
        c['rt_text_in_code'] = 1 if props['rt_text_after_code'] and any(d[0] == 't' and org + t_start <= d[1] < org + t_end for d in c['dirs']) else 0
        out.append(c)
    return out


def rst_stats(c, sites, prog):
    """What of the interesting input class the case has (for the vacuity guard and the violation key)"""
    handled = rst_config_of(c['rstcfg'] or '8:B') if ('-r' in c['args'] or '--handle-rst' in c['args']) else {}
    mem, org, mp = c['image'], c['org'], set(c['map'])
    c['rst_sites'] = c['rst_handled'] = c['rst_oplike'] = c['rst_endlike'] = c['rst_sharp'] = c['rst_undeclared'] = 0
    c['rst_walk_ends'] = []

    def length(p):          # as sna2ctl is told: an RST with configured arguments is one instruction
        return z80len.length(memx, p) + (handled.get(memx[p] - 0xC7, 0) if memx[p] & 0xC7 == 0xC7 else 0)
    memx = list(mem) + [0] * 4
    for off, sargs in sites:
        n = mem[off] - 0xC7
        if org + off not in mp:
            continue
        if sargs:
            c['rst_sites'] += 1
        if handled.get(n, 0) != len(sargs):
            c['rst_undeclared'] += 1    # executed, and what follows it is not what sna2ctl is told (no -r, another RSTHandlerConfig)
            continue
        if not sargs:
            continue
        c['rst_handled'] += 1           # executed, its arguments are what -r is told they are
        if any(b in OPLIKE for b in sargs):
            c['rst_oplike'] += 1
        # a walk that starts at the first argument byte instead of skipping the arguments
        p, nxt, e = off + 1, off + 1 + len(sargs), False
        # (where the jumps/returns end that such a walk finds before it is in step with the executed instructions again)
        ends = []
        while p < min(len(mem), nxt + 16) and len(ends) < 3 and not (p >= nxt and org + p in mp):
            e = is_end_at(mem, p)[0]
            p += length(p)
            if e:
                ends.append(org + p)
        c['rst_walk_ends'] += ends
        p, e = off + 1, False
        while p < nxt and not e:
            e = is_end_at(mem, p)[0]
            p += z80len.length(memx, p)
        if e:
            c['rst_endlike'] += 1       # .. finds a jump/return in them ..
            q = nxt
            while q < p and org + q in mp:
                q += z80len.length(memx, q)
            if q > p:
                c['rst_sharp'] += 1     # .. that ends inside an executed instruction after the arguments


# ---------------------------------------------------------------- images that end in the middle of an instruction
# Multi-byte instructions of every prefix class (and the undefined slots, which the decoder sizes by other rules); each is cut
# after each of its bytes (a) by the top of memory - the image ends at 65535, END is 65536 whether -e is given or not - and
# (b) by an explicit -e below the top, where the rest of the instruction is there to be read.
CUT_PATTERNS = ([0xDD, 0xCB, 0x05, 0x46], [0xFD, 0xCB, 0xFB, 0xC6], [0xDD, 0xCB, 0x00, 0x06], [0xFD, 0xCB, 0x7F, 0x00], [0xDD, 0xCB, 0x01, 0xFF],
                [0xCB, 0x27], [0xCB, 0x46], [0xED, 0x43, 0x00, 0x5B], [0xED, 0x4B, 0x34, 0x12], [0xED, 0x44], [0xED, 0xB0], [0xED, 0x00],
                [0xED, 0x45], [0xED, 0x77], [0xDD, 0x21, 0x34, 0x12], [0xFD, 0x21, 0x00, 0x40], [0xDD, 0x36, 0x05, 0x07], [0xFD, 0x36, 0xFE, 0xC9],
                [0xDD, 0x2A, 0x00, 0x5B], [0xFD, 0x22, 0x00, 0x5B], [0xDD, 0x7E, 0x05], [0xFD, 0x46, 0x81], [0xDD, 0x34, 0x00], [0xDD, 0x09],
                [0xFD, 0x23], [0xDD, 0xE9], [0xFD, 0xE9], [0xDD, 0x00], [0xFD, 0x3C], [0xDD, 0xDD, 0x21, 0x00, 0x40], [0xDD, 0xFD, 0x7E, 0x01],
                [0xFD, 0xED, 0x44], [0xDD, 0xED, 0x43, 0x00, 0x5B], [0xC3, 0x00, 0x80], [0xCD, 0x00, 0x80], [0x21, 0x34, 0x12],
                [0x01, 0xC9, 0xC9], [0x32, 0x00, 0x5B], [0xC2, 0x00, 0x80], [0x3E, 0x07], [0x18, 0xFE], [0x10, 0xFE], [0x20, 0x00], [0xD3, 0xFE],
                [0x36, 0x00], [0xCF, 0x18], [0xCF, 0xC3, 0x00], [0xC9], [0x00])
CUT_PREAMBLES = ([], [0x3E, 0x07, 0x04], [0x21, 0x00, 0x40, 0xC9], [0xDD, 0xCB])


def cut_specs(rotate=None):
    """Every (pattern, bytes kept 1..len, preamble, placement, code map, -r, -C) - deterministic, no random choice.
    rotate = n: every (pattern, kept, placement, code map) with the first two preambles and one of the others, each with ONE of the
    four -r/-C combinations; which ones depends on n."""
    specs = []
    for pi, pat in enumerate(CUT_PATTERNS):
        for keep in range(1, len(pat) + 1):
            for qi in range(len(CUT_PREAMBLES)):
                if rotate is not None and qi >= 2 and (pi + keep + rotate) % 2 != qi % 2:
                    continue            # (quick: one of the last two preambles per cut)
                for place in ('top', 'top-no-e', 'below'):
                    for mp in ('none', 'all', 'before'):
                        if mp == 'before' and not CUT_PREAMBLES[qi]:
                            continue
                        for r in (0, 1):
                            for cm in (0, 1):
                                if rotate is None or (pi + keep + qi + len(place) + len(mp) + rotate) % 4 == 2 * r + cm:
                                    specs.append((pi, keep, qi, place, mp, r, cm))
    return specs


def cut_cases(args):
    """sna2ctl on images whose last instruction is cut by the top of memory / by END."""
    specs, wd, wi = args
    from ..lib import cbuild
    cbuild.repo_only()
    sub = os.path.join(wd, 't%d' % wi)
    os.makedirs(sub, exist_ok=True)
    signal.signal(signal.SIGVTALRM, _alarm)
    out = []
    for k, (pi, keep, qi, place, mp, r, cm) in enumerate(specs):
        pat, pre = CUT_PATTERNS[pi], CUT_PREAMBLES[qi]
        if place == 'below':
            mem = pre + pat + [0xC9, 0x00, 0x3E]       # the image goes on after END
            org = 40000
            end = org + len(pre) + keep
        else:
            mem = pre + pat[:keep]
            org = 65536 - len(mem)
            end = 65536
        start = org
        full = [0] * 65536
        full[org:org + len(mem)] = mem
        binf = os.path.join(sub, 'i%d.bin' % k)
        open(binf, 'wb').write(bytes(mem))
        args_ = ['-o', str(org), '-s', str(start)] + ([] if place == 'top-no-e' else ['-e', str(end)])
        # the code map of a straight-line run: the instructions of the preamble (+ the one that is cut)
        mapaddrs, a = [], 0
        while a < len(pre):
            mapaddrs.append(org + a)
            a += z80len.length(pre + pat + [0, 0, 0], a)
        if a == len(pre) and mp == 'all':
            mapaddrs.append(org + a)          # (a > len(pre): the preamble itself runs into the pattern)
        fmt = ''
        if mp == 'none' or not mapaddrs:
            mapaddrs = []
        else:
            fmt = ('z80', 'specemu', 'rzxplay', 'fuse', 'spud')[(pi + keep + qi) % 5]
            mapf = os.path.join(sub, 'm%d.map' % k)
            write_map(mapf, fmt, mapaddrs)
            args_ += ['-m', mapf]
        if r:
            args_.append('-r')
        if cm:
            args_.append('-C')
        c = drive_out(sub, k, binf, args_, 1, start, end, mapaddrs, fmt, full, 'top' if end == 65536 else 'cut', org, mem)
        c['cut_kept'] = ''.join('%02X' % b for b in pat[:keep])
        c['cut_missing'] = len(pat) - keep
        out.append(c)
    return out


def drive_out(sub, k, binf, args_, strict, start, end, mapaddrs, mapfmt, full, kind, org, mem, rstcfg=''):
    """sna2ctl on the image file binf with args_, then sna2skool + skool2bin on its output -> CtlCases record.  `image`, `org`,
    `map`, `mapfmt`, `args` (apart from the path after -m), `rstcfg` are the whole input: --replay.
    rstcfg: RSTHandlerConfig ('' = none given); it can only be given in skoolkit.ini of the working directory, which the real
    code reads once per process (components.SK_CONFIG): the tools run in a directory of their own with that file, and the cached
    configuration is dropped before and after."""
    if not rstcfg:
        return _drive_out(sub, k, binf, args_, strict, start, end, mapaddrs, mapfmt, full, kind, org, mem, rstcfg)
    from skoolkit import components
    if not hasattr(components, 'SK_CONFIG'):
        from ..lib.common import MachineryError
        raise MachineryError('skoolkit.components has no SK_CONFIG any more: cannot give RSTHandlerConfig per run')
    cwd = os.getcwd()
    d = os.path.join(sub, 'cfg%d' % k)
    os.makedirs(d, exist_ok=True)
    with open(os.path.join(d, 'skoolkit.ini'), 'w') as f:
        f.write('[skoolkit]\nRSTHandlerConfig=%s\n' % rstcfg)
    try:
        os.chdir(d)
        components.SK_CONFIG = None
        return _drive_out(sub, k, binf, args_, strict, start, end, mapaddrs, mapfmt, full, kind, org, mem, rstcfg)
    finally:
        os.chdir(cwd)
        components.SK_CONFIG = None


def _drive_out(sub, k, binf, args_, strict, start, end, mapaddrs, mapfmt, full, kind, org, mem, rstcfg):
    from skoolkit import sna2ctl, sna2skool, skool2bin
    c = {'kind': 'out', 'strict': strict, 'start': start, 'end': end, 'dirs': [], 'subs': [], 'map': mapaddrs, 'iaddr': [], 'warn': 0,
         'timeout': 0, 'err': '', 'skoolerr': '', 'mem': full[start:end], 'ignored': [], 'binstart': 0, 'bin': [],
         'stmts': [], 'args': args_, 'image_kind': kind, 'org': org, 'image': mem, 'mapfmt': mapfmt, 'rstcfg': rstcfg}
    # CPU time of this process (not wall time: load does not matter); a run on these images takes milliseconds.  Once runs have
    # hit the cap in this worker the following ones get a shorter one, so that a generator that loops does not take for ever.
    signal.setitimer(signal.ITIMER_VIRTUAL, 5 if TIMEOUTS[0] < 3 else 1)
    try:
        ctl, err, rc = pipedrv.run_tool(sna2ctl.main, args_ + [binf])
    except Timeout:
        TIMEOUTS[0] += 1
        c['timeout'] = 1
        return c
    finally:
        signal.setitimer(signal.ITIMER_VIRTUAL, 0)
    c['ctl'] = ctl[:4000]
    if rc or not ctl.strip():
        c['err'] = 'rc=%s %s' % (rc, err[-300:])
        return c
    for line in ctl.splitlines():
        m = DIR.match(line)
        if m:
            a = m.group(2)
            a = int(a[1:], 16) if a.startswith('$') else int(a)
            if m.group(1) in 'BCSTW':
                c['subs'].append(a)
            elif m.group(1) not in 'DEMNRL':
                c['dirs'].append([m.group(1), a])        # (a letter that is no directive at all is judged as a block directive)
    # The judge looks at the terminating directive before anything that sna2skool makes of the file.  Without an 'i' at END the last
    # block runs on to 65535 (tens of thousands of statements per run): the verdict is 'terminator' whatever is in there, so
    # sna2skool is not run, and what the file itself has beyond END is kept only as far as needed to see that it is there.
    if end < 65536:
        for f in ('dirs', 'subs'):
            far = [x for x in c[f] if (x[1] if f == 'dirs' else x) > end + 16]
            if len(far) > 32:
                c[f] = [x for x in c[f] if (x[1] if f == 'dirs' else x) <= end + 16] + far[:16] + far[-16:]
        if not c['dirs'] or c['dirs'][-1] != ['i', end]:
            c['sna2skool_not_run'] = 1
            return c
    # feed it to sna2skool and on to skool2bin (the C01 guarantee for the generated file)
    ctlf = os.path.join(sub, 'g%d.ctl' % k)
    open(ctlf, 'w').write(ctl)
    # (no -r here: sna2ctl -r has already written the RST arguments as B sub-blocks)
    sargs = ['-o', str(org), '-c', ctlf]
    skool, serr, src = pipedrv.run_tool(sna2skool.main, sargs + [binf])
    if src or not skool.strip():
        c['skoolerr'] = 'rc=%s %s' % (src, serr[-300:])
        return c
    # an instruction of the code map that straddles the requested END cannot be rendered without running into
    # the terminating i block: that one warning is inherent in the input, every other warning counts
    warns = [l for l in serr.splitlines() if l.startswith('WARNING') and not l.rstrip().endswith('instruction at %d' % end)]
    # (so are the configured arguments of an RST - with -r one instruction - when they run over END)
    straddle = re.compile(r"WARNING: '[BW]' directive at (%d|%d)/\S+ overlaps 'i' directive at %d/" % (end - 1, end - 2, end))
    c['rst_argument_straddles_end'] = sum(1 for l in warns if straddle.match(l))
    warns = [l for l in warns if not straddle.match(l)]
    if warns:
        c['warn'] = 1
        c['warning'] = '\n'.join(warns)[-400:]
    c['iaddr'] = pipedrv.stmt_addresses(skool)
    c['stmts'] = c['iaddr']
    skf = os.path.join(sub, 'g%d.skool' % k)
    outf = os.path.join(sub, 'g%d.bin' % k)
    open(skf, 'w').write(skool)
    _, berr, brc = pipedrv.run_tool(skool2bin.main, [skf, outf])
    if brc or not os.path.isfile(outf):
        c['skoolerr'] = 'skool2bin rc=%s %s' % (brc, berr[-300:])
        return c
    m = re.search(r'start=(\d+), end=(\d+)', berr)
    c['binstart'] = int(m.group(1)) if m else start
    c['bin'] = list(open(outf, 'rb').read())
    c['skool'] = skool[:3000]
    return c


def out_replay(wd, rp, mapfmt):
    """Image file and code map file written again from the record, the recorded sna2ctl options with the new map path."""
    from ..lib import cbuild
    cbuild.repo_only()
    os.makedirs(wd, exist_ok=True)
    signal.signal(signal.SIGVTALRM, _alarm)
    org, mem = rp['org'], list(rp['image'])
    binf = os.path.join(wd, 'i0.bin')
    open(binf, 'wb').write(bytes(mem))
    args_ = list(rp['args'])
    if '-m' in args_:
        mapf = os.path.join(wd, 'm0.map')
        write_map(mapf, mapfmt, list(rp['map']) + list(rp.get('map_outside', [])))
        args_[args_.index('-m') + 1] = mapf
    full = [0] * 65536
    full[org:org + len(mem)] = mem
    c = drive_out(wd, 0, binf, args_, rp['strict'], rp['start'], rp['end'], list(rp['map']), mapfmt, full, rp.get('image_kind', '?'), org, mem,
                  rp.get('rstcfg', ''))
    c.update({k: v for k, v in rp.items() if k.startswith(('rst_', 'cut_', 'rt_', 'map_outside')) and k not in c})         # (what the input is, see rst_stats)
    return c
