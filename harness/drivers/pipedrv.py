"""C01 driver: memory image + ctl + options -> real sna2skool.main -> real skool2bin.main."""
import contextlib
import io
import os
import random
import re

from . import ctlgen

STMT = re.compile(r'^[bcgistuw* ]([0-9]{5}|\$[0-9A-Fa-f]{4}) ')


def run_tool(main, args):
    out, err = io.StringIO(), io.StringIO()
    code = 0
    try:
        with contextlib.redirect_stdout(out), contextlib.redirect_stderr(err):
            main(list(args))
    except SystemExit as e:
        code = e.code if isinstance(e.code, int) else (1 if e.code else 0)
    except Exception as e:
        return out.getvalue(), err.getvalue() + '\n%s: %s' % (type(e).__name__, e), 99
    return out.getvalue(), err.getvalue(), code


def stmt_addresses(skool):
    out = []
    for line in skool.splitlines():
        m = STMT.match(line)
        if m and len(line) > 7 and line[6:].strip() and not line[7:].lstrip().startswith(';'):
            a = m.group(1)
            out.append(int(a[1:], 16) if a.startswith('$') else int(a))
    return out


def gen_options(rnd):
    opts = []
    if rnd.random() < 0.4:
        opts.append('-H')
    if rnd.random() < 0.4:
        opts.append('-l')
    if rnd.random() < 0.5:
        opts += ['-w', str(rnd.choice((40, 45, 60, 79, 120, 200)))]
    if rnd.random() < 0.15:
        opts.append('-r')
    for name, vals in (('DefbSize', (1, 2, 3, 8, 20)), ('DefmSize', (1, 2, 5, 65)), ('DefwSize', (1, 2, 3)),
                       ('Opcodes', ('ALL', 'ED63,ED6B', 'NEG,RETN,IM', 'XYCB', 'ED70,ED71', '')),
                       ('Timings', (0, 1)), ('Text', (0, 1)), ('InstructionWidth', (5, 13, 30)), ('Semicolons', ('c', 'bcgstuw', ''))):
        if rnd.random() < 0.45:
            opts += ['-I', '%s=%s' % (name, rnd.choice(vals))]
    return opts


def pipeline(wd, idx, mem, org, start, end, ctl_lines, opts, wrap):
    """mem: list of bytes loaded at org. Returns the TilingCases record (+ debugging fields)."""
    from skoolkit import sna2skool, skool2bin
    binf = os.path.join(wd, 'in%d.bin' % idx)
    ctlf = os.path.join(wd, 'in%d.ctl' % idx)
    skf = os.path.join(wd, 'out%d.skool' % idx)
    outf = os.path.join(wd, 'out%d.bin' % idx)
    with open(binf, 'wb') as f:
        f.write(bytes(mem))
    with open(ctlf, 'w') as f:
        f.write('\n'.join(ctl_lines) + '\n')
    args = ['-o', str(org), '-s', str(start), '-e', str(end), '-c', ctlf] + opts
    if wrap:
        args += ['-I', 'Wrap=1']
    skool, err1, rc1 = run_tool(sna2skool.main, args + [binf])
    case = {'start': start, 'end': end, 'mem': [], 'ignored': [], 'binstart': 0, 'bin': [], 'stmts': [], 'err': '',
            'ctl': ctl_lines, 'opts': args, 'skool': skool[:6000], 'stderr': (err1 or '')[:1000]}
    if rc1 or not skool.strip():
        case['err'] = 'sna2skool rc=%s %s' % (rc1, err1[-300:])
        return case
    with open(skf, 'w') as f:
        f.write(skool)
    _, err2, rc2 = run_tool(skool2bin.main, [skf, outf])
    case['stderr'] += err2[:600]
    if rc2 or not os.path.isfile(outf):
        case['err'] = 'skool2bin rc=%s %s' % (rc2, err2[-300:])
        return case
    m = re.search(r'start=(\d+), end=(\d+)', err2)
    data = list(open(outf, 'rb').read())
    case['binstart'] = int(m.group(1)) if m else start
    case['bin'] = data
    case['stmts'] = stmt_addresses(skool)
    return case
