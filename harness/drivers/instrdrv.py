"""C07 driver: ask every table-driven decoder about the same bytes."""
import random

from . import simdrv, z80len

OPTSETS = ([], ['ED63'], ['ED6B'], ['ED70'], ['ED71'], ['IM'], ['NEG'], ['RETN'], ['XYCB'],
           ['ED63', 'ED6B', 'ED70', 'ED71', 'IM', 'NEG', 'RETN', 'XYCB'])


def observe(mem, pc, opts):
    from skoolkit.snaskool import DisassemblerConfig, Instruction
    from skoolkit.disassembler import Disassembler
    from skoolkit import traceutils, opcodes, z80
    sk = {'op': '', 'len': 0, 'variant': 0, 'timing': [], 'texc': '', 'exc': '', 'ltiming': [], 'ltexc': ''}
    try:
        cfg = DisassemblerConfig(False, False, 8, 66, 1, False, Instruction, ','.join(opts), False)
        ins = Disassembler(mem, cfg).disassemble(pc, pc + 1, 'n')[0]
        sk['op'] = ins.operation
        sk['len'] = len(ins.bytes)
        sk['variant'] = 1 if ins.variant else 0
        try:
            t = z80.get_timing(ins)
            sk['timing'] = [] if t is None else ([t] if isinstance(t, int) else list(t))
        except Exception as e:
            sk['texc'] = '%s: %s' % (type(e).__name__, e)
        # the same bytes disassembled in lower case (sna2skool -l): the timing must be the same
        try:
            lcfg = DisassemblerConfig(False, True, 8, 66, 1, False, Instruction, ','.join(opts), False)
            lins = Disassembler(mem, lcfg).disassemble(pc, pc + 1, 'n')[0]
            t = z80.get_timing(lins)
            sk['ltiming'] = [] if t is None else ([t] if isinstance(t, int) else list(t))
        except Exception as e:
            sk['ltexc'] = '%s: %s' % (type(e).__name__, e)
    except Exception as e:
        sk['exc'] = '%s: %s' % (type(e).__name__, e)
    tu = {'op': '', 'len': 0, 'exc': ''}
    try:
        op, size = traceutils.disassemble(mem, pc, '', 'd', 'd')
        tu['op'], tu['len'] = op, size
    except Exception as e:
        tu['exc'] = '%s: %s' % (type(e).__name__, e)
    od = {'len': 0, 'template': '', 'exc': ''}
    try:
        d = next(opcodes.decode(mem, pc, pc + 1))
        od['len'], od['template'] = d[1], d[4]
    except Exception as e:
        od['exc'] = '%s: %s' % (type(e).__name__, e)
    return sk, tu, od


def gen_cases(args):
    seed, idxs, variants = args
    from ..lib import cbuild
    cbuild.repo_only()
    rnd = random.Random(seed)
    sl = simdrv.slots()
    mem = list(simdrv.BASE)
    cases = []
    for i in idxs:
        lead, name = sl[i]
        for v in range(variants):
            ins = [simdrv.r8(rnd) if b is None else b for b in lead]
            while len(ins) < 4:
                ins.append(simdrv.r8(rnd))
            pc = 0x8000 if v % 3 == 0 else rnd.choice((0x0000, 0x3FFE, 0x7FFF, 0xC000, 0xFF00, 0xFFF0, 0xFFFB))
            if v % 3 == 1:
                # the instruction's last byte is the last byte of memory
                pc = 65536 - z80len.length(ins + [0, 0], 0)
            ov = [[(pc + k) % 65536, b] for k, b in enumerate(ins)]
            for a, b in ov:
                mem[a] = b
            for opts in (OPTSETS if v == 0 else (OPTSETS[0], OPTSETS[-1], rnd.choice(OPTSETS[1:-1]))):
                sk, tu, od = observe(mem, pc, opts)
                cases.append({'key': name, 'pc': pc, 'ov': ov, 'opts': list(opts), 'sk': sk, 'tu': tu, 'od': od})
            for a, _ in ov:
                mem[a] = simdrv.BASE[a]
    return cases
