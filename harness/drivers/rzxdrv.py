"""C20 driver: an RZX *recorder* (and an independent RZX reader) written from the RZX format specification
(ramsoft "RZX format specification" 0.12/0.13: header, creator 0x10, snapshot 0x30, input recording 0x80), not
from skoolkit's parser.

The recorder runs a generated program on the real simulator (skoolkit CSimulator / CCMIOSimulator, one step per
`run()` call, `int_active` = 0 so that the machine has no frame clock of its own) and cuts the run into frames:
  fetch counter = number of M1 fetches (every prefix byte is one M1) counted by opcode inspection and cross-checked
                  against the R register; the interrupt acknowledge is not counted
  IN values     = what the recorder's port model returned, in order; 65535 marks a frame with the same readings
                  as the previous one
  frame end     = the point where the maskable interrupt is sampled: never right after EI (convention A; or, under
                  convention bit 1, the interrupt is blocked there and a one-instruction frame follows), never after
                  a lone DD/FD prefix; when IFF = 1 the interrupt is accepted there (HALT is left first; under
                  convention bit 0 `LD A,I/R` then shows P/V = 0)
It keeps the machine state at every frame boundary and the per-instruction log (pc, fetches, port read?), which
RzxCases / RzxTrace (TLC) compare with what the real rzxplay / rzxinfo do with the file.
"""
import hashlib
import os
import random
import re
import struct
import zlib

from ..lib.common import REPO, MachineryError
from . import snapfile
from .pipedrv import run_tool

A, F, B, C, D, E, H, L, IXh, IXl, IYh, IYl, SP, SP2, I, R = range(16)
xA, xF, xB, xC, xD, xE, xH, xL = range(16, 24)
PC, T, IFF, IM, HALT, MEMPTR = 24, 25, 26, 27, 28, 29

# ------------------------------------------------------------------------------------------------
# Z80 facts the recorder needs (Zilog manual / "The Undocumented Z80 Documented" 3.x, 5.x)
# ------------------------------------------------------------------------------------------------
# opcodes whose meaning a DD/FD prefix changes (they mention HL, H, L or (HL)); before any other opcode the prefix
# is a 4 T-state no-operation of its own after which no interrupt is accepted
INDEXABLE = set([0x09, 0x19, 0x29, 0x39, 0x21, 0x22, 0x23, 0x24, 0x25, 0x26, 0x2A, 0x2B, 0x2C, 0x2D, 0x2E,
                 0x34, 0x35, 0x36, 0xCB, 0xE1, 0xE3, 0xE5, 0xE9, 0xF9])
for _op in range(0x40, 0xC0):
    _y, _z = (_op >> 3) & 7, _op & 7
    if _op == 0x76:
        continue
    if _op < 0x80:
        if _y in (4, 5, 6) or _z in (4, 5, 6):
            INDEXABLE.add(_op)
    elif _z in (4, 5, 6):
        INDEXABLE.add(_op)


def fetches(b0, b1):
    """M1 fetches of the step that starts with bytes b0 b1 (a lone prefix is a step of its own)."""
    if b0 in (0xCB, 0xED):
        return 2
    if b0 in (0xDD, 0xFD):
        return 2 if b1 in INDEXABLE else 1
    return 1


def cls(b0, b1):
    if b0 == 0x76:
        return 'halt'
    if b0 == 0xED and b1 in (0x57, 0x5F):
        return 'ldair'
    if b0 == 0xFB:
        return 'ei'
    return 'other'


def recorder_decision(conv, xcls, halted):
    if halted:
        return 'accept-halt'
    if xcls == 'ldair':
        return 'accept-pv' if conv & 1 else 'accept'
    if xcls == 'ei':
        return 'block'
    return 'accept'


# ------------------------------------------------------------------------------------------------
# RZX container (format specification)
# ------------------------------------------------------------------------------------------------
def rzx_header(minor=13):
    return b'RZX!' + bytes((0, minor)) + struct.pack('<I', 0)


def rzx_creator(name=b'VerifRecorder', major=1, minor=0):
    return bytes([0x10]) + struct.pack('<I', 29) + name.ljust(20, b'\0')[:20] + struct.pack('<HH', major, minor)


def rzx_snapshot(data, ext, compress):
    body = zlib.compress(data, 6) if compress else data
    return (bytes([0x30]) + struct.pack('<I', 17 + len(body)) + struct.pack('<I', 2 if compress else 0)
            + ext.encode().ljust(4, b'\0')[:4] + struct.pack('<I', len(data)) + body)


def frames_bytes(frames):
    """frames: list of (fc, ic, ins) in stored form (ic = 65535: repeated, no readings stored)."""
    out = bytearray()
    for fc, ic, ins in frames:
        out += struct.pack('<HH', fc, ic)
        if ic != 65535:
            if ic != len(ins):
                raise MachineryError('bad frame')
            out += bytes(ins)
    return bytes(out)


def rzx_input(frames, tstates, compress):
    data = frames_bytes(frames)
    body = zlib.compress(data, 6) if compress else data
    return (bytes([0x80]) + struct.pack('<I', 18 + len(body)) + struct.pack('<I', len(frames)) + b'\0'
            + struct.pack('<I', tstates) + struct.pack('<I', 2 if compress else 0) + body)


def read_rzx(data):
    """Independent reader: -> list of ('snap', ext, bytes) / ('input', tstates, [(fc, ic, ins)...]) / ('other', id)."""
    data = bytes(data)
    if data[:4] != b'RZX!' or len(data) < 10:
        raise snapfile.FormatError('not an RZX file')
    out = []
    i = 10
    while i < len(data):
        if i + 5 > len(data):
            raise snapfile.FormatError('truncated block header at %d' % i)
        bid, blen = data[i], struct.unpack('<I', data[i + 1:i + 5])[0]
        if blen < 5 or i + blen > len(data):
            raise snapfile.FormatError('bad block length %d at %d' % (blen, i))
        body = data[i + 5:i + blen]
        if bid == 0x30:
            flags, ext, ulen = struct.unpack('<I', body[:4])[0], body[4:8].split(b'\0')[0].decode('latin1'), struct.unpack('<I', body[8:12])[0]
            sdata = body[12:]
            if flags & 1:
                out.append(('extsnap', ext, sdata))
            else:
                if flags & 2:
                    sdata = zlib.decompress(sdata)
                if len(sdata) != ulen:
                    raise snapfile.FormatError('snapshot length %d, header says %d' % (len(sdata), ulen))
                out.append(('snap', ext.lower(), sdata))
        elif bid == 0x80:
            nf, _, t, flags = struct.unpack('<IBII', body[:13])
            fdata = body[13:]
            if flags & 1:
                raise snapfile.FormatError('encrypted input block')
            if flags & 2:
                fdata = zlib.decompress(fdata)
            frames = []
            j = 0
            for _ in range(nf):
                if j + 4 > len(fdata):
                    raise snapfile.FormatError('truncated frame list')
                fc, ic = struct.unpack('<HH', fdata[j:j + 4])
                j += 4
                if ic == 65535:
                    frames.append((fc, ic, []))
                else:
                    if j + ic > len(fdata):
                        raise snapfile.FormatError('truncated port readings')
                    frames.append((fc, ic, list(fdata[j:j + ic])))
                    j += ic
            if j != len(fdata):
                raise snapfile.FormatError('%d stray bytes after the last frame' % (len(fdata) - j))
            out.append(('input', t, frames))
        else:
            out.append(('other', bid))
        i += blen
    return out


# ------------------------------------------------------------------------------------------------
# machines and programs
# ------------------------------------------------------------------------------------------------
def _rom48():
    with open(os.path.join(REPO, 'skoolkit', 'resources', '48.rom'), 'rb') as f:
        return f.read()


def _rom(machine, n):
    """The ROM a machine has at 0x0000 (n: 128K ROM number)."""
    name = {'48K': '48.rom', '128K': '128-%d.rom' % n, '+2': 'plus2-%d.rom' % n}[machine]
    with open(os.path.join(REPO, 'skoolkit', 'resources', name), 'rb') as f:
        return f.read()


# Stack pointer values at which the two bytes an interrupt acknowledge (or any push) writes fall on different sides of
# the ROM/RAM border or of the 64K wrap: the byte at SP-1 and the byte at SP-2 are each stored only when their own
# address is RAM.  SPLIT_SP: exactly one of the two lands in ROM; the others are their neighbours.
SPLIT_SP = (0x4001, 0x0001)
EDGE_SP = (0x4001, 0x4000, 0x4002, 0x0001, 0x0000, 0x0002, 0xFFFF, 0x3FFF)
SANE_SP = (0xFF40, 0x7F00, 0xBFF0, 0x5D00)


# Port-immediate / port-low-byte values at which "port + 1" does or does not carry into the high byte (MEMPTR after IN A,(n)
# is (A*256 + n + 1) mod 65536, after OUT (n),A it is ((n + 1) mod 256) + 256*A; IN r,(C) / OUT (C),r / INI.. use BC +- 1), and
# accumulator values whose low bits make that carry show in bits 3 and 5 of MEMPTR's high byte (what BIT n,(HL) copies to F)
IO_EDGE = (0xFF, 0xFE, 0x00, 0x7F, 0x80, 0x1F)
IO_A = (0x00, 0x07, 0x7F, 0xFF)


# Interrupt register values whose mode 2 vector (low byte at I*256+255, high byte at (I*256+256) mod 65536: the bus shows 255)
# straddles a 16K page edge: FF wraps at 64K into ROM, 3F has its low byte in ROM and the high byte in RAM, 7F and BF have the
# two bytes in different RAM pages (on a 128K the second is the bank paged in at C000); FE and 40 are their neighbours.
STRADDLE_I = (0xFF, 0x3F, 0x7F, 0xBF)
EDGE_I = STRADDLE_I + (0xFE, 0x40)


def gen_code(rnd, org, m128, isr_addr, buf, edge=False, io=False, ivals=(), im2=False):
    """A program (list of bytes) looping for ever; fragments chosen to hit the RZX protocol's cases."""
    def w(v):
        return [v & 255, (v >> 8) & 255]

    def sp_frag(force=False):
        # LD SP,nn (mostly an edge value) ; [IM 1 / IM 2] ; EI ; then wait for the frame interrupt (HALT, a tight loop,
        # a loop of LD A,I / LD A,R) or just go on with the program
        nn = rnd.choice(SPLIT_SP + EDGE_SP) if force or rnd.random() < 0.85 else rnd.choice(SANE_SP)
        f = [0x31] + w(nn)
        x = rnd.random() * (0.65 if force else 1)
        if x < 0.3:
            f += [0xED, 0x56]
        elif x < 0.65:
            f += [0xED, 0x5E]
        f += [0xFB]
        if force:
            return f + rnd.choice(([0x76], [0x18, 0xFE], [0xED, 0x57, 0x18, 0xFC], [0xED, 0x5F, 0x18, 0xFC]))
        return f + rnd.choice(([0x76], [0x76], [0x18, 0xFE], [0xED, 0x57, 0x18, 0xFC], [0xED, 0x5F, 0x18, 0xFC], [0x00], []))
    def im2_frag(force=False):
        # LD A,i ; LD I,A ; IM 2 ; EI ; then wait for the frame interrupt or go on (the machine has a vector and a handler for i)
        f = [0x3E, ivals[0] if force else rnd.choice(ivals), 0xED, 0x47, 0xED, 0x5E, 0xFB]
        if force:
            return f + rnd.choice(([0x76], [0x00], []))
        return f + rnd.choice(([0x76], [0x76], [0x18, 0xFE], [0xED, 0x57, 0x18, 0xFC], [0x00], [], []))

    def io_frag(force=False):
        # LD HL,buf ; LD A,a / LD BC,a:n ; a port access with an edge port number ; [BIT k,(HL) or BIT k,(IX+d)] ; [F stored]
        a = rnd.choice(IO_A + (rnd.randrange(256),))
        pn = rnd.choice(IO_EDGE + ((0xFF,) * 6 if force else (0xFF, 0xFF))) if force or rnd.random() < 0.85 else rnd.randrange(256)
        kind = 'ina' if force else rnd.choice(('ina', 'ina', 'ina', 'ina', 'outa', 'inr', 'inr', 'ini', 'outc'))
        f = [0x21] + w(buf)
        if kind == 'ina':
            f += [0x3E, a, 0xDB, pn]
        elif kind == 'outa':
            f += [0x3E, a, 0xD3, pn]
        elif kind == 'inr':
            f += [0x01, pn, a, 0xED, 0x40 + 8 * rnd.randrange(8)]
        elif kind == 'ini':
            f += [0x01, pn, a, 0xED, rnd.choice((0xA2, 0xAA))]
        else:
            f += [0x01, pn, a, 0xED, 0x41 + 8 * rnd.randrange(8)]
        x = rnd.random()
        if force or x < 0.65:
            f += [0xCB, 0x46 + 8 * rnd.randrange(8)]                                        # BIT k,(HL): F bits 3,5 from MEMPTR
        elif x < 0.8:
            f += [rnd.choice((0xDD, 0xFD)), 0xCB, rnd.randrange(256), 0x46 + 8 * rnd.randrange(8)]
        y = rnd.random()
        if force or y < 0.45:
            f += [0xF5, 0xC1, 0x79, 0x32] + w(buf + 32 + rnd.randrange(16))                 # PUSH AF ; POP BC ; LD A,C ; LD (nn),A
        elif y < 0.65:
            f += [0xF5, 0xD1]                                                               # PUSH AF ; POP DE
        elif y < 0.85:
            f += [0xF5, 0xC1, 0xCB, rnd.choice((0x59, 0x69)), rnd.choice((0x28, 0x20)), 0x01, 0x14]   # PUSH AF ; POP BC ; BIT 3/5,C ; JR Z/NZ,+1 ; INC D
        return f

    n = rnd.choice((24, 48, 90, 140))
    sub = org + n + 12
    code = []
    port_hi = rnd.choice((0xFE, 0xFD, 0xFB, 0xF7, 0xEF, 0xDF, 0xBF, 0x7F))
    frag_w = [
        (6, lambda: [0xDB, rnd.choice((0xFE, 0xFE, 0x1F, 0xFF))]),                        # IN A,(n)
        (5, lambda: [0x01, 0xFE, port_hi, 0xED, 0x40 + 8 * rnd.randrange(8)]),            # LD BC,nn ; IN r,(C) / IN F,(C)
        (3, lambda: [0x21] + w(buf) + [0x06, rnd.randrange(1, 5), 0x0E, 0xFE, 0xED, rnd.choice((0xB2, 0xBA, 0xA2, 0xAA))]),  # INIR INDR INI IND
        (4, lambda: [0xDB, 0xFE, 0xE6, 0x1F, rnd.choice((0x28, 0x20)), 0x01, rnd.choice((0x3C, 0x04, 0xFB, 0xF3, 0x76 if rnd.random() < 0.2 else 0x14))]),  # IN ; AND 1F ; JR Z/NZ over one instruction
        (4, lambda: [0xDB, 0xFE, 0x1F, rnd.choice((0x38, 0x30)), 0x02, 0xED, rnd.choice((0x57, 0x5F, 0x44))]),   # IN ; RRA ; JR C/NC over LD A,I/R
        (5, lambda: [0xFB, 0x76]),                                                          # EI ; HALT
        (4, lambda: [0xFB]),                                                                # EI
        (2, lambda: [0xF3]),                                                                # DI
        (2, lambda: [0xFB, 0xFB]),
        (2, lambda: [0xFB, 0x00, 0xFB, rnd.choice((0xDD, 0xFD)), 0x00]),
        (1, lambda: [0x76]),                                                                # HALT (for ever when IFF = 0)
        (2, lambda: [0xED, 0x56]), (3, lambda: [0xED, 0x5E]), (1, lambda: [0xED, 0x46]),    # IM 1 / IM 2 / IM 0
        (4, lambda: [0xED, 0x57]), (4, lambda: [0xED, 0x5F]), (1, lambda: [0xED, 0x4F]),    # LD A,I / LD A,R / LD R,A
        (3, lambda: [rnd.choice((0xDD, 0xFD)) for _ in range(rnd.randrange(1, 4))] + [rnd.choice((0x00, 0xFB, 0x76, 0x3C, 0xED, 0x44))][:1]),  # lone prefixes
        (3, lambda: [rnd.choice((0xDD, 0xFD)), 0x21] + w(buf + 8)),                         # LD IX,nn
        (3, lambda: [rnd.choice((0xDD, 0xFD)), rnd.choice((0x7E, 0x46, 0x86, 0xBE, 0x34, 0x35, 0x77)), rnd.randrange(256)]),
        (3, lambda: [rnd.choice((0xDD, 0xFD)), 0xCB, rnd.randrange(256), rnd.randrange(256)]),
        (2, lambda: [rnd.choice((0xDD, 0xFD)), rnd.choice((0x24, 0x2C, 0x65, 0x7C, 0x84, 0xE5, 0xE1, 0x23))]),
        (3, lambda: [0xCB, rnd.randrange(256)]),
        (2, lambda: [0x21] + w(buf) + [0xCB, 0x46 + 8 * rnd.randrange(8), 0xF5, 0xC1]),     # BIT n,(HL) ; PUSH AF ; POP BC (MEMPTR visible)
        (1, lambda: [rnd.choice((0x37, 0x3F)), 0xF5, 0xD1]),                                # SCF/CCF ; PUSH AF ; POP DE
        (3, lambda: [0x3E, rnd.randrange(256), 0xD3, 0xFE]),                                # OUT (254),A
        (2, lambda: [0x06, rnd.randrange(1, 6), 0x10, 0xFE]),                               # DJNZ $
        (2, lambda: [0x21] + w(buf) + [0x11] + w(buf + 16) + [0x01, rnd.randrange(1, 5), 0x00, 0xED, rnd.choice((0xB0, 0xB8))]),
        (2, lambda: [0xCD] + w(sub)),
        (3, lambda: [0xF5, 0xC5, 0xE1, 0xD1]),
        (3, lambda: [rnd.choice((0x3C, 0x04, 0x0C, 0x27, 0x2F, 0x87, 0x90, 0xA8, 0x1F, 0x07, 0xD9, 0x08, 0xEB, 0x23, 0x13, 0x34, 0x77, 0x7E))]),
        (2, lambda: [0x32] + w(buf + rnd.randrange(32))),
        (2, lambda: [rnd.randrange(256) for _ in range(rnd.randrange(1, 4))]),              # soup
        (5, io_frag),                                                                       # port access at an edge port number, MEMPTR made visible
        (4 if ivals else 0, im2_frag),                                                      # IM 2 with the vector at a page edge
        (4, sp_frag),                                                                       # interrupt accepted with SP at a ROM/RAM or 64K edge
    ]
    def pport(base, fixed):
        # the 128K decodes its ports partially: only the address lines in `fixed` matter (A15, A14?, A1); the others,
        # including A0 (which also selects the ULA when low), are free
        if rnd.random() < 0.5:
            return base
        return (base & fixed) | (rnd.randrange(65536) & ~fixed & 0xFFFF)

    frag_w += [
        (2, lambda: [0x3E, rnd.randrange(256), 0xD3, rnd.randrange(256) & 0xFE]),          # OUT (n),A to any even port (ULA; on a 128K maybe paging too)
        (1, lambda: [0x01] + w(rnd.randrange(65536) & 0xFFFE) + [0xED, 0x41 + 8 * rnd.randrange(8)]),   # OUT (C),r to any even port
    ]
    if m128:
        pv = lambda: rnd.choice((0, 1, 3, 4, 6, 7, 0x10, 0x11, 0x13, 0x14, 0x16, 0x17, 0x18, 0x0F, 0x15))
        frag_w += [
            (4, lambda: [0x01] + w(pport(0x7FFD, 0x8002)) + [0x3E, pv(), 0xED, 0x79]),      # paging through any port with A15 = A1 = 0
            (3, lambda: [0x3E, pv(), 0xD3, rnd.randrange(256) & 0xFD]),                     # OUT (n),A: port = A*256+n, A1 = 0 (A15 = 0 as the value is small)
            (2, lambda: [0x01] + w(pport(0xFFFD, 0xC002)) + [0x3E, rnd.choice((0, 7, 13, 14, 15, 15, 16, 17, 31, rnd.randrange(16))), 0xED, 0x79, 0x01] + w(pport(0xBFFD, 0xC002)) + [0xED, 0x59]),  # AY select / write through partially decoded ports

            (6, lambda: [0x01, 0xFD, 0x7F, 0x3E, rnd.choice((0, 1, 3, 4, 6, 7, 0x10, 0x11, 0x13, 0x14, 0x16, 0x17, 0x18, 0x0F, 0x30 if rnd.random() < 0.15 else 0x15)), 0xED, 0x79]),
            (2, lambda: [0x01, 0xFD, 0x7F, 0x3E, 0x20 | rnd.randrange(8) | rnd.choice((0, 0x10)), 0xED, 0x79, 0x3E, rnd.randrange(8) | rnd.choice((0, 0x10)), 0xED, 0x79]),  # lock, then try to page
            (4, lambda: [0x3A] + w(0xC000 + rnd.randrange(8)) + [0x3C, 0x32] + w(0xC000 + rnd.randrange(8))),   # touch the paged bank
            (2, lambda: [0x01, 0xFD, 0xFF, 0x3E, rnd.choice((0, 7, 13, 14, 15, 15, 16, 17, 31, rnd.randrange(16))), 0xED, 0x79, 0x06, 0xBF, 0xED, 0x59]),        # AY select ; AY write E
        ]
    total = sum(x for x, _ in frag_w)
    if edge:
        code += sp_frag(True)
    if io:
        code += io_frag(True)
    if im2:
        code += im2_frag(True)
    while len(code) < n:
        x = rnd.randrange(total)
        for wt, fn in frag_w:
            if x < wt:
                code += fn()
                break
            x -= wt
    code += [0xC3] + w(org)
    code += [0] * (sub - org - len(code)) if sub - org > len(code) else []
    code += [0x3C, 0xDB, 0xFE, 0xC9]                     # sub: INC A ; IN A,(254) ; RET
    return code


def gen_isr(rnd, org=0x8000):
    body = [0xF5]                                         # PUSH AF
    if rnd.random() < 0.7:
        body += [0xDB, 0xFE]                              # IN A,(254)
    if rnd.random() < 0.3:
        body += [0x3E, 0x7F, 0xDB, 0xFE, 0x1F, 0x30, 0x01, 0x04]   # LD A,7F ; IN A,(FE) ; RRA ; JR NC,+1 ; INC B
    if rnd.random() < 0.3:
        body += [0xED, 0x57]
    body += [0xF1]                                        # POP AF
    tail = rnd.choice(([0xFB, 0xC9], [0xFB, 0xED, 0x4D], [0xFB, 0xC9], [0xC9], [0xFB, 0x00, 0xC9], [0xFB, 0x76, 0xC9]))
    if rnd.random() < 0.35:
        # a handler that does not trust the stack it was entered on: LD SP,nn ; [EI] ; JP org (the program starts again)
        sp = rnd.choice(SANE_SP)
        tail = [0x31, sp & 255, sp >> 8] + rnd.choice(([0xFB], [0xFB], [])) + [0xC3, org & 255, org >> 8]
    return body + tail


def _vec_clear(i, org, buf):
    """The two vector bytes of I = i are not where the program or its buffer are."""
    for a in ((i << 8) | 0xFF, ((i << 8) + 0x100) & 0xFFFF):
        if org - 2 <= a < org + 0x200 or buf - 1 <= a < buf + 0x40:
            return False
    return True


def im2_setup(rnd, space, rom, i, org, body):
    """Make the mode 2 vector of I = i lead to a copy of the handler `body`: vector bytes that lie in RAM are chosen, those in
    ROM are what the ROM holds, and the handler is put at the address the two bytes give.  -> handler address (None: in ROM)."""
    lo_a = (i << 8) | 0xFF
    hi_a = (lo_a + 1) & 0xFFFF
    if lo_a >= 0x4000 and hi_a >= 0x4000:
        if i in EDGE_I:
            isr = rnd.choice((0x6880, 0x9880, 0xAC80, 0xE880)) + rnd.randrange(64)
        else:
            isr = (i << 8) + 0x180 + rnd.randrange(64)
    else:
        hi = rom[hi_a] if hi_a < 0x4000 else rnd.choice((0x68, 0x98, 0xAC, 0xE8, 0xF3))
        lo = rom[lo_a] if lo_a < 0x4000 else rnd.randrange(0x08, 0xC0)
        isr = lo | (hi << 8)
        if isr < 0x4000 or isr + len(body) > 0xFFF0 or org - 40 <= isr < org + 0x200:
            return None
    if lo_a >= 0x4000:
        space[lo_a] = isr & 255
    if hi_a >= 0x4000:
        space[hi_a] = isr >> 8
    for k, b in enumerate(body):
        space[isr + k] = b
    return isr


def gen_machine(rnd, idx, edge=False, io=False, im2=False):
    """-> abstract start machine (snapfile-style dict; banks as bytearrays).  edge: the program starts with LD SP,<edge
    value> ; IM 1/2 ; EI ; wait, so that it certainly takes a frame interrupt with SP there (both machine types alike).
    im2: it starts in IM 2 with interrupts enabled and I at a value whose vector straddles a 16K page edge (mostly FF)."""
    m128 = rnd.random() < (0.5 if edge or im2 else 0.4)
    machine = '+2' if m128 and rnd.random() < 0.15 else '128K' if m128 else '48K'
    o7 = rnd.choice((0x10, 0x10, 0x11, 0x13, 0x14, 0x16, 0x17, 0x00, 0x07)) if m128 else 0
    rom = _rom(machine, (o7 >> 4) & 1)
    org = rnd.choice((0x8000, 0x8000, 0x6000, 0xA000, 0x7FF0, 0xC000 if not m128 or rnd.random() < 0.3 else 0x9000))
    buf = rnd.choice((0x5B00, 0x7000, 0xB000, 0xC000 if m128 else 0xE000))
    # I at the start, and a second value the program may switch to: mostly values whose vector sits at a page edge
    ivals = []
    while len(ivals) < 2:
        if im2 and not ivals:
            i = rnd.choice(STRADDLE_I + (0xFF, 0xFF, 0xFF))
        else:
            i = rnd.choice(EDGE_I + (0xFF,)) if rnd.random() < 0.6 else rnd.choice((0xBE, 0x7D, 0x9A))
        if i not in ivals and _vec_clear(i, org, buf):
            ivals.append(i)
    i_reg = ivals[0]
    code = gen_code(rnd, org, m128, 0, buf, edge, io, ivals, im2)
    space = bytearray(65536)
    if rnd.random() < 0.25:
        for a in range(0x4000, 65536):
            space[a] = rnd.randrange(256) if rnd.random() < 0.02 else 0
    for k, b in enumerate(code):
        space[(org + k) & 0xFFFF] = b
    body = gen_isr(rnd, org)
    isrs = [im2_setup(rnd, space, rom, i, org, body) for i in ivals]
    isr = isrs[0] or 0
    m = {'machine': machine}
    for r8 in ('a', 'f', 'a2', 'f2', 'r'):
        m[r8] = rnd.randrange(256)
    for r16 in ('bc', 'de', 'hl', 'bc2', 'de2', 'hl2', 'ix'):
        m[r16] = rnd.randrange(65536)
    m['iy'] = 0x5C3A if rnd.random() < 0.7 else rnd.randrange(65536)
    m['i'] = i_reg
    m['sp'] = rnd.choice((0xFF40, 0x7F00, 0xBFF0, 0x5D00, 0x4002, 0x0000 if rnd.random() < 0.3 else 0xFFFE, rnd.randrange(0x5000, 0x10000),
                          rnd.choice(SPLIT_SP), rnd.choice(EDGE_SP)))
    m['pc'] = org
    m['iff1'] = m['iff2'] = 1 if im2 else rnd.choice((0, 1, 1))
    m['im'] = 2 if im2 else rnd.choice((1, 2, 2, 2, 0))
    m['border'] = rnd.randrange(8)
    m['issue2'] = 0
    m['tstates'] = rnd.randrange(69888)
    m['fe'] = m['border'] | (rnd.randrange(4) << 3)
    m['memptr'] = rnd.randrange(65536)
    m['offfd'] = rnd.randrange(16)
    m['ay'] = [rnd.randrange(256) for _ in range(16)]
    if m128:
        m['o7ffd'] = o7
        banks = {b: bytearray(16384) for b in range(8)}
        banks[5][:] = space[0x4000:0x8000]
        banks[2][:] = space[0x8000:0xC000]
        banks[o7 & 7][:] = space[0xC000:] if (o7 & 7) not in (2, 5) else banks[o7 & 7]
        for b in range(8):
            if b not in (5, 2, o7 & 7):
                # other banks hold a little code too, so that paging them in at 0xC000 matters
                filler = gen_code(rnd, 0xC000, True, isr, 0xC100)
                banks[b][:len(filler)] = bytes(filler)
                banks[b][0x200] = b
                if rnd.random() < 0.5:
                    # whatever of the vectors and handlers lies above C000 is there in this bank too
                    for i, h in zip(ivals, isrs):
                        for a in [(i << 8) | 0xFF, ((i << 8) + 0x100) & 0xFFFF] + ([] if h is None else list(range(h, h + len(body)))):
                            if a >= 0xC000:
                                banks[b][a - 0xC000] = space[a]
    else:
        m['o7ffd'] = 0
        banks = {5: bytearray(space[0x4000:0x8000]), 2: bytearray(space[0x8000:0xC000]), 0: bytearray(space[0xC000:])}
    m['banks'] = banks
    m['org'] = org
    m['idx'] = idx
    m['ivals'] = ivals
    return m


def snapshot_bytes(m, fmt):
    """fmt: ('z80', version, compress) | ('szx', None, compress) -> file bytes via the independent writers."""
    s = dict(m)
    s['banks'] = {b: bytes(v) for b, v in m['banks'].items()}
    if fmt[0] == 'szx':
        return snapfile.write_szx(s, compress=fmt[2])
    return snapfile.write_z80(s, version=fmt[1], compress=fmt[2])


# ------------------------------------------------------------------------------------------------
# the recorder
# ------------------------------------------------------------------------------------------------
class PortModel:
    """The recorder's I/O side: ULA port (border / last byte written), 128K paging latch, AY; IN values from a
    deterministic source so that the plain and the contended run of a program see the same inputs."""

    def __init__(self, m, memory, inmode, inseed):
        self.is128 = m['machine'] != '48K'
        self.machine = m['machine']
        self.memory = memory
        self.border = m['border']
        self.fe = m['fe']
        self.o7ffd = m['o7ffd']
        self.fffd = m['offfd']
        self.ay = list(m['ay'])
        self.inmode = inmode
        self.rnd = random.Random(inseed)
        self.const = self.rnd.choice((0xBF, 0xFF, 0x1F, 0xA5))
        self.nread = 0
        self.step_ins = []

    def read_port(self, registers, port):
        self.nread += 1
        if self.inmode == 'const':
            v = self.const
        elif self.inmode == 'port':
            v = (self.const ^ (port >> 8) ^ (port & 0xFF)) & 0xFF
        elif self.inmode == 'few':
            v = self.rnd.choice((0xBF, 0xBE, 0xFF, 0x00))
        else:
            v = self.rnd.randrange(256)
        self.step_ins.append(v)
        return v

    def write_port(self, registers, port, value, offset=0):
        if port & 1 == 0:
            self.border = value & 7
            self.fe = value
        if self.is128 and (port & 0x8002) == 0 and not (self.o7ffd & 0x20):
            self.o7ffd = value
            self.memory.out7ffd(value)
        if (port & 0xC002) == 0xC000:
            self.fffd = value
        elif (port & 0xC002) == 0x8000 and self.fffd < 16:
            self.ay[self.fffd] = value


def _md5(b):
    return hashlib.md5(bytes(b)).hexdigest()


def project_sim(sim, pm):
    r = sim.registers
    regs = [r[A], r[F], r[B] * 256 + r[C], r[D] * 256 + r[E], r[H] * 256 + r[L], r[IXh] * 256 + r[IXl], r[IYh] * 256 + r[IYl],
            r[SP], r[I], r[R], r[xA], r[xF], r[xB] * 256 + r[xC], r[xD] * 256 + r[xE], r[xH] * 256 + r[xL], r[PC]]
    if pm.is128:
        banks = [_md5(b) for b in sim.memory.banks]
    else:
        mem = sim.memory
        banks = [_md5(mem[0x4000:0x8000]), _md5(mem[0x8000:0xC000]), _md5(mem[0xC000:0x10000])]
    return {'machine': pm.machine, 'regs': [int(x) for x in regs], 'iff': int(r[IFF]), 'im': int(r[IM]), 'border': pm.border, 'fe': pm.fe,
            'o7ffd': pm.o7ffd if pm.is128 else 0, 'offfd': pm.fffd if pm.is128 else 0, 'ay': list(pm.ay) if pm.is128 else [0] * 16,
            'memptr': int(r[MEMPTR]), 'tpos': int(r[T]), 'banks': banks}


def project_snap(s):
    """Abstract state of a decoded snapshot (snapfile dict); fields a format cannot carry are -1."""
    regs = [s['a'], s['f'], s['bc'], s['de'], s['hl'], s['ix'], s['iy'], s['sp'], s['i'], s['r'], s['a2'], s['f2'],
            s['bc2'], s['de2'], s['hl2'], s['pc']]
    is128 = s['machine'] != '48K'
    order = list(range(8)) if is128 else [5, 2, 0]
    banks = [_md5(s['banks'][b]) if b in s['banks'] else 'missing' for b in order]
    if not is128 and len(s['banks']) != 3 or is128 and len(s['banks']) != 8:
        banks.append('extra-or-missing-banks:%s' % sorted(s['banks']))
    return {'regs': [int(x) for x in regs], 'iff': 1 if s['iff1_raw'] else 0, 'iffraw': [s['iff1_raw'], s['iff2_raw']], 'im': s['im'],
            'border': s['border'], 'fe': -1 if s.get('fe') is None else s['fe'], 'o7ffd': s['o7ffd'] if is128 else 0,
            'offfd': s['offfd'] if is128 else 0, 'ay': list(s['ay']) if is128 else [0] * 16,
            'memptr': -1 if s.get('memptr') is None else s['memptr'], 'tpos': -1 if s.get('tstates') is None else s['tstates'],
            'banks': banks, 'machine': s['machine']}


def machine_snapdict(sim, pm, m0):
    """The recorder's current machine as a snapfile-style dict (for embedding a snapshot in the middle of a run)."""
    r = sim.registers
    d = {'machine': m0['machine'], 'a': r[A], 'f': r[F], 'bc': r[B] * 256 + r[C], 'de': r[D] * 256 + r[E], 'hl': r[H] * 256 + r[L],
         'ix': r[IXh] * 256 + r[IXl], 'iy': r[IYh] * 256 + r[IYl], 'sp': r[SP], 'i': r[I], 'r': r[R], 'a2': r[xA], 'f2': r[xF],
         'bc2': r[xB] * 256 + r[xC], 'de2': r[xD] * 256 + r[xE], 'hl2': r[xH] * 256 + r[xL], 'pc': r[PC], 'iff1': r[IFF], 'iff2': r[IFF],
         'im': r[IM], 'border': pm.border, 'issue2': 0, 'tstates': r[T] % 69888, 'fe': pm.fe, 'memptr': r[MEMPTR],
         'o7ffd': pm.o7ffd, 'offfd': pm.fffd, 'ay': list(pm.ay)}
    d = {k: (int(v) if not isinstance(v, (list, str)) else v) for k, v in d.items()}
    if pm.is128:
        d['banks'] = {b: bytes(sim.memory.banks[b]) for b in range(8)}
    else:
        mem = sim.memory
        d['banks'] = {5: bytes(mem[0x4000:0x8000]), 2: bytes(mem[0x8000:0xC000]), 0: bytes(mem[0xC000:0x10000])}
    return d


def build_sim(m, cmio, python=False):
    import skoolkit
    from skoolkit import simutils
    from skoolkit.pagingtracer import Memory
    if python:
        from skoolkit.simulator import Simulator
        from skoolkit.cmiosimulator import CMIOSimulator
        klass = CMIOSimulator if cmio else Simulator
    else:
        klass = skoolkit.CCMIOSimulator if cmio else skoolkit.CSimulator
    if m['machine'] == '48K':
        memory = list(_rom48()) + list(m['banks'][5]) + list(m['banks'][2]) + list(m['banks'][0])
    else:
        memory = Memory([list(m['banks'][b]) for b in range(8)], m['o7ffd'], m['machine'])
    sim = simutils.from_memory(klass, memory, config={'int_active': 0})
    r = sim.registers
    for name, hi in (('bc', B), ('de', D), ('hl', H), ('ix', IXh), ('iy', IYh), ('bc2', xB), ('de2', xD), ('hl2', xH)):
        r[hi], r[hi + 1] = m[name] >> 8, m[name] & 255
    r[A], r[F], r[xA], r[xF], r[I], r[R], r[SP], r[PC] = m['a'], m['f'], m['a2'], m['f2'], m['i'], m['r'], m['sp'], m['pc']
    r[IFF], r[IM], r[HALT], r[T], r[MEMPTR] = m['iff1'], m['im'], 0, m['tstates'], m['memptr']
    return sim


def accept_interrupt(sim, is128):
    """Maskable interrupt acknowledge (Z80 manual): IFF reset, PC pushed, IM 0/1 -> 0x38 (the bus floats at FF = RST 38
    on a Spectrum), IM 2 -> vector at I*256+FF; one more refresh; MEMPTR = new PC."""
    r, mem = sim.registers, sim.memory
    pc = r[PC]
    hit = 0
    if r[IM] == 2:
        # VectorReadBeforePush (named deviation of SkoolKit's machine, C and Python alike): a Z80 pushes PC and then reads the
        # vector; SkoolKit reads the vector first, which differs only when the push lands on the vector itself.  The property
        # is about recordings of the simulator's own runs, so the recorder follows the simulator here (counted as `hit`).
        va = (r[I] << 8) | 0xFF
        newpc = mem[va] | (mem[(va + 1) & 0xFFFF] << 8)
    for k, v in ((1, pc >> 8), (2, pc & 255)):
        a = (r[SP] - k) & 0xFFFF
        if a >= 0x4000:
            mem[a] = v
            if r[IM] == 2 and a in (va, (va + 1) & 0xFFFF):
                hit = 1
    r[SP] = (r[SP] - 2) & 0xFFFF
    if r[IM] == 2:
        r[PC] = newpc
        r[T] += 19
    else:
        r[PC] = 0x38
        r[T] += 13
    r[R] = (r[R] & 0x80) | ((r[R] + 1) & 0x7F)
    r[IFF] = 0
    r[HALT] = 0
    r[MEMPTR] = r[PC]
    return hit


class Recording:
    pass


def perturb_sim(sim):
    """A discontinuity in the recorded run (the recorder rolled back / loaded something): from here on only the
    embedded snapshot tells the player where the machine is."""
    r = sim.registers
    r[A] ^= 0x55
    r[E] = (r[E] + 1) & 0xFF
    r[xH] ^= 0x80


def record(m, plan, conv, cmio, inmode, inseed, splits=(), empties=False, zero_memptr=False, max_steps=60000, snapmodes=()):
    """Run the program of machine `m` and cut it into len(plan) frames (plan[i] = fetches after which the frame may
    end).  splits: frame counts after which a new block (snapshot of the current state) starts."""
    sim = build_sim(m, cmio)
    pm = PortModel(m, sim.memory, inmode, inseed)
    sim.set_tracer(pm)
    r, mem = sim.registers, sim.memory
    rec = Recording()
    rec.frames, rec.ends, rec.bounds, rec.events, rec.snaps, rec.snapmode = [], [], [], [], {}, {}
    rec.rmismatch = 0
    rec.intsp = []                                        # (SP, IM, decision) of every accepted interrupt with SP at an edge
    rec.vechit = 0                                        # mode 2 interrupts whose push overwrote their own vector
    rec.intim2 = []                                       # I of every interrupt accepted in mode 2 with the vector at a page edge
    rec.io = {}                                           # port accesses at edge port numbers / BIT k,(HL) right after an IN
    prev_in = None
    short = False
    steps = 0
    pi = 0
    while pi < len(plan):
        target = 1 if short else plan[pi]
        fc, ins = 0, []
        seek = 0 if short else None
        while True:
            pc = r[PC]
            b0, b1 = mem[pc], mem[(pc + 1) & 0xFFFF]
            m1 = fetches(b0, b1)
            r0 = r[R]
            a0 = r[A]
            pm.step_ins = []
            sim.run()
            if b0 == 0xDB:
                tag = 'in-a:%02X' % b1 if b1 in IO_EDGE else 'in-a:other'
                rec.io[tag] = rec.io.get(tag, 0) + 1
            if prev_in is not None and b0 == 0xCB and (b1 & 0xC7) == 0x46:
                # BIT k,(HL) right after a port read: F bits 3 and 5 show the high byte of the MEMPTR that the IN left
                for tag in ('bit-after-in',) + prev_in:
                    rec.io[tag] = rec.io.get(tag, 0) + 1
            if b0 == 0xDB:
                prev_in = ('bit-after-in-a-%02X' % b1,) if b1 in IO_EDGE else ()
                if b1 == 0xFF and a0 & 7 == 7:
                    prev_in += ('bit-after-in-a-FF-carry-in-f',)
            elif b0 == 0xED and (b1 & 0xC7 == 0x40 or b1 in (0xA2, 0xAA, 0xB2, 0xBA)):
                prev_in = ('bit-after-in-c',)
            else:
                prev_in = None
            steps += 1
            if not (b0 == 0xED and b1 == 0x4F) and ((r[R] - r0) & 0x7F) != m1:
                rec.rmismatch += 1
            lone = b0 in (0xDD, 0xFD) and b1 not in INDEXABLE
            if lone and r[PC] != (pc + 1) & 0xFFFF:
                rec.rmismatch += 1
            if len(pm.step_ins) > 1:
                raise MachineryError('more than one port read in a step at %04X' % pc)
            rec.events.append([pc, m1, len(pm.step_ins)])
            ins += pm.step_ins
            fc += m1
            xc = cls(b0, b1)
            if steps > max_steps:
                raise MachineryError('recorder ran away')
            if fc < target or lone:
                continue
            if seek is None:
                # a recorder may end a frame anywhere: often look a few instructions ahead for an end that exercises a rule
                seek = pm.rnd.randrange(1, 16) if pm.rnd.random() < 0.5 else 0
            if seek > 0 and not (xc == 'ldair' and r[IFF]) and not (xc == 'ei' and conv & 2):
                seek -= 1
                continue
            if xc == 'ei' and r[IFF]:
                nb = mem[r[PC]]
                if not (conv & 2 and nb not in (0xDD, 0xFD)):
                    continue
            break
        iff = 1 if r[IFF] else 0
        mc = cls(mem[pc], mem[(pc + 1) & 0xFFFF])
        dec = recorder_decision(conv, xc, r[HALT]) if iff else 'none'
        r[T] = 0
        if dec == 'accept-halt':
            r[PC] = (r[PC] + 1) & 0xFFFF
        elif dec == 'accept-pv':
            r[F] &= 0xFB
        if dec.startswith('accept'):
            if r[IM] == 2 and r[I] in EDGE_I:
                rec.intim2.append(int(r[I]))
            if r[SP] in EDGE_SP:
                rec.intsp.append((int(r[SP]), int(r[IM]), dec))
            rec.vechit += accept_interrupt(sim, pm.is128)
        if zero_memptr:
            r[MEMPTR] = 0
        rec.frames.append([fc, ins])
        rec.ends.append({'iff': iff, 'mcls': mc, 'dec': dec, 'xcls': xc})
        rec.bounds.append(project_sim(sim, pm))
        if not short:
            pi += 1
        short = dec == 'block'
        if empties and not r[IFF] and pi < len(plan) and pm.rnd.random() < 0.3:
            for _ in range(pm.rnd.randrange(1, 3)):
                rec.frames.append([0, []])
                rec.ends.append({'iff': 0, 'mcls': 'other', 'dec': 'none', 'xcls': 'other'})
                rec.bounds.append(rec.bounds[-1])
        if len(rec.frames) in splits and pi < len(plan) and not short:
            mode = snapmodes[len(rec.snaps) % len(snapmodes)] if snapmodes else 'same'
            if mode == 'needed':
                perturb_sim(sim)
            snap = machine_snapdict(sim, pm, m)
            if mode == 'stale':
                # the snapshot in the file is not the state the run continues from (players must ignore it: flag 4)
                snap['a'] ^= 0xAA
                snap['hl'] = (snap['hl'] + 3) & 0xFFFF
                snap['pc'] = (snap['pc'] + 1) & 0xFFFF
            rec.snaps[len(rec.frames)] = snap
            rec.snapmode[len(rec.frames)] = mode
    rec.final = rec.bounds[-1]
    rec.nframes = len(rec.frames)
    return rec


def store_frames(frames, rnd, use_repeat=True):
    """Expanded frames [fc, ins] -> stored form [fc, ic, ins], using the repeated-frame marker where allowed."""
    out = []
    for i, (fc, ins) in enumerate(frames):
        if i > 0 and ins == frames[i - 1][1] and use_repeat and (ins or rnd.random() < 0.3) and rnd.random() < 0.9:
            out.append([fc, 65535, []])
        else:
            out.append([fc, len(ins), list(ins)])
    return out


# ------------------------------------------------------------------------------------------------
# driving the real tools
# ------------------------------------------------------------------------------------------------
TRACE_RE = re.compile(r'^F (\d+) (-?\d+) (\d+) (\d+)$')


def play(path, out, flags=0, cmio=False, python=False, stop=None, trace=None):
    from skoolkit import rzxplay
    args = ['--no-screen', '--quiet', '--flags', str(flags)]
    if cmio:
        args.append('--cmio')
    if python:
        args.append('--python')
    if stop is not None:
        args += ['--stop', str(stop)]
    if trace:
        args += ['--trace', trace, '-I', 'TraceLine=F {fr} {fc} {rr} {pc}']
    if os.path.exists(out):
        os.remove(out)
    o, e, rc = run_tool(rzxplay.main, args + [path, out])
    err = ''
    if rc or not os.path.isfile(out):
        err = 'rc=%s %s' % (rc, (e or o)[-300:].strip())
    return err


def read_final(path):
    try:
        return project_snap(snapfile.read_snapshot(path)), ''
    except Exception as ex:    # FormatError or worse: the output file is not a snapshot
        return None, 'unreadable output %s: %s' % (type(ex).__name__, ex)


def read_trace(path, limit):
    obs = []
    bad = ''
    with open(path) as f:
        for line in f:
            mt = TRACE_RE.match(line.strip())
            if not mt:
                bad = line.strip()[:80]
                break
            obs.append([int(x) for x in mt.groups()])
            if len(obs) >= limit:
                break
    return obs, bad


INFO_FRAME = re.compile(r'^  Frame (\d+):$')


def rzxinfo_frames(path):
    """Run the real rzxinfo --frames and parse its report: -> (list per input block of {nf, frames[{fc, ic, rep, shown, more}]}, err)."""
    from skoolkit import rzxinfo
    o, e, rc = run_tool(rzxinfo.main, ['--frames', path])
    if rc:
        return [], 'rc=%s %s' % (rc, (e or o)[-300:].strip())
    blocks = []
    cur = None
    fr = None
    for line in o.splitlines():
        if line == 'Input recording:':
            cur = {'nf': -1, 'frames': []}
            blocks.append(cur)
            fr = None
            continue
        if not line.startswith('  '):
            cur = None
            continue
        if cur is None:
            continue
        mt = re.match(r'^  Number of frames: (\d+) ', line)
        if mt:
            cur['nf'] = int(mt.group(1))
            continue
        mt = INFO_FRAME.match(line)
        if mt:
            fr = {'n': int(mt.group(1)), 'fc': -1, 'ic': -1, 'rep': -1, 'shown': [], 'more': 0}
            cur['frames'].append(fr)
            continue
        if fr is None:
            continue
        mt = re.match(r'^    Fetch counter: (\d+)$', line)
        if mt:
            fr['fc'] = int(mt.group(1))
            continue
        mt = re.match(r'^    IN counter: (\d+)(?: \((\d+)\))?$', line)
        if mt:
            fr['ic'] = int(mt.group(1))
            fr['rep'] = int(mt.group(2)) if mt.group(2) is not None else -1
            continue
        mt = re.match(r'^    Port readings: ([0-9, ]+)(\.\.\.)?$', line)
        if mt:
            fr['shown'] = [int(x) for x in mt.group(1).split(',')]
            fr['more'] = 1 if mt.group(2) else 0
            continue
        return blocks, 'unparsed line in rzxinfo output: %r' % line
    return blocks, ''


# ------------------------------------------------------------------------------------------------
# one campaign = n recordings, each played by the real tools in every way the property names
# ------------------------------------------------------------------------------------------------
STATE_KEYS = ('machine', 'regs', 'iff', 'im', 'border', 'fe', 'o7ffd', 'offfd', 'ay', 'memptr', 'banks')
CONFIGS = (('c', 0), ('py', 0), ('c', 1), ('py', 1))          # (implementation, cmio)


def _st(s):
    return {k: s[k] for k in STATE_KEYS}


def _same_modulo_memptr(a, b):
    return all(a[k] == b[k] for k in STATE_KEYS if k != 'memptr')


def _blocks_json(blocks):
    return [{'fs': [{'fc': fc, 'ic': ic, 'ins': list(ins)} for fc, ic, ins in b['fs']], 'snapmode': b['snapmode'],
             'ends': [{'iff': e['iff'], 'mcls': e['mcls'], 'dec': e['dec']} for e in b['ends']]} for b in blocks]


def gen_plan(rnd, maxf):
    nf = rnd.randrange(2, maxf + 1)
    plan = []
    for _ in range(nf):
        x = rnd.random()
        if x < 0.25:
            plan.append(rnd.randrange(1, 4))
        elif x < 0.65:
            plan.append(rnd.randrange(4, 41))
        elif x < 0.9:
            plan.append(rnd.randrange(41, 301))
        else:
            plan.append(rnd.randrange(301, 901))
    return plan


def gen_fmt(rnd, m):
    fmt = rnd.choice((('z80', 3, True), ('z80', 3, False), ('z80', 2, True), ('z80', 2, False), ('z80', 1, True), ('z80', 1, False),
                      ('szx', None, True), ('szx', None, False), ('szx', None, True), ('szx', None, False)))
    if fmt[1] == 1 and m['machine'] != '48K':
        fmt = ('z80', 3, fmt[2])
    return fmt


def start_machine(m, fmt):
    """The machine the recorder starts from = what the embedded snapshot can carry."""
    m0 = dict(m)
    if fmt[0] == 'z80':
        m0['memptr'] = 0
        m0['fe'] = 0
    return m0


def _snap_fmt(snap, fmt):
    # a version 1 .z80 file cannot say PC = 0 (that is its marker for "version 2 or later")
    if fmt[0] == 'z80' and fmt[1] == 1 and snap['pc'] == 0:
        return ('z80', 3, fmt[2])
    return fmt


def build_rzx(m0, rec, fmt, rnd):
    """-> (file bytes, blocks) ; blocks = [{'fs': stored frames, 'ends': [...], 'base': frames before}]."""
    cuts = sorted(rec.snaps) + [rec.nframes]
    out = bytearray(rzx_header(rnd.choice((12, 13))))
    if rnd.random() < 0.8:
        out += rzx_creator()
    blocks = []
    a = 0
    snap = m0
    for cut in cuts:
        out += rzx_snapshot(snapshot_bytes(snap, _snap_fmt(snap, fmt)), fmt[0], rnd.random() < 0.6)
        fs = store_frames(rec.frames[a:cut], rnd)
        out += rzx_input(fs, rnd.randrange(69888), rnd.random() < 0.6)
        blocks.append({'fs': fs, 'ends': rec.ends[a:cut], 'base': a, 'snapmode': rec.snapmode.get(a, 'first')})
        a = cut
        snap = rec.snaps.get(cut)
        if snap is not None and fmt[0] == 'z80':
            snap = dict(snap, memptr=0, fe=0)
    return bytes(out), blocks


def decode_written(path, ext):
    """Independent decode of an .rzx written by rzxplay: -> (wsnap, wblocks, wshape, err)."""
    try:
        with open(path, 'rb') as f:
            items = [it for it in read_rzx(f.read()) if it[0] != 'other']
        shape = 1 if items and len(items) % 2 == 0 else 0
        for n, it in enumerate(items):
            if it[0] != ('snap' if n % 2 == 0 else 'input'):
                shape = 0
            if it[0] == 'snap' and it[1] != ext:
                shape = 0
        if not items or items[0][0] != 'snap':
            return None, [], 0, ''
        s = snapfile.read_z80(items[0][2]) if items[0][1] == 'z80' else snapfile.read_szx(items[0][2])
        wblocks = [[{'fc': fc, 'ic': ic, 'ins': ins} for fc, ic, ins in it[2]] for it in items if it[0] == 'input']
        return project_snap(s), wblocks, shape, ''
    except Exception as ex:
        return None, [], 0, 'written file unreadable: %s: %s' % (type(ex).__name__, ex)


def probe_machine(rnd, idx):
    """Directed class: a version 1 .z80 recording whose PC is 0 at a frame boundary (such a header cannot say PC = 0)."""
    m = gen_machine(rnd, idx)
    while m['machine'] != '48K':
        m = gen_machine(rnd, idx)
    m['banks'][2][0:2] = bytes([0xF3, 0xC7])              # 0x8000: DI ; RST 0
    m.update(pc=0x8000, sp=0xFF00, iff1=0, iff2=0)
    return m, [2, 5, 5], ('z80', 1, True)


def one_recording(rseed, wd, idx, tier, cases, traces, stats):
    """Everything about recording `idx` derives from rseed, so that a replay can make it again."""
    rnd = random.Random(rseed)
    # one recording in eight is certain to take an interrupt with SP at an edge, another one starts with IN A,(n) at an edge
    # port number followed by BIT k,(HL) and a store of F
    # and a third one runs in IM 2 with I = FF (mostly) or another value whose vector straddles a 16K page edge
    m = gen_machine(rnd, idx, edge=idx % 8 == 1, io=idx % 8 == 2, im2=idx % 8 == 3)
    plan = gen_plan(rnd, 10 if tier == 'quick' else 14)
    conv = rnd.randrange(4)
    fmt = gen_fmt(rnd, m)
    if idx % 8000 == 0:
        # regression case (fixed finding stop:z80v1-pc0): two of the sixteen campaigns start with it
        m, plan, fmt = probe_machine(rnd, idx)
        stats['probe:z80v1-pc0'] += 1
    if idx % 8 == 2 and fmt[0] != 'szx' and rnd.random() < 0.75:
        fmt = ('szx', None, fmt[2])                       # mostly in the format that carries MEMPTR (compared at every stop and at the end)
    inmode = rnd.choice(('const', 'port', 'few', 'random'))
    nsplit = rnd.choice((0, 0, 0, 1, 1, 2))
    splits = tuple(sorted(set(rnd.randrange(1, len(plan) + 1) for _ in range(nsplit))))
    empties = rnd.random() < 0.3
    odd = rnd.choice(('needed', 'stale'))                 # never both in one file: no flags value could play it
    snapmodes = tuple(rnd.choice(('same', odd)) for _ in range(2))
    inseed = rnd.randrange(1 << 30)
    m0 = start_machine(m, fmt)
    recs = {0: record(m0, plan, conv, False, inmode, inseed, splits, empties, snapmodes=snapmodes),
            1: record(m0, plan, conv, True, inmode, inseed, splits, empties, snapmodes=snapmodes)}
    cmio_ok = True
    if fmt[0] == 'z80':
        # a .z80 snapshot cannot carry MEMPTR: contended playback is only claimed for runs that do not depend on it
        rz = record(m0, plan, conv, True, inmode, inseed, splits, empties, zero_memptr=True, snapmodes=snapmodes)
        cmio_ok = rz.frames == recs[1].frames and all(_same_modulo_memptr(x, y) for x, y in zip(rz.bounds, recs[1].bounds))
        stats['z80-memptr-sensitive'] += 0 if cmio_ok else 1
    files = {}
    for cm in (0, 1):
        if recs[cm].rmismatch:
            raise MachineryError('recorder: fetch count by opcode inspection disagrees with the R register in recording %d' % idx)
        data, blocks = build_rzx(m0, recs[cm], fmt, random.Random(inseed + cm))
        path = os.path.join(wd, 'r%d_%d.rzx' % (idx, cm))
        with open(path, 'wb') as f:
            f.write(data)
        files[cm] = (path, blocks, _blocks_json(blocks))
    rp = recs[0]
    key = '%s/%s%s%s/conv%d/%s' % (m['machine'], fmt[0], fmt[1] or '', 'c' if fmt[2] else 'u', conv, inmode)
    stats['recordings'] += 1
    stats['frames'] += rp.nframes
    stats['instructions'] += len(rp.events)
    stats['multi-block'] += 1 if len(files[0][1]) > 1 else 0
    stats['model-dependent'] += 0 if (rp.frames == recs[1].frames and _same_modulo_memptr(rp.final, recs[1].final)) else 1
    stats['paged'] += 1 if any(b['o7ffd'] != m0['o7ffd'] for b in rp.bounds) else 0
    for e, fr in zip(rp.ends, rp.frames):
        stats['end:' + e['dec']] += 1
        if e['mcls'] != e['xcls']:
            stats['end:self-modified'] += 1
        if fr[0] == 0:
            stats['empty-frames'] += 1
        if fr[1]:
            stats['frames-with-readings'] += 1
    for cm in (0, 1):
        for sp, im, dec in recs[cm].intsp:
            # vacuity: frame-boundary interrupts accepted while the pushed PC straddles the ROM/RAM border or the 64K wrap
            stats['int-sp-edge'] += 1
            stats['int-sp:%04X' % sp] += 1
            if sp in SPLIT_SP:
                stats['int-sp-split'] += 1
                stats['int-sp-split:im%d' % im] += 1
                stats['int-sp-split:%s' % ('48K' if m['machine'] == '48K' else '128K')] += 1
                stats['int-sp-split:%s' % dec] += 1
    stats['int-im2:push-overwrites-vector'] += recs[0].vechit + recs[1].vechit
    for cm in (0, 1):
        for i in recs[cm].intim2:
            # vacuity: mode 2 interrupts whose vector read wraps at 64K or crosses a 16K page edge
            stats['int-im2:I=%02X' % i] += 1
            stats['int-im2:I=%02X:%s' % (i, '48K' if m['machine'] == '48K' else '128K')] += 1
            if i in STRADDLE_I:
                stats['int-im2-straddle'] += 1
                if i in (0x7F, 0xBF):
                    stats['int-im2-straddle:two-ram-pages'] += 1
                if not cm:
                    stats['int-im2-straddle:plain'] += 1
    if cmio_ok:
        # vacuity: what the contended playbacks (C and --python, both played below) of this recording execute
        for tag, v in recs[1].io.items():
            stats['cmio:' + tag] += v
            if fmt[0] == 'szx':
                stats['cmio-szx:' + tag] += v
    stats['repeat-markers'] += sum(1 for b in files[0][1] for f in b['fs'] if f[1] == 65535)
    feclaim = 1 if fmt[0] == 'szx' else 0
    common = {'rec': idx, 'rseed': rseed, 'tier': tier, 'key': key, 'conv': conv, 'fmt': [fmt[0], fmt[1] or 0, 1 if fmt[2] else 0], 'feclaim': feclaim}

    modes = set(b['snapmode'] for b in files[0][1])
    for md in modes:
        stats['snap:' + md] += 1

    def bit2():
        # flag 4 (ignore later snapshots) must be set for stale snapshots and clear for needed ones
        if 'stale' in modes:
            return 4
        if 'needed' in modes:
            return 0
        return 4 if rnd.random() < 0.5 else 0

    def final_path(tag):
        return os.path.join(wd, 'f%d_%s.%s' % (idx, tag, 'szx' if rnd.random() < 0.7 else 'z80'))

    # (1)(2) uninterrupted playback: implementations x contention x flags
    for impl, cm in CONFIGS:
        if cm and not cmio_ok:
            stats['skipped:z80-cmio'] += 1
            continue
        path, blocks, bj = files[cm]
        want = _st(recs[cm].final)
        if impl == 'c' and not cm:
            flagset = list(range(8))
        else:
            flagset = sorted(set([conv | bit2(), rnd.randrange(8)]))
        traced = False
        tflag = conv | bit2()
        if tflag not in flagset:
            flagset = sorted(flagset + [tflag])
        for fl in flagset:
            out = final_path('%s%d_%d' % (impl, cm, fl))
            tr = None
            if not traced and fl == tflag and rnd.random() < 0.6:
                tr = os.path.join(wd, 't%d.txt' % idx)
                traced = True
            err = play(path, out, flags=fl, cmio=bool(cm), python=impl == 'py', trace=tr)
            got = None
            if not err:
                got, err = read_final(out)
            cases.append(dict(common, kind='play', flags=fl, impl=impl, cmio=cm, blocks=bj, want=want, got=_st(got) if got else want,
                              err=err, mpclaim=1 if cm and fmt[0] == 'szx' else 0))
            stats['plays'] += 1
            if tr and not err:
                limit = 300 if tier == 'quick' else 600
                obs, bad = read_trace(tr, limit)
                ev = recs[cm].events
                traces.append({'rec': idx, 'rseed': rseed, 'tier': tier, 'key': key, 'impl': impl, 'cmio': cm, 'flags': fl, 'blocks': bj,
                               'ev': ev[:len(obs) + 1], 'obs': obs, 'full': 1 if len(ev) <= limit and not bad else 0, 'bad': bad})
            if os.path.exists(out):
                os.remove(out)
    # (3) every stop point: --stop k writing the rest, then playing that file
    for k in range(1, rp.nframes):
        impl, cm = rnd.choice((('c', 0), ('c', 0), ('c', 1), ('py', 0), ('py', 1))) if tier == 'quick' else rnd.choice(CONFIGS)
        if cm and (not cmio_ok or k >= recs[1].nframes):
            cm = 0                                        # (the contended run may have been cut into fewer frames than the plain one)
        path, blocks, bj = files[cm]
        fl = conv | bit2()
        wpath = os.path.join(wd, 'w%d_%d.rzx' % (idx, k))
        werr = play(path, wpath, flags=fl, cmio=bool(cm), python=impl == 'py', stop=k)
        wsnap, wblocks, wshape, rerr, got = None, [], 0, '', None
        if not werr:
            wsnap, wblocks, wshape, werr = decode_written(wpath, fmt[0])
        if not werr and wsnap is not None:
            out = final_path('s%d' % k)
            impl2 = impl if rnd.random() < 0.7 else ('py' if impl == 'c' else 'c')
            rerr = play(wpath, out, flags=fl, cmio=bool(cm), python=impl2 == 'py')
            if not rerr:
                got, rerr = read_final(out)
            if os.path.exists(out):
                os.remove(out)
        want = _st(recs[cm].final)
        cases.append(dict(common, kind='stop', k=k, flags=fl, impl=impl, cmio=cm, blocks=bj, bounds=[_st(b) for b in recs[cm].bounds],
                          werr=werr, wsnap=_st(wsnap) if wsnap else want, wblocks=wblocks, wshape=wshape if wsnap else 0, rerr=rerr,
                          got=_st(got) if got else want, want=want, mpclaim=1 if cm and fmt[0] == 'szx' else 0))
        stats['stops'] += 1
        # (4) rzxinfo on a written file too, against the independent decode of that file
        if wblocks and rnd.random() < 0.25:
            info, ierr = rzxinfo_frames(wpath)
            cases.append(dict(common, kind='info', flags=0, blocks=[{'fs': fs, 'ends': [], 'snapmode': 'same'} for fs in wblocks], info=info, err=ierr, of='written:%d' % k))
            stats['infos'] += 1
        if os.path.exists(wpath):
            os.remove(wpath)
    # (4) rzxinfo on the recordings
    for cm in (0, 1):
        info, ierr = rzxinfo_frames(files[cm][0])
        cases.append(dict(common, kind='info', flags=0, blocks=files[cm][2], info=info, err=ierr, of='recording:%d' % cm))
        stats['infos'] += 1
        if not cm and recs[0].frames == recs[1].frames:
            break
    for cm in (0, 1):
        os.remove(files[cm][0])


def campaign(args):
    seed, n, wd, tier = args
    from collections import Counter
    from ..lib import cbuild
    cbuild.preload()
    sub = os.path.join(wd, 's%d' % seed)
    os.makedirs(sub, exist_ok=True)
    cases, traces, stats = [], [], Counter()
    for k in range(n):
        one_recording(seed * 100003 + k, sub, seed * 1000 + k, tier, cases, traces, stats)
    return cases, traces, dict(stats)
