"""Generator of memory images and well-formed control files (block / sub-block boundaries on
statement boundaries) for C01 / C03 / C14 / C18 drivers."""
import random

from . import z80len

BASES = ('', 'b', 'c', 'd', 'h', 'm', 'n')
UNSIGNED_OPS = frozenset([0xD3, 0xDB] + list(range(0xC7, 0x100, 8)))


def gen_image(rnd, n, kind):
    if kind == 'random':
        return [rnd.randrange(256) for _ in range(n)]
    if kind == 'prefix':
        return [rnd.choice((0xDD, 0xFD, 0xED, 0xCB, 0x18, 0x10, 0x20, 0x76, 0xC7, 0xFF, 0x36, 0x21)) if rnd.random() < 0.4
                else rnd.randrange(256) for _ in range(n)]
    if kind == 'text':
        return [rnd.choice((0x22, 0x5C, 0x5E, 0x60, 0x7F, 0x20, 0xA2, 0xDC, 0x80)) if rnd.random() < 0.2
                else (rnd.randrange(32, 127) + (128 if rnd.random() < 0.1 else 0)) for _ in range(n)]
    if kind == 'zeros':
        out = []
        while len(out) < n:
            out += [rnd.choice((0, 0, 0, 255, 0xED, rnd.randrange(256)))] * rnd.randrange(1, 12)
        return out[:n]
    # code-like
    frag = ([0x3E, 1], [0x21, 0, 0x80], [0xCD, 0, 0x90], [0xC9], [0x18, 0xFE], [0xDD, 0x7E, 5], [0xFD, 0x36, 0xFB, 7],
            [0xED, 0xB0], [0xCB, 0x46], [0xDD, 0xCB, 2, 0x86], [0xC3, 0x34, 0x12], [0x10, 0xF0], [0xE5], [0xD1], [0xAF],
            [0xED, 0x4B, 0, 0x5B], [0x32, 0x00, 0x40], [0xFE, 0x22], [0xD3, 0xFE], [0xC7], [0xEF], [0x76], [0xED, 0x70],
            [0xED, 0x4C], [0xDD, 0x00], [0xDD, 0xCB, 1, 0x40], [0xED, 0x63, 1, 2], [0x36, 0x5C], [0x06, 0xA2])
    out = []
    while len(out) < n:
        out += rnd.choice(frag)
    return out[:n]


def sublengths_b(rnd, total, kind):
    """A sublength list for B/T/W/S of `total` bytes: (text, covers) - text without the leading comma."""
    parts = []
    left = total
    unit = 2 if kind == 'W' else 1
    while left > 0 and len(parts) < 4:
        s = rnd.randrange(1, max(2, min(left, 6) + 1))
        if unit == 2:
            s = max(2, s - (s % 2))
        s = min(s, left)
        base = rnd.choice(BASES)
        if kind == 'B' and rnd.random() < 0.25 and s >= 2:
            a = rnd.randrange(1, s)
            item = '%s%d:%s%d' % (rnd.choice(('', 'b', 'd', 'h', 'm', 'n')), a, rnd.choice(('c', 'h', 'd', 'c')), s - a)
        elif kind == 'T' and rnd.random() < 0.35 and s >= 2:
            a = rnd.randrange(1, s)
            item = '%d:%s%d' % (a, rnd.choice(('n', 'n', 'h', 'b', 'd', 'm')), s - a)
        elif kind == 'S':
            item = '%s%d' % (rnd.choice(('', 'b', 'd', 'h')), s)
            if rnd.random() < 0.4:
                item += ':' + rnd.choice(('c', 'h', 'b', 'd', 'm', 'n'))
        else:
            item = '%s%d' % (base, s)
        mult = 1
        if rnd.random() < 0.3 and left >= 2 * s:
            mult = rnd.randrange(2, min(3, left // s) + 1)
            item += '*%d' % mult
        parts.append(item)
        left -= s * mult
    return ','.join(parts)


def gen_doc(rnd, mem, start, end, wrap_ok=False, annotate=False, allow_i=True, ignored=None, loops=False, rst=False):
    """-> list of ctl lines tiling [start, end) (+ the terminating i directive).
    ignored: a list that receives [from, to) of every mid-range i block; loops: L directives are generated;
    rst: boundaries respect the argument byte of RST 8 (for runs with sna2skool -r)."""
    lines = []
    a = start
    n_tok = [0]

    def tok():
        n_tok[0] += 1
        return 'w%dx' % n_tok[0]

    while a < end:
        btype = rnd.choice('bbccccgsttuw')
        maxlen = min(end - a, rnd.choice((1, 2, 3, 5, 8, 13, 24, 40)))
        if ignored is not None and a > start and rnd.random() < 0.07:
            # an ignored block in the middle of the range: no statements, its bytes are outside the claim
            lines.append('i %d' % a)
            ignored.append([a, a + maxlen])
            a += maxlen
            # the ignored bytes produce no statements, so the assembler has to be told where the next entry lives
            # (sna2skool adds @org itself only when it makes up the control file)
            if a < end:
                lines.append('@ %d org' % a)
            continue
        if btype == 'c':
            # walk instructions
            p = a
            bounds = [a]
            while p < a + maxlen or p == a:
                ln = z80len.length(mem, p)
                if rst and mem[p & 0xFFFF] == 0xCF:
                    ln = 2              # sna2skool -r (default RSTHandlerConfig 8:B): RST 8 owns the byte that follows it
                if p + ln > end:
                    if wrap_ok and end == 65536 and p < end:
                        # Wrap=1: the last instruction may start below 65536 and run on at address 0
                        p = end
                        bounds.append(p)
                    break
                p += ln
                bounds.append(p)
            if len(bounds) == 1:
                btype = 'b'
                blen = min(maxlen, end - a)
            else:
                blen = bounds[-1] - a
        else:
            blen = maxlen
            if btype == 'w':
                blen -= blen % 2
                if blen == 0:
                    btype, blen = 'b', min(maxlen, end - a)
        lines.append('%s %d%s' % (btype, a, ' ' + tok() if annotate and rnd.random() < 0.7 else ''))
        # sub-blocks
        if btype == 'c':
            i = 0
            while i < len(bounds) - 1:
                j = min(len(bounds) - 1, i + rnd.randrange(1, 5))
                sa, sl = bounds[i], bounds[j] - bounds[i]
                k = rnd.random()
                # a negative port number / restart address is not a meaningful signed operand: no 'm' there
                unsigned = any(mem[bounds[t] & 0xFFFF] in UNSIGNED_OPS for t in range(i, j))
                cb = [b for b in BASES if not (unsigned and b == 'm')]
                if k < 0.35:
                    b = rnd.choice(cb)
                    if b:
                        b += rnd.choice(('', '', '') + BASES[1:])
                    lines.append('C %d,%s%d' % (sa, b, sl))
                elif k < 0.5:
                    # per-instruction sublengths with their own bases
                    subs = ['%s%d' % (rnd.choice(cb[1:]) + rnd.choice(('', 'n', 'h', 'b')), bounds[t + 1] - bounds[t]) for t in range(i, j)]
                    lines.append('C %d,%d,%s' % (sa, sl, ','.join(subs)))
                elif k < 0.7 and sl >= 1:
                    sub = rnd.choice('BTW' if sl % 2 == 0 else 'BT')
                    lines.append('%s %d,%d,%s' % (sub, sa, sl, sublengths_b(rnd, sl, sub)))
                i = j
        else:
            p = a
            while p < a + blen:
                sl = rnd.randrange(1, a + blen - p + 1)
                k = rnd.random()
                sub = {'b': 'B', 'g': 'B', 'u': 'B', 's': 'S', 't': 'T', 'w': 'W'}[btype]
                if k < 0.3:
                    sub = rnd.choice('BTSW')
                if sub == 'W':
                    sl -= sl % 2
                    if sl == 0:
                        sub, sl = 'B', 1
                if k < 0.85 or btype == 'w':       # a default-typed chunk of a w block must have even length: always explicit
                    form = rnd.random()
                    if form < 0.25:
                        # (a negative DEFS size is not a meaningful signed operand)
                        lines.append('%s %d,%s%d' % (sub, p, rnd.choice(BASES if sub != 'S' else ('', 'b', 'd', 'h', 'n')), sl))
                    else:
                        lines.append('%s %d,%s%d,%s' % (sub, p, rnd.choice(('', '', 'h', 'b', 'd')), sl, sublengths_b(rnd, sl, sub)))
                p += sl
            if annotate and blen > 3 and rnd.random() < 0.3:
                lines.append('M %d,%d %s' % (a, blen, tok()))
            elif loops and rnd.random() < 0.3 and a + 2 * blen <= end:
                # L: the sub-block directives of [a, a+blen) (and with the flag the block directive too) repeat
                count = rnd.randrange(2, min(4, (end - a) // blen) + 1)
                lines.append('L %d,%d,%d%s' % (a, blen, count, rnd.choice(('', '', ',0', ',1'))))
                a += blen * (count - 1)
        a += blen
    lines.append('i %d' % end)
    return lines


# ---- character-operand code (base 'c' on instruction operands) ----------------------------------------------------------
# the characters that have a meaning of their own in an operation / a skool line / a string literal, then letters of both cases
AWKWARD = (92, 34, 32, 59, 58, 44, 40, 41, 43, 45)
CHAR_POOL = AWKWARD + (97, 122, 65, 90, 104, 120, 72, 88, 98, 66, 48, 57, 36, 37, 35, 39, 64, 91, 93, 123, 125, 126, 94, 96, 95, 33)
CHAR_BASES = ('c', 'c', 'cc', 'cn', 'nc', 'ch', 'hc', 'cd', 'dc', 'cb', 'bc')


def _char_templates():
    """Instruction templates: 'd' = index displacement, 'n' = 8-bit immediate / port, 'l' = low byte of a 16-bit operand
    (its high byte is 0, so the value is a character code)."""
    t = []
    for x in (0xDD, 0xFD):
        t += [[x, 0x36, 'd', 'n']] * 4
        t += [[x, 0x46 + 8 * r, 'd'] for r in (0, 1, 2, 3, 4, 5, 7)]
        t += [[x, 0x70 + r, 'd'] for r in (0, 1, 2, 3, 4, 5, 7)]
        t += [[x, 0x86 + 8 * k, 'd'] for k in range(8)]
        t += [[x, 0x34, 'd'], [x, 0x35, 'd']]
        t += [[x, 0xCB, 'd', op] for op in (0x06, 0x16, 0x2E, 0x3E, 0x46, 0x4E, 0x7E, 0x86, 0x8E, 0xC6, 0xCE, 0xFE,
                                           0x00, 0x11, 0x88, 0xC8, 0xC9, 0xFF, 0x40, 0x79, 0x37)]
        t += [[x, 0x26, 'n'], [x, 0x2E, 'n'], [x, 0x21, 'l', 0], [x, 0x22, 'l', 0], [x, 0x2A, 'l', 0]]
    t += [[0x06 + 8 * r, 'n'] for r in range(8)]
    t += [[0xC6 + 8 * k, 'n'] for k in range(8)]
    t += [[0xDB, 'n'], [0xD3, 'n']]
    t += [[op, 'l', 0] for op in (0x01, 0x11, 0x21, 0x31, 0x22, 0x2A, 0x32, 0x3A, 0xC3, 0xCD, 0xCA)]
    t += [[0xED, op, 'l', 0] for op in (0x43, 0x4B, 0x53, 0x5B, 0x73, 0x7B, 0x63, 0x6B)]
    t += [[0x00], [0xAF], [0x78]]
    return t


CHAR_TEMPLATES = _char_templates()


def gen_char_image(rnd, n, phase):
    """n bytes of code whose numeric operands are printable characters. The operand values walk CHAR_POOL (so every
    awkward character turns up in every kind of operand position within a few images, whatever the seed), with some
    random printable characters in between; `phase` shifts the walk from one image to the next."""
    out = []
    slot = {'d': phase, 'n': phase * 7 + 3, 'l': phase * 5 + 1}
    while len(out) < n:
        for b in rnd.choice(CHAR_TEMPLATES):
            if isinstance(b, str):
                if rnd.random() < 0.75:
                    v = CHAR_POOL[slot[b] % len(CHAR_POOL)]
                    slot[b] += 1
                elif rnd.random() < 0.5:
                    v = rnd.choice(AWKWARD)
                else:
                    v = rnd.randrange(32, 127)
                out.append(v)
            else:
                out.append(b)
    return out[:n]


def gen_char_doc(rnd, mem, start, end, rst=False, wrap_ok=False):
    """One c block over [start, end) (a b block for a tail that is no whole instruction) whose C sub-blocks carry a
    character base on one or both operands."""
    p = start
    bounds = [p]
    while p < end:
        ln = z80len.length(mem, p)
        if rst and mem[p & 0xFFFF] == 0xCF:
            ln = 2
        if p + ln > end:
            if wrap_ok and end == 65536:
                p = end
                bounds.append(p)
            break
        p += ln
        bounds.append(p)
    lines = []
    if len(bounds) > 1:
        lines.append('c %d' % start)
        i = 0
        while i < len(bounds) - 1:
            j = min(len(bounds) - 1, i + rnd.randrange(1, 5))
            sa, sl = bounds[i], bounds[j] - bounds[i]
            if rnd.random() < 0.7:
                lines.append('C %d,%s%d' % (sa, rnd.choice(CHAR_BASES), sl))
            else:
                subs = ['%s%d' % (rnd.choice(CHAR_BASES), bounds[t + 1] - bounds[t]) for t in range(i, j)]
                lines.append('C %d,%d,%s' % (sa, sl, ','.join(subs)))
            i = j
    if bounds[-1] < end:
        lines.append('b %d' % bounds[-1])
        lines.append('B %d,%s%d' % (bounds[-1], rnd.choice(('', 'c', 'h')), end - bounds[-1]))
    lines.append('i %d' % end)
    return lines
