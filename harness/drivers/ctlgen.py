"""Generator of memory images and well-formed control files (block / sub-block boundaries on
statement boundaries) for C01 / C03 / C14 / C18 drivers."""
import random

from . import z80len

BASES = ('', 'b', 'c', 'd', 'h', 'm', 'n')
UNSIGNED_OPS = frozenset([0xD3, 0xDB] + list(range(0xC7, 0x100, 8)))


def gen_image(rnd, n, kind):
    if kind == 'random':
        return [rnd.randrange(256) for _ in range(n)]
    if kind == 'prefix':
        return [rnd.choice((0xDD, 0xFD, 0xED, 0xCB, 0x18, 0x10, 0x20, 0x76, 0xC7, 0xFF, 0x36, 0x21)) if rnd.random() < 0.4
                else rnd.randrange(256) for _ in range(n)]
    if kind == 'text':
        return [rnd.choice((0x22, 0x5C, 0x5E, 0x60, 0x7F, 0x20, 0xA2, 0xDC, 0x80)) if rnd.random() < 0.2
                else (rnd.randrange(32, 127) + (128 if rnd.random() < 0.1 else 0)) for _ in range(n)]
    if kind == 'zeros':
        out = []
        while len(out) < n:
            out += [rnd.choice((0, 0, 0, 255, 0xED, rnd.randrange(256)))] * rnd.randrange(1, 12)
        return out[:n]
    # code-like
    frag = ([0x3E, 1], [0x21, 0, 0x80], [0xCD, 0, 0x90], [0xC9], [0x18, 0xFE], [0xDD, 0x7E, 5], [0xFD, 0x36, 0xFB, 7],
            [0xED, 0xB0], [0xCB, 0x46], [0xDD, 0xCB, 2, 0x86], [0xC3, 0x34, 0x12], [0x10, 0xF0], [0xE5], [0xD1], [0xAF],
            [0xED, 0x4B, 0, 0x5B], [0x32, 0x00, 0x40], [0xFE, 0x22], [0xD3, 0xFE], [0xC7], [0xEF], [0x76], [0xED, 0x70],
            [0xED, 0x4C], [0xDD, 0x00], [0xDD, 0xCB, 1, 0x40], [0xED, 0x63, 1, 2], [0x36, 0x5C], [0x06, 0xA2])
    out = []
    while len(out) < n:
        out += rnd.choice(frag)
    return out[:n]


def sublengths_b(rnd, total, kind):
    """A sublength list for B/T/W/S of `total` bytes: (text, covers) - text without the leading comma."""
    parts = []
    left = total
    unit = 2 if kind == 'W' else 1
    while left > 0 and len(parts) < 4:
        s = rnd.randrange(1, max(2, min(left, 6) + 1))
        if unit == 2:
            s = max(2, s - (s % 2))
        s = min(s, left)
        base = rnd.choice(BASES)
        if kind == 'B' and rnd.random() < 0.25 and s >= 2:
            a = rnd.randrange(1, s)
            item = '%s%d:%s%d' % (rnd.choice(('', 'b', 'd', 'h', 'm', 'n')), a, rnd.choice(('c', 'h', 'd', 'c')), s - a)
        elif kind == 'T' and rnd.random() < 0.35 and s >= 2:
            a = rnd.randrange(1, s)
            item = '%d:%s%d' % (a, rnd.choice(('n', 'n', 'h', 'b', 'd', 'm')), s - a)
        elif kind == 'S':
            item = '%s%d' % (rnd.choice(('', 'b', 'd', 'h')), s)
            if rnd.random() < 0.4:
                item += ':' + rnd.choice(('c', 'h', 'b', 'd', 'm', 'n'))
        else:
            item = '%s%d' % (base, s)
        mult = 1
        if rnd.random() < 0.3 and left >= 2 * s:
            mult = rnd.randrange(2, min(3, left // s) + 1)
            item += '*%d' % mult
        parts.append(item)
        left -= s * mult
    return ','.join(parts)


def gen_doc(rnd, mem, start, end, wrap_ok=False, annotate=False, allow_i=True, ignored=None, loops=False, rst=False):
    """-> list of ctl lines tiling [start, end) (+ the terminating i directive).
    ignored: a list that receives [from, to) of every mid-range i block; loops: L directives are generated;
    rst: boundaries respect the argument byte of RST 8 (for runs with sna2skool -r)."""
    lines = []
    a = start
    n_tok = [0]

    def tok():
        n_tok[0] += 1
        return 'w%dx' % n_tok[0]

    while a < end:
        btype = rnd.choice('bbccccgsttuw')
        maxlen = min(end - a, rnd.choice((1, 2, 3, 5, 8, 13, 24, 40)))
        if ignored is not None and a > start and rnd.random() < 0.07:
            # an ignored block in the middle of the range: no statements, its bytes are outside the claim
            lines.append('i %d' % a)
            ignored.append([a, a + maxlen])
            a += maxlen
            # the ignored bytes produce no statements, so the assembler has to be told where the next entry lives
            # (sna2skool adds @org itself only when it makes up the control file)
            if a < end:
                lines.append('@ %d org' % a)
            continue
        if btype == 'c':
            # walk instructions
            p = a
            bounds = [a]
            while p < a + maxlen or p == a:
                ln = z80len.length(mem, p)
                if rst and mem[p & 0xFFFF] == 0xCF:
                    ln = 2              # sna2skool -r (default RSTHandlerConfig 8:B): RST 8 owns the byte that follows it
                if p + ln > end:
                    if wrap_ok and end == 65536 and p < end:
                        # Wrap=1: the last instruction may start below 65536 and run on at address 0
                        p = end
                        bounds.append(p)
                    break
                p += ln
                bounds.append(p)
            if len(bounds) == 1:
                btype = 'b'
                blen = min(maxlen, end - a)
            else:
                blen = bounds[-1] - a
        else:
            blen = maxlen
            if btype == 'w':
                blen -= blen % 2
                if blen == 0:
                    btype, blen = 'b', min(maxlen, end - a)
        lines.append('%s %d%s' % (btype, a, ' ' + tok() if annotate and rnd.random() < 0.7 else ''))
        # sub-blocks
        if btype == 'c':
            i = 0
            while i < len(bounds) - 1:
                j = min(len(bounds) - 1, i + rnd.randrange(1, 5))
                sa, sl = bounds[i], bounds[j] - bounds[i]
                k = rnd.random()
                # a negative port number / restart address is not a meaningful signed operand: no 'm' there
                unsigned = any(mem[bounds[t] & 0xFFFF] in UNSIGNED_OPS for t in range(i, j))
                cb = [b for b in BASES if not (unsigned and b == 'm')]
                if k < 0.35:
                    b = rnd.choice(cb)
                    if b:
                        b += rnd.choice(('', '', '') + BASES[1:])
                    lines.append('C %d,%s%d' % (sa, b, sl))
                elif k < 0.5:
                    # per-instruction sublengths with their own bases
                    subs = ['%s%d' % (rnd.choice(cb[1:]) + rnd.choice(('', 'n', 'h', 'b')), bounds[t + 1] - bounds[t]) for t in range(i, j)]
                    lines.append('C %d,%d,%s' % (sa, sl, ','.join(subs)))
                elif k < 0.7 and sl >= 1:
                    sub = rnd.choice('BTW' if sl % 2 == 0 else 'BT')
                    lines.append('%s %d,%d,%s' % (sub, sa, sl, sublengths_b(rnd, sl, sub)))
                i = j
        else:
            p = a
            while p < a + blen:
                sl = rnd.randrange(1, a + blen - p + 1)
                k = rnd.random()
                sub = {'b': 'B', 'g': 'B', 'u': 'B', 's': 'S', 't': 'T', 'w': 'W'}[btype]
                if k < 0.3:
                    sub = rnd.choice('BTSW')
                if sub == 'W':
                    sl -= sl % 2
                    if sl == 0:
                        sub, sl = 'B', 1
                if k < 0.85 or btype == 'w':       # a default-typed chunk of a w block must have even length: always explicit
                    form = rnd.random()
                    if form < 0.25:
                        # (a negative DEFS size is not a meaningful signed operand)
                        lines.append('%s %d,%s%d' % (sub, p, rnd.choice(BASES if sub != 'S' else ('', 'b', 'd', 'h', 'n')), sl))
                    else:
                        lines.append('%s %d,%s%d,%s' % (sub, p, rnd.choice(('', '', 'h', 'b', 'd')), sl, sublengths_b(rnd, sl, sub)))
                p += sl
            if annotate and blen > 3 and rnd.random() < 0.3:
                lines.append('M %d,%d %s' % (a, blen, tok()))
            elif loops and rnd.random() < 0.3 and a + 2 * blen <= end:
                # L: the sub-block directives of [a, a+blen) (and with the flag the block directive too) repeat
                count = rnd.randrange(2, min(4, (end - a) // blen) + 1)
                lines.append('L %d,%d,%d%s' % (a, blen, count, rnd.choice(('', '', ',0', ',1'))))
                a += blen * (count - 1)
        a += blen
    lines.append('i %d' % end)
    return lines
