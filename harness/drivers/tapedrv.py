"""C11 driver: tape blocks, tape files and the signal edges SkoolKit derives from them (DESIGN §4 C11).

* abstract blocks (dicts, same fields as spec/tape/TapeSignal.tla) -> real TapeBlock/TapeBlockTimings objects
  -> real get_edges -> projection (first edge, run-length encoded deltas, DataBlock ranges)
* byte writers for TAP / TZX 1.20 / PZX 1.0 written from the format documents (not from skoolkit)
* real parse_tap / parse_tzx / parse_pzx / write_tap / write_pzx / tapinfo.main driven on files
"""
import contextlib
import io
import os
import re

from ..lib import cbuild
from ..lib.common import MachineryError

MS = 3500
NOPOL = -1


def sk():
    cbuild.repo_only()
    import skoolkit.tape as tape
    return tape


# ------------------------------------------------------------------ abstract blocks
def blk(pulses=(), data=(), zero=(), one=(), used=8, tail=0, pause=0, pol=NOPOL, dr=0):
    return dict(pulses=[list(p) for p in pulses], data=list(data), zero=list(zero), one=list(one), used=used,
                tail=tail, pause=pause, pol=pol, dr=dr)


def sample_mode(b):
    return bool(b['data']) and (0 in b['zero'] or 0 in b['one'])


def nbits(b):
    return 8 * (len(b['data']) - 1) + b['used'] if b['data'] else 0


def block_durs(b):
    """all pulse durations of a block in order (python mirror used only for sizing / time budgets)"""
    out = []
    for c, d in b['pulses']:
        out.extend([d] * c)
    if b['data']:
        n = nbits(b)
        for i in range(n):
            bit = (b['data'][i // 8] >> (7 - i % 8)) & 1
            out.extend(b['one'] if bit else b['zero'])
        if b['tail']:
            out.append(b['tail'])
    return out


def tape_size(blocks):
    """(upper bound of edges, total time)"""
    n = 2
    t = 0
    for b in blocks:
        d = block_durs(b)
        n += len(d) + 3
        t += sum(d) + b['pause']
    return n, t


HAZARDS = ('zp-tail', 'zp-lead', 'zp-silent', 'zp', 'uneven-used', 'uneven')      # most specific first


def hazards(blocks):
    """input class of a tape (the most specific special class any of its blocks falls in); used in violation keys"""
    hz = set()
    played = False          # some pulse has been played before this block
    gap = False             # silence directly before this block
    for b in blocks:
        durs = block_durs(b)
        if b['data']:
            if sample_mode(b):
                dd = durs[sum(c for c, d in b['pulses']):len(durs) - (1 if b['tail'] else 0)]
                lead = 0
                while lead < len(dd) and dd[lead] == 0:
                    lead += 1
                trail = 0
                while trail < len(dd) and dd[-1 - trail] == 0:
                    trail += 1
                if b['tail'] and trail % 2:
                    hz.add('zp-tail')            # a tail pulse after an odd number of zero-length pulses
                elif lead % 2 and lead < len(dd) and (gap or not played) and not b['pulses']:
                    hz.add('zp-lead')            # zero-length pulse first, nothing to merge it with
                elif lead == len(dd) and not b['tail']:
                    hz.add('zp-silent')          # sample data without any pulse of positive length
                else:
                    hz.add('zp')
            elif len(b['zero']) != len(b['one']):
                hz.add('uneven-used' if b['used'] < 8 else 'uneven')
        if durs:
            played = True
            gap = False
        if b['pause']:
            gap = True
    for h in HAZARDS:
        if h in hz:
            return h
    return 'plain'


def expressible(blocks):
    """False for tapes no file format can express and whose meaning the documents do not fix: sample data (zero-length
    pulses, a stated level: PZX only) followed by a block that does not state its level (TZX only)"""
    samples = False
    for b in blocks:
        if samples and b['pol'] == NOPOL:
            return False
        if sample_mode(b) and b['pol'] != NOPOL:
            samples = True
    return True


def real_blocks(blocks):
    """abstract blocks -> real skoolkit objects, shaped as the parsers shape them"""
    t = sk()
    out = []
    for n, b in enumerate(blocks, 1):
        tm = t.TapeBlockTimings(
            pulses=[tuple(p) for p in b['pulses']],
            zero=tuple(b['zero']) if (b['zero'] or b['data']) else None,
            one=tuple(b['one']) if (b['one'] or b['data']) else None,
            pause=b['pause'], used_bits=b['used'], data=bool(b['dr']), tail=b['tail'],
            polarity=None if b['pol'] == NOPOL else b['pol'])
        data = list(b['data']) if b['data'] else ([] if b['dr'] else None)
        rb = t.TapeBlock(n, data, tm)
        rb.keys = None
        out.append(rb)
    return out


def rle(edges):
    runs = []
    for a, b in zip(edges, edges[1:]):
        d = b - a
        if runs and runs[-1][0] == d:
            runs[-1][1] += 1
        else:
            runs.append([d, 1])
    return runs


def project_edges(res):
    """(edges, data_blocks) of get_edges -> JSON-able observation"""
    edges, dbs = res
    edges = list(edges)
    if not edges:
        return dict(exc=0, first=0, runs=[], ranges=[], n=0, noedges=1)
    if any((not isinstance(e, int)) or e < 0 or e >= 2 ** 31 for e in edges):
        return None                      # beyond what TLC integers hold: the caller skips the edge clauses
    ranges = [[d.start, d.end, int(bool(d.fast_load)), len(d.data or ())] for d in dbs]
    return dict(exc=0, first=edges[0], runs=rle(edges), ranges=ranges, n=len(edges))


def run_get_edges(blocks, fe=0, gpol=0):
    """drive the real get_edges on abstract blocks"""
    t = sk()
    try:
        res = t.get_edges(real_blocks(blocks), fe, gpol)
    except Exception as e:  # noqa: BLE001 - any exception is an observation
        return dict(exc=1, first=0, runs=[], ranges=[], n=0, err='%s: %s' % (type(e).__name__, e))
    obs = project_edges(res)
    if obs is None:
        raise MachineryError('edge times beyond 2^31: generator must bound the tape length')
    return obs


def edge_case(blocks, fe, gpol, key, expect=()):
    obs = run_get_edges(blocks, fe, gpol)
    c = dict(kind='edges', key=key, blocks=blocks, fe=fe, gpol=gpol, expect=list(expect))
    c.update(obs)
    return c


# one fixed tape per input class with an open finding (known_findings.json edges:zp-*): whatever the seed, each finding is
# reproduced (KNOWN-FINDING line) - and a repair shows as the line disappearing
KNOWN_PROBES = (
    # zp-lead: PULS 100 / PAUS 1000 / DATA 1 bit whose first pulse has length 0
    [blk(pulses=[(1, 100)]), blk(pause=1000), blk(data=[0x80], zero=(3, 0), one=(0, 3), used=1)],
    # zp-tail: a tail pulse after an odd number of zero-length pulses, then another pulse
    [blk(data=[0x00], zero=(2, 0), one=(0, 2), used=1, tail=5), blk(pulses=[(1, 9)])],
    # zp-silent: the last block is sample data without any pulse of positive length; the earlier block's end index
    [blk(data=[1], zero=(1, 1), one=(5, 1), used=7, tail=5, pol=1), blk(data=[1], zero=(0,), one=(5,), used=1, pol=0)],
)


def probe_cases():
    out = []
    for blocks in KNOWN_PROBES:
        c = edge_case([dict(b) for b in blocks], 0, 0, hazards(blocks))
        c['family'] = 'probe'
        out.append(c)
    return out


# ------------------------------------------------------------------ generators of file-expressible tapes
SMALL = (0, 1, 2, 3, 5)
WIDTHS = (0, 1, 2, 3, 5, 100, 667, 735, 855, 1710, 2168, 32767, 32768, 65535)


def _dur(r, small):
    return r.choice(SMALL) if small or r.random() < 0.5 else r.choice(WIDTHS)


def _data(r, maxlen=3):
    n = r.choice((1, 1, 2, maxlen))
    return [r.choice((0, 255, 0xA5, 0x80, 1, r.randrange(256))) for _ in range(n)]


def gen_tzx_block(r, small=True, unit=None):
    """a block some TZX block can express (no stated level); pauses are multiples of unit T-states"""
    k = r.randrange(8)
    unit = unit or (1 if small else MS)
    pause = r.choice((0, 0, 1, 7)) * unit
    if k == 0:      # pure tone 0x12
        return blk(pulses=[(r.choice((0, 1, 2, 3, 8)), _dur(r, small))])
    if k == 1:      # pulse sequence 0x13
        return blk(pulses=[(1, _dur(r, small)) for _ in range(r.randrange(0, 5))])
    if k in (2, 3):  # turbo 0x11 / standard 0x10 shape
        z, o = _dur(r, small), _dur(r, small)
        return blk(pulses=[(r.choice((0, 1, 2, 5)), _dur(r, small)), (1, _dur(r, small)), (1, _dur(r, small))],
                   data=_data(r), zero=(z, z), one=(o, o), used=r.randrange(1, 9), pause=pause)
    if k == 4:      # pure data 0x14
        z, o = _dur(r, small), _dur(r, small)
        return blk(data=_data(r), zero=(z, z), one=(o, o), used=r.randrange(1, 9), pause=pause)
    if k == 5:      # direct recording 0x15
        return blk(pulses=[(1, _dur(r, small)) for _ in range(r.randrange(1, 5))], dr=1, pause=pause)
    if k == 6:      # pause 0x20
        return blk(pause=r.choice((0, 1, 7)) * unit)
    z, o = r.choice((1, 2, 3)), r.choice((4, 5, 7))   # decodable pure data
    return blk(data=_data(r), zero=(z, z), one=(o, o), used=r.randrange(1, 9), pause=pause)


def _pzx_seq(r, small, allow_zero):
    n = r.choice((1, 2, 2, 2, 3, 4))
    s = [_dur(r, small) for _ in range(n)]
    if not allow_zero:
        s = [d or 1 for d in s]
    return s


def gen_pzx_block(r, small=True, zero_pulses=True):
    """a block some PZX block can express (stated level)"""
    k = r.randrange(6)
    pol = r.randrange(2)
    if k == 0:      # PULS
        return blk(pulses=[(r.choice((1, 1, 2, 3, 4)), _dur(r, small)) for _ in range(r.randrange(0, 4))], pol=pol)
    if k == 1:      # PAUS
        if not small and r.random() < 0.35:
            # the 31-bit duration field at its byte boundaries (2^16, 2^24)
            return blk(pause=r.choice((0xFFFF, 0x10000, 0xFFFFFF, 0x1000000, 0x1000001, 0x2345678)), pol=pol)
        return blk(pause=r.choice((1, 7, 100)) * (1 if small else MS), pol=pol)
    if k == 2:      # DATA, sample style (zero-length pulses)
        if zero_pulses:
            z, o = r.choice((((3, 0), (0, 3)), ((2, 0), (0, 2)), ((0, 0), (3, 3)), ((3, 0), (3,)), ((1,), (0, 3)),
                             ((0,), (5,)), ((4, 0, 1), (2, 2))))
            return blk(data=_data(r), zero=z, one=o, used=r.randrange(1, 9), tail=r.choice((0, 0, 5)), pol=pol)
        k = 3
    if k == 3:      # DATA, two pulses per bit (the usual case)
        z, o = _dur(r, small) or 1, _dur(r, small) or 2
        return blk(data=_data(r), zero=(z, z), one=(o, o), used=r.randrange(1, 9), tail=r.choice((0, 5, 945)), pol=pol)
    if k == 4:      # DATA, any pulse sequences without zero-length pulses
        z = _pzx_seq(r, small, False)
        o = _pzx_seq(r, small, False)
        if r.random() < 0.7:
            o = (o + z)[:len(z)]                          # same number of pulses per bit
        return blk(data=_data(r), zero=z, one=o, used=r.randrange(1, 9), tail=r.choice((0, 5)), pol=pol)
    z, o = r.choice((((1,), (3,)), ((1, 1), (3, 3)), ((2, 1), (1, 2)), ((1, 2, 3), (3, 2, 1))))   # decodable
    return blk(data=_data(r), zero=z, one=o, used=r.randrange(1, 9), tail=r.choice((0, 5)), pol=pol)


def gen_tape(r, family, small=True, maxblocks=4, zero_pulses=True, unit=None):
    n = r.choice((1, 1, 2, 2, 3, maxblocks))
    if family == 'tzx':
        return [gen_tzx_block(r, small, unit) for _ in range(n)]
    return [gen_pzx_block(r, small, zero_pulses) for _ in range(n)]


# ------------------------------------------------------------------ byte writers (from the format documents)
def w16(v):
    return bytes((v & 255, (v >> 8) & 255))


def w24(v):
    return bytes((v & 255, (v >> 8) & 255, (v >> 16) & 255))


def w32(v):
    return bytes((v & 255, (v >> 8) & 255, (v >> 16) & 255, (v >> 24) & 255))


def tap_block(data):
    return w16(len(data)) + bytes(data)


def tzx_header(major=1, minor=20):
    return b'ZXTape!\x1a' + bytes((major, minor))


def tzx10(data, pause_ms=1000):
    return b'\x10' + w16(pause_ms) + w16(len(data)) + bytes(data)


def tzx11(data, pilot=2168, sync1=667, sync2=735, zero=855, one=1710, pilot_len=3223, used=8, pause_ms=1000):
    return (b'\x11' + w16(pilot) + w16(sync1) + w16(sync2) + w16(zero) + w16(one) + w16(pilot_len) + bytes((used,))
            + w16(pause_ms) + w24(len(data)) + bytes(data))


def tzx12(pulse_len, count):
    return b'\x12' + w16(pulse_len) + w16(count)


def tzx13(pulses):
    return b'\x13' + bytes((len(pulses),)) + b''.join(w16(p) for p in pulses)


def tzx14(data, zero=855, one=1710, used=8, pause_ms=1000):
    return b'\x14' + w16(zero) + w16(one) + bytes((used,)) + w16(pause_ms) + w24(len(data)) + bytes(data)


def tzx15(samples, tps=79, used=8, pause_ms=0):
    return b'\x15' + w16(tps) + w16(pause_ms) + bytes((used,)) + w24(len(samples)) + bytes(samples)


def tzx20(pause_ms):
    return b'\x20' + w16(pause_ms)


def tzx21(name):
    return b'\x21' + bytes((len(name),)) + bytes(name)


def tzx22():
    return b'\x22'


def tzx23(offset):
    return b'\x23' + w16(offset & 0xFFFF)


def tzx24(reps):
    return b'\x24' + w16(reps)


def tzx25():
    return b'\x25'


def tzx2a():
    return b'\x2a' + w32(0)


def tzx2b(level):
    return b'\x2b' + w32(1) + bytes((level,))


def tzx30(text):
    return b'\x30' + bytes((len(text),)) + bytes(text)


def tzx31(secs, text):
    return b'\x31' + bytes((secs, len(text))) + bytes(text)


def tzx32(strings):
    body = bytes((len(strings),)) + b''.join(bytes((i, len(s))) + bytes(s) for i, s in strings)
    return b'\x32' + w16(len(body)) + body


def tzx33(items):
    return b'\x33' + bytes((len(items),)) + b''.join(bytes(i) for i in items)


def tzx35(ident, data):
    return b'\x35' + bytes(ident.ljust(16)[:16]) + w32(len(data)) + bytes(data)


def tzx5a():
    return b'\x5aXTape!\x1a\x01\x14'


def tzx26(offsets):
    return b'\x26' + w16(len(offsets)) + b''.join(w16(o & 0xFFFF) for o in offsets)


def tzx27():
    return b'\x27'


def tzx28(options):
    body = bytes((len(options),)) + b''.join(w16(o & 0xFFFF) + bytes((len(t),)) + bytes(t) for o, t in options)
    return b'\x28' + w16(len(body)) + body


def tzx34():
    return b'\x34' + bytes(8)


def tzx40(kind, data):
    return b'\x40' + bytes((kind,)) + w24(len(data)) + bytes(data)


def pzx_block(tag, body):
    return tag + w32(len(body)) + body


def pzx_header(major=1, minor=0, info=()):
    body = bytes((major, minor))
    if info:
        body += b'\x00'.join(bytes(s) for s in info)
    return pzx_block(b'PZXT', body)


PULS_FORMS = ('short', 'count', 'x8000', 'long')


def puls_forms(count, dur):
    """encodings of one (count, duration) entry the document allows"""
    f = ['long']
    if dur < 0x8000:
        f.append('count')
        if count == 1:
            f.append('short')
    if count == 1 and dur < 0x10000:
        f.append('x8000')
    return f


def puls_entry(count, dur, form):
    if form == 'short':        # [duration]
        assert count == 1 and dur < 0x8000
        return w16(dur)
    if form == 'count':        # [0x8000 | count][duration]
        assert 1 <= count < 0x8000 and dur < 0x8000
        return w16(0x8000 | count) + w16(dur)
    if form == 'x8000':        # [0x8000][low word]: first word is not above 0x8000, so no count; high part 0
        assert count == 1 and dur < 0x10000
        return w16(0x8000) + w16(dur)
    assert 1 <= count < 0x8000 and dur < 0x80000000
    return w16(0x8000 | count) + w16(0x8000 | (dur >> 16)) + w16(dur & 0xFFFF)


def pzx_puls(entries):
    """entries: [(count, duration, form)]"""
    return pzx_block(b'PULS', b''.join(puls_entry(c, d, f) for c, d, f in entries))


def pzx_data(data, bits=None, level=0, tail=0, s0=(855, 855), s1=(1710, 1710)):
    if bits is None:
        bits = 8 * len(data)
    body = (w32((level << 31) | bits) + w16(tail) + bytes((len(s0), len(s1))) + b''.join(w16(x) for x in s0)
            + b''.join(w16(x) for x in s1) + bytes(data))
    return pzx_block(b'DATA', body)


def pzx_paus(duration, level=0):
    return pzx_block(b'PAUS', w32((level << 31) | duration))


def pzx_brws(text):
    return pzx_block(b'BRWS', bytes(text))


def pzx_stop(flags):
    return pzx_block(b'STOP', w16(flags))


# ------------------------------------------------------------------ abstract tape -> file in each format
def tzx_of_blocks(blocks, r=None):
    """express TZX-shaped abstract blocks (pauses in T-states must be multiples of 3500) as TZX blocks;
    returns None if some block has no TZX form"""
    out = []
    for b in blocks:
        if b['pol'] != NOPOL or b['tail'] or b['pause'] % MS or b['pause'] // MS > 0xFFFF:
            return None
        ms = b['pause'] // MS
        p = b['pulses']
        if b['dr']:
            return None
        if b['data']:
            z, o = b['zero'], b['one']
            if len(z) != 2 or len(o) != 2 or z[0] != z[1] or o[0] != o[1]:
                return None
            if not p:
                out.append(tzx14(b['data'], z[0], o[0], b['used'], ms))
            elif len(p) == 3 and p[1][0] == 1 and p[2][0] == 1:
                out.append(tzx11(b['data'], p[0][1], p[1][1], p[2][1], z[0], o[0], p[0][0], b['used'], ms))
            else:
                return None
        elif p:
            if ms:
                return None
            if len(p) == 1 and (p[0][0] != 1 or (r and r.random() < 0.5)):
                out.append(tzx12(p[0][1], p[0][0]))
            elif all(c == 1 for c, d in p) and len(p) < 256:
                out.append(tzx13([d for c, d in p]))
            else:
                return None
        else:
            out.append(tzx20(ms))
    return tzx_header() + b''.join(out)


def pzx_of_blocks(blocks, r=None):
    """express PZX-shaped abstract blocks as PZX blocks (PULS / DATA / PAUS); None if not expressible"""
    out = [pzx_header()]
    for b in blocks:
        if b['pol'] == NOPOL or b['dr']:
            return None
        kinds = bool(b['pulses']) + bool(b['data']) + bool(b['pause'])
        if kinds > 1:
            return None
        if b['data']:
            if len(b['zero']) > 255 or len(b['one']) > 255:
                return None
            out.append(pzx_data(b['data'], nbits(b), b['pol'], b['tail'], b['zero'], b['one']))
        elif b['pause']:
            out.append(pzx_paus(b['pause'], b['pol']))
        else:
            ent = []
            if b['pol'] == 1:
                ent.append((1, 0, r.choice(puls_forms(1, 0)) if r else 'short'))     # starts high
            elif b['pulses'] and b['pulses'][0][0] % 2 == 1 and b['pulses'][0][1] == 0:
                return None          # would be read as "starts high"
            for c, d in b['pulses']:
                if c < 1:
                    return None
                ent.append((c, d, r.choice(puls_forms(c, d)) if r else puls_forms(c, d)[-1]))
            out.append(pzx_puls(ent))
    return b''.join(out)


# ------------------------------------------------------------------ driving the real parsers
def project_timings(tm):
    if tm is None:
        return dict(has=0, pulses=[], zero=[], one=[], pause=0, used=8, dr=0, tail=0, pol=NOPOL, err=0)
    return dict(has=1, pulses=[[int(c), int(d)] for c, d in (tm.pulses or ())], zero=[int(x) for x in (tm.zero or ())],
                one=[int(x) for x in (tm.one or ())], pause=int(tm.pause), used=int(tm.used_bits), dr=int(bool(tm.data)),
                tail=int(tm.tail), pol=NOPOL if tm.polarity is None else int(tm.polarity), err=int(tm.error is not None))


PZX_CODES = {'PZXT': 1, 'PULS': 2, 'DATA': 3, 'PAUS': 4, 'BRWS': 5, 'STOP': 6}
PZX_NAMES = {'PZX header block': 1, 'Pulse sequence': 2, 'Data block': 3, 'Pause': 4, 'Browse point': 5,
             'Stop tape command': 6}


def project_block(fmt, b):
    if fmt == 'tap':
        bid = -1
    elif fmt == 'tzx':
        bid = int(b.block_id)
    else:
        bid = PZX_CODES.get(b.block_id, 0)
    reps = 0
    if fmt == 'tzx' and b.block_id == 0x24:
        reps = b.block_data[0] + 256 * b.block_data[1]
    return dict(n=b.number, id=bid, hasdata=int(b.data is not None), data=[int(x) for x in (b.data or ())], reps=reps,
                tm=project_timings(b.timings))


def parse_file(fmt, path, start=1, stop=0, skip=()):
    """real parser on a file -> dict(exc, blocks=[projected], warnings=[...])"""
    t = sk()
    try:
        if fmt == 'tap':
            tape = t.parse_tap(path, start, stop, skip)
        elif fmt == 'tzx':
            tape = t.parse_tzx(path, start, stop, skip, True, True)
        else:
            tape = t.parse_pzx(path, start, stop, skip)
    except Exception as e:  # noqa: BLE001
        return dict(exc=1, err='%s: %s' % (type(e).__name__, e), blocks=[], warn=0, tape=None)
    warn = 0
    for wmsg in tape.warnings:
        warn = 1 if wmsg.startswith('Extraneous') else 2
    return dict(exc=0, blocks=[project_block(fmt, b) for b in tape.blocks], warn=warn, tape=tape)


def _skip_args(skip):
    """--tape-skip takes one A[-B] range"""
    skip = list(skip)
    if not skip:
        return []
    if skip != list(range(skip[0], skip[-1] + 1)):
        raise MachineryError('tapinfo can only skip a contiguous range of blocks: %r' % (skip,))
    return ['--tape-skip', str(skip[0]) if len(skip) == 1 else '%d-%d' % (skip[0], skip[-1])]


_HDR = re.compile(r'^(\d+):(?: (.*?))??(?: \(0x([0-9A-F]{2})\))?$')
_LEN = re.compile(r'^  Length: (\d+)$')


def tapinfo_lines(fmt, path, start=1, stop=0, skip=()):
    """stdout of the real tapinfo.main -> [[number, id, length or -1]...] (text projection only)"""
    cbuild.repo_only()
    from skoolkit import tapinfo
    args = [path]
    if start != 1:
        args += ['--tape-start', str(start)]
    if stop:
        args += ['--tape-stop', str(stop)]
    args += _skip_args(skip)
    buf = io.StringIO()
    err = io.StringIO()
    try:
        with contextlib.redirect_stdout(buf), contextlib.redirect_stderr(err):
            tapinfo.main(args)
    except BaseException as e:  # noqa: BLE001 - SystemExit included
        return dict(exc=1, err='%s: %s' % (type(e).__name__, e), lines=[])
    out = []
    for line in buf.getvalue().splitlines():
        m = _HDR.match(line)
        if m and not line.startswith(' '):
            if fmt == 'tzx':
                bid = int(m.group(3), 16) if m.group(3) else -2
            elif fmt == 'pzx':
                bid = PZX_NAMES.get(m.group(2) or '', 0)
            else:
                bid = -1
            out.append([int(m.group(1)), bid, -1])
            continue
        m = _LEN.match(line)
        if m and out and not (fmt == 'tzx' and out[-1][1] == 0x15):      # (0x15: that is its sample count)
            out[-1][2] = int(m.group(1))
    return dict(exc=0, lines=out, stderr=err.getvalue())


def tapinfo_edges(path, start=1, stop=0, skip=(), max_edges=12000):
    """edges as the real tapinfo -a pipeline computes them (parser + loop expansion + get_edges); get_edges is
    wrapped from outside to see what it returns"""
    cbuild.repo_only()
    from skoolkit import tapinfo, tape as t
    seen = []

    def spy(blocks, *a, **kw):
        kw['analyse'] = False
        res = t.get_edges(blocks, *a[:2], **{k: v for k, v in kw.items() if k != 'analyse'})
        seen.append(res)
        return res
    args = ['-a', path]
    if start != 1:
        args += ['--tape-start', str(start)]
    if stop:
        args += ['--tape-stop', str(stop)]
    args += _skip_args(skip)
    orig = tapinfo.get_edges
    tapinfo.get_edges = spy
    buf = io.StringIO()
    try:
        with contextlib.redirect_stdout(buf), contextlib.redirect_stderr(buf):
            tapinfo.main(args)
    except BaseException as e:  # noqa: BLE001
        return dict(has=1, exc=1, first=0, runs=[], ranges=[], n=0, err='%s: %s' % (type(e).__name__, e))
    finally:
        tapinfo.get_edges = orig
    if len(seen) != 1:
        raise MachineryError('tapinfo -a called get_edges %d times' % len(seen))
    obs = project_edges(seen[0])
    if obs is None or obs['n'] > max_edges:
        return dict(has=0, exc=0, first=0, runs=[], ranges=[], n=0 if obs is None else obs['n'])
    obs['has'] = 1
    return obs


def signal_blocks(fmt, parsed):
    """projected parser output -> the abstract blocks that get played (python mirror of TapeFormats!SignalBlocks, used only to
    name the input class of a file in violation keys)"""
    if fmt == 'tzx':
        out, loop, reps = [], None, 0
        for p in parsed:
            if p['id'] == 0x24:
                loop, reps = [], p['reps']
            if loop is None:
                out.append(p)
            else:
                loop.append(p)
            if p['id'] == 0x25 and loop is not None:
                out.extend(loop * reps)
                loop = None
        parsed = out
    return [blk(p['tm']['pulses'], p['data'] if p['hasdata'] else (), p['tm']['zero'], p['tm']['one'], p['tm']['used'], p['tm']['tail'],
                p['tm']['pause'], p['tm']['pol'], p['tm']['dr']) for p in parsed if p['tm']['has'] and not p['tm']['err']]


NOSIG = dict(has=0, exc=0, first=0, runs=[], ranges=[], n=0)


def file_obs(fmt, path, start=1, stop=0, skip=(), sig=True, writer='', wdata=(), max_edges=12000):
    """everything the real code says about one tape file, for the TapeCases judge"""
    with open(path, 'rb') as f:
        raw = list(f.read())
    p = parse_file(fmt, path, start, stop, tuple(skip))
    info = tapinfo_lines(fmt, path, start, stop, skip)
    o = dict(fmt=fmt, raw=raw, start=start, stop=stop, skip=list(skip), exc=p['exc'], parsed=p['blocks'], warn=p['warn'],
             info=info['lines'], infoexc=info['exc'], writer=writer, wdata=[list(d) for d in wdata], wexc=0)
    if p['exc']:
        o['err'] = p['err']
    o['hz'] = hazards(signal_blocks(fmt, p['blocks']))
    o['sig'] = tapinfo_edges(path, start, stop, skip, max_edges) if sig and not p['exc'] else dict(NOSIG)
    return o


# ------------------------------------------------------------------ families of files
LENGTHS = (0, 1, 2, 17, 19, 20)


def rand_bytes(r, n, flag=None):
    d = [r.randrange(256) for _ in range(n)]
    if n and flag is not None:
        d[0] = flag
    return d


def std_blocks(r, nblocks=None, maxlen=24):
    """byte blocks of a standard-speed tape (every flag byte equally likely, boundary flags more often)"""
    out = []
    for _ in range(nblocks or r.choice((1, 1, 2, 3))):
        n = r.choice(LENGTHS + (r.randrange(1, maxlen),))
        n = min(n, maxlen)
        out.append(rand_bytes(r, n, r.choice((0, 255, 127, 128, 1, r.randrange(256)))))
    return out


def rom_pilot(flag):
    """ROM SA-BYTES / TZX 1.20: header-length pilot for flag bytes below 128"""
    return 8063 if flag < 128 else 3223


def write(path, data):
    with open(path, 'wb') as f:
        f.write(data)
    return path


def written(fmt, path, datas, sig=True, max_edges=12000):
    """byte blocks -> real write_tap / write_pzx -> everything the real code says about the file"""
    t = sk()
    try:
        (t.write_tap if fmt == 'tap' else t.write_pzx)(path, [list(d) for d in datas])
    except Exception as e:  # noqa: BLE001 - a writer that fails is an observation
        return dict(fmt=fmt, raw=[], start=1, stop=0, skip=[], exc=0, parsed=[], warn=0, info=[], infoexc=0, writer=fmt, hz='plain',
                    wdata=[list(d) for d in datas], wexc=1, err='%s: %s' % (type(e).__name__, e), sig=dict(NOSIG))
    return file_obs(fmt, path, writer=fmt, wdata=datas, sig=sig, max_edges=max_edges)


def family_writers(r, wd, tag, datas, sig=True, key='writers'):
    """byte blocks -> real write_tap and write_pzx; both parsed back (round trip), data must agree"""
    tap, pzx = os.path.join(wd, tag + '.tap'), os.path.join(wd, tag + '.pzx')
    return dict(kind='files', key=key, same=2 if sig and all(datas) else 0, samedata=1, lens=[len(d) for d in datas],
                files=[written('tap', tap, datas, sig), written('pzx', pzx, datas, sig)])


def family_xfmt(r, wd, tag, datas):
    """one standard-speed tape written as TAP (real writer), TZX 0x10, TZX 0x11, TZX 0x12+0x13+0x14 and PZX (own
    writers): all must play the same edges. 1000 ms between blocks as TAP implies."""
    files = []
    files.append(written('tap', os.path.join(wd, tag + '.tap'), datas))
    z10 = tzx_header() + b''.join(tzx10(d, 1000) for d in datas)
    files.append(file_obs('tzx', write(os.path.join(wd, tag + '-10.tzx'), z10)))
    z11 = tzx_header() + b''.join(tzx11(d, pilot_len=rom_pilot(d[0]), pause_ms=1000) for d in datas)
    files.append(file_obs('tzx', write(os.path.join(wd, tag + '-11.tzx'), z11)))
    z14 = tzx_header() + b''.join(tzx12(2168, rom_pilot(d[0])) + tzx13([667, 735]) + tzx14(d, pause_ms=1000) for d in datas)
    files.append(file_obs('tzx', write(os.path.join(wd, tag + '-14.tzx'), z14)))
    # PZX: the level each block starts at follows from the number of pulses played before it
    level = 0
    out = [pzx_header()]
    for k, d in enumerate(datas):
        if k:
            out.append(pzx_paus(1000 * MS, level))
        ent = [(1, 0, r.choice(puls_forms(1, 0)))] if level else []
        for c, dur in ((rom_pilot(d[0]), 2168), (1, 667), (1, 735)):
            ent.append((c, dur, r.choice(puls_forms(c, dur))))
        out.append(pzx_puls(ent))
        level ^= 1                                   # pilot + 2 sync pulses: an odd number
        out.append(pzx_data(d, level=level))         # 16 pulses per byte: the level is kept
    files.append(file_obs('pzx', write(os.path.join(wd, tag + '.pzx'), b''.join(out))))
    return dict(kind='files', key='xfmt', same=1, samedata=1, files=files)


TZX_INFO = ('group', 'text', 'archive', 'message', 'hardware', 'custom', 'jump', 'stop48', 'level', 'glue', 'loop', 'group', 'loop',
            'call', 'return', 'select', 'emu', 'snapshot')


def tzx_info_block(r, kind):
    txt = [r.choice(b'ABC xyz01') for _ in range(r.randrange(0, 6))]
    if kind == 'text':
        return tzx30(txt)
    if kind == 'archive':
        return tzx32([(r.choice((0, 1, 2, 3, 255)), [r.choice(b'abc') for _ in range(r.randrange(0, 4))])
                      for _ in range(r.randrange(0, 3))])
    if kind == 'message':
        return tzx31(r.randrange(10), txt)
    if kind == 'hardware':
        return tzx33([(r.randrange(17), r.randrange(4), r.randrange(4)) for _ in range(r.randrange(0, 3))])
    if kind == 'custom':
        return tzx35(b'POKEs', rand_bytes(r, r.randrange(0, 5)))
    if kind == 'jump':
        return tzx23(r.choice((1, -1, 2)))
    if kind == 'stop48':
        return tzx2a()
    if kind == 'level':
        return tzx2b(r.randrange(2))
    if kind == 'call':
        return tzx26([r.choice((1, -1, 2)) for _ in range(r.randrange(0, 3))])
    if kind == 'return':
        return tzx27()
    if kind == 'select':
        return tzx28([(r.choice((1, 2)), [r.choice(b'opt') for _ in range(r.randrange(0, 4))]) for _ in range(r.randrange(0, 3))])
    if kind == 'emu':
        return tzx34()
    if kind == 'snapshot':
        return tzx40(r.randrange(2), rand_bytes(r, r.randrange(0, 5)))
    return tzx5a()


def tzx_signal_piece(r):
    """one TZX block that plays something, as bytes"""
    k = r.randrange(9)
    if k == 0:
        return tzx10(rand_bytes(r, r.choice((0, 1, 2, 5)), r.choice((0, 255, 127, 128))), r.choice((0, 1, 1000)))
    if k == 1:
        n = r.randrange(1, 5)
        return tzx15(rand_bytes(r, n), r.choice((1, 79, 158)), r.randrange(1, 9), r.choice((0, 0, 2)))
    while True:
        b = gen_tzx_block(r, r.random() < 0.5, MS)
        if b['dr']:
            continue
        z = tzx_of_blocks([b], r)
        if z is not None:
            return z[10:]


def family_tzx(r, wd, tag, opts=False):
    """a TZX file of signal blocks with info / group / loop blocks interleaved"""
    parts = []
    n = r.choice((1, 2, 3, 4, 5))
    inloop = False
    for _ in range(n):
        if r.random() < 0.45:
            kind = r.choice(TZX_INFO)
            if kind == 'group':
                parts.append(tzx21([r.choice(b'Grp1') for _ in range(r.randrange(0, 4))]))
                parts.append(tzx_signal_piece(r))
                parts.append(tzx22())
            elif kind == 'loop':
                parts.append(tzx24(r.choice((1, 2, 3))))
                for _ in range(r.choice((1, 2))):
                    parts.append(tzx_signal_piece(r))
                parts.append(tzx25())
            else:
                parts.append(tzx_info_block(r, kind))
        else:
            parts.append(tzx_signal_piece(r))
    raw = tzx_header(1, r.choice((20, 13, 1))) + b''.join(parts)
    if len(raw) > 300:
        return None
    kw = select_opts(r, len(parts) + 2) if opts else {}
    return dict(kind='files', key='tzx' + ('-opts' if kw else ''), same=0, samedata=0,
                files=[file_obs('tzx', write(os.path.join(wd, tag + '.tzx'), raw), **kw)])


DR_LAST = ('00', 'ff', '80', '7f', '01', 'fe', 'alt', 'rnd')
DR_LAST_BYTE = {'00': 0x00, 'ff': 0xFF, '80': 0x80, '7f': 0x7F, '01': 0x01, 'fe': 0xFE}
DR_PREV = {0: (0x00, 0xFE, 0x00, 0xAA, 0x10, 0x80), 1: (0xFF, 0x01, 0xFF, 0x55, 0xEF, 0x7F)}     # by the level of the last sample
DR_TPS = (79, 1, 158, 3, 1000, 2)
DR_RUNS = (2, 5, 12)


def dr_grid():
    """the deterministic part of family dr: used bits 1..8 x class of the last byte x level of the sample before the last byte
    (-1: the block has one byte only) x two shapes of what comes before"""
    out = []
    for used in range(1, 9):
        for last in DR_LAST:
            for lvl in (0, 1):
                for shape in (0, 1):
                    out.append((used, last, lvl, len(out)))
    for used in range(1, 9):
        for last in DR_LAST:
            out.append((used, last, -1, len(out)))
    return out


def dr_class(samples, used):
    """input class of a direct recording: used bits, and whether the used samples of the last byte are all equal and continue
    (cont) or flip (flip) the level of the sample before them, or contain an edge themselves (edge); 'one' = one byte only"""
    bits = [(samples[-1] >> (7 - i)) & 1 for i in range(used)]
    if len(samples) < 2:
        rel = 'one-flat' if len(set(bits)) == 1 else 'one-edge'
    elif len(set(bits)) > 1:
        rel = 'edge'
    else:
        rel = 'cont' if bits[0] == samples[-2] & 1 else 'flip'
    return 'u%d:%s%d' % (used, rel, bits[-1])


def family_dr(r, wd, tag, arg):
    """a TZX file around one direct recording block (0x15): [a tone that sets the level] + the recording + a block whose edges
    show any error in the recording's total length (tone / pulse sequence / pause + tone / another recording)"""
    used, last, lvl, k = arg
    lastb = DR_LAST_BYTE.get(last)
    if last == 'alt':
        lastb = r.choice((0xAA, 0x55))
    elif last == 'rnd':
        lastb = r.randrange(256)
    samples = []
    if lvl >= 0:
        samples += r.choice(([], [r.randrange(256)], [0xA5, 0x0F], rand_bytes(r, 3)))
        n, m = r.choice(DR_RUNS), r.choice(DR_RUNS)
        samples += ([], [0] * n, [255] * n, [0] * n + [255] * m, [255] * n + [0] * m)[k % 5]         # long runs in the middle
        samples.append(DR_PREV[lvl][(k // 2) % len(DR_PREV[lvl])])
    samples.append(lastb)
    tps = DR_TPS[(k // 5) % len(DR_TPS)]
    parts = [r.choice((b'', b'', tzx12(100, 1), tzx12(300, 2)))]
    parts.append(tzx15(samples, tps, used, r.choice((0, 0, 1, 2))))
    f = k % 4
    if f == 0:
        parts.append(tzx12(r.choice((100, 2168)), r.choice((1, 2, 3))))
    elif f == 1:
        parts.append(tzx13([667, 735, r.choice((1, 855))]))
    elif f == 2:
        parts += [tzx20(r.choice((1, 3))), tzx12(500, 2)]
    else:
        parts += [tzx15([r.choice((0x00, 0xFF, 0x0F, 0xF0)), r.choice((0x00, 0xFF, 0x3C))], r.choice(DR_TPS), r.randrange(1, 9), 0),
                  tzx13([100, 200])]
    raw = tzx_header() + b''.join(parts)
    return dict(kind='files', key='tzx-dr', same=0, samedata=0, drclass=dr_class(samples, used), drtps=tps,
                files=[file_obs('tzx', write(os.path.join(wd, tag + '.tzx'), raw))])


def select_opts(r, nblocks):
    """--tape-start / --tape-stop / --tape-skip"""
    kw = {}
    if r.random() < 0.6:
        kw['start'] = r.randrange(1, nblocks + 1)
    if r.random() < 0.6:
        kw['stop'] = r.randrange(1, nblocks + 2)
    if r.random() < 0.5:
        a = r.randrange(1, nblocks + 1)
        kw['skip'] = list(range(a, a + r.choice((1, 1, 2, 3))))          # one A[-B] range, as the command line takes
    return kw or {'start': 2}


def family_pzx(r, wd, tag, opts=False, zero_pulses=True):
    """a PZX file of PULS / DATA / PAUS blocks (every PULS word form) with BRWS / STOP / unknown blocks between"""
    while True:
        blocks = gen_tape(r, 'pzx', r.random() < 0.5, 4, zero_pulses)
        blocks = [b for b in blocks if not (b['pulses'] and b['pol'] == 0 and b['pulses'][0][0] % 2 == 1 and b['pulses'][0][1] == 0)]
        if blocks and hazards(blocks) in ('plain', 'zp', 'uneven', 'uneven-used'):
            break
    out = [pzx_header(1, 0, [b'Title'] if r.random() < 0.3 else ())]
    for b in blocks:
        if r.random() < 0.2:
            out.append(r.choice((pzx_brws(b'part'), pzx_stop(r.randrange(2)), pzx_block(b'XTRA', bytes(rand_bytes(r, 3))))))
        out.append(pzx_of_blocks([b], r)[len(pzx_header()):])
    raw = b''.join(out)
    if len(raw) > 300:
        return None
    kw = select_opts(r, len(out) + 1) if opts else {}
    return dict(kind='files', key='pzx' + ('-opts' if kw else ''), same=0, samedata=0,
                files=[file_obs('pzx', write(os.path.join(wd, tag + '.pzx'), raw), **kw)])


PULS_COUNTS = (1, 2, 0x7FFF)
PULS_DURS = (0, 1, 0x7FFF, 0x8000, 0xFFFF, 0x10000, 0x7FFFFFFF)


def puls_boundary_entries():
    """every (count, duration, word form) at the boundary values of the PULS encoding"""
    return [(c, d, f) for c in PULS_COUNTS for d in PULS_DURS for f in puls_forms(c, d)]


def family_puls(r, wd, tag, entries):
    raw = pzx_header() + pzx_puls(entries)
    return dict(kind='files', key='puls-forms', same=0, samedata=0, entries=[list(e) for e in entries],
                files=[file_obs('pzx', write(os.path.join(wd, tag + '.pzx'), raw))])


def family_tap(r, wd, tag, opts=False):
    """TAP files incl. empty blocks, a truncated last block, a stray byte at the end"""
    datas = std_blocks(r, maxlen=12)
    raw = b''.join(tap_block(d) for d in datas)
    mode = r.choice(('ok', 'ok', 'trunc', 'stray'))
    if mode == 'trunc' and datas[-1]:
        raw = raw[:-r.randrange(1, len(datas[-1]) + 1)]
    elif mode == 'stray':
        raw += bytes((r.randrange(256),))
    kw = select_opts(r, len(datas) + 1) if opts else {}
    return dict(kind='files', key='tap-' + mode + ('-opts' if kw else ''), same=0, samedata=0,
                files=[file_obs('tap', write(os.path.join(wd, tag + '.tap'), raw), **kw)])


# ------------------------------------------------------------------ workers (multiprocessing, fork)
def enumerate_tapes(nalpha, maxblocks):
    """index tuples of every tape of 0..maxblocks blocks over an alphabet of nalpha blocks"""
    import itertools
    for n in range(maxblocks + 1):
        yield from itertools.product(range(nalpha), repeat=n)


def replay_worker(args):
    """pattern C: tapes of the bounded model -> real get_edges"""
    name, alphabet, tapes, fes, gpols = args
    out = []
    for tp in tapes:
        blocks = [alphabet[i] for i in tp]
        if not expressible(blocks):
            continue
        hz = hazards(blocks)
        for fe in fes:
            for gp in gpols:
                c = edge_case(blocks, fe, gp, hz)
                c['family'] = name
                out.append(c)
    return out


def edge_worker(args):
    """random tapes beyond the bounds of the model (more blocks, 16-bit widths, any option values) -> real get_edges"""
    import random
    sd, n = args
    r = random.Random(sd)
    out = []
    for _ in range(n):
        fam = r.choice(('tzx', 'pzx'))
        blocks = gen_tape(r, fam, r.random() < 0.6, r.choice((4, 4, 6)))
        c = edge_case(blocks, r.choice((0, 0, 1, 3, 1000, 69888)), r.choice((0, 1, 2, 3)), hazards(blocks))
        c['family'] = fam
        out.append(c)
    return out


BIG_LENGTHS = (256, 6912, 65535)


def file_worker(args):
    """families of tape files -> real writers / parsers / tapinfo"""
    import random
    from . import replaylib
    sd, wid, jobs, wd = args
    r = random.Random(sd)
    out = []
    for k, (fam, arg) in enumerate(jobs):
        tag = 'w%d-%d' % (wid, k)
        c = None
        for _ in range(20):
            st = replaylib.rnd_state(r)
            c = file_job(r, fam, arg, wd, tag)
            if c is not None:
                break
        if c is None:
            raise MachineryError('family %s: no case generated' % fam)
        # generator state before this case: --replay makes files too large to be stored byte by byte (writers-big) again from it
        c['regen'] = dict(st, fam=fam, arg=arg, tag=tag)
        out.append(c)
    return out


def file_job(r, fam, arg, wd, tag):
    """one case of a family (None: the generated file was too long, try again)"""
    if fam == 'writers':
        datas = std_blocks(r)
        if arg == 'nonempty':
            datas = [d for d in datas if d] or [rand_bytes(r, 2)]
        return family_writers(r, wd, tag, datas, key='writers' if all(datas) else 'writers-empty')
    if fam == 'big':
        n = arg
        datas = [rand_bytes(r, n, r.choice((255, 0, 128, r.randrange(256))))]
        return family_writers(r, wd, tag, datas, sig=n <= 512, key='writers-big')
    if fam == 'xfmt':
        flag = r.choice((255, 255, 128, 0, r.randrange(128, 256))) if arg == 'cheap' else r.choice((0, 255, 127, 128, 1, r.randrange(256)))
        datas = [rand_bytes(r, r.choice((1, 2, 3, 17, 19)), flag)]
        if arg != 'cheap' and r.random() < 0.4:
            datas.append(rand_bytes(r, r.choice((1, 2, 5)), r.choice((255, 128, r.randrange(128, 256)))))
        return family_xfmt(r, wd, tag, datas)
    if fam == 'tzx':
        return family_tzx(r, wd, tag, arg)
    if fam == 'pzx':
        return family_pzx(r, wd, tag, arg)
    if fam == 'dr':
        return family_dr(r, wd, tag, tuple(arg))
    if fam == 'tap':
        return family_tap(r, wd, tag, arg)
    if fam == 'puls':
        return family_puls(r, wd, tag, arg)
    if fam == 'puls-random':
        ents = puls_boundary_entries()
        return family_puls(r, wd, tag, [(cnt, d if d < 70000 else 70000, f) for cnt, d, f in
                                        (r.choice(ents) for _ in range(r.randrange(1, 5))) if cnt < 100])
    raise MachineryError('unknown family %r' % (fam,))


def replay_files(wd, rp):
    """A recorded file case on the current tree again: every file written again - by the real writer from the recorded byte blocks
    where a real writer made it, from the recorded raw bytes otherwise - and parsed / listed / played by the real code; a case whose
    bytes were cut in the record (files over 4000 bytes) is generated again from the recorded generator state."""
    from . import replaylib
    os.makedirs(wd, exist_ok=True)
    cut = any(g['raw'] and g['raw'][-1] == '...' for g in rp['files'])
    if cut:
        rg = rp.get('regen')
        if not rg:
            raise MachineryError('the recorded files are cut to 4000 bytes and the generator state was not recorded')
        arg = rg['arg']
        if rg['fam'] == 'puls':
            arg = [tuple(e) for e in arg]
        c = file_job(replaylib.rnd_restore(rg), rg['fam'], arg, wd, rg['tag'])
        # same INPUT as recorded? (byte blocks given to a real writer / raw bytes of a file the harness wrote itself)
        def same(f, g):
            if g['writer']:
                return [d[:100] for d in f['wdata']] == [d[:100] for d in g['wdata']]
            return f['raw'][:4000] == g['raw'][:4000]
        if c is None or [f['fmt'] for f in c['files']] != [g['fmt'] for g in rp['files']] or not all(same(f, g) for f, g in zip(c['files'], rp['files'])):
            raise MachineryError('the replay file was written by a different version of the C11 generator')
        return c
    files = []
    for k, g in enumerate(rp['files']):
        path = os.path.join(wd, 'r%d.%s' % (k, g['fmt']))
        if g['writer']:
            files.append(written(g['fmt'], path, g['wdata']))
        else:
            files.append(file_obs(g['fmt'], write(path, bytes(g['raw'])), g['start'], g['stop'], g['skip']))
    return dict(kind='files', key=rp.get('key', '?'), same=rp['same'], files=files)


def load_alphabet(path):
    """what TapeAlpha!DumpSpec wrote"""
    import json
    with open(path) as f:
        d = json.load(f)
    for b in d['alphabet']:
        for k in ('pulses', 'data', 'zero', 'one'):
            b[k] = [list(x) if isinstance(x, (list, tuple)) else x for x in b[k]]
    return d
