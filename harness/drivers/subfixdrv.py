"""C04 driver: abstract skool files (the line records of spec/doc/SubFix.tla) -> skool text -> the real
skool2bin / skool2asm / skool2html in every mode and option vector -> projected observations for SubFixCases.

Python only renders, runs the real code and projects (image as address/byte pairs, label table, #PEEK values);
the comparisons are made by TLC in spec/doc/SubFixCases.tla.

The reference resolver turns skool2asm's output into an image: ORG / EQU / label table in two passes, every
instruction assembled by skoolkit's own Assembler (trusted through C02) after its labels were replaced by numbers.
"""
import contextlib
import html
import io
import os
import random
import re
import shutil

from ..lib import cbuild, tlc
from ..lib.common import MachineryError

BASE = 40000
SENTINEL = 165
PEEK_SPAN = 130
ONE = ['NOP', 'XOR A', 'INC A', 'RET', 'LD B,C', 'EX DE,HL', 'CPL', 'SCF']
# (substitution mode, bugfix mode) pairs reachable with skool2bin's options
BIN_MODES = [(0, 0), (0, 1), (0, 2), (1, 0), (1, 1), (1, 2), (2, 0), (2, 1), (2, 2), (3, 1), (3, 2), (3, 3)]
BIN_FLAGS = {'a': {0: [], 1: ['-i'], 2: ['-s'], 3: ['-r']}, 'f': {0: [], 1: ['-o'], 2: ['-b'], 3: ['-R']}}
# skool2asm is always at least in @isub mode
ASM_FLAGS = {'a': {1: [], 2: ['-s'], 3: ['-r']}, 'f': {0: [], 1: ['-f', '1'], 2: ['-f', '2'], 3: ['-f', '3']}}
VECTORS = [(b, c, l) for b in ('', '-D', '-H') for c in ('', '-l', '-u') for l in ('', '-c')]
QUICK_VECTORS = [('', '', ''), ('-H', '-l', '-c'), ('-D', '-u', ''), ('-H', '', ''), ('', '-l', ''), ('-D', '', '-c'),
                 ('', '-u', '-c'), ('-H', '-u', '')]


def vec_code(v):
    return ('', '-D', '-H').index(v[0]) * 100 + ('', '-l', '-u').index(v[1]) * 10 + ('', '-c').index(v[2])


def bin_flags(am, fm):
    if fm == 3:
        return ['-R']
    return BIN_FLAGS['a'][am] + BIN_FLAGS['f'][fm if not (am == 3 and fm == 1) else 0]


def asm_flags(am, fm):
    if fm == 3:
        return ['-f', '3']
    return ASM_FLAGS['a'][am] + ASM_FLAGS['f'][fm if not (am == 3 and fm == 1) else 0]


# ------------------------------------------------------------------ programs written by TLC
_STATE = re.compile(r'^STATE_(\d+) ==', re.M)


def sim_programs(outdir):
    """the final `prog` of every behaviour file written by TLC -simulate"""
    progs = []
    for fn in sorted(os.listdir(outdir)):
        with open(os.path.join(outdir, fn)) as f:
            text = f.read()
        ms = list(_STATE.finditer(text))
        if not ms:
            continue
        body = text[ms[-1].end():]
        i = body.find('/\\ prog = ')
        j = body.find('\n/\\ st = ')
        if i < 0 or j < 0:
            raise MachineryError('cannot find prog in ' + fn)
        progs.append(tlc.tla_value(' '.join(body[i + 10:j].split())))
    return progs


_DSTATE = re.compile(r'^State \d+:', re.M)


def dump_programs(path, maxins):
    """the `prog` of every complete file (all instruction lines written, no class pending) in a TLC -dump file"""
    with open(path) as f:
        text = f.read()
    progs = []
    for block in _DSTATE.split(text)[1:]:
        i = block.find('/\\ prog = ')
        j = block.find('\n/\\ st = ')
        g = block.find('\n/\\ gen = ')
        if min(i, j, g) < 0:
            raise MachineryError('cannot parse a state of ' + path)
        gen = block[g:]
        if re.search(r'\bn \|-> %d,' % maxins, gen) and 'cls |-> ""' in gen:
            progs.append(tlc.tla_value(' '.join(block[i + 10:j].split())))
    return progs


def tidy(prog):
    """cut a file written up to the depth bound after its last instruction line and close an open block"""
    last = max((i for i, ln in enumerate(prog) if ln['l'] == 'ins'), default=-1)
    if last < 1:
        return None
    out = prog[:last + 1]
    stack = []
    for ln in out:
        if ln['l'] == 'blk':
            if ln['part'] == 'begin':
                stack.append(ln)
            elif ln['part'] == 'else':
                stack[-1] = ln
            else:
                stack.pop()
    while stack:
        b = stack.pop()
        out.append({'l': 'blk', 'kind': b['kind'], 'plus': b['plus'], 'part': 'end'})
    return out


def lowbase(prog, new=100, old=BASE):
    """the same file moved to page 0, with the immediates of LD A,n / DEFB / DEFS equal to addresses of its own
    instruction lines: there an 8-bit operand merely equals an address, a 16-bit one names the instruction"""
    import copy
    d = old - new
    p = copy.deepcopy(prog)

    def tok(t):
        if t['t'] >= d:
            t['t'] -= d
        if t['k'] in ('ld8', 'defb', 'defs'):
            t['a'] = new + t['a'] % 24

    def line(ln):
        k = ln['l']
        if k == 'ins':
            if ln['addr'] >= 0:
                ln['addr'] -= d
            tok(ln['tok'])
        elif k == 'sub':
            tok(ln['tok'])
        elif k == 'rem':
            ln['a1'] -= d
            ln['a2'] -= d
        elif k == 'org' and ln['v'] >= 0:
            ln['v'] -= d
        elif k == 'data':
            if ln['addr'] >= 0:
                ln['addr'] -= d
            if ln['d'] == 'defw':
                ln['vals'] = [v - d if v >= d else v for v in ln['vals']]
        elif k == 'if':
            line(ln['yes'])
            line(ln['no'])
    for ln in p:
        line(ln)
    return p


# ------------------------------------------------------------------ vacuity bookkeeping for @if (counting only; TLC judges)
_REL = {'>=': lambda v, n: v >= n, '==': lambda v, n: v == n, '<': lambda v, n: v < n, '>': lambda v, n: v > n,
        '!=': lambda v, n: v != n}
_EXEC = {'isub': ('a', 1), 'ssub': ('a', 2), 'rsub': ('a', 3), 'ofix': ('f', 1), 'bfix': ('f', 2), 'rfix': ('f', 3)}


def if_classes(prog, am, fm):
    """-> [(class of the wrapped directive, condition value in mode (am, fm), wrapped directive in force there)] for the
    @if lines over {asm} / {fix}; class: 'rem', 'sub-flagged', 'sub-plain', 'org', 'lab', 'keep', 'nowarn', 'data', 'bytes'"""
    out = []
    for ln in prog:
        if ln['l'] != 'if' or ln['var'] not in ('asm', 'fix'):
            continue
        val = bool(_REL[ln['rel']](am if ln['var'] == 'asm' else fm, ln['n']))
        y = ln['yes']
        cls = y['l']
        if cls == 'sub':
            cls = 'sub-flagged' if y['pre'] or y['ovw'] or y['app'] or y['fin'] else 'sub-plain'
        live = val
        if y['l'] in ('sub', 'rem'):
            w, lvl = _EXEC[y['kind']]
            live = val and (am if w == 'a' else fm) >= lvl
        out.append((cls, val, live))
    return out


# ------------------------------------------------------------------ rendering
def num(rnd, v, width=0):
    if rnd is not None and rnd.random() < 0.35:
        return '$%0*X' % (4 if v > 255 else 2, v)
    return '%0*d' % (width, v) if width else str(v)


def tok_text(tok, rnd=None):
    k, a, n, t = tok['k'], tok['a'], tok['n'], tok['t']
    if k == 'one':
        return ONE[a]
    if k == 'ld8':
        return 'LD A,' + num(rnd, a)
    if k == 'jp':
        return 'JP ' + num(rnd, t)
    if k == 'call':
        return 'CALL ' + num(rnd, t)
    if k == 'ldhl':
        return 'LD HL,' + num(rnd, t)
    if k == 'lda':
        return 'LD A,(%s)' % num(rnd, t)
    if k == 'jr':
        return 'JR ' + num(rnd, t)
    if k == 'djnz':
        return 'DJNZ ' + num(rnd, t)
    if k == 'defw':
        return 'DEFW ' + num(rnd, t)
    if k == 'defb':
        return 'DEFB "%s",%s' % ('abcd'[:n], num(rnd, a))
    if k == 'defm':
        return 'DEFM "%s"' % 'abcd'[:n]
    if k == 'defs':
        return 'DEFS %s,%s' % (num(rnd, n), num(rnd, a))
    if k == 'raw':
        return tok['text']
    raise MachineryError('token ' + k)


def sub_text(ln, rnd):
    flags = [c for c, f in (('>', 'pre'), ('|', 'ovw'), ('+', 'app'), ('/', 'fin')) if ln[f]]
    if rnd is not None:
        rnd.shuffle(flags)
    s = '%s=%s' % (ln['kind'], ''.join(flags))
    if ln['lab']:
        s += ln['lab'] + ': ' if ln['has'] else ln['lab'] + ':'
    if ln['has']:
        s += tok_text(ln['tok'], rnd)
    if not ln['has'] or (rnd is not None and rnd.random() < 0.3):
        s += ' ; note'
    return s


def line_text(ln, rnd):
    k = ln['l']
    if k == 'ins':
        a = ln['addr']
        if a < 0:
            addr = '     '
        elif rnd is not None and rnd.random() < 0.25:
            addr = '$%04X' % a
        else:
            addr = '%05d' % a
        s = '%s%s %s' % (ln['ctl'], addr, tok_text(ln['tok'], rnd))
        if rnd is not None and rnd.random() < 0.3:
            s += ' ; comment'
        return [s]
    if k == 'sub':
        return ['@' + sub_text(ln, rnd)]
    if k == 'rem':
        return ['@%s=!%d' % (ln['kind'], ln['a1']) if ln['a1'] == ln['a2'] and (rnd is None or rnd.random() < 0.7)
                else '@%s=!%s-%s' % (ln['kind'], num(rnd, ln['a1']), num(rnd, ln['a2']))]
    if k == 'blk':
        return ['@%s%s%s' % (ln['kind'], '+' if ln['plus'] else '-', ln['part'])]
    if k == 'org':
        return ['@org' if ln['v'] < 0 else '@org=%s' % num(rnd, ln['v'])]
    if k == 'lab':
        return ['@label=' + ln['name']]
    if k == 'keep':
        return ['@keep' + ('=' + ','.join(str(v) for v in ln['vals']) if ln.get('vals') else '')]
    if k == 'nowarn':
        return ['@nowarn']
    if k == 'equ':
        return ['@equ=%s=%s' % (ln['name'], num(rnd, ln['v']))]
    if k == 'data':
        pre = '%s:' % num(rnd, ln['addr']) if ln['addr'] >= 0 else ''
        return ['@%s=%s%s' % (ln['d'], pre, ','.join(num(rnd, v) for v in ln['vals']))]
    if k == 'bytes':
        return ['@bytes=' + ','.join(num(rnd, v) for v in ln['vals'])]
    if k == 'if':
        # the wrapped directive is written exactly as it would be on a line of its own, without the '@'
        yes = line_text(ln['yes'], rnd)[0][1:]
        no = line_text(ln['no'], rnd)[0][1:] if ln['no']['l'] != 'none' else None
        plain = not any(ch in t for t in (yes, no or '') for ch in ',()')
        if plain and (rnd is None or rnd.random() < 0.6):
            body = '(%s,%s)' % (yes, no) if no is not None else '(%s)' % yes        # the form of asm.rst
        else:
            body = '~~%s~%s~~' % (yes, no) if no is not None else '~~%s~~' % yes
        var = '{vars[v]}' if ln['var'] == 'vars' else '{%s}' % ln['var']
        return ['@if(%s%s%d)%s' % (var, ln['rel'], ln['n'], body)]
    if k == 'gap':
        return ['', '; Entry']
    raise MachineryError('line ' + k)


def render(prog, rnd=None, base=BASE):
    lo, hi = base - 1, base - 1 + PEEK_SPAN
    out = ['@start', '@org', '; Sentinel', ';', '; ~P~#FOR(%d,%d)(n,#PEEKn,.)~E~' % (lo, hi),
           'b%05d DEFB %d' % (base - 1, SENTINEL), '', '; Entry']
    for ln in prog:
        out += line_text(ln, rnd)
    return '\n'.join(out) + '\n'


# ------------------------------------------------------------------ running the real tools
def run_tool(main, args):
    out, err = io.StringIO(), io.StringIO()
    code = 0
    try:
        with contextlib.redirect_stdout(out), contextlib.redirect_stderr(err):
            main(list(args))
    except SystemExit as e:
        code = e.code if isinstance(e.code, int) else (1 if e.code else 0)
    except Exception as e:
        return out.getvalue(), err.getvalue() + '\n%s: %s' % (type(e).__name__, e), 99
    return out.getvalue(), err.getvalue(), code


_WROTE = re.compile(r'start=(\d+), end=(\d+)')


def run_bin(path, outf, am, fm, data):
    from skoolkit import skool2bin
    if os.path.exists(outf):
        os.remove(outf)
    _, err, rc = run_tool(skool2bin.main, bin_flags(am, fm) + (['-d'] if data else []) + [path, outf])
    m = _WROTE.search(err)
    if rc or not m or not os.path.isfile(outf):
        return {'ok': 0, 'start': 0, 'bytes': [], 'err': ('rc=%s %s' % (rc, err.strip()[-300:]))}
    with open(outf, 'rb') as f:
        data = list(f.read())
    return {'ok': 1, 'start': int(m.group(1)), 'bytes': data, 'err': ''}


_PEEK = re.compile(r'~P~(.*?)~E~', re.S)


def peeks_of(text):
    m = _PEEK.search(text)
    if not m:
        return None
    try:
        return [int(x) for x in m.group(1).split('.')]
    except ValueError:
        return None


def run_asm(path, am, fm, vec):
    from skoolkit import skool2asm
    out, err, rc = run_tool(skool2asm.main, ['-q', '-w'] + asm_flags(am, fm) + [o for o in vec if o] + [path])
    if rc:
        return None, 'rc=%s %s' % (rc, err.strip()[-300:])
    return out, ''


def run_html(path, wd):
    from skoolkit import skool2html
    d = os.path.join(wd, 'html')
    shutil.rmtree(d, ignore_errors=True)
    _, err, rc = run_tool(skool2html.main, ['-q', '-w', 'd', '-d', d, path])
    vals = None
    name = os.path.splitext(os.path.basename(path))[0]
    hd = os.path.join(d, name, 'asm')
    if os.path.isdir(hd):
        for fn in os.listdir(hd):
            with open(os.path.join(hd, fn), encoding='utf-8') as f:
                v = peeks_of(html.unescape(f.read()))
            if v is not None:
                vals = v
    shutil.rmtree(d, ignore_errors=True)
    if rc or vals is None:
        return None, 'rc=%s %s' % (rc, err.strip()[-300:])
    return vals, ''


# ------------------------------------------------------------------ the reference resolver
_TOK = re.compile(r'"(?:\\.|[^"\\])*"|\$[0-9A-Fa-f]+|%[01]+|[A-Za-z_][A-Za-z0-9_]*|\d+|.', re.S)
_IDENT = re.compile(r'^[A-Za-z_][A-Za-z0-9_]*$')


def strip_comment(line):
    inq = False
    i = 0
    while i < len(line):
        c = line[i]
        if inq and c == '\\':
            i += 2
            continue
        if c == '"':
            inq = not inq
        elif c == ';' and not inq:
            return line[:i]
        i += 1
    return line


def parse_asm(text):
    items = []
    for line in text.split('\n'):
        s = strip_comment(line).rstrip()
        if not s.strip():
            continue
        if s[0] not in ' \t':
            m = re.match(r'^(\S+)\s+(?:EQU|equ)\s+(.*)$', s)
            if m:
                items.append(('equ', m.group(1), m.group(2).strip()))
            else:
                name = s.strip()
                items.append(('label', name[:-1] if name.endswith(':') else name))
            continue
        op = s.strip()
        m = re.match(r'^(?:ORG|org)\s+(.*)$', op)
        if m:
            items.append(('org', m.group(1).strip()))
        else:
            items.append(('ins', op))
    return items


# ------------------------------------------------------------------ operands evaluated independently of skoolkit's evaluator
# The image that "assembling skool2asm's output" yields must not be computed by the very evaluator skool2bin uses (a defect
# in it would cancel out).  Operands in the unambiguous sub-language  [sign] term {(+|-|*) term},  term = decimal | $hex |
# %binary | "c"  are evaluated here and given to the instruction encoder as plain decimal numbers; anything else (division,
# modulo, parentheses inside an expression, strings, registers) is left to the encoder as it is.
_EV_TOK = re.compile(r'\s*(\$[0-9A-Fa-f]+|%[01]+|\d+|"(?:\\.|[^"\\])"|[+\-*])')


def ev(expr):
    toks, pos = [], 0
    expr = expr.strip()
    while pos < len(expr):
        m = _EV_TOK.match(expr, pos)
        if not m:
            return None
        toks.append(m.group(1))
        pos = m.end()
        while pos < len(expr) and expr[pos].isspace():
            pos += 1
    if not toks:
        return None
    sign = 1
    if toks[0] in '+-' and len(toks) > 1:
        sign = -1 if toks[0] == '-' else 1
        toks = toks[1:]
    if len(toks) % 2 == 0:
        return None
    vals, ops = [], []
    for i, t in enumerate(toks):
        if i % 2:
            if t not in ('+', '-', '*'):
                return None
            ops.append(t)
        elif t[0] == '$':
            vals.append(int(t[1:], 16))
        elif t[0] == '%':
            vals.append(int(t[1:], 2))
        elif t[0] == '"':
            vals.append(ord(t[2] if t[1] == '\\' else t[1]))
        elif t.isdigit():
            vals.append(int(t))
        else:
            return None
    vals[0] *= sign
    # products first
    v2, o2 = [vals[0]], []
    for o, v in zip(ops, vals[1:]):
        if o == '*':
            v2[-1] *= v
        else:
            o2.append(o)
            v2.append(v)
    total = v2[0]
    for o, v in zip(o2, v2[1:]):
        total = total + v if o == '+' else total - v
    return total if 0 <= total < 65536 else None


def split_operands(rest):
    out, cur, q, depth, i = [], '', False, 0, 0
    while i < len(rest):
        c = rest[i]
        if q:
            cur += c
            if c == '\\' and i + 1 < len(rest):
                cur += rest[i + 1]
                i += 1
            elif c == '"':
                q = False
        elif c == '"':
            q = True
            cur += c
        elif c == '(':
            depth += 1
            cur += c
        elif c == ')':
            depth -= 1
            cur += c
        elif c == ',' and depth == 0:
            out.append(cur)
            cur = ''
        else:
            cur += c
        i += 1
    out.append(cur)
    return out


def _outer_parens(o):
    if not (o.startswith('(') and o.endswith(')')):
        return False
    depth = 0
    for i, c in enumerate(o):
        depth += c == '('
        depth -= c == ')'
        if depth == 0 and i < len(o) - 1:
            return False
    return True


def normalise(text):
    """the same statement with every operand of the unambiguous sub-language replaced by its decimal value"""
    op, sp, rest = text.strip().partition(' ')
    if not rest.strip():
        return text
    if '"' in rest and rest.count('"') % 2 and '\\' not in rest:
        return text
    outs = []
    if op.upper() == 'OUT' and re.match(r'\s*\(\s*C\s*\)\s*,', rest, re.I):
        return text         # OUT (C),r / OUT (C),0 have no numeric operand: the 0 is part of the mnemonic, `OUT (C),$00` is no instruction
    for o in split_operands(rest):
        t = o.strip()
        m = re.fullmatch(r'\((I[XY])\s*([+-])(.*)\)', t, re.I)
        if m:
            v = ev(m.group(3))
            outs.append('(%s%s%d)' % (m.group(1), m.group(2), v) if v is not None and v < 256 else t)
        elif _outer_parens(t):
            v = ev(t[1:-1])
            outs.append('(%d)' % v if v is not None else t)
        else:
            v = ev(t)
            outs.append(str(v) if v is not None else t)
    return '%s %s' % (op, ','.join(outs))


def assemble_indep(assembler, text, addr):
    """bytes of one statement: operands by ev(), encoding by the instruction encoder (fallback: the statement as it is)"""
    n = normalise(text)
    data = assembler.assemble(n, addr) if n != text else None
    return data or assembler.assemble(text, addr) or ()


def subst(op, symbols, default=None):
    """replace every identifier that is a symbol by its value (default: the value used while sizes are measured)"""
    out = []
    for m in _TOK.finditer(op):
        t = m.group(0)
        if _IDENT.match(t) and t in symbols:
            v = symbols[t]
            out.append(str(default if v is None else v))
        else:
            out.append(t)
    return ''.join(out)


def number(s):
    s = s.strip()
    try:
        if s.startswith('$'):
            return int(s[1:], 16)
        if s.startswith('%'):
            return int(s[1:], 2)
        return int(s)
    except ValueError:
        return None


def resolve(text, assembler):
    """-> (sorted [addr, byte] pairs, sorted [label, value] pairs, error)"""
    items = parse_asm(text)
    symbols = {it[1]: None for it in items if it[0] in ('equ', 'label')}
    # pass 1: addresses (the size of an instruction does not depend on the value of a symbol)
    addr = None
    for it in items:
        if it[0] == 'org':
            addr = number(it[1])
            if addr is None:
                return [], [], 'bad ORG ' + it[1]
        elif it[0] == 'equ':
            v = number(it[2])
            if v is None:
                return [], [], 'bad EQU ' + it[2]
            symbols[it[1]] = v
        elif addr is None:
            return [], [], 'no ORG before ' + it[1]
        elif it[0] == 'label':
            if symbols[it[1]] is not None:
                return [], [], 'label defined twice: ' + it[1]
            symbols[it[1]] = addr
        else:
            size = len(assemble_indep(assembler, subst(it[1], symbols, addr), addr))
            if not size:
                return [], [], 'cannot assemble %r' % it[1]
            addr += size
    # pass 2: bytes
    mem = {}
    addr = None
    for it in items:
        if it[0] == 'org':
            addr = number(it[1])
        elif it[0] == 'ins':
            data = assemble_indep(assembler, subst(it[1], symbols), addr)
            if not data or any(not 0 <= b < 256 for b in data):
                return [], [], 'cannot assemble %r' % it[1]
            for i, b in enumerate(data):
                mem[addr + i] = int(b)
            addr += len(data)
    return [[a, mem[a]] for a in sorted(mem)], [[k, v] for k, v in sorted(symbols.items())], ''


# ------------------------------------------------------------------ one program -> cases
def has_data(prog):
    return any(ln['l'] == 'data' or (ln['l'] == 'if' and 'data' in (ln['yes']['l'], ln['no']['l'])) for ln in prog)


def observe(prog, key, gen, wd, idx, rnd, modes, vectors, html_too=True, probe=0, base=BASE, text=None):
    """run everything on one abstract file; -> list of cases (one per mode)"""
    cbuild.repo_only()
    from skoolkit.z80 import Assembler
    assembler = Assembler()
    text = text or render(prog, rnd, base)
    path = os.path.join(wd, 'p%d.skool' % idx)
    outf = os.path.join(wd, 'p%d.bin' % idx)
    with open(path, 'w') as f:
        f.write(text)
    dat = has_data(prog)
    hpeek = None
    cases = []
    for am, fm in modes:
        c = {'key': key, 'gen': gen, 'am': am, 'fm': fm, 'base': base, 'prog': prog, 'probe': probe, 'text': text,
             'bin': run_bin(path, outf, am, fm, False)}
        c['bind'] = run_bin(path, outf, am, fm, True) if dat else c['bin']
        c['hasasm'] = 1 if am >= 1 else 0
        c['imgs'], c['vecs'], c['labels'], c['asmerr'] = [], [], [], ''
        c['peek'] = {'have': 0, 'lo': base - 1, 'vals': []}
        c['hpeek'] = {'have': 0, 'lo': base - 1, 'vals': []}
        if am >= 1:
            seen = {}
            for v in vectors:
                out, err = run_asm(path, am, fm, v)
                if out is None:
                    c['vecs'].append([vec_code(v), 0])
                    c['asmerr'] = c['asmerr'] or '%s: %s' % (' '.join(o for o in v if o), err)
                    continue
                img, labels, err = resolve(out, assembler)
                if err:
                    c['vecs'].append([vec_code(v), 0])
                    c['asmerr'] = c['asmerr'] or '%s: %s' % (' '.join(o for o in v if o), err)
                    continue
                k = repr(img)
                if k not in seen:
                    c['imgs'].append(img)
                    seen[k] = len(c['imgs'])
                c['vecs'].append([vec_code(v), seen[k]])
                if v == ('', '', ''):
                    c['labels'] = labels
                    p = peeks_of(out)
                    if p is not None:
                        c['peek'] = {'have': 1, 'lo': base - 1, 'vals': p}
        if (am, fm) == (0, 0) and html_too:
            if hpeek is None:
                hpeek = run_html(path, wd)
            if hpeek[0] is not None:
                c['hpeek'] = {'have': 1, 'lo': base - 1, 'vals': hpeek[0]}
            else:
                c['hpeek'] = {'have': 0, 'lo': base - 1, 'vals': [], 'err': hpeek[1]}
        cases.append(c)
    for p in (path, outf):
        if os.path.exists(p):
            os.remove(p)
    return cases


def sim_worker(args):
    progs, first, sd, wd, modes, vectors = args
    d = os.path.join(wd, 'w%d' % first)
    os.makedirs(d, exist_ok=True)
    cases = []
    for i, prog in enumerate(progs):
        rnd = random.Random(sd * 1000003 + first + i)
        cases += observe(prog, 'sim%d' % (first + i), 'sim', d, i, rnd, modes, vectors)
    shutil.rmtree(d, ignore_errors=True)
    return cases


# ------------------------------------------------------------------ hand-written probes
def T(k, a=0, n=0, t=-1):
    return {'k': k, 'a': a, 'n': n, 't': t}


def I(ctl, addr, tok):
    return {'l': 'ins', 'ctl': ctl, 'addr': addr, 'tok': tok}


def S(kind, tok=None, pre=0, ovw=0, app=0, fin=0, lab=''):
    return {'l': 'sub', 'kind': kind, 'pre': pre, 'ovw': ovw, 'app': app, 'fin': fin, 'lab': lab,
            'has': 1 if tok else 0, 'tok': tok or T('none')}


ORG = {'l': 'org', 'v': -1}
# Input classes the generators stay away from for the #PEEK clause because the unchanged tree fails on them
# (reported to the lead); each is one documented example of asm.rst, judged with the #PEEK clause forced on.
PROBES = [
    # @bfix=|LD A,1 over XOR A / INC A: the overwritten INC A is still assembled into the snapshot
    ('probe:peek:overwritten-still-assembled', (1, 2),
     [ORG, S('bfix', T('ld8', 1), ovw=1), I('c', BASE, T('one', 1)), I(' ', BASE + 1, T('one', 2)), I(' ', BASE + 2, T('one', 3))]),
    # @bfix=|LD A,7 / @bfix=|INC A over LD HL,n: the second instruction of the chain never reaches the snapshot
    ('probe:peek:overwrite-chain-not-assembled', (1, 2),
     [ORG, S('bfix', T('ld8', 7), ovw=1), S('bfix', T('one', 2), ovw=1), I('c', BASE, T('ldhl', t=BASE + 4096)),
      I(' ', BASE + 3, T('one', 3))]),
    # @ofix-begin / CALL x / @ofix+else / CALL y (no address) / @ofix+end: the replacement never reaches the snapshot
    ('probe:peek:addressless-not-assembled', (1, 1),
     [ORG, I('c', BASE, T('one', 1)), {'l': 'blk', 'kind': 'ofix', 'plus': 0, 'part': 'begin'},
      I(' ', BASE + 1, T('call', t=BASE + 4096)), {'l': 'blk', 'kind': 'ofix', 'plus': 1, 'part': 'else'},
      I(' ', -1, T('call', t=BASE + 4097)), {'l': 'blk', 'kind': 'ofix', 'plus': 1, 'part': 'end'}, I(' ', BASE + 4, T('one', 3))]),
    # @ssub=|LD A,1 / @ssub=|LD B,2 / @ssub=!40003 over LD HL,0 / RET: ! names the address where the second instruction of the
    # overwrite chain is placed; skool2asm -s drops LD B,2 and the RET it overwrites, skool2bin -s keeps LD B,2
    # (judged by asm-image-vs-bin although the model files the class under the note remove-of-inserted)
    ('probe:remove-of-inserted:asm-vs-bin', (2, 0),
     [ORG, I('c', BASE, T('one', 1)), S('ssub', T('ld8', 1), ovw=1),
      S('ssub', {'k': 'raw', 'a': 0, 'n': 2, 't': -1, 'bs': [6, 2], 'refs': [], 'text': 'LD B,2'}, ovw=1),
      {'l': 'rem', 'kind': 'ssub', 'a1': BASE + 3, 'a2': BASE + 3}, I(' ', BASE + 1, T('ldhl', t=0)), I(' ', BASE + 4, T('one', 3))]),
    # regression (fixed in 14ba596): pending @defb + an appended instruction made skool2asm raise TypeError
    ('probe:tool-error:skool2asm:data-directive-after-append', (1, 0),
     [ORG, {'l': 'data', 'd': 'defb', 'addr': -1, 'vals': [1, 2]}, S('isub', T('one', 2), app=1), I('c', BASE, T('one', 1)),
      I(' ', BASE + 1, T('one', 3))]),
    # regression (fixed in 9725ad3): a label on an address-less inserted instruction made AsmWriter raise TypeError
    ('probe:tool-error:skool2asm:label-on-addressless-instruction', (1, 0),
     [ORG, S('isub', T('one', 1), pre=1, lab='START'), {'l': 'lab', 'name': 'NEXT'}, I('c', BASE, T('one', 2)),
      I('*', BASE + 1, T('one', 3))]),
    # regression (fixed in dfc0c5d): -H rewrote the 0 of OUT (C),0 (part of the instruction, like the 7 of BIT 7,A) to $00
    ('probe:asm-error:hex:out-c-0', (1, 0),
     [ORG, I('c', BASE, {'k': 'raw', 'a': 0, 'n': 2, 't': -1, 'bs': [237, 113], 'refs': [], 'text': 'OUT (C),0'}),
      I(' ', BASE + 2, T('one', 3))]),
]


def probe_cases(wd):
    d = os.path.join(wd, 'probes')
    os.makedirs(d, exist_ok=True)
    cases = []
    for i, (key, mode, prog) in enumerate(PROBES):
        cases += observe(prog, key, 'probe', d, i, None, [mode], [('', '', ''), ('', '', '-c'), ('-H', '', '')], html_too=False, probe=1)
    shutil.rmtree(d, ignore_errors=True)
    return cases


# ------------------------------------------------------------------ second generator: all instruction forms
# Random files over every instruction form the disassembler can print plus hand-spelt operands (characters,
# strings, expressions, binary, every base, padded numbers), operands that are addresses of other instructions
# or merely equal to one, with @label / @keep / @nowarn / @equ and same-size @*sub/@*fix replacements. The layout is
# trivial (stationary); what is judged is that base / case / -c / labels never change the assembled image.
CTLS = 'bcgstuw'
G2_BASES = (100, 16384, 40000, 65300)
W_FORMS = ('LD HL,{}', 'LD BC,{}', 'LD ({}),HL', 'LD A,({})', 'JP {}', 'CALL {}', 'JP NZ,{}', 'LD IX,{}', 'LD SP,{}',
           'LD ({}),DE', 'LD DE,({})', 'LD ({}),A', 'CALL C,{}', 'LD IY,({})', 'DEFW {}', 'DEFW {},{}')
B_FORMS = ('LD A,{}', 'LD B,{}', 'ADD A,{}', 'CP {}', 'XOR {}', 'OUT ({}),A', 'IN A,({})', 'LD (HL),{}', 'LD IXh,{}', 'SUB {}',
           'AND {}', 'SBC A,{}', 'LD L,{}', 'DEFB {}', 'DEFB {},{}', 'DEFM {}', 'LD (IX+{}),{}', 'BIT 7,(IY+{})',
           'SET 0,(IX-{})', 'LD (IY-{}),{}', 'RES 3,(IX+{}),B')
FIXED = ('BIT 7,A', 'RES 0,(HL)', 'SET 3,B', 'IM 0', 'IM 1', 'IM 2', 'RST 0', 'RST 8', 'RST 56', 'RST $38', 'RST 16', 'OUT (C),0',
         'IN F,(C)', 'EX AF,AF\'', 'LD A,"1"', 'LD A,"$"', 'CP "%"', 'DEFM "10 $20 %11"', 'DEFB "1,2",3', 'DEFM "a;b",";"',
         'DEFB %101,%11', 'DEFB 5%3', 'DEFB 7/2,3*4', 'LD A,%1010+1', 'DEFB "\\"",1', 'DEFM "a\\\\",0', 'DEFS 3', 'DEFS 2,$FF',
         'DEFS %11,"x"', 'LD A,(IX+0)', 'LD B,(IY-128)', 'LD (IX+127),255', 'DEFB 1-1,2-1', 'DEFW 65535,0', 'LD A,-1', 'LD BC,-1',
         'DEFB -1', 'DEFB "a"+128', 'SLL (IX+5),C', 'DEFM "Ab Cd"', 'DEFB "H","l"', 'LD A,I', 'ADD IX,IX', 'JP (HL)', 'LD IXl,IXh',
         'LD A," "', 'CP ","', 'LD A,";"', 'DEFB ";",";"', 'DEFM "-1"', 'LD A,"("', 'LD A,(IX+"a")', 'DEFB "$"+1', 'LD (IX+$0A),$0B',
         'DEFW "a"', 'DEFW %1111111100000000', 'LD HL,"a"*256', 'DEFB 1, 2 ,3', 'DEFB  5', 'DEFM "(1)",1', 'DEFB "1","2",3',
         'LD B,"0"+1', 'DEFB 10/3,10%3', 'DEFW 1+2*3', 'DEFB (1+2)*3', 'LD A,(1+2)', 'LD A,+1', 'DEFB +7', 'AND %11110000',
         'OR "a"', 'RST %1000', 'IN A,($FE)', 'OUT (254),A', 'IM  1', 'BIT  7 , A', 'ld ixl,$1f', 'defm "MiXed"', 'DEFB $aB,$Cd',
         'LD DE,$abcd', 'JP $0008', 'CALL 56', 'DEFS 4,%101', 'DEFS $02', 'DEFB "a"-"A"', 'LD (IY+%101),1', 'BIT 0,(IX+"1")',
         'DEFM "Hi"," "+128', 'DEFB " "+1', 'DEFS 2," "+$80', 'LD A," "+1', 'DEFW " "*256', 'DEFB "a" + 1', 'DEFM "a b"," "', 'CP " "+%1',
         'DEFB ","+1,","', 'DEFB ";"+1', 'LD HL,"("*2', 'DEFB "\\\\"+1',
         # a string / character that ends with an escaped backslash, followed by constants whose case matters
         'DEFM "C:\\\\","Hi"', 'DEFB "\\\\","a"', 'LD (IX+"\\\\"),"a"', 'DEFM "a\\\\b","Cd","\\"e\\""', 'DEFB "\\\\"+1,"z"',
         'DEFM "\\\\\\\\","Q"', 'DEFW "\\\\","k"')


# Operands that are not plain numbers but look like numbers, or that base / case conversion treats specially. Together
# with FIXED this is the catalogue: every entry is dealt out to a file of each run (see g2_program's `must`), so that it meets
# all 18 option vectors whatever the seed.
SPECIAL = ('OUT (C),0', 'out (c),0', 'OUT (C), 0', 'OUT (C),A', 'IN F,(C)', 'in f,(c)', 'IN A,(C)', 'OUT (0),A', 'IN A,(0)',
           'LD A,0', 'LD (HL),0', 'LD C,0', 'RST 0', 'RST 8', 'RST 16', 'RST 24', 'RST 32', 'RST 40', 'RST 48', 'RST 56',
           'RST $00', 'RST $08', 'RST $10', 'RST $18', 'RST $20', 'RST $28', 'RST $30', 'RST $38', 'rst 40', 'rst $28',
           'RST %110000', 'IM 0', 'IM 1', 'IM 2', 'im 0', 'im 1', 'im 2',
           'BIT 0,B', 'BIT 1,C', 'BIT 2,D', 'BIT 3,E', 'BIT 4,H', 'BIT 5,L', 'BIT 6,(HL)', 'BIT 7,A', 'bit 3,a',
           'SET 0,A', 'SET 1,(HL)', 'SET 2,L', 'SET 3,H', 'SET 4,E', 'SET 5,D', 'SET 6,C', 'SET 7,B', 'set 6,(hl)',
           'RES 0,C', 'RES 1,B', 'RES 2,A', 'RES 3,(HL)', 'RES 4,L', 'RES 5,H', 'RES 6,E', 'RES 7,D', 'res 1,e',
           'BIT 0,(IX+0)', 'BIT 1,(IX-1)', 'BIT 7,(IY+0)', 'SET 2,(IY-128)', 'RES 7,(IX+127)', 'bit 6,(iy+$10)',
           'SET 1,(IX+2),B', 'RES 0,(IY-3),A', 'SET 7,(IY+0),L', 'RES 6,(IX-$7F),H', 'set 3,(ix+%101),c', 'SET 0,(IX+0),D',
           'RLC (IX+1),D', 'RR (IY-1),E', 'SLA (IX+0),H', 'SRL (IY+127),A', 'RL (IX-2),B', 'SRA (IY+$05),C', 'rrc (ix-7),l',
           'SLL B', 'SLL (HL)', 'SLL A', 'sll l', 'SLL (IX+0)', 'SLL (IY-2)', 'sll (iy-2),d', 'SLL (IX+$0F),E',
           "EX AF,AF'", "ex af,af'", "EX AF, AF'", 'EX (SP),HL', 'EX (SP),IX', 'JP (HL)', 'JP (IX)', 'JP (IY)', 'jp (hl)', 'jp (iy)',
           'LD A,(IX-1)', 'LD (IY-128),0', 'LD (IX+0),0', 'ADD A,(IY-5)', 'INC (IX-$10)', 'DEC (IY+%11)', 'LD (IX-1),-1',
           'LD H,(IX+$7F)', 'ld (iy-$0a),$0b', 'SUB (IX-0)', 'LD (IY+0),"0"', 'CP (IX-"a")', 'LD L,(IY+1+1)', 'LD (IX+2*3),2*2',
           'DEFB 0,"0",$0,%0', 'DEFM "OUT (C),0",0', 'DEFW 0,$0,%0,"0"', 'DEFS 2,0', 'DEFB 1,"a",$2,%11,"b"+1', 'DEFW 1,"a",$2,%11',
           'DEFM "ab",1,$2,%11,"c"', 'DEFS 1+1,"a"', 'DEFS $3,%1', 'DEFB 2*3+1,"a"-1,$10-%1', 'DEFW $100*2+"a"', 'LD A,2*3+1',
           'LD HL,$100+%11-1', 'defb 1,"A",$fF,%10,"b"', 'defw $AbCd,"Q",%1', 'defm "Ab",$cD', 'defs 2,"Z"', 'DEFB "IM 1",1',
           'DEFM "RST 8","BIT 7,A"', 'DEFB "$FF","%1"', 'DEFW 256*"A"+"b"', 'DEFB 255,$FF,%11111111,"~"', 'DEFM 72,"i",$21',
           'DEFS %100,$AA', 'DEFS 10-7,5*5', 'LD BC,"a"+$100', 'LD DE,%1+2*$3', 'AND "a"-%1', 'XOR 2*"!"', 'LD (IX+$1),"a"+%1')
CATALOGUE = tuple(dict.fromkeys(FIXED + SPECIAL))


def deal(j, nfiles):
    """the catalogue entries that file j of nfiles must contain: every entry is in some file, every file has at least one"""
    n = len(CATALOGUE)
    idx = list(range(j, n, nfiles)) or [j % n]
    return [CATALOGUE[i] for i in idx]


def respell(rnd, text):
    """the statement in another case / spacing (string and character constants untouched); every fourth stays as it is"""
    k = rnd.randrange(8)
    if k == 0:
        text = lower_outside_quotes(text)
    elif k == 1:
        parts = re.split(r'("(?:\\.|[^"\\])*")', text)
        text = ''.join(p if p.startswith('"') else p.upper() for p in parts)
    elif k == 2:
        op, sep, rest = text.partition(' ')
        text = op + sep + ' ' + rest if sep else text
    return text


def spell(rnd, v):
    k = rnd.randrange(8)
    pad = '0' * rnd.randrange(3)
    if k == 0 or v < 0:
        return pad + str(v) if v >= 0 else str(v)
    if k == 1:
        return '$' + pad + ('%X' if rnd.random() < 0.6 else '%x') % v
    if k == 2 and v < 4096:
        return '%' + pad + bin(v)[2:]
    if k == 3 and 32 <= v < 127 and chr(v) not in '"\\':
        return '"%s"' % chr(v)
    if k == 4 and v > 3:
        x = rnd.randrange(1, v)
        return '%s+%s' % (spell(rnd, x), spell(rnd, v - x))
    if k == 5 and v > 0:
        x = rnd.randrange(v + 1, v + 300)
        return '%d-%s' % (x, spell(rnd, x - v))
    if k == 6 and v % 2 == 0 and v:
        return '%d*2' % (v // 2)
    return '$%04X' % v if rnd.random() < 0.3 else str(v)


def lower_outside_quotes(text):
    parts = re.split(r'("(?:\\.|[^"\\])*")', text)
    return ''.join(p if p.startswith('"') else p.lower() for p in parts)


class G2:
    def __init__(self, rnd, assembler):
        self.rnd = rnd
        self.asm = assembler
        from skoolkit.disassembler import Disassembler
        from .asmdrv import _cfg, ALL_OPTS
        from . import simdrv
        self.slots = simdrv.slots()
        self.mem = [0] * 65536
        self.dis = lambda hexa, lower: Disassembler(self.mem, _cfg(hexa, lower, ALL_OPTS))

    def word(self, addrs, here):
        r = self.rnd.random()
        if r < 0.45 and addrs:
            return self.rnd.choice(addrs)                       # the address of an instruction
        if r < 0.6 and addrs:
            return self.rnd.choice(addrs) + self.rnd.choice((1, -1, 2))   # next to one
        if r < 0.7:
            return self.rnd.choice((0, 1, 255, 256, 16384, 32768, 65535, 23296))
        return self.rnd.randrange(65536)

    def byte(self, addrs):
        small = [a for a in addrs if a < 256]
        if small and self.rnd.random() < 0.5:
            return self.rnd.choice(small)
        return self.rnd.choice((0, 1, 7, 8, 9, 10, 16, 32, 34, 92, 127, 128, 255, self.rnd.randrange(256)))

    def disassembled(self, at, addrs):
        """one instruction as the disassembler prints it for random bytes at `at` (operand: often an instruction address)"""
        rnd = self.rnd
        lead, name = rnd.choice(self.slots)
        ins = [rnd.randrange(256) if b is None else b for b in lead]
        w = self.word(addrs, at)
        ins += [w % 256, w // 256] if rnd.random() < 0.7 else [rnd.randrange(256), rnd.randrange(256)]
        if lead[0] in (0x10, 0x18, 0x20, 0x28, 0x30, 0x38) and len(lead) == 1:
            near = [a for a in addrs if -126 <= a - at - 2 <= 127]
            ins[1] = ((rnd.choice(near) - at - 2) % 256) if near and rnd.random() < 0.8 else rnd.choice((0, 1, 254, 5, 250))
        for k, b in enumerate(ins):
            self.mem[(at + k) % 65536] = b
        b1 = rnd.choice('nnnbcdhm')
        base = b1 if rnd.random() < 0.8 else b1 + rnd.choice('nbcdhm')
        try:
            i = self.dis(rnd.random() < 0.4, rnd.random() < 0.3).disassemble(at, at + 1, base)[0]
            return i.operation
        finally:
            for k in range(len(ins)):
                self.mem[(at + k) % 65536] = 0

    def spelt(self, at, addrs):
        rnd = self.rnd
        r = rnd.random()
        if r < 0.3:
            text = rnd.choice(FIXED)
        elif r < 0.65:
            f = rnd.choice(W_FORMS)
            text = f.format(*[spell(rnd, self.word(addrs, at)) for _ in range(f.count('{}'))])
        else:
            f = rnd.choice(B_FORMS)
            vals = []
            for _ in range(f.count('{}')):
                v = self.byte(addrs)
                vals.append(spell(rnd, v if 'I' not in f or '(I' not in f else v % 128))
            text = f.format(*vals)
        if rnd.random() < 0.25:
            text = lower_outside_quotes(text)
        if rnd.random() < 0.15:
            text = text.replace(',', ', ')
        return text

    def token(self, at, addrs, size=None):
        """a raw token that assembles at `at` (to `size` bytes if given)"""
        for _ in range(60):
            text = self.disassembled(at, addrs) if self.rnd.random() < 0.5 else self.spelt(at, addrs)
            if '"' in text and text.count('"') % 2:
                continue
            data = assemble_indep(self.asm, text, at)
            if not data or any(not 0 <= b < 256 for b in data):
                continue
            if at + len(data) > 65536 or (size is not None and len(data) != size):
                continue
            if text.upper().startswith(('JR ', 'DJNZ ')) and number_in(text) is None:
                continue
            return {'k': 'raw', 'a': 0, 'n': len(data), 't': -1, 'bs': [int(b) for b in data], 'refs': [], 'text': text}
        data = [0] * (size or 1)
        return {'k': 'raw', 'a': 0, 'n': len(data), 't': -1, 'bs': data, 'refs': [], 'text': 'DEFS %d' % len(data)}


def number_in(text):
    m = re.search(r'(\$[0-9A-Fa-f]+|\d+)', text)
    return m.group(1) if m else None


def g2_program(rnd, assembler, base, must=()):
    """`must`: statements (free of instruction addresses) that the file contains as instruction lines of their own, without a
    replacement by directive or block, whatever else is drawn"""
    g = G2(rnd, assembler)
    nent = rnd.randrange(1, 4)
    sizes = [[rnd.choice((1, 1, 2, 2, 3, 3, 4)) for _ in range(rnd.randrange(2, 7))] for _ in range(nent)]
    forced = {}
    for text in must:
        data = assemble_indep(assembler, text, base)
        if not data or any(not 0 <= b < 256 for b in data):
            raise MachineryError('catalogue statement does not assemble: %r' % text)
        free = [(ei, ii) for ei, e in enumerate(sizes) for ii in range(len(e)) if (ei, ii) not in forced]
        if not free:
            sizes[-1].append(1)
            free = [(len(sizes) - 1, len(sizes[-1]) - 1)]
        ei, ii = rnd.choice(free)
        sizes[ei][ii] = len(data)
        forced[(ei, ii)] = {'k': 'raw', 'a': 0, 'n': len(data), 't': -1, 'bs': [int(b) for b in data], 'refs': [],
                            'text': respell(rnd, text), 'cat': text}
    addrs, a = [], base
    for e in sizes:
        for s in e:
            addrs.append(a)
            a += s
    prog = [{'l': 'org', 'v': -1}]
    nlab = 0
    equs = []
    k = 0
    for ei, e in enumerate(sizes):
        if ei:
            prog.append({'l': 'gap'})
        for ii, s in enumerate(e):
            at = addrs[k]
            k += 1
            must_tok = forced.get((ei, ii))
            tok = must_tok or g.token(at, addrs, s)
            if rnd.random() < 0.35:
                prog.append({'l': 'lab', 'name': rnd.choice(('LB%d', 'Loop%d', 'data_%d', 'x%d')) % nlab})
                nlab += 1
            if rnd.random() < 0.1:
                prog.append({'l': 'keep', 'vals': [rnd.choice(addrs)] if rnd.random() < 0.4 else []})
            if rnd.random() < 0.1:
                prog.append({'l': 'nowarn'})
            if rnd.random() < 0.12 and not must_tok:
                kind = rnd.choice(('isub', 'ssub', 'rsub', 'ofix', 'bfix', 'rfix'))
                prog.append(S(kind, g.token(at, addrs, s), fin=rnd.randrange(2), lab='SUB%d' % nlab if rnd.random() < 0.3 else ''))
                nlab += 1
            ctl = rnd.choice(CTLS) if ii == 0 else rnd.choice('  *')
            line = I(ctl, at, tok)
            if ii and rnd.random() < 0.1 and not must_tok:
                kind = rnd.choice(('isub', 'ssub', 'rsub', 'ofix', 'bfix', 'rfix'))
                prog += [{'l': 'blk', 'kind': kind, 'plus': 0, 'part': 'begin'}, line,
                         {'l': 'blk', 'kind': kind, 'plus': 1, 'part': 'else'}, I(' ', at, g.token(at, addrs, s)),
                         {'l': 'blk', 'kind': kind, 'plus': 1, 'part': 'end'}]
            else:
                prog.append(line)
    # @equ for a few operand values that are not instruction addresses
    cand = sorted({v for ln in prog if ln['l'] == 'ins' for v in operand_values(ln['tok']['text']) if v not in addrs})
    rnd.shuffle(cand)
    for j, v in enumerate(cand[:rnd.randrange(0, 3)]):
        prog.insert(1, {'l': 'equ', 'name': 'EQ%d' % j, 'v': v})
    for ln in prog:
        for t in ([ln.get('tok')] if ln['l'] in ('ins', 'sub') else []):
            if t and t['k'] == 'raw':
                t['refs'] = [v for v in operand_values(t['text']) if v in addrs]
    return prog


_OPNUM = re.compile(r'(?<![A-Za-z0-9_$%"])(\$[0-9A-Fa-f]+|%[01]+|\d+)')


def operand_values(text):
    out = []
    body = re.sub(r'"(?:\\.|[^"\\])*"', '""', text)
    for m in _OPNUM.finditer(body.partition(' ')[2]):
        v = number(m.group(1))
        if v is not None and v < 65536:
            out.append(v)
    return out


def g2_worker(args):
    n, first, sd, wd, vectors = args[:5]
    musts = args[5] if len(args) > 5 else [()] * n
    cbuild.repo_only()
    from skoolkit.z80 import Assembler
    assembler = Assembler()
    d = os.path.join(wd, 'g%d' % first)
    os.makedirs(d, exist_ok=True)
    cases = []
    for i in range(n):
        rnd = random.Random(sd * 7000003 + first + i)
        base = rnd.choice(G2_BASES)
        prog = g2_program(rnd, assembler, base, musts[i])
        modes = [(1, 0)] + rnd.sample([m for m in BIN_MODES if m[0] >= 1 and m != (1, 0)], 2) + [(0, 0)]
        cases += observe(prog, 'g2.%d' % (first + i), 'g2', d, i, None, modes, vectors, base=base)
    shutil.rmtree(d, ignore_errors=True)
    return cases
