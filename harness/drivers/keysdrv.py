"""E05 driver: simulated key presses (skoolkit/kbtracer.py; tap2sna.py `-c load=...` and `--press N:KEYS`).

Generates key specifications, programs that read ports, and tapes; drives the real code; projects what it observed into the
records judged by spec/keys/KeyCases.tla (single observations) and spec/keys/KeyTrace.tla (step-by-step traces).

  sched  KeyboardTracer(simulator, words, delay, None) constructed as tap2sna does -> its schedule (`keys`)
  plist  KeypressTracer(simulator, keys, ...) constructed as tap2sna does -> its list of (half-row mask, value)
  load   KeyboardTracer.run on a real simulator (Simulator, CSimulator, CMIOSimulator, CCMIOSimulator) executing a generated
         straight-line program: EI+HALT (one accepted frame interrupt) and IN A,(n) / IN r,(C) / INI reads whose values it stores
  scan   the same with a program that reads all eight half-rows after every interrupt, as the ROM does
  press  KeypressTracer.run likewise (the run ends when the last key has been read)
  plan   tap2sna.main with -c load=... (48K and 128K) up to the construction/start of the keyboard tracer (a recording subclass
         is put in place of tap2sna.KeyboardTracer: words, delay, stop address)
  line   tap2sna.main end to end on the real 48K ROM: the `load` keys are typed into the ROM's editor, the simulation stops
         when ENTER has been accepted; the edit line is read from the snapshot
  pe2e   tap2sna.main end to end with --press on a generated tape: a bin2tap program that waits with interrupts disabled until
         the tape has reached the block(s) named by --press, reads ports and stores what it reads; projected from the snapshot

Characters go to TLC as one-character strings (non-ASCII: "U+00A3").  The vocabulary used by the generators is exported from
the specification itself (KeyVocab.tla), so that the tables exist in one place only.
"""
import json
import os
import random

from ..lib import cbuild, tlc
from ..lib.common import MachineryError
from . import pipedrv, snapfile, tapedrv

FRAME = 69888
ORG = 0x8000
BUF = 0xC000
ROW_PORTS = [0xFEFE, 0xFDFE, 0xFBFE, 0xF7FE, 0xEFFE, 0xDFFE, 0xBFFE, 0x7FFE]
EDITOR_RETURN = 0x12B4      # MAIN-2: the instruction after CALL EDITOR (ENTER has been accepted)
LINE_SCAN = 0x1B17          # where that instruction (CALL LINE-SCAN) leads
SIMS = ('Simulator', 'CSimulator', 'CMIOSimulator', 'CCMIOSimulator')
CORRUPT = os.environ.get('VERIF_E05_CORRUPT', '')    # binding demonstration only: corrupt one projected field


def ch(c):
    return c if 32 <= ord(c) < 127 else 'U+%04X' % ord(c)


def chars(s):
    return [ch(c) for c in s]


def unch(c):
    return chr(int(c[2:], 16)) if len(c) > 1 else c


# ---------------------------------------------------------------------------------------------------- vocabulary (from the spec)
def vocabulary(wd):
    out = os.path.join(wd, 'vocab.json')
    r = tlc.run(os.path.join(tlc.SPEC, 'keys'), 'KeyVocab', 'KeyVocab.cfg', env={'VOCAB_OUT': out}, workers=1, timeout=120, tag='KeyVocab')
    if not os.path.isfile(out):
        raise MachineryError('KeyVocab did not write the vocabulary\n' + r.out[-2000:])
    with open(out) as f:
        v = json.load(f)
    V = {k: [unch(x) if x.startswith('U+') else x for x in vals] for k, vals in v.items() if k != 'rows'}
    V['rows'] = v['rows']
    V['keys'] = [k for row in v['rows'] for k in row]
    if len(V['keys']) != 40 or len(V['keyword']) != 26 or len(V['tokens']) != 91:
        raise MachineryError('vocabulary export has an unexpected shape')
    V['symchars'] = [s for s in V['symletter'] + V['symdigit'] if len(s) == 1]
    V['symwords'] = [s for s in V['symletter'] + V['symdigit'] if len(s) > 1]
    V['emode'] = V['eabove'] + V['ebelowl'] + V['ebelowd']
    V['all'] = V['keys'] + ['DOWN'] + V['uppers'] + V['keyword'] + V['symletter'] + V['symdigit'] + V['emode']
    V['rowof'] = {k: r for r, row in enumerate(v['rows']) for k in row}
    return V


# ---------------------------------------------------------------------------------------------------- real code, in-process
def _skool():
    cbuild.preload()
    import skoolkit  # noqa: F401


_sim0 = None


def _plain_sim():
    global _sim0
    if _sim0 is None:
        _skool()
        from skoolkit import CSimulator
        _sim0 = CSimulator([0] * 65536)
    return _sim0


def observe_sched(words, delay):
    _skool()
    from skoolkit import SkoolKitError
    from skoolkit.kbtracer import KeyboardTracer
    case = {'kind': 'sched', 'words': [chars(w) for w in words], 'delay': delay, 'err': '', 'slots': [], 'raw': list(words),
            'gen': {'words': list(words), 'delay': delay}}
    try:
        tr = KeyboardTracer(_plain_sim(), list(words), delay, None)
    except SkoolKitError as e:
        case['err'] = 'SkoolKitError: %s' % e
        return case
    except Exception as e:
        case['err'] = '%s: %s' % (type(e).__name__, e)
        return case
    case['slots'] = [sorted([int(p), int(v)] for p, v in kb.items()) for kb in tr.keys]
    if CORRUPT == 'sched' and case['slots']:
        for s in case['slots']:
            if s:
                s[0][1] ^= 0x01 if s[0][1] & 0x1E != 0x1E else 0x03
                break
    return case


def observe_plist(words):
    _skool()
    from skoolkit import SkoolKitError
    from skoolkit.kbtracer import KeypressTracer
    case = {'kind': 'plist', 'words': [chars(w) for w in words], 'err': '', 'keys': [], 'raw': list(words), 'gen': {'words': list(words)}}
    try:
        tr = KeypressTracer(_plain_sim(), list(words), 7, 0, 0, [0] * 16, 0, None)
    except SkoolKitError as e:
        case['err'] = 'SkoolKitError: %s' % e
        return case
    except Exception as e:
        case['err'] = '%s: %s' % (type(e).__name__, e)
        return case
    case['keys'] = [[int(m), int(b)] for m, b in tr.keys]
    return case


# ---------------------------------------------------------------------------------------------------- programs
IN_R = {'A': 0x78, 'B': 0x40, 'C': 0x48, 'D': 0x50, 'E': 0x58, 'H': 0x60, 'L': 0x68}
LD_A_R = {'A': None, 'B': 0x78, 'C': 0x79, 'D': 0x7A, 'E': 0x7B, 'H': 0x7C, 'L': 0x7D}
REG_IDX = {'A': 0, 'B': 2, 'C': 3, 'D': 4, 'E': 5, 'H': 6, 'L': 7}


def assemble(steps, org=ORG, buf=BUF, prologue=(0xF3,), epilogue=(0x18, 0xFE)):
    """steps: ('f',) | ('r', port, form) | ('d', outer) delay | ('g', n) marker (no code).
    Returns code, stop address (of the epilogue), per-step (in_end address, form, buffer address) for reads."""
    code = list(prologue)
    info = []
    i = 0
    for st in steps:
        if st[0] == 'f':
            code += [0xFB, 0x76]                                   # EI: HALT
            info.append(None)
        elif st[0] == 'g':
            info.append(None)
        elif st[0] == 'd':
            n = st[1]
            # LD DE,n: loop: LD B,0: DJNZ $: DEC DE: LD A,D: OR E: JR NZ,loop   (3355 T-states per outer iteration)
            code += [0x11, n % 256, n // 256, 0x06, 0x00, 0x10, 0xFE, 0x1B, 0x7A, 0xB3, 0x20, 0xF8]
            info.append(None)
        else:
            port, form = st[1], st[2]
            a = buf + i
            if form == 'an':
                code += [0x3E, port // 256, 0xDB, port % 256]      # LD A,hi: IN A,(lo)
                end = org + len(code)
                code += [0x32, a % 256, a // 256]
            elif form == 'ini':
                code += [0x01, port % 256, port // 256, 0x21, a % 256, a // 256, 0xED, 0xA2]   # LD BC,port: LD HL,a: INI
                end = org + len(code)
            else:
                r = form[2]
                code += [0x01, port % 256, port // 256, 0xED, IN_R[r]]
                end = org + len(code)
                if LD_A_R[r] is not None:
                    code += [LD_A_R[r]]
                code += [0x32, a % 256, a // 256]
            info.append((end, form, a))
            i += 1
    stop = org + len(code)
    code += list(epilogue)
    return code, stop, info


DELAY_T = 3355      # T-states per outer iteration of the delay loop (measured; used only to size delays generously)


def _mk_sim(simname, code, t0):
    from skoolkit import CSimulator, CCMIOSimulator
    from skoolkit.simulator import Simulator
    from skoolkit.cmiosimulator import CMIOSimulator
    from skoolkit.simutils import from_memory
    cls = {'Simulator': Simulator, 'CSimulator': CSimulator, 'CMIOSimulator': CMIOSimulator, 'CCMIOSimulator': CCMIOSimulator}[simname]
    mem = [0] * 65536
    mem[0x38] = 0xC9                                               # IM 1 handler: RET (interrupts stay disabled)
    mem[ORG:ORG + len(code)] = code
    return from_memory(cls, mem, {'PC': ORG, 'SP': 0xFF00}, {'im': 1, 'iff': 0, 'tstates': t0}, {'fast_djnz': False, 'fast_ldir': False})


def _collect(sim, steps, info, upto_pc=None):
    """Values of the reads executed. If the run ended right after an IN (before its store), take the value where it is."""
    mem = sim.memory
    regs = sim.registers
    pc = regs[24]
    obs = []
    n = len(steps)
    for k, st in enumerate(steps):
        inf = info[k]
        if inf is None:
            obs.append(0)
            continue
        end, form, a = inf
        if upto_pc is not None and pc == end and form != 'ini':
            r = 'A' if form == 'an' else form[2]
            obs.append(int(regs[REG_IDX[r]]))
            n = k + 1
            break
        if upto_pc is not None and pc == end and form == 'ini':
            obs.append(int(mem[a]))
            n = k + 1
            break
        obs.append(int(mem[a]))
    return obs[:n], n


def run_load_trace(tr):
    """tr: {'words', 'delay', 'steps', 'sim', 't0'} -> trace record for KeyTrace (kind load)."""
    _skool()
    from skoolkit.kbtracer import KeyboardTracer
    steps = [tuple(s) for s in tr['steps']]
    code, stop, info = assemble(steps, epilogue=(0x00,))
    sim = _mk_sim(tr['sim'], code, tr['t0'])
    tracer = KeyboardTracer(sim, list(tr['words']), tr['delay'], None)
    sim.set_tracer(tracer)
    nf = sum(1 for s in steps if s[0] == 'f')
    timeout = tr['t0'] + (nf + 2) * FRAME + len(steps) * 200
    tracer.run(stop, timeout, None, None, None, None, None)
    if sim.registers[24] != stop:
        raise MachineryError('E05 load trace did not reach its end: PC=%d stop=%d T=%d' % (sim.registers[24], stop, sim.registers[25]))
    obs, n = _collect(sim, steps, info)
    if CORRUPT == 'load':
        for k, st in enumerate(steps):
            if st[0] == 'r' and obs[k] != 255:
                obs[k] = 255
                break
    return {'kind': 'load', 'words': [chars(w) for w in tr['words']], 'delay': tr['delay'], 'groups': [],
            'steps': [[s[0], s[1] if len(s) > 1 else 0] for s in steps], 'obs': obs, 'ended': 'stopped', 'left': len(tracer.keys),
            'resumed': 0, 'sim': tr['sim'], 'raw': list(tr['words']), 'forms': [s[2] if s[0] == 'r' else '' for s in steps], 'style': tr['style'],
            't0': tr['t0'], 'gen': {'words': list(tr['words']), 'delay': tr['delay'], 'steps': [list(s) for s in steps], 'sim': tr['sim'],
                                   't0': tr['t0'], 'style': tr['style']}}


def run_press_trace(tr):
    _skool()
    from skoolkit.kbtracer import KeypressTracer
    steps = [tuple(s) for s in tr['steps']]
    code, stop, info = assemble(steps)
    sim = _mk_sim(tr['sim'], code, tr['t0'])
    tracer = KeypressTracer(sim, list(tr['words']), 7, 0, 0, [0] * 16, 0, None)
    sim.set_tracer(tracer)
    nf = sum(1 for s in steps if s[0] == 'f')
    timeout = tr['t0'] + (nf + 1) * FRAME + len(steps) * 200 + 2000
    tracer.run(timeout, None, None, None, None, None)
    exhausted = not tracer.keys
    obs, n = _collect(sim, steps, info, upto_pc=True if exhausted else None)
    # (keys exhausted but PC not just after a read: the run went on; all executed steps are reported and TLC says ran-past-end)
    if not exhausted and sim.registers[24] != stop:
        raise MachineryError('E05 press trace timed out before its end: PC=%d stop=%d' % (sim.registers[24], stop))
    if CORRUPT == 'press':
        obs[-1] ^= 0x01
    return {'kind': 'press', 'words': [chars(w) for w in tr['words']], 'delay': 0, 'groups': [],
            'steps': [[s[0], s[1] if len(s) > 1 else 0] for s in steps[:n]], 'obs': obs, 'ended': 'exhausted' if exhausted else 'stopped',
            'left': len(tracer.keys), 'resumed': 0, 'sim': tr['sim'], 'raw': list(tr['words']),
            'forms': [s[2] if s[0] == 'r' else '' for s in steps[:n]], 'style': tr['style'], 't0': tr['t0'], 'planned': len(steps),
            'gen': {'words': list(tr['words']), 'steps': [list(s) for s in steps], 'sim': tr['sim'], 't0': tr['t0'], 'style': tr['style']}}


# ---------------------------------------------------------------------------------------------------- tap2sna: plan (spy)
class _Abort(Exception):
    pass


def observe_plan(wd, load, machine, tape):
    """load: the value of `-c load=` (None: not given). Returns the KeyCases case (kind plan)."""
    _skool()
    from skoolkit import tap2sna, kbtracer
    seen = {}

    class Spy(kbtracer.KeyboardTracer):
        def __init__(self, simulator, keys, delay, draw):      # records only (the words need not be valid here)
            seen['words'] = list(keys)
            seen['delay'] = delay

        def run(self, stop, *a):
            seen['stop'] = stop
            raise _Abort()

    args = []
    if load is not None:
        args += ['-c', 'load=' + load]
    if machine == 128:
        args += ['-c', 'machine=128']
    args += [tape, os.path.join(wd, 'plan%d.z80' % os.getpid())]
    orig = tap2sna.KeyboardTracer
    tap2sna.KeyboardTracer = Spy
    try:
        so, se, rc = pipedrv.run_tool(tap2sna.main, args)
    finally:
        tap2sna.KeyboardTracer = orig
    case = {'kind': 'plan', 'chars': chars(load or ''), 'machine': machine, 'err': '', 'words': [], 'stop': -1, 'delay': -1, 'raw': load,
            'gen': {'load': load, 'machine': machine}}
    if 'stop' in seen:
        case['words'] = [chars(w) for w in seen['words']]
        case['stop'] = int(seen['stop'])
        case['delay'] = int(seen['delay'])
    else:
        case['err'] = ('rc=%s %s' % (rc, (se or so)[-200:])).strip() or 'no keyboard tracer started'
    return case


# ---------------------------------------------------------------------------------------------------- tap2sna: line (end to end)
def tiny_tape(path):
    data = bytes([0xFF, 1, 2, 3])
    par = 0
    for b in data:
        par ^= b
    with open(path, 'wb') as f:
        f.write(tapedrv.tap_block(data + bytes([par])))
    return path


def _peek48(s, a):
    return s['banks'][{1: 5, 2: 2, 3: 0}[a // 0x4000]][a % 0x4000]


def observe_line(wd, load, cfg, tape, tag):
    _skool()
    from skoolkit import tap2sna
    out = os.path.join(wd, 'line_%s.z80' % tag)
    args = ['-c', 'load=' + load, '-c', 'timeout=12']
    for k, v in cfg.items():
        args += ['-c', '%s=%s' % (k, v)]
    args += ['--start', str(LINE_SCAN), tape, out]
    so, se, rc = pipedrv.run_tool(tap2sna.main, args)
    case = {'kind': 'line', 'chars': chars(load), 'err': '', 'line': [], 'pc': -1, 'raw': load, 'cfg': dict(cfg), 'gen': {'load': load, 'cfg': dict(cfg)}}
    if rc or not os.path.isfile(out):
        case['err'] = 'rc=%s %s' % (rc, (se or so)[-200:])
        return case
    try:
        s = snapfile.read_snapshot(out)
    finally:
        os.remove(out)
    el = _peek48(s, 23641) + 256 * _peek48(s, 23642)
    ws = _peek48(s, 23649) + 256 * _peek48(s, 23650)
    case['pc'] = s['pc']
    if 0x5C00 < el <= ws <= el + 400:
        case['line'] = [_peek48(s, a) for a in range(el, ws)]
    else:
        case['line'] = [-1, el % 32768, ws % 32768]
    if CORRUPT == 'line' and len(case['line']) > 2:
        case['line'][0] = (case['line'][0] + 1) % 256
    if 'timed out' in so:
        case['err'] = 'timed out'
    return case


# ---------------------------------------------------------------------------------------------------- tap2sna: --press end to end
def _tap_blocks(raw):
    out = []
    i = 0
    while i + 2 <= len(raw):
        ln = raw[i] + 256 * raw[i + 1]
        out.append(raw[i + 2:i + 2 + ln])
        i += 2 + ln
    return out


def observe_pe2e(wd, pc, tag):
    """pc: {'groups': [KEYS string,...], 'reads': [[(port, form)...] per group], 'pause_ms', 'cfg', 'after': [(port, form)...]}"""
    _skool()
    from skoolkit import tap2sna, bin2tap
    groups = pc['groups']
    pause_t = pc['pause_ms'] * 3500
    steps = []
    # group 1: wait until the tape (1000 ms... pause after the last program block) has reached the block named by --press
    steps.append(('d', (pause_t + 1200000) // DELAY_T + 1))
    steps.append(('g', 1))
    steps += [('r', p, f) for p, f in pc['reads'][0]]
    if len(groups) > 1:
        steps.append(('r', 0xFEFE, 'an'))                           # the read of port 254 that restarts the paused tape
        # block A: turbo block, 300 pilot pulses + sync + 5 bytes + 100 ms pause: well below 1.6M T-states
        steps.append(('d', (2200000) // DELAY_T + 1))
        steps.append(('g', 2))
        steps += [('r', p, f) for p, f in pc['reads'][1]]
    steps += [('r', p, f) for p, f in pc['after']]
    code, fin, info = assemble(steps)
    src = os.path.join(wd, 'pe_%s.bin' % tag)
    tap = os.path.join(wd, 'pe_%s.tap' % tag)
    with open(src, 'wb') as f:
        f.write(bytes(code))
    _, e, rc = pipedrv.run_tool(bin2tap.main, ['-o', str(ORG), '-s', str(ORG), src, tap])
    if rc or not os.path.isfile(tap):
        raise MachineryError('bin2tap failed: %s' % e[-300:])
    with open(tap, 'rb') as f:
        blocks = _tap_blocks(f.read())
    tzx = bytearray(tapedrv.tzx_header())
    for k, b in enumerate(blocks):
        tzx += tapedrv.tzx10(b, pc['pause_ms'] if k == len(blocks) - 1 else 1000)
    dummy = bytes([0xFF, 1, 2, 3, 0xFF ^ 1 ^ 2 ^ 3])
    n1 = len(blocks) + 1
    if len(groups) > 1:
        tzx += tapedrv.tzx11(dummy, pilot_len=300, pause_ms=100)
        tzx += tapedrv.tzx10(dummy, 0)
    else:
        tzx += tapedrv.tzx10(dummy, 0)
    tpath = os.path.join(wd, 'pe_%s.tzx' % tag)
    with open(tpath, 'wb') as f:
        f.write(tzx)
    out = os.path.join(wd, 'pe_%s.z80' % tag)
    args = []
    for g, keys in enumerate(groups):
        args += ['--press', '%d:%s' % (n1 + g, keys)]
    for k, v in pc['cfg'].items():
        args += ['-c', '%s=%s' % (k, v)]
    args += ['-c', 'timeout=30', '--start', str(fin), tpath, out]
    so, se, rc = pipedrv.run_tool(tap2sna.main, args)
    so = so.replace('\x08', '')
    rec = {'kind': 'pe2e', 'words': [], 'delay': 0, 'groups': [chars(g) for g in groups],
           'steps': [[s[0], s[1]] for s in steps if s[0] != 'd'], 'obs': [], 'ended': 'stopped', 'left': 0,
           'resumed': so.count('Resuming LOAD'), 'sim': 'py' if str(pc['cfg'].get('python')) == '1' else 'c', 'raw': list(groups),
           'forms': [s[2] if s[0] == 'r' else '' for s in steps if s[0] != 'd'], 'style': 'pe2e', 'cfg': dict(pc['cfg']), 'err': '', 'gen': pc,
           'pressing': [ln[len('Pressing keys: '):] for ln in so.splitlines() if ln.startswith('Pressing keys: ')]}
    for fn in (src, tap, tpath):
        os.remove(fn)
    if rc or not os.path.isfile(out):
        rec['err'] = 'rc=%s %s' % (rc, (se or so)[-300:])
        return rec
    try:
        s = snapfile.read_snapshot(out)
    finally:
        os.remove(out)
    if s['pc'] != fin:
        rec['err'] = 'stopped at PC=%d, not at the end of the program (%d): %s' % (s['pc'], fin, so[-200:])
        return rec
    k = 0
    for st, inf in zip(steps, info):
        if st[0] == 'd':
            continue
        rec['obs'].append(_peek48(s, inf[2]) if inf else 0)
        k += 1
    if CORRUPT == 'pe2e':
        for k, st in enumerate(rec['steps']):
            if st[0] == 'r' and rec['obs'][k] & 0x1F != 0x1F:
                rec['obs'][k] |= 0x1F
                break
    return rec


# ---------------------------------------------------------------------------------------------------- generators
UNDEF_CHARS = ['`', '\t', 'é', '€', '\x7f']


def gen_word(rnd, V, defined=True):
    k = rnd.random()
    if k < 0.30:
        return rnd.choice(V['all'])
    if k < 0.55:
        pool = V['letters'] + V['uppers'] + V['digits'] + V['symchars']
        return ''.join(rnd.choice(pool) for _ in range(rnd.randint(1, 5)))
    if k < 0.75:
        a, b = rnd.sample(V['keys'], 2)
        return a + '+' + b
    if k < 0.80:
        return rnd.choice(['+', '"', '""', ':', '<=', '<>', '>=', 'CS', 'SS', 'SPACE', 'ENTER', 'DOWN', 'GOTO', 'GOSUB', 'DEFFN', 'OPEN#', 'CLOSE#'])
    if k < 0.9 or defined:
        return rnd.choice(V['keyword'] + V['symwords'] + V['emode'])
    u = rnd.random()
    if u < 0.25:
        w = list(''.join(rnd.choice(V['letters'] + V['digits']) for _ in range(rnd.randint(0, 3))))
        w.insert(rnd.randint(0, len(w)), rnd.choice(UNDEF_CHARS))
        return ''.join(w)
    if u < 0.5:
        return '+'.join(rnd.sample(V['keys'], 3))
    if u < 0.75:
        return rnd.choice([rnd.choice(V['keys']) + '+' + rnd.choice(V['uppers'] + V['keyword'] + ['DOWN', 'NONE', '']),
                           '+' + rnd.choice(V['keys']), '++', 'a+', 'CS+', 'CS++', 'SS+CS+'])
    return rnd.choice(['NONE', 'PC=1', 'Load', 'SPECTRUM', 'PLAY', 'GO', 'DEF', 'a b', 'CS+6+', 'EDIT', 'DELETE', 'BREAK'])


def gen_sched_cases(rnd, V, n, every):
    jobs = []
    if every:
        for t in V['all']:
            jobs.append(([t], rnd.choice((4, 13))))
        keys = V['keys']
        for a in keys:
            for b in keys:
                if a != b and (every > 1 or rnd.random() < 0.1):
                    jobs.append(([a + '+' + b], 4))
        jobs.append(([], 4))
        jobs.append((['a+a'], 4))
    for _ in range(n):
        undefined = rnd.random() < 0.25
        ws = [gen_word(rnd, V, defined=not undefined or rnd.random() < 0.6) for _ in range(rnd.randint(1, 5))]
        jobs.append((ws, rnd.choice((4, 4, 13, 13, 0, 1, 7))))
    return jobs


def gen_press_word(rnd, V, defined=True):
    names = V['digits'] + V['letters'] + ['CS', 'SS', 'SPACE', 'ENTER', 'NONE']
    if defined or rnd.random() < 0.3:
        w = rnd.choice(names)
        k = rnd.random()
        if k < 0.25:
            w += '*%d' % rnd.choice((1, 2, 2, 3, 3, 4, 7, 0))
        elif k < 0.28:
            w += '*0%d' % rnd.randint(1, 3)
        return w
    return rnd.choice([rnd.choice(V['uppers']), 'DOWN', '', 'a*', 'a*x', 'a*2*3', '*3', 'enter', 'None', 'CS+a', 'a+b', ':', 'LOAD', 'a*-1', 'a*$10',
                       'a *2', 'Space', '10', 'ab'])


def gen_plist_cases(rnd, V, n):
    names = V['digits'] + V['letters'] + ['CS', 'SS', 'SPACE', 'ENTER', 'NONE']
    jobs = [[w] for w in names] + [['%s*%d' % (w, rnd.randint(2, 5))] for w in names]
    for _ in range(n):
        undefined = rnd.random() < 0.25
        jobs.append([gen_press_word(rnd, V, defined=not undefined or rnd.random() < 0.5) for _ in range(rnd.randint(1, 5))])
    return jobs


def port_pool(rnd, V, near=()):
    """A port to read: mostly half-row ports (biased towards `near` rows), also several/all/no rows, non-FE even, odd.
    Ports that also decode the 128K sound chip (A15=A14=1, A1=0) are left out: KeypressTracer answers those from the AY registers."""
    p = _port_pool(rnd, V, near)
    if p & 0xC002 == 0xC000:
        p &= 0x7FFF
    return p


def _port_pool(rnd, V, near=()):
    k = rnd.random()
    if k < 0.5:
        if near and rnd.random() < 0.6:
            return ROW_PORTS[rnd.choice(list(near))]
        return rnd.choice(ROW_PORTS)
    if k < 0.72:
        hi = 0xFF
        rows = set(rnd.sample(range(8), rnd.randint(2, 4)))
        if near and rnd.random() < 0.6:
            rows.add(rnd.choice(list(near)))
        for r in rows:
            hi &= ~(1 << r)
        return hi * 256 + 0xFE
    if k < 0.80:
        return rnd.choice([0x00FE, 0xFFFE, 0x00FE, 0x80FE, 0x7EFE, 0xE7FE])
    if k < 0.90:
        hi = rnd.randint(0, 255)
        if near and rnd.random() < 0.5:
            hi = 0xFF & ~(1 << rnd.choice(list(near)))
        return hi * 256 + rnd.choice([0xFC, 0x00, 0x7E, 0xF6, 0xBE, 0x1E])
    hi = rnd.randint(0, 255)
    if near and rnd.random() < 0.5:
        hi = 0xFF & ~(1 << rnd.choice(list(near)))
    return hi * 256 + rnd.choice([0xFF, 0x1F, 0x7F, 0xDF, 0xFB])   # odd ports that are not AY register ports


def gen_form(rnd, allow_ini=True):
    k = rnd.random()
    if k < 0.35:
        return 'an'
    if k < 0.45 and allow_ini:
        return 'ini'
    return 'rc' + rnd.choice('AABCDEHL')


def chord_rows(V, words):
    """Rows (0-based) of keys named in the words: only a generator hint."""
    rows = set()
    for w in words:
        for part in w.replace('*', '+').split('+'):
            if part in V['rowof']:
                rows.add(V['rowof'][part])
    return rows or set(range(8))


def gen_load_words(rnd, V, maxchords):
    ws = []
    budget = maxchords
    while budget > 0 and (not ws or rnd.random() < 0.75):
        k = rnd.random()
        if k < 0.3:
            w = rnd.choice(V['keys'] + V['uppers'] + V['keyword'] + V['symletter'] + V['symdigit'] + ['DOWN'])
            cost = 1
        elif k < 0.5:
            w = rnd.choice(V['emode'])
            cost = 2
        elif k < 0.75:
            a, b = rnd.sample(V['keys'], 2)
            w = a + '+' + b
            cost = 1
        else:
            n = rnd.randint(1, min(3, budget))
            c = rnd.choice(V['letters'] + V['digits'] + V['uppers'])
            w = ''.join(c if rnd.random() < 0.5 else rnd.choice(V['letters'] + V['digits'] + V['uppers'] + V['symchars']) for _ in range(n))
            if n > 1:
                w = w.replace('+', '-')     # a longer word containing '+' would be a chord
            cost = n
        if cost <= budget:
            ws.append(w)
            budget -= cost
    return ws or ['a']


def gen_load_trace(rnd, V, sim, style):
    delay = rnd.choice((4, 4, 13, 1, 2, 0)) if style != 'rom' else rnd.choice((4, 4, 13, 2))
    maxframes = 30 if sim in ('Simulator', 'CMIOSimulator') else 46
    maxchords = max(1, (maxframes - 6) // (delay + 1))
    words = gen_load_words(rnd, V, min(maxchords, 7))
    near = chord_rows(V, words)
    steps = []
    nframes = rnd.randint(maxframes // 2, maxframes)
    if style == 'rom':
        for _ in range(maxframes):
            steps.append(('f',))
            for p in ROW_PORTS:
                steps.append(('r', p, gen_form(rnd)))
    elif style == 'partial':
        halves = [list(range(0, 4)), list(range(4, 8))]
        for f in range(nframes):
            if rnd.random() < 0.9:
                steps.append(('f',))
            rows = halves[f % 2] if rnd.random() < 0.8 else rnd.sample(range(8), rnd.randint(1, 8))
            for r in rows:
                steps.append(('r', ROW_PORTS[r], gen_form(rnd)))
    else:
        for f in range(nframes):
            if rnd.random() < 0.85:
                steps.append(('f',))
            for _ in range(rnd.choice((0, 1, 2, 3, 4, 8))):
                steps.append(('r', port_pool(rnd, V, near), gen_form(rnd)))
    return {'words': words, 'delay': delay, 'steps': steps[:900], 'sim': sim, 't0': rnd.randrange(0, FRAME), 'style': style}


def gen_press_trace(rnd, V, sim):
    names = V['digits'] + V['letters'] + ['CS', 'SS', 'SPACE', 'ENTER', 'NONE', 'NONE']
    words = []
    for _ in range(rnd.randint(1, 6)):
        w = rnd.choice(names)
        if rnd.random() < 0.3:
            w += '*%d' % rnd.randint(1, 3)
        words.append(w)
    near = chord_rows(V, words)
    steps = []
    n = rnd.randint(3, 40)
    for _ in range(n):
        if rnd.random() < 0.12:
            steps.append(('f',))
        else:
            steps.append(('r', port_pool(rnd, V, near), gen_form(rnd)))
    if not any(s[0] == 'r' for s in steps):
        steps.append(('r', 0x00FE, 'an'))
    return {'words': words, 'steps': steps, 'sim': sim, 't0': rnd.randrange(0, FRAME), 'style': 'press'}


PC_FORMS = ('PC=0x12B4', 'PC=4788', 'PC=$12B4', 'PC=0x12b4')


def gen_line(rnd, V, cover=None):
    """A command line for the 48K editor that keeps to the K/L mode rules (only a generator heuristic; the specification decides
    what each key produces and says `skip` if the line leaves what it defines)."""
    ws = []
    kmode = True
    inq = False

    def pick(lst):
        if cover:
            fresh = [x for x in lst if x in cover]
            if fresh:
                x = rnd.choice(fresh)
                cover.discard(x)
                return x
        return rnd.choice(lst)

    if rnd.random() < 0.25:
        ws.append(str(rnd.randint(1, 9999)))
    nst = rnd.randint(1, 3)
    for s in range(nst):
        ws.append(pick(V['keyword']) if rnd.random() < 0.85 else rnd.choice(V['letters']))
        kmode = False
        for _ in range(rnd.randint(0, 6)):
            if kmode:
                k = rnd.random()
                if k < 0.7:
                    ws.append(pick(V['keyword']))
                    kmode = False
                elif k < 0.85:
                    ws.append(str(rnd.randint(0, 99)))
                else:
                    ws.append('SPACE')
                continue
            k = rnd.random()
            if k < 0.14:
                ws.append(''.join(rnd.choice(V['digits']) for _ in range(rnd.randint(1, 5))))
            elif k < 0.28:
                ws.append(''.join(rnd.choice(V['letters'] + V['uppers'] * (rnd.random() < 0.5)) for _ in range(rnd.randint(1, 4))))
            elif k < 0.40:
                w = ''.join(pick(V['symchars']) for _ in range(rnd.randint(1, 2)))
                if '+' in w:
                    w = '+'                 # a longer word containing '+' is a chord of key identifiers
                for c in w:
                    if c == '"':
                        inq = not inq
                    kmode = (c == ':' and not inq)
                ws.append(w)
            elif k < 0.52:
                w = pick(V['symwords'])
                ws.append(w)
                kmode = w == 'THEN'
            elif k < 0.72:
                ws.append(pick(V['emode']))
            elif k < 0.78:
                c = pick(V['letters'] + V['digits'])
                ws.append('SS+' + c if rnd.random() < 0.5 else c + '+SS')
                kmode = (c == 'z' and not inq) or c == 'g'
                if c == 'p':
                    inq = not inq
            elif k < 0.83:
                ws.append('CS+' + rnd.choice(V['letters']))
            elif k < 0.90:
                ws.append(rnd.choice(('CS+SS', 'SS+CS')))
                ws.append(rnd.choice(V['letters']) if rnd.random() < 0.5 else 'SS+' + rnd.choice(V['letters'] + V['digits']))
            elif k < 0.95:
                ws.append('SPACE')
            else:
                body = ''.join(rnd.choice(V['letters'] + V['uppers'] + V['digits'] + [c for c in V['symchars'] if c not in '"+']) for _ in range(rnd.randint(0, 5)))
                ws.append('"' + body + '"')
        if s < nst - 1:
            if inq:
                ws.append('"')
                inq = False
            ws.append(':')
            kmode = True
    if rnd.random() < 0.5:
        ws.append('ENTER')
    ws.append(rnd.choice(PC_FORMS))
    sep = ' ' if rnd.random() < 0.85 else '  '
    return sep.join(ws)


def gen_plan(rnd, V):
    machine = rnd.choice((48, 48, 128))
    if machine == 128 and rnd.random() < 0.2:
        return None, machine
    ws = [gen_word(rnd, V, defined=rnd.random() < 0.9) for _ in range(rnd.randint(0, 4))]
    ws = [w for w in ws if ' ' not in w and '\t' not in w]
    k = rnd.random()
    if k < 0.35:
        ws.append('ENTER')
    elif k < 0.45:
        ws.insert(rnd.randint(0, len(ws)), 'ENTER')
    k = rnd.random()
    if k < 0.5:
        a = rnd.choice((0, 1, 0x0605, 0x12B4, 0x13BE, 0x8000, 0xFFFF, rnd.randrange(65536)))
        ws.append(rnd.choice(('PC=%d', 'PC=0x%04X', 'PC=0x%x', 'PC=$%04X', 'PC=%05d')) % a)
    elif k < 0.58:
        ws.append(rnd.choice(('PC=', 'PC=zz', 'PC=0x', 'PC=12G4', 'PC=0xGG')))
    if not ws and machine == 48:
        ws = ['ENTER']
    sep = ' ' if rnd.random() < 0.8 else '   '
    return sep.join(ws), machine


def gen_pe2e(rnd, V, python):
    names = V['digits'] + V['letters'] + ['CS', 'SS', 'SPACE', 'ENTER', 'NONE']
    ngroups = 1 if rnd.random() < 0.6 else 2
    groups, reads = [], []
    for g in range(ngroups):
        words = []
        for _ in range(rnd.randint(1, 5)):
            w = rnd.choice(names)
            if rnd.random() < 0.3:
                w += '*%d' % rnd.randint(1, 3)
            words.append(w)
        near = chord_rows(V, words)
        rs = []
        # make sure every key gets read: for each press, a few reads that may miss, then one of its half-row (alone or with others)
        for w in words:
            name, _, cnt = w.partition('*')
            for _ in range(int(cnt) if cnt else 1):
                for _ in range(rnd.choice((0, 0, 1, 2))):
                    rs.append((port_pool(rnd, V, near), gen_form(rnd, False)))
                if name == 'NONE':
                    rs.append((rnd.choice(ROW_PORTS + [0x00FE]), gen_form(rnd, False)))
                else:
                    r = V['rowof'][name]
                    hi = 0xFF & ~(1 << r)
                    if rnd.random() < 0.4:
                        for x in rnd.sample(range(8), rnd.randint(1, 3)):
                            hi &= ~(1 << x)
                    lo = 0xFE if rnd.random() < 0.8 else rnd.choice((0xFC, 0x7E, 0x00))
                    if hi >= 0xC0:
                        lo |= 0x02          # not a port that also decodes the sound chip
                    rs.append((hi * 256 + lo, gen_form(rnd, False)))
        groups.append(' '.join(words))
        reads.append(rs)
    after = [(port_pool(rnd, V, ()), gen_form(rnd, False)) for _ in range(rnd.randint(0, 4))]
    cfg = {'python': int(python)}
    if rnd.random() < 0.25:
        cfg['pause'] = 0
    if rnd.random() < 0.15:
        cfg['cmio'] = 1
    if rnd.random() < 0.15:
        cfg['machine'] = 128
    return {'groups': groups, 'reads': reads, 'after': after, 'pause_ms': rnd.choice((200, 500, 1000)), 'cfg': cfg}


# ---------------------------------------------------------------------------------------------------- workers
def worker(job):
    """job = (kind, workdir, seed, payload list). Returns list of records."""
    kind, wd, sd, items = job
    out = []
    sub = os.path.join(wd, 'w%d' % os.getpid())
    os.makedirs(sub, exist_ok=True)
    if kind == 'sched':
        for ws, delay in items:
            out.append(observe_sched(ws, delay))
    elif kind == 'plist':
        for ws in items:
            out.append(observe_plist(ws))
    elif kind == 'load':
        for tr in items:
            out.append(run_load_trace(tr))
    elif kind == 'press':
        for tr in items:
            out.append(run_press_trace(tr))
    elif kind == 'plan':
        tape = tiny_tape(os.path.join(sub, 'tiny.tap'))
        for load, machine in items:
            out.append(observe_plan(sub, load, machine, tape))
    elif kind == 'line':
        tape = tiny_tape(os.path.join(sub, 'tiny.tap'))
        for k, (load, cfg) in enumerate(items):
            out.append(observe_line(sub, load, cfg, tape, '%d_%d' % (sd, k)))
    elif kind == 'pe2e':
        for k, pc in enumerate(items):
            out.append(observe_pe2e(sub, pc, '%d_%d' % (sd, k)))
    else:
        raise MachineryError('unknown job kind %s' % kind)
    return kind, out
