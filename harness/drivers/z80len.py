"""Instruction length by field decode - a Python port of Z80Asm!Length, used ONLY to generate
well-formed inputs (block boundaries on instruction boundaries). It is cross-checked against the
TLA+ operator by spec/asm/LenPort (TLC) in the C01 check."""


def indexable(op):
    x, y, z = op >> 6, (op >> 3) & 7, op & 7
    p, q = y >> 1, y & 1
    return ((x == 0 and z == 1 and (p == 2 or q == 1)) or (x == 0 and z == 2 and p == 2) or (x == 0 and z == 3 and p == 2)
            or (x == 0 and z in (4, 5, 6) and y in (4, 5, 6))
            or (x == 1 and (y in (4, 5, 6) or z in (4, 5, 6)) and not (y == 6 and z == 6))
            or (x == 2 and z in (4, 5, 6)) or (x == 3 and z == 1 and p == 2) or (x == 3 and z == 1 and q == 1 and p == 3)
            or (x == 3 and z == 3 and y == 4) or (x == 3 and z == 5 and q == 0 and p == 2) or op == 0xCB)


def main_len(op, ix):
    x, y, z = op >> 6, (op >> 3) & 7, op & 7
    p, q = y >> 1, y & 1
    dl = 1 if ix else 0
    if x == 0:
        if z == 0:
            return 1 if y < 2 else 2
        if z == 1:
            return 3 if q == 0 else 1
        if z == 2:
            return 1 if p < 2 else 3
        if z == 3:
            return 1
        if z in (4, 5):
            return 1 + dl if y == 6 else 1
        if z == 6:
            return 2 + dl if y == 6 else 2
        return 1
    if x == 1:
        return 1 + dl if ((y == 6 or z == 6) and not (y == 6 and z == 6)) else 1
    if x == 2:
        return 1 + dl if z == 6 else 1
    if z in (0, 1, 7):
        return 1
    if z in (2, 4):
        return 3
    if z == 3:
        return 3 if y == 0 else (2 if y in (2, 3) else 1)
    if z == 5:
        return 3 if (q == 1 and p == 0) else 1
    return 2


def length(mem, pc):
    b0 = mem[pc & 0xFFFF]
    b1 = mem[(pc + 1) & 0xFFFF]
    if b0 == 0xCB:
        return 2
    if b0 == 0xED:
        return 4 if (b1 >> 6 == 1 and b1 & 7 == 3) else 2
    if b0 in (0xDD, 0xFD):
        if not indexable(b1):
            return 1
        if b1 == 0xCB:
            return 4
        return 1 + main_len(b1, 1)
    return main_len(b0, 0)
