"""Dump the 8-bit ALU/flag tables of every implementation in the canonical index order of
spec/z80/TableCases.tla: by executing the instruction on each simulator for every index, and
from skoolkit.simtables directly."""
from . import simdrv
from .simdrv import A, F, B

PC0 = 0x8000

# name -> (opcode bytes, kind) ; kind: 'cav' (c,a,v) 'av' 'caa' (c,a; operand A) 'aa' 'cv' (operand B) 'v' (A) 'fa' 'bit'
EXEC = {
    'ADC': ((0x88,), 'cav'), 'SBC': ((0x98,), 'cav'),
    'ADD': ((0x80,), 'av'), 'SUB': ((0x90,), 'av'), 'AND': ((0xA0,), 'av'), 'XOR': ((0xA8,), 'av'),
    'OR': ((0xB0,), 'av'), 'CP': ((0xB8,), 'av'),
    'ADCAA': ((0x8F,), 'caa'), 'SBCAA': ((0x9F,), 'caa'),
    'ADDAA': ((0x87,), 'aa'), 'SUBAA': ((0x97,), 'aa'), 'ANDAA': ((0xA7,), 'aa'), 'XORAA': ((0xAF,), 'aa'),
    'ORAA': ((0xB7,), 'aa'), 'CPAA': ((0xBF,), 'aa'),
    'INC': ((0x04,), 'cv'), 'DEC': ((0x05,), 'cv'),
    'RLC': ((0xCB, 0x00), 'cv'), 'RRC': ((0xCB, 0x08), 'cv'), 'RL': ((0xCB, 0x10), 'cv'), 'RR': ((0xCB, 0x18), 'cv'),
    'SLA': ((0xCB, 0x20), 'cv'), 'SRA': ((0xCB, 0x28), 'cv'), 'SLL': ((0xCB, 0x30), 'cv'), 'SRL': ((0xCB, 0x38), 'cv'),
    'NEG': ((0xED, 0x44), 'v'),
    'RLCA': ((0x07,), 'fa'), 'RRCA': ((0x0F,), 'fa'), 'RLA': ((0x17,), 'fa'), 'RRA': ((0x1F,), 'fa'),
    'DAA': ((0x27,), 'fa'), 'CPL': ((0x2F,), 'fa'), 'SCF': ((0x37,), 'fa'), 'CCF': ((0x3F,), 'fa'),
    'BIT': (None, 'bit'),
}


def exec_table(args):
    impl_name, name, stride, offset = args
    impl = [im for im in simdrv.impls() if im.name == impl_name][0]
    sim, mem = impl.sim, impl.mem
    regs = sim.registers
    for i in range(simdrv.N_REGS):
        regs[i] = 0
    code, kind = EXEC[name]
    if code:
        for i, b in enumerate(code):
            mem[PC0 + i] = b
    run = sim.run
    out = []
    ap = out.append
    if kind == 'cav':
        for c in (0, 1):
            for a in range(256):
                for v in range(256):
                    regs[A] = a; regs[B] = v; regs[F] = c
                    run(PC0)
                    ap(regs[A] * 256 + regs[F])
    elif kind == 'av':
        for a in range(256):
            for v in range(256):
                regs[A] = a; regs[B] = v; regs[F] = 0
                run(PC0)
                ap(regs[A] * 256 + regs[F])
    elif kind == 'caa':
        for c in (0, 1):
            for a in range(256):
                regs[A] = a; regs[F] = c
                run(PC0)
                ap(regs[A] * 256 + regs[F])
    elif kind == 'aa':
        for a in range(256):
            regs[A] = a; regs[F] = 0
            run(PC0)
            ap(regs[A] * 256 + regs[F])
    elif kind == 'cv':
        for c in (0, 1):
            for v in range(256):
                regs[B] = v; regs[F] = c
                run(PC0)
                ap(regs[B] * 256 + regs[F])
    elif kind == 'v':
        for v in range(256):
            regs[A] = v; regs[F] = 0
            run(PC0)
            ap(regs[A] * 256 + regs[F])
    elif kind == 'fa':
        for f in range(256):
            for a in range(256):
                regs[A] = a; regs[F] = f
                run(PC0)
                ap(regs[A] * 256 + regs[F])
    elif kind == 'bit':
        mem[PC0] = 0xCB
        for c in (0, 1):
            for b in range(8):
                mem[PC0 + 1] = 0x40 + 8 * b
                for v in range(256):
                    regs[B] = v; regs[F] = c
                    run(PC0)
                    ap(regs[F])
    for i in range(4):
        mem[PC0 + i] = simdrv.BASE[PC0 + i]
    return impl_name, name, [int(x) for x in out]


def simtables_dump():
    """Canonical-order flattening of skoolkit.simtables (the tables the Python simulators use)."""
    from skoolkit import simtables as st
    pk = lambda e: e[0] * 256 + e[1]
    t = {}
    t['ADC'] = [pk(st.ADC[c][a][v]) for c in (0, 1) for a in range(256) for v in range(256)]
    t['SBC'] = [pk(st.SBC[c][a][v]) for c in (0, 1) for a in range(256) for v in range(256)]
    for n in ('ADD', 'SUB', 'AND', 'XOR', 'OR', 'CP'):
        tab = getattr(st, n)
        t[n] = [pk(tab[a][v]) for a in range(256) for v in range(256)]
    t['ADCAA'] = [pk(st.ADC_A_A[c][a]) for c in (0, 1) for a in range(256)]
    t['SBCAA'] = [pk(st.SBC_A_A[c][a]) for c in (0, 1) for a in range(256)]
    t['INC'] = [pk(st.INC[c][v]) for c in (0, 1) for v in range(256)]
    t['DEC'] = [pk(st.DEC[c][v]) for c in (0, 1) for v in range(256)]
    t['RL'] = [pk(st.RL[c][v]) for c in (0, 1) for v in range(256)]
    t['RR'] = [pk(st.RR[c][v]) for c in (0, 1) for v in range(256)]
    for n in ('RLC', 'RRC', 'SRA'):
        tab = getattr(st, n)
        t[n] = [pk(tab[v]) for v in range(256)] * 2      # carry-in does not matter for these
    t['SLA'] = [pk(st.SLA[v]) for v in range(256)] * 2
    t['SLL'] = [pk(st.SLL[v]) for v in range(256)] * 2
    t['SRL'] = [pk(st.SRL[v]) for v in range(256)] * 2
    t['NEG'] = [pk(st.NEG[v]) for v in range(256)]
    for n in ('DAA', 'CPL', 'RLA', 'RLCA', 'RRA', 'RRCA'):      # [a][f]
        tab = getattr(st, n)
        t[n] = [pk(tab[a][f]) for f in range(256) for a in range(256)]
    for n in ('SCF', 'CCF'):      # [f][a] -> flags only; A unchanged
        tab = getattr(st, n)
        t[n] = [a * 256 + tab[f][a] for f in range(256) for a in range(256)]
    t['BIT'] = [st.BIT[c][b][v] for c in (0, 1) for b in range(8) for v in range(256)]
    t['SZ53P'] = list(st.SZ53P)
    t['PARITY'] = list(st.PARITY)
    return t
